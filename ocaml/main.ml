let () = Driver.main ()
