(* driver.ml — runs the extracted Gallina model on op scripts, prints the same canonical trace
   as harness/rds_harness.c, compares against an implementation trace and evaluates the
   extracted property observers on the implementation's trace.

     driver run   <u|n> <script>                      model trace on stdout
     driver check <u|n> <prop|-> <script> <impltrace> DIV / MON / STAT lines on stdout

   Trusted: this file (parsing, printing, bookkeeping).  Everything it computes about the
   model or the properties is a call into Model (extracted from Coq). *)
open Model

(* ---------- conversions between OCaml ints and the extracted inductive numbers ---------- *)
let rec pos_of_int n = if n = 1 then XH else if n land 1 = 0 then XO (pos_of_int (n lsr 1)) else XI (pos_of_int (n lsr 1))
let z_of_int n = if n = 0 then Z0 else if n > 0 then Zpos (pos_of_int n) else Zneg (pos_of_int (-n))
let rec int_of_pos = function XH -> 1 | XO p -> 2 * int_of_pos p | XI p -> 2 * int_of_pos p + 1
let int_of_z = function Z0 -> 0 | Zpos p -> int_of_pos p | Zneg p -> - (int_of_pos p)
let b2i b = if b then 1 else 0

let field_of_int = function
  | 0 -> FPI | 1 -> FPTY | 2 -> FTP | 3 -> FTA | 4 -> FMS | 5 -> FECC | 6 -> FCOUNTRY
  | 7 -> FAF | 8 -> FPS | 9 -> FRT | 10 -> FPTYN | 11 -> FCT | _ -> failwith "field"
let int_of_field f = int_of_z (field_idx f)
let text_of_int = function 0 -> PS | 1 -> RT | 2 -> PTYN | _ -> failwith "text"
let type_of_int = function 0 -> INFO | 1 -> DATA | _ -> failwith "type"

(* ---------- canonical strings (must match rds_harness.c) ---------- *)
let nkeys = 13
let keys = [| "pi"; "pty"; "tp"; "ta"; "ms"; "ecc"; "country"; "af"; "ps"; "rt0"; "rt1"; "ptyn"; "cfg" |]
let key_index k = let r = ref (-1) in Array.iteri (fun i s -> if s = k then r := i) keys; !r

let str_ints sep l = String.concat sep (List.map (fun z -> string_of_int (int_of_z z)) l)
let str_af a = String.concat "" (List.map (fun z -> Printf.sprintf "%02x" (int_of_z z)) a)
let str_tsnap t =
  Printf.sprintf "%d %d %d %s %s" (int_of_z t.ts_len) (b2i t.ts_avail) (int_of_z t.ts_term)
    (str_ints "," (List.map Stdlib.fst t.ts_cells)) (str_ints "," (List.map Stdlib.snd t.ts_cells))

let snap_strings (sn : snapshot) : string array =
  [| string_of_int (int_of_z sn.sn_pi); string_of_int (int_of_z sn.sn_pty);
     string_of_int (int_of_z sn.sn_tp); string_of_int (int_of_z sn.sn_ta);
     string_of_int (int_of_z sn.sn_ms); string_of_int (int_of_z sn.sn_ecc);
     string_of_int (int_of_z sn.sn_country); str_af sn.sn_af;
     str_tsnap sn.sn_ps; str_tsnap sn.sn_rt0; str_tsnap sn.sn_rt1; str_tsnap sn.sn_ptyn;
     str_ints " " sn.sn_cfg |]

let str_event inst (e : event) =
  let args = match e.ev_arg with
    | ANone -> ""
    | AFreq k -> string_of_int (int_of_z k)
    | AFlag f -> string_of_int (int_of_z f)
    | ACT (y, m, d, h, mi, off) -> str_ints " " [y; m; d; h; mi; off] in
  let sample = match e.ev_sample with
    | SmNone -> ""
    | SmZ v -> " " ^ string_of_int (int_of_z v)
    | SmAf a -> " " ^ str_af a
    | SmText t -> " " ^ str_tsnap t in
  Printf.sprintf "E %d %d %d %d %s |%s" (int_of_field e.ev_field) (int_of_z e.ev_cb)
    (int_of_z e.ev_ud) inst args sample

(* ---------- parsing canonical strings back into Coq values (implementation side) ---------- *)
let ints_of sep s = if s = "" then [] else List.map (fun x -> z_of_int (int_of_string x)) (String.split_on_char sep s)
let af_of_hex s =
  let n = String.length s / 2 in
  List.init n (fun i -> z_of_int (int_of_string ("0x" ^ String.sub s (2 * i) 2)))
let tsnap_of_string s =
  match String.split_on_char ' ' s with
  | [len; av; term; cs; es] ->
    let c = ints_of ',' cs and e = ints_of ',' es in
    if List.length c <> List.length e then failwith "tsnap lengths";
    { ts_len = z_of_int (int_of_string len); ts_avail = (av <> "0");
      ts_term = z_of_int (int_of_string term); ts_cells = List.combine c e }
  | _ -> failwith ("tsnap: " ^ s)
let snapshot_of_strings (a : string array) : snapshot =
  let zi i = z_of_int (int_of_string a.(i)) in
  { sn_pi = zi 0; sn_pty = zi 1; sn_tp = zi 2; sn_ta = zi 3; sn_ms = zi 4; sn_ecc = zi 5;
    sn_country = zi 6; sn_af = af_of_hex a.(7); sn_ps = tsnap_of_string a.(8);
    sn_rt0 = tsnap_of_string a.(9); sn_rt1 = tsnap_of_string a.(10);
    sn_ptyn = tsnap_of_string a.(11); sn_cfg = ints_of ' ' a.(12) }

(* "E field cbid ud inst args | sample" *)
let event_of_string (s : string) : int * event =
  let bar = String.index s '|' in
  let left = String.trim (String.sub s 1 (bar - 1)) in
  let right = String.trim (String.sub s (bar + 1) (String.length s - bar - 1)) in
  let toks = List.filter (fun x -> x <> "") (String.split_on_char ' ' left) in
  match toks with
  | f :: cbid :: ud :: inst :: args ->
    let fi = int_of_string f in
    let zargs = List.map (fun x -> z_of_int (int_of_string x)) args in
    let arg = match fi, zargs with
      | 7, [k] -> AFreq k
      | 9, [fl] -> AFlag fl
      | 11, [y; m; d; h; mi; off] -> ACT (y, m, d, h, mi, off)
      | _, [] -> ANone
      | _ -> failwith ("event args: " ^ s) in
    let sample =
      if right = "" then SmNone
      else if fi <= 6 then SmZ (z_of_int (int_of_string right))
      else if fi = 7 then SmAf (af_of_hex right)
      else SmText (tsnap_of_string right) in
    (int_of_string inst,
     { ev_field = field_of_int fi; ev_cb = z_of_int (int_of_string cbid);
       ev_ud = z_of_int (int_of_string ud); ev_arg = arg; ev_sample = sample })
  | _ -> failwith ("event: " ^ s)

(* ---------- script ---------- *)
type sop =
  | SInit of int | SNew of bool | SFree | SApi of op | SSave | SRestore
  | SReent of int * raction     (* callback function #id performs this call when invoked *)

let hex_bytes tok =
  if tok = "-" then [] else
    List.init (String.length tok / 2) (fun i -> z_of_int (int_of_string ("0x" ^ String.sub tok (2 * i) 2)))

let parse_line (line : string) : int * sop =
  let toks = List.filter (fun x -> x <> "") (String.split_on_char ' ' line) in
  let hx s = z_of_int (int_of_string ("0x" ^ s)) in
  let d s = z_of_int (int_of_string s) in
  match toks with
  | k :: "I" :: rest -> (int_of_string k, SInit (match rest with f :: _ -> int_of_string f | [] -> 0))
  | k :: "N" :: ok :: _ -> (int_of_string k, SNew (ok <> "0"))
  | k :: "N" :: [] -> (int_of_string k, SNew true)
  | k :: "F" :: _ -> (int_of_string k, SFree)
  | k :: "C" :: _ -> (int_of_string k, SApi OClear)
  | [k; "P"; a; b; c; dd; e0; e1; e2; e3] ->
    (int_of_string k, SApi (OParse { ga = hx a; gb = hx b; gc = hx c; gd = hx dd;
                                     ea = d e0; eb = d e1; ec = d e2; ed = d e3 }))
  | [k; "S"; "NULL"] -> (int_of_string k, SApi (OParseString None))
  | [k; "S"; tok] -> (int_of_string k, SApi (OParseString (Some (hex_bytes tok))))
  | [k; "X"; v] -> (int_of_string k, SApi (OSetExt (v <> "0")))
  | [k; "T"; t; ty; e] -> (int_of_string k, SApi (OSetCorr (text_of_int (int_of_string t), type_of_int (int_of_string ty), d e)))
  | [k; "G"; t; v] -> (int_of_string k, SApi (OSetProg (text_of_int (int_of_string t), v <> "0")))
  | [k; "U"; tok] -> (int_of_string k, SApi (OSetUD (d tok)))
  | [k; "R"; f; id] -> (int_of_string k, SApi (ORegister (field_of_int (int_of_string f), z_of_int ((int_of_string id) land 3))))
  | [k; "Y"; id; "R"; f; nid] ->
    (int_of_string k, SReent (int_of_string id, RReg (field_of_int (int_of_string f), z_of_int ((int_of_string nid) land 3))))
  | [k; "Y"; id; "U"; tok] -> (int_of_string k, SReent (int_of_string id, RSetUD (d tok)))
  | k :: "V" :: _ -> (int_of_string k, SSave)
  | k :: "W" :: _ -> (int_of_string k, SRestore)
  | _ -> failwith ("bad script line: " ^ line)

(* ---------- model instances ---------- *)
let ninst = 8
type minst = { mutable st : state option; mutable hist : op list (* most recent first *);
               mutable saved : (state * op list) option;
               mutable rs : (z * raction list) list (* re-entrant scripts per callback id *);
               (* registrations and user data as the SCRIPT has set them, including what callbacks
                  did from inside (maintained by the ?r twin check) *)
               mutable rtabv : (field -> z); mutable rud : z }

let fresh_insts () = Array.init ninst (fun _ -> { st = None; hist = []; saved = None; rs = [];
                                                  rtabv = (fun _ -> Z0); rud = Z0 })
let reent_step : (rtab -> state -> op -> state * event list) ref = ref step_reent_u

(* executes one script op on the model; returns (ret, events as (inst, event)) *)
let model_exec (stepf : state -> op -> state * event list) (insts : minst array) (k : int) (o : sop)
  : int * (int * event) list =
  let m = insts.(k) in
  match o with
  | SInit _ -> m.st <- Some init_state; m.hist <- [OInit]; m.rtabv <- (fun _ -> Z0); m.rud <- Z0; (0, [])
  | SNew ok -> m.rtabv <- (fun _ -> Z0); m.rud <- Z0;
    if ok then (m.st <- Some init_state; m.hist <- [OInit]; (1, []))
    else (m.st <- None; m.hist <- []; (0, []))
  | SFree -> m.st <- None; m.hist <- []; (0, [])
  | SSave -> (match m.st with Some s -> m.saved <- Some (s, m.hist) | None -> ()); (0, [])
  | SRestore -> (match m.saved with Some (s, h) -> m.st <- Some s; m.hist <- h | None -> ()); (0, [])
  | SReent (id, a) ->
    let zid = z_of_int id in
    let old = (try List.assoc zid m.rs with Not_found -> []) in
    m.rs <- (zid, old @ [a]) :: List.remove_assoc zid m.rs; (0, [])
  | SApi op ->
    (match m.st with
     | None -> failwith "script applies an op to a NULL instance"
     | Some s ->
       (match op with
        | ORegister (f, id) -> let old = m.rtabv in m.rtabv <- (fun x -> if field_idx x = field_idx f then id else old x)
        | OSetUD u -> m.rud <- u
        | _ -> ());
       let (s', evs) = if m.rs = [] then stepf s op else !reent_step (rtab_of m.rs) s op in
       m.st <- Some s';
       m.hist <- op :: m.hist;
       let ret = match op with OParseString str -> b2i (parse_string_result str) | _ -> 0 in
       (ret, List.map (fun e -> (k, e)) evs))

(* ---------- run mode: print the model's trace in the harness's format ---------- *)
let run_mode stepf script =
  let ic = open_in script in
  let insts = ref (fresh_insts ()) in
  let last = Array.init ninst (fun _ -> Array.make nkeys "") in
  let opno = ref 0 in
  let reset () =
    insts := fresh_insts ();
    Array.iter (fun a -> Array.fill a 0 nkeys "") last;
    opno := 0 in
  (try
     while true do
       let line = String.trim (input_line ic) in
       if line = "" || line.[0] = '#' || line.[0] = '?' then ()
       else if line.[0] = '=' then (reset (); print_endline line)
       else begin
         let (k, o) = parse_line line in
         incr opno;
         Printf.printf "O %d\n" !opno;
         let (ret, evs) = model_exec stepf !insts k o in
         let es = List.map (fun (i, e) -> str_event i e) evs in
         List.iter print_endline es;
         Printf.printf "R %d\n" ret;
         Array.iteri (fun i m ->
             match m.st with
             | None ->
               if last.(i).(0) <> "" then begin
                 Printf.printf "D %d gone\n" i; Array.fill last.(i) 0 nkeys "" end
             | Some s ->
               let a = snap_strings (snap_of s) in
               Array.iteri (fun j v ->
                   if v <> last.(i).(j) then begin
                     Printf.printf "D %d %s %s\n" i keys.(j) v; last.(i).(j) <- v end) a)
           !insts
       end
     done
   with End_of_file -> ());
  close_in ic

(* ---------- check mode ---------- *)
(* property observers: filled in by Observers (extracted from Coq); each gets the instance's
   history (current op first), the implementation's snapshot before and after the op and the
   implementation's events of that instance, and returns true when the property's
   statement holds for this step. *)
let prop_number prop =
  if String.length prop = 3 && prop.[0] = 'C' then int_of_string (String.sub prop 1 2) else 0

let check_mode flavor stepf prop script impl =
  let ic = open_in script and it = open_in impl in
  let insts = ref (fresh_insts ()) in
  (* implementation's current full snapshot strings, per instance *)
  let icur = Array.init ninst (fun _ -> Array.make nkeys "") in
  let ialive = Array.make ninst false in
  let isaved_hist = () in ignore isaved_hist;
  let differs = Array.init ninst (fun _ -> Array.make nkeys false) in
  let sname = ref "" and opno = ref 0 in
  let n_ops = ref 0 and n_div = ref 0 and n_mon = ref 0 and n_obs = ref 0 and n_scripts = ref 0 in
  (* twin-run bookkeeping: per instance, the implementation's events of its last op (instance
     index blanked), that op, and the implementation's settings before it *)
  let last_raw = Array.make ninst [] in
  let last_evs = Array.make ninst [] and last_op = Array.make ninst None
  and last_before = Array.make ninst None and last_mbefore = Array.make ninst None in
  let n_twin = ref 0 and n_badgen = ref 0 and script_invalid = ref false in
  let norm_ev l = (* blank the instance index, 5th token *)
    match String.split_on_char ' ' l with
    | e :: f :: c :: u :: _ :: rest -> String.concat " " (e :: f :: c :: u :: "_" :: rest)
    | _ -> l in
  let twin_check kind i j =
    incr n_twin;
    let fail what =
      Printf.printf "MON script=%s op=%d prop=%s twin=%d,%d what=%s\n" !sname !opno prop i j what; incr n_mon in
    let badgen what =
      Printf.printf "BADGEN script=%s op=%d twin=%d,%d what=%s\n" !sname !opno i j what; incr n_badgen;
      script_invalid := true in
    if !script_invalid then ()
    else if not (ialive.(i) && ialive.(j)) then badgen "instance-not-alive"
    else if kind = "?r" then begin
      (* re-entrant registration: instance j has every callback registered and no script; what
         instance i must have been notified of is the replay (extracted from Reent.v) of j's
         notifications through i's registration table and user data as they evolve under the
         scripts of i's callbacks.  Both sides come from the library: decoding cancels out. *)
      let mi = (!insts).(i) in
      let full = List.filter_map (fun l -> let (x, e) = event_of_string l in if x = j then Some e else None) last_raw.(j) in
      let got = List.filter_map (fun l -> let (x, e) = event_of_string l in if x = i then Some e else None) last_raw.(i) in
      let (exp, (tab', ud')) = replay (rtab_of mi.rs) mi.rtabv mi.rud full in
      mi.rtabv <- tab'; mi.rud <- ud';
      let se l = String.concat " ;; " (List.map (fun e -> str_event 0 e) l) in
      if se exp <> se got then fail ("reentrant-callbacks:expected " ^ String.escaped (se exp) ^ " got " ^ String.escaped (se got))
    end
    else begin
      (* hypotheses of the relational theorems, evaluated with the extracted predicates *)
      (match kind with
       | "?3" ->
         (* the hypothesis is evaluated with the settings the SPECIFICATION prescribes at this
            point (model state), not with what the implementation's getters claim *)
         (match last_op.(i), last_op.(j), last_mbefore.(i) with
          | Some (OParse g), Some (OParse g'), Some cfg ->
            if not (dontcare_equiv cfg g g') then badgen "not-dontcare-equivalent"
          | _ -> badgen "twin-ops-not-parse")
       | "?4" ->
         (match last_op.(i), last_op.(j) with
          | Some (OParseString (Some l)), Some (OParse g) ->
            if not (hex_ok l && decode l = g) then badgen "not-decode-of-string"
          | _ -> badgen "twin-ops-not-string/parse")
       | _ -> ());
      let keys_differ = ref [] in
      let text_only = (kind = "?t") in
      for x = nkeys - 1 downto 0 do
        if ((not text_only) || (x >= 8 && x <= 11)) && icur.(i).(x) <> icur.(j).(x) then keys_differ := keys.(x) :: !keys_differ
      done;
      let ev_filter l =
        if not text_only then true
        else (match String.split_on_char ' ' l with _ :: f :: _ -> (match int_of_string_opt f with Some n -> n >= 8 | None -> true) | _ -> true) in
      let ei = List.sort compare (List.filter ev_filter last_evs.(i))
      and ej = List.sort compare (List.filter ev_filter last_evs.(j)) in
      if !script_invalid then ()
      else if !keys_differ <> [] then fail ("snapshot:" ^ String.concat "," !keys_differ)
      else if kind <> "?s" && kind <> "?c" && ei <> ej then
        fail ("events:" ^ String.escaped (String.concat ";;" ei) ^ "<>" ^ String.escaped (String.concat ";;" ej))
    end in
  let twin_mode = (try Sys.getenv "VERIF_TWIN" = "1" with Not_found -> false) in
  let obs = if prop = "-" then None else
      Some ((if flavor = "n" then observer_n else observer_u) (z_of_int (prop_number prop))) in
  (* read-ahead on the implementation trace *)
  let pending = ref None in
  let next_impl () =
    match !pending with
    | Some l -> pending := None; Some l
    | None -> (try Some (input_line it) with End_of_file -> None) in
  let unread l = pending := Some l in
  let impl_truncated = ref false in
  let read_impl_op () : string list * string list * string option =
    (* returns (E lines, D lines, R value) of the next op block *)
    (match next_impl () with
     | Some l when String.length l > 1 && l.[0] = 'O' -> ()
     | Some l -> Printf.printf "DIV script=%s op=%d key=trace model=O impl=%s\n" !sname !opno (String.escaped l); incr n_div
     | None -> if not !impl_truncated then begin
         impl_truncated := true;
         Printf.printf "DIV script=%s op=%d key=crash model=- impl=trace-ends\n" !sname !opno; incr n_div end);
    let es = ref [] and ds = ref [] and r = ref None in
    let continue = ref true in
    while !continue do
      match next_impl () with
      | None -> continue := false
      | Some l ->
        if l = "" then ()
        else if l.[0] = 'E' then es := l :: !es
        else if l.[0] = 'D' then ds := l :: !ds
        else if l.[0] = 'R' then r := Some (String.trim (String.sub l 1 (String.length l - 1)))
        else (unread l; continue := false)
    done;
    (List.rev !es, List.rev !ds, !r) in
  (try
     while true do
       let line = String.trim (input_line ic) in
       if line = "" || line.[0] = '#' then ()
       else if line.[0] = '=' then begin
         insts := fresh_insts ();
         Array.iter (fun a -> Array.fill a 0 nkeys "") icur;
         Array.fill ialive 0 ninst false;
         Array.iter (fun a -> Array.fill a 0 nkeys false) differs;
         opno := 0; incr n_scripts; script_invalid := false;
         sname := String.trim (String.sub line 1 (String.length line - 1));
         (match next_impl () with
          | Some l when l = line -> ()
          | Some l -> Printf.printf "DIV script=%s op=0 key=trace model=%s impl=%s\n" !sname (String.escaped line) (String.escaped l); incr n_div
          | None -> ())
       end else if line.[0] = '?' then begin
         (match List.filter (fun x -> x <> "") (String.split_on_char ' ' line) with
          | [kind; i; j] -> if not !impl_truncated then twin_check kind (int_of_string i) (int_of_string j)
          | _ -> failwith ("bad twin line: " ^ line))
       end else begin
         let (k, o) = parse_line line in
         incr opno; incr n_ops;
         (* implementation state before the op (typed), only needed by observers *)
         let before =
           if (obs <> None || twin_mode) && ialive.(k) && not !impl_truncated
           then (try Some (snapshot_of_strings icur.(k)) with _ -> None) else None in
         last_before.(k) <- before;
         last_op.(k) <- (match o with SApi op -> Some op | _ -> None);
         last_mbefore.(k) <- (if twin_mode then (match (!insts).(k).st with Some ms -> Some (snap_of ms) | None -> None) else None);
         let (mret, mevs) = model_exec stepf !insts k o in
         let (ies, ids, iret) = read_impl_op () in
         last_evs.(k) <- List.map norm_ev ies;
         last_raw.(k) <- ies;
         if not !impl_truncated then begin
           (* apply the implementation's deltas *)
           List.iter (fun l ->
               match String.split_on_char ' ' l with
               | "D" :: i :: "gone" :: _ ->
                 let i = int_of_string i in
                 ialive.(i) <- false; Array.fill icur.(i) 0 nkeys ""
               | "D" :: i :: key :: rest ->
                 let i = int_of_string i and j = key_index key in
                 if j >= 0 then begin ialive.(i) <- true; icur.(i).(j) <- String.concat " " rest end
               | _ -> ()) ids;
           (* return value *)
           (match iret with
            | Some r when r = string_of_int mret -> ()
            | r -> Printf.printf "DIV script=%s op=%d key=ret model=%d impl=%s\n" !sname !opno mret
                     (match r with Some x -> x | None -> "none"); incr n_div);
           (* events (sorted canonical strings) *)
           let mes = List.sort compare (List.map (fun (i, e) -> str_event i e) mevs) in
           if mes <> List.sort compare ies then begin
             Printf.printf "DIV script=%s op=%d key=ev model=%s impl=%s\n" !sname !opno
               (String.escaped (String.concat " ;; " mes)) (String.escaped (String.concat " ;; " ies));
             incr n_div end;
           (* snapshots of all instances *)
           Array.iteri (fun i m ->
               match m.st with
               | None ->
                 if ialive.(i) then begin
                   Printf.printf "DIV script=%s op=%d key=alive inst=%d model=gone impl=alive\n" !sname !opno i; incr n_div end
               | Some s ->
                 if not ialive.(i) then begin
                   Printf.printf "DIV script=%s op=%d key=alive inst=%d model=alive impl=gone\n" !sname !opno i; incr n_div end
                 else begin
                   let a = snap_strings (snap_of s) in
                   Array.iteri (fun j v ->
                       let d = v <> icur.(i).(j) in
                       if d && not differs.(i).(j) then begin
                         Printf.printf "DIV script=%s op=%d key=%s inst=%d model=%s impl=%s\n" !sname !opno keys.(j) i v icur.(i).(j);
                         incr n_div end;
                       differs.(i).(j) <- d) a
                 end) !insts;
           (* property observer on the implementation's own before/after/events *)
           (match obs, before, o with
            | Some f, Some b, SApi _ when ialive.(k) ->
              (try
                 let after = snapshot_of_strings icur.(k) in
                 let evs = List.filter_map (fun l -> let (i, e) = event_of_string l in if i = k then Some e else None) ies in
                 incr n_obs;
                 if not (f (!insts).(k).hist b after evs (z_of_int (match iret with Some r -> (try int_of_string r with _ -> -1) | None -> -1))) then begin
                   Printf.printf "MON script=%s op=%d prop=%s inst=%d line=%s\n" !sname !opno prop k (String.escaped line);
                   incr n_mon end
               with Failure msg ->
                 Printf.printf "MON script=%s op=%d prop=%s inst=%d unparsable=%s\n" !sname !opno prop k (String.escaped msg);
                 incr n_mon)
            | _ -> ())
         end
       end
     done
   with End_of_file -> ());
  Printf.printf "STAT scripts=%d ops=%d div=%d mon=%d observed=%d twins=%d badgen=%d\n" !n_scripts !n_ops !n_div !n_mon !n_obs !n_twin !n_badgen;
  close_in ic; close_in it

let main () =
  let stepf fl = (reent_step := (if fl = "n" then step_reent_n else step_reent_u)); if fl = "n" then step_n else step_u in
  match Array.to_list Sys.argv with
  | [_; "run"; fl; script] -> run_mode (stepf fl) script
  | [_; "check"; fl; prop; script; impl] -> check_mode fl (stepf fl) prop script impl
  | _ -> prerr_endline "usage: driver run <u|n> <script> | driver check <u|n> <prop|-> <script> <impltrace>"; exit 2
