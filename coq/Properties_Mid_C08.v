(* Properties_Mid_C08.v — C08 at the level of the code: rdsparser_group2_parse (src/group2.c) with
   rdsparser_string_get_available and rdsparser_string_clear (src/string.c; their loops over the
   buffer translated as folds over the index range), translated on every run, is the model's
   group2_parse: the A/B latch, the emptying of the newly selected buffer, the group ignored when
   a flagged block B shows the other flag, the cell pairs of block C and D at 4 x / 2 x the
   address, the RT callback with the flag — for every group, version, state with two 64-cell
   buffers and latch value. *)
Require Import Lemmas_Mid_G2 Lemmas_Mid_Conv.
Local Open Scope Z_scope.

Theorem C08_code_group2 : forall g flag s evs, wf_group g ->
  length (rt0 s) = 64%nat -> length (rt1 s) = 64%nat ->
  m_group2_parse (cb s FRT) (corr_tab s) evs (last_rt s) (prog_tab s)
                 (contents (rt0 s)) (levels (rt0 s)) 64 (contents (rt1 s)) (levels (rt1 s)) 64 (ud s)
                 (ga g) (gb g) (gc g) (gd g) (ea g) (eb g) (ec g) (ed g) flag
  = let r := group2_parse conv_u g flag s in
    let s' := fst r in
    (0, evs ++ map ev_call (snd r), last_rt s', contents (rt0 s'), levels (rt0 s'), contents (rt1 s'), levels (rt1 s')).
Proof. exact (mid_group2_parse conv_u mid_convert_u). Qed.
Print Assumptions C08_code_group2.

Theorem C08_code_available : forall t, (length t < 256)%nat ->
  m_string_get_available (levels t) (Z.of_nat (length t)) = b2z (string_available t).
Proof. exact mid_get_available. Qed.
Print Assumptions C08_code_available.

Theorem C08_code_clear : forall t, (length t < 256)%nat ->
  m_string_clear (contents t) (levels t) (Z.of_nat (length t))
  = (0, contents (string_clear t), levels (string_clear t)).
Proof. exact mid_string_clear. Qed.
Print Assumptions C08_code_clear.
