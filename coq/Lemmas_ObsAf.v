(* Lemmas_ObsAf.v — the AF conjunct of obs_C04 (af_changes_ok) and the AF callbacks conjunct of
   obs_C10 (af_events_ok) as theorems of the model: the AF callbacks of a call are exactly the
   codes listed afterwards and not before. *)
Require Export Lemmas_ObsEv Lemmas_CbAf.
Require Import ZifyBool.
Local Open Scope Z_scope.
Ltac Zify.zify_post_hook ::= Z.div_mod_to_equations.

Definition codes256 : list Z := map Z.of_nat (seq 0 256).

Lemma in_codes256 v : In v codes256 <-> 0 <= v < 256.
Proof.
  unfold codes256. rewrite in_map_iff. split.
  - intros [n [E Hn]]. apply in_seq in Hn. lia.
  - intros H. exists (Z.to_nat v). split; [lia|]. apply in_seq. lia.
Qed.

Lemma filter_single_seq v a n :
  filter (fun w => w =? v) (map Z.of_nat (seq a n))
  = if (Z.of_nat a <=? v) && (v <? Z.of_nat a + Z.of_nat n) then [v] else [].
Proof.
  revert a; induction n as [|n IH]; intros a.
  - cbn [seq map filter]. replace ((Z.of_nat a <=? v) && (v <? Z.of_nat a + Z.of_nat 0)) with false by lia. reflexivity.
  - cbn [seq map filter]. rewrite IH. destruct (Z.eqb_spec (Z.of_nat a) v) as [E|E].
    + subst v. replace ((Z.of_nat (S a) <=? Z.of_nat a) && _) with false by lia.
      replace ((Z.of_nat a <=? Z.of_nat a) && (Z.of_nat a <? Z.of_nat a + Z.of_nat (S n))) with true by lia. reflexivity.
    + replace ((Z.of_nat (S a) <=? v) && (v <? Z.of_nat (S a) + Z.of_nat n))
        with ((Z.of_nat a <=? v) && (v <? Z.of_nat a + Z.of_nat (S n))) by lia. reflexivity.
Qed.

Lemma filter_single v : 0 <= v < 256 -> filter (fun w => w =? v) codes256 = [v].
Proof.
  intros H. unfold codes256. rewrite filter_single_seq.
  replace ((Z.of_nat 0 <=? v) && (v <? Z.of_nat 0 + Z.of_nat 256)) with true by lia. reflexivity.
Qed.

Lemma filter_false {A} (l : list A) : filter (fun _ => false) l = [].
Proof. induction l; [reflexivity|exact IHl]. Qed.

Lemma filter_or_length {A} (p q : A -> bool) l :
  length (filter (fun x => p x || q x) l)
  = (length (filter p l) + length (filter (fun x => negb (p x) && q x) l))%nat.
Proof.
  induction l as [|x r IH]; [reflexivity|]. cbn [filter].
  destruct (p x); cbn [orb negb andb]; [cbn [length]; lia|]. destruct (q x); cbn [length]; lia.
Qed.

(* the codes selected by "b1 and w = v1, or b2 and w = v2" *)
Lemma two_codes_length b1 b2 v1 v2 : 0 <= v1 < 256 -> 0 <= v2 < 256 -> (b1 = true -> b2 = true -> v1 <> v2) ->
  length (filter (fun w => (b1 && (w =? v1)) || (b2 && (w =? v2))) codes256)
  = ((if b1 then 1 else 0) + (if b2 then 1 else 0))%nat.
Proof.
  intros H1 H2 Hd. rewrite filter_or_length. f_equal.
  - destruct b1; cbn [andb]; [rewrite (filter_single v1 H1); reflexivity|rewrite filter_false; reflexivity].
  - destruct b2.
    + rewrite (filter_ext_in _ (fun w => w =? v2)).
      * rewrite (filter_single v2 H2). reflexivity.
      * intros w _. cbn [andb]. destruct b1; cbn [andb negb]; [|reflexivity].
        destruct (Z.eqb_spec w v1) as [E|E]; [|reflexivity]. cbn [negb andb].
        specialize (Hd eq_refl eq_refl). symmetry. apply Z.eqb_neq. lia.
    + rewrite (filter_ext_in _ (fun _ => false)); [rewrite filter_false; reflexivity|].
      intros w _. cbn [andb]. apply andb_false_r.
Qed.

(* ---------- what an application reads off the bitmap is the model's af_get ---------- *)
Lemma af_listed_get a v : AfWF a -> af_listed a v = af_get a v.
Proof.
  intros [p [Hl [Hb Hv]]]. unfold af_listed, af_get, af_ok, af_mask.
  destruct ((1 <=? v) && (v <=? 204)) eqn:E; [|reflexivity]. cbn [andb].
  pose proof (nth_byte a (Z.to_nat (v / 8)) Hb) as Hn.
  destruct (byte_facts (nth (Z.to_nat (v / 8)) a 0) (v mod 8) Hn ltac:(lia)) as [F _].
  symmetry. exact F.
Qed.

Section ObsAf.
Variable conv : Z -> Z.
Variable lut : Z -> Z -> Z.
Notation reach := (reach conv lut).
Notation step := (step conv lut).
Notation process := (process conv lut).

Lemma ev_code_af s v a : ev_code (af_event s v a) = v.
Proof. unfold ev_code, af_event. cbn [ev_arg]. lia. Qed.

Lemma is_af_event_isf evs : filter is_af_event evs = filter (isf FAF) evs.
Proof. reflexivity. Qed.

(* the set of codes listed after the call and not before *)
Lemma newly_char a0 a1 a2 v1 v2 :
  (forall w, 0 <= w < 256 -> w <> v1 -> af_get a1 w = af_get a0 w) ->
  (forall w, 0 <= w < 256 -> w <> v2 -> af_get a2 w = af_get a1 w) ->
  (af_get a0 v1 = true -> af_get a1 v1 = true) -> (af_get a1 v2 = true -> af_get a2 v2 = true) ->
  forall w, 0 <= w < 256 ->
  af_get a2 w && negb (af_get a0 w) = (newly a0 a1 v1 && (w =? v1)) || (newly a1 a2 v2 && (w =? v2)).
Proof.
  intros F1 F2 M1 M2 w Hw. unfold newly.
  destruct (Z.eqb_spec w v1) as [E1|E1]; destruct (Z.eqb_spec w v2) as [E2|E2]; rewrite ?andb_true_r, ?andb_false_r.
  - subst v1 v2. destruct (af_get a0 w), (af_get a1 w), (af_get a2 w); cbn; try reflexivity;
      try (specialize (M1 eq_refl); discriminate); try (specialize (M2 eq_refl); discriminate).
  - subst v1. rewrite (F2 w Hw E2). rewrite orb_false_r. reflexivity.
  - subst v2. rewrite (F1 w Hw E1). cbn [orb]. reflexivity.
  - rewrite (F2 w Hw E2), (F1 w Hw E1). destruct (af_get a0 w); reflexivity.
Qed.

Theorem af_changes_holds h s o g : reach h s -> wf_op o -> op_group o = Some g ->
  af_changes_ok (o :: h) (snap_of s) (snap_of (fst (step s o))) (snd (step s o)) = true.
Proof.
  intros Hr Wo Eo. destruct (parse_step conv lut o g s Eo Wo) as [Es Wg]. rewrite Es.
  destruct (reach_cb_ud conv lut h s Hr) as [Hcb _].
  destruct (reach_af_wf conv lut h s Hr) as [W0 _].
  pose proof Wg as [_ [_ [Hc _]]]. unfold blk_ok in Hc.
  unfold af_changes_ok. rewrite is_af_event_isf. cbn [snap_of sn_af].
  rewrite (h_cb_parse o h FAF) by (left; congruence). rewrite <- Hcb.
  pose proof (af_callbacks_wf conv lut h g s Hr Wg) as H. cbv zeta in H.
  set (a0 := d_af (used s)) in *. set (a2 := d_af (used (fst (process g s)))) in *.
  set (afe := filter (isf FAF) (snd (process g s))) in *.
  set (v1 := w_hi (gc g)) in *. set (v2 := w_lo (gc g)) in *.
  assert (R1 : 0 <= v1 < 256) by (unfold v1, w_hi; lia). assert (R2 : 0 <= v2 < 256) by (unfold v2, w_lo; lia).
  destruct ((b_group (gb g) =? 0) && (b_ver (gb g) =? 0) && (eb g =? 0) && (ec g =? 0) && negb (v1 =? 250)).
  2:{ destruct H as [E1 E2]. rewrite E1, E2, list_eqb_Z_refl. reflexivity. }
  destruct H as [a1 [Ev [F1 [F2 [M1 [M2 [W1 W2]]]]]]].
  set (n1 := newly a0 a1 v1) in *. set (n2 := newly a1 a2 v2) in *.
  assert (Hd : n1 = true -> n2 = true -> v1 <> v2).
  { unfold n1, n2, newly. intros A B E. rewrite <- E in B. apply andb_true_iff in A. destruct A as [A _].
    rewrite A in B. rewrite andb_false_r in B. discriminate. }
  pose proof (newly_char a0 a1 a2 v1 v2 F1 F2 M1 M2) as Ch. fold n1 n2 in Ch.
  destruct (list_eqb Z.eqb a2 a0) eqn:Eq.
  { (* nothing changed in the list: no callback *)
    apply all2_eqb_eq in Eq.
    assert (N1 : n1 = false).
    { destruct n1 eqn:A; [|reflexivity]. pose proof (Ch v1 R1) as C. rewrite Eq, Z.eqb_refl in C.
      rewrite andb_negb_r in C. cbn [andb orb] in C. discriminate. }
    assert (N2 : n2 = false).
    { destruct n2 eqn:A; [|reflexivity]. pose proof (Ch v2 R2) as C. rewrite Eq, Z.eqb_refl in C.
      rewrite andb_negb_r in C. cbn [andb] in C. rewrite orb_true_r in C. discriminate. }
    rewrite Ev, N1, N2. reflexivity. }
  destruct (cb s FAF =? 0) eqn:C0.
  { rewrite Ev. cbn [negb]. rewrite !andb_false_r. reflexivity. }
  cbn [negb] in Ev. rewrite !andb_true_r in Ev.
  (* the newly listed codes *)
  set (newl := filter (fun v => af_listed a2 v && negb (af_listed a0 v)) (map Z.of_nat (seq 0 256))).
  assert (Hnew : newl = filter (fun w => (n1 && (w =? v1)) || (n2 && (w =? v2))) codes256).
  { unfold newl. apply filter_ext_in. intros w Hw. apply in_codes256 in Hw.
    rewrite (af_listed_get a2 w W2), (af_listed_get a0 w W0). apply Ch. exact Hw. }
  assert (Hlen : length newl = ((if n1 then 1 else 0) + (if n2 then 1 else 0))%nat).
  { rewrite Hnew. apply two_codes_length; assumption. }
  assert (In1 : n1 = true -> existsb (fun v => v =? v1) newl = true).
  { intros A. apply existsb_exists. exists v1. split; [|apply Z.eqb_refl].
    rewrite Hnew. apply filter_In. split; [apply in_codes256; exact R1|]. rewrite A, Z.eqb_refl. reflexivity. }
  assert (In2 : n2 = true -> existsb (fun v => v =? v2) newl = true).
  { intros A. apply existsb_exists. exists v2. split; [|apply Z.eqb_refl].
    rewrite Hnew. apply filter_In. split; [apply in_codes256; exact R2|]. rewrite A, Z.eqb_refl. apply orb_true_r. }
  assert (S1 : n1 = true -> af_listed a1 v1 = true).
  { intros A. rewrite (af_listed_get a1 v1 W1). unfold n1, newly in A. apply andb_true_iff in A. tauto. }
  assert (S2 : n2 = true -> af_listed a2 v2 = true).
  { intros A. rewrite (af_listed_get a2 v2 W2). unfold n2, newly in A. apply andb_true_iff in A. tauto. }
  rewrite Ev, Hlen. fold newl.
  assert (Q1 : (87500 + v1 * 100 - 87500) / 100 = v1) by lia.
  assert (Q2 : (87500 + v2 * 100 - 87500) / 100 = v2) by lia.
  destruct n1, n2; cbn [app length Nat.leb Nat.eqb Nat.add forallb map andb];
    unfold af_event, ev_code; cbn [ev_arg ev_sample]; rewrite ?Q1, ?Q2.
  - rewrite (In1 eq_refl), (In2 eq_refl), (S1 eq_refl), (S2 eq_refl).
    replace (87500 + v1 * 100 =? 87500 + 100 * v1) with true by lia.
    replace (87500 + v2 * 100 =? 87500 + 100 * v2) with true by lia.
    cbn [andb dedup filter]. specialize (Hd eq_refl eq_refl).
    replace (v2 =? v1) with false by lia. reflexivity.
  - rewrite (In1 eq_refl), (S1 eq_refl). replace (87500 + v1 * 100 =? 87500 + 100 * v1) with true by lia. reflexivity.
  - rewrite (In2 eq_refl), (S2 eq_refl). replace (87500 + v2 * 100 =? 87500 + 100 * v2) with true by lia. reflexivity.
  - reflexivity.
Qed.

(* the same against the receptions of the group (obs_C10): the callbacks are the group's own codes
   that became listed, in block order *)
Theorem af_events_holds h s o : reach h s -> wf_op o ->
  af_events_ok (o :: h) (snap_of s) (snap_of (fst (step s o))) (snd (step s o)) = true.
Proof.
  intros Hr Wo. unfold af_events_ok. cbn [cur_group]. rewrite is_af_event_isf.
  destruct (op_group o) as [g|] eqn:Eo.
  2:{ rewrite (C04_only_parse conv lut o s Eo). cbn [filter]. destruct (h_cb (o :: h) FAF =? 0); reflexivity. }
  destruct (parse_step conv lut o g s Eo Wo) as [Es Wg]. rewrite Es.
  destruct (reach_cb_ud conv lut h s Hr) as [Hcb _].
  destruct (reach_af_wf conv lut h s Hr) as [W0 _].
  pose proof Wg as [_ [_ [Hc _]]]. unfold blk_ok in Hc.
  cbn [snap_of sn_af].
  rewrite (h_cb_parse o h FAF) by (left; congruence). rewrite <- Hcb.
  pose proof (af_callbacks_wf conv lut h g s Hr Wg) as H. cbv zeta in H.
  unfold rx_af.
  set (a0 := d_af (used s)) in *. set (a2 := d_af (used (fst (process g s)))) in *.
  set (afe := filter (isf FAF) (snd (process g s))) in *.
  set (v1 := w_hi (gc g)) in *. set (v2 := w_lo (gc g)) in *.
  assert (R1 : 0 <= v1 < 256) by (unfold v1, w_hi; lia). assert (R2 : 0 <= v2 < 256) by (unfold v2, w_lo; lia).
  destruct ((b_group (gb g) =? 0) && (b_ver (gb g) =? 0) && (eb g =? 0) && (ec g =? 0) && negb (v1 =? 250)).
  2:{ destruct H as [E1 _]. rewrite E1. cbn [dedup filter]. destruct (cb s FAF =? 0); reflexivity. }
  destruct H as [a1 [Ev [F1 [F2 [M1 [M2 [W1 W2]]]]]]].
  set (n1 := newly a0 a1 v1) in *. set (n2 := newly a1 a2 v2) in *.
  assert (Hd : n1 = true -> n2 = true -> v1 <> v2).
  { unfold n1, n2, newly. intros A B E. rewrite <- E in B. apply andb_true_iff in A. destruct A as [A _].
    rewrite A in B. rewrite andb_false_r in B. discriminate. }
  pose proof (newly_char a0 a1 a2 v1 v2 F1 F2 M1 M2) as Ch. fold n1 n2 in Ch.
  destruct (cb s FAF =? 0) eqn:C0.
  { rewrite Ev. cbn [negb]. rewrite !andb_false_r. reflexivity. }
  cbn [negb] in Ev. rewrite !andb_true_r in Ev.
  assert (P1 : af_listed a2 v1 && negb (af_listed a0 v1) = n1 || n2 && (v1 =? v2)).
  { rewrite (af_listed_get a2 v1 W2), (af_listed_get a0 v1 W0), (Ch v1 R1), Z.eqb_refl, andb_true_r. reflexivity. }
  assert (P2 : af_listed a2 v2 && negb (af_listed a0 v2) = n1 && (v2 =? v1) || n2).
  { rewrite (af_listed_get a2 v2 W2), (af_listed_get a0 v2 W0), (Ch v2 R2), Z.eqb_refl, andb_true_r. reflexivity. }
  assert (S1 : n1 = true -> af_listed a1 v1 = true).
  { intros A. rewrite (af_listed_get a1 v1 W1). unfold n1, newly in A. apply andb_true_iff in A. tauto. }
  assert (S2 : n2 = true -> af_listed a2 v2 = true).
  { intros A. rewrite (af_listed_get a2 v2 W2). unfold n2, newly in A. apply andb_true_iff in A. tauto. }
  assert (K1 : 87500 + v1 * 100 =? 87500 + 100 * v1 = true) by lia.
  assert (K2 : 87500 + v2 * 100 =? 87500 + 100 * v2 = true) by lia.
  rewrite Ev. cbn [dedup filter].
  destruct (Z.eqb_spec v2 v1) as [E|E].
  - (* the same code twice: at most one callback *)
    cbn [negb filter]. rewrite P1. rewrite E in *. rewrite Z.eqb_refl, andb_true_r.
    destruct n1 eqn:A1, n2 eqn:A2; cbn [orb app all2]; unfold af_event; cbn [ev_arg ev_sample];
      rewrite ?K1, ?(S1 eq_refl), ?(S2 eq_refl); try reflexivity.
    exfalso. apply (Hd eq_refl eq_refl eq_refl).
  - cbn [negb filter]. rewrite P1, P2.
    replace (v1 =? v2) with false by lia. replace (v2 =? v1) with false by lia.
    rewrite !andb_false_r, orb_false_r. cbn [orb].
    destruct n1 eqn:A1, n2 eqn:A2; cbn [app all2]; unfold af_event; cbn [ev_arg ev_sample];
      rewrite ?K1, ?K2, ?(S1 eq_refl), ?(S2 eq_refl); reflexivity.
Qed.

Theorem obs_C10_holds h s o ret : reach h s -> wf_op o ->
  obs_C10 (o :: h) (snap_of s) (snap_of (fst (step s o))) (snd (step s o)) ret = true.
Proof.
  intros Hr Wo. unfold obs_C10.
  pose proof (C10_af_set_holds conv lut (o :: h) (fst (step s o)) (reach_step conv lut h s o Hr Wo)) as [H1 H2].
  rewrite (af_events_holds h s o Hr Wo), andb_true_r. cbn [snap_of sn_af].
  destruct (no_ext (o :: h)) eqn:N.
  - cbn [Z.eqb]. rewrite (H1 eq_refl). apply list_eqb_Z_refl.
  - destruct (ext_scope (o :: h)) eqn:X; [|reflexivity].
    cbn [Z.eqb]. rewrite (H2 eq_refl). apply list_eqb_Z_refl.
Qed.

End ObsAf.
