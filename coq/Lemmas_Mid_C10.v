(* Lemmas_Mid_C10.v — rdsparser_buffer_add_af (src/buffer.c), translated on every run (GenMid.v):
   the accepted and the candidate AF bitmap it leaves, and its return value, are those of the
   model's buffer_add_af, for every code 0..255 and every pair of well-formed bitmaps. *)
Require Export Lemmas_Leaf_C10 GenMid.
Require Import ZifyBool.
Local Open Scope Z_scope.

Definition bytes (a : list Z) : Prop := length a = 26%nat /\ Forall (fun x => 0 <= x < 256) a.

Theorem mid_buffer_add_af : forall v s, bytes (d_af (used s)) -> bytes (d_af (temp s)) -> 0 <= v < 256 ->
  let '(r, t', u') := m_buffer_add_af (d_af (temp s)) (d_af (used s)) (if ext s then 1 else 0) v in
  (negb (r =? 0), t', u')
  = (snd (buffer_add_af v s), d_af (temp (fst (buffer_add_af v s))), d_af (used (fst (buffer_add_af v s)))).
Proof.
  intros v s [Lu Bu] [Lt Bt] Hv. unfold m_buffer_add_af, buffer_add_af. cbv zeta.
  rewrite !(leaf_af_get _ v Hv).
  rewrite (leaf_af_set _ v Lu Bu Hv), (leaf_af_set _ v Lt Bt Hv).
  unfold c_af_set__buffer, c_af_set__ret.
  destruct (c_af_set (d_af (temp s)) v) as [rt bt] eqn:Et.
  destruct (c_af_set (d_af (used s)) v) as [ru bu] eqn:Eu.
  destruct (af_get (d_af (used s)) v); cbn [negb Z.eqb]; [reflexivity|].
  destruct (ext s); cbn [andb negb Z.eqb].
  - destruct (af_get (d_af (temp s)) v); cbn [negb Z.eqb andb];
      cbn [fst snd temp used with_temp with_used set_af d_af]; reflexivity.
  - cbn [fst snd temp used with_temp with_used set_af d_af]. reflexivity.
Qed.
