(* Lemmas_AfHist.v — C10 (and the AF half of C09): for every history, the AF bitmap lists exactly
   the valid codes received (in 0A, error-free B and C, first code <> 250) at least once (normal
   mode) / at least twice (extended check) since the last reset. *)
Require Export Lemmas_Af Lemmas_Tuning.
Require Import ZifyBool.
Local Open Scope Z_scope.
Ltac Zify.zify_post_hook ::= Z.div_mod_to_equations.

Definition afp (b : bst) : list Z * list Z * bool := (d_af (b_used b), d_af (b_temp b), b_ext b).

Lemma afp_b_set f v b : afp (b_set f v b) = afp b.
Proof.
  destruct b as [[u t] x]. unfold b_set, afp, b_used, b_temp, b_ext.
  destruct (_ || _); cbn [fst snd]; rewrite ?setf_af; reflexivity.
Qed.

Lemma count_z_cons w v l : count_z w (v :: l) = (if v =? w then 1 else 0) + count_z w l.
Proof. unfold count_z. cbn [filter]. destruct (v =? w); cbn [length]; lia. Qed.
Lemma count_z_nonneg w l : 0 <= count_z w l.
Proof. unfold count_z. lia. Qed.

(* one reception of code v, in terms of reception counts *)
Lemma b_af_counts b (c : Z -> Z) v : 0 <= v < 256 -> (forall w, 0 <= c w) ->
  let c' := fun w => (if v =? w then 1 else 0) + c w in
  b_ext (b_af v b) = b_ext b
  /\ (b_ext b = false -> AfInv (d_af (b_used b)) (fun w => 1 <=? c w) ->
      AfInv (d_af (b_used (b_af v b))) (fun w => 1 <=? c' w))
  /\ (b_ext b = true -> AfInv (d_af (b_used b)) (fun w => 2 <=? c w) -> AfInv (d_af (b_temp b)) (fun w => 1 <=? c w) ->
      AfInv (d_af (b_used (b_af v b))) (fun w => 2 <=? c' w) /\ AfInv (d_af (b_temp (b_af v b))) (fun w => 1 <=? c' w)).
Proof.
  intros Hv Hc c'. split; [apply b_af_ext|]. destruct b as [[u t] x]. unfold b_ext, b_used, b_temp, b_af. cbn [fst snd].
  split.
  - intros -> Iu. rewrite (af_get_spec _ _ v Iu Hv). cbn [andb].
    destruct (af_ok v && (1 <=? c v)) eqn:G; cbn [negb fst snd].
    + apply (AfInv_ext _ _ _ Iu). intros w Hw. unfold c'. destruct (Z.eqb_spec v w) as [<-|_]; cbv iota; lia.
    + destruct (af_set_spec _ _ v Iu Hv) as [a' [Ea Ia]]. rewrite Ea. cbn [fst snd set_af d_af].
      apply (AfInv_ext _ _ _ Ia). intros w Hw. unfold c'.
      destruct (Z.eqb_spec w v) as [->|N]; [rewrite Z.eqb_refl; rewrite Hw in G; pose proof (Hc v); lia|].
      replace (v =? w) with false by lia. rewrite orb_false_r. reflexivity.
  - intros -> Iu It. rewrite (af_get_spec _ _ v Iu Hv), (af_get_spec _ _ v It Hv). cbn [andb].
    pose proof (Hc v) as Hcv.
    destruct (af_ok v) eqn:Ok; cbn [andb negb].
    + destruct (2 <=? c v) eqn:G2; cbn [negb fst snd].
      * split; [apply (AfInv_ext _ _ _ Iu)|apply (AfInv_ext _ _ _ It)]; intros w Hw; unfold c';
          destruct (Z.eqb_spec v w) as [<-|_]; cbv iota; lia.
      * destruct (1 <=? c v) eqn:G1; cbn [negb].
        -- destruct (af_set_spec _ _ v Iu Hv) as [a' [Ea Ia]]. rewrite Ea. cbn [fst snd set_af d_af].
           split; [apply (AfInv_ext _ _ _ Ia)|apply (AfInv_ext _ _ _ It)]; intros w Hw; unfold c';
             destruct (Z.eqb_spec w v) as [->|N]; rewrite ?Z.eqb_refl; try lia;
             replace (v =? w) with false by lia; rewrite ?orb_false_r; reflexivity.
        -- destruct (af_set_spec _ _ v It Hv) as [a' [Ea Ia]]. rewrite Ea. cbn [fst snd set_af d_af].
           split; [apply (AfInv_ext _ _ _ Iu)|apply (AfInv_ext _ _ _ Ia)]; intros w Hw; unfold c';
             destruct (Z.eqb_spec w v) as [->|N]; rewrite ?Z.eqb_refl; try lia;
             replace (v =? w) with false by lia; rewrite ?orb_false_r; reflexivity.
    + (* an invalid code changes nothing *)
      destruct (af_set_spec _ _ v It Hv) as [a' [Ea Ia]]. rewrite Ok in Ea. unfold af_set in Ea. rewrite Ok in Ea.
      unfold af_set. rewrite Ok. cbn [fst snd set_af d_af].
      split; [apply (AfInv_ext _ _ _ Iu)|].
      * intros w Hw. unfold c'. destruct (Z.eqb_spec v w) as [<-|_]; [congruence|reflexivity].
      * destruct t as [t1 t2 t3 t4 t5 t6 t7 taf]; cbn [set_af d_af] in *. apply (AfInv_ext _ _ _ It).
        intros w Hw. unfold c'. destruct (Z.eqb_spec v w) as [<-|_]; [congruence|reflexivity].
Qed.

Section AfHist.
Variable lut : Z -> Z -> Z.

Definition cond_0A (g : group) : bool :=
  (get_group (gb g) =? 0) && (get_flag (gb g) =? 0) && ((eb g =? 0) && (ec g =? 0)) && negb (get_af1 (gc g) =? 250).

Lemma afp_b_process g b :
  afp (b_process lut g b) = if cond_0A g then afp (b_af (get_af2 (gc g)) (b_af (get_af1 (gc g)) (b_group_parse g b)))
                            else afp b.
Proof.
  unfold b_process, b_dispatch, b_group0, b_group1, cond_0A.
  assert (Hgp : afp (b_group_parse g b) = afp b).
  { unfold b_group_parse. cbv zeta. repeat match goal with |- context [if ?c then _ else _] => destruct c end;
      rewrite ?afp_b_set; reflexivity. }
  destruct (get_group (gb g) =? 0) eqn:G0; cbn [andb].
  - cbv zeta. destruct (get_flag (gb g) =? 0); cbn [andb]; [|destruct (eb g =? 0); rewrite ?afp_b_set; exact Hgp].
    destruct ((eb g =? 0) && (ec g =? 0)) eqn:E; cbn [andb]; [|destruct (eb g =? 0); rewrite ?afp_b_set; exact Hgp].
    destruct (negb (get_af1 (gc g) =? 250)); [|destruct (eb g =? 0); rewrite ?afp_b_set; exact Hgp].
    apply andb_true_iff in E. destruct E as [E1 _]. rewrite E1.
    (* the AF receptions act on the AF projection only *)
    assert (Haf : forall v b1 b2, afp b1 = afp b2 -> afp (b_af v b1) = afp (b_af v b2)).
    { intros v [[u1 t1] x1] [[u2 t2] x2] H. unfold afp, b_used, b_temp, b_ext in H. cbn [fst snd] in H.
      inversion H as [[Hu Ht Hx]]. subst x2.
      destruct u1 as [? ? ? ? ? ? ? au1], u2 as [? ? ? ? ? ? ? au2], t1 as [? ? ? ? ? ? ? at1], t2 as [? ? ? ? ? ? ? at2].
      cbn [d_af] in Hu, Ht. subst au2 at2.
      unfold b_af, afp, b_used, b_temp, b_ext. cbn [fst snd d_af].
      destruct (negb (af_get au1 v)); [|reflexivity].
      destruct (x1 && negb (af_get at1 v)).
      - destruct (af_set at1 v) as [[a r]|]; reflexivity.
      - destruct (af_set au1 v) as [[a r]|]; reflexivity. }
    apply Haf, Haf. rewrite !afp_b_set. reflexivity.
  - destruct (get_group (gb g) =? 1); [|exact Hgp].
    destruct (_ && _ && _ && _); cbv zeta; rewrite ?afp_b_set; exact Hgp.
Qed.

Lemma cond_0A_spec g : wf_group g ->
  rx_af g = if cond_0A g then [get_af1 (gc g); get_af2 (gc g)] else [].
Proof.
  intros [_ [Hb [Hc _]]]. unfold rx_af, cond_0A.
  rewrite (get_group_spec _ Hb), (get_flag_spec _ Hb), (get_af1_spec _ Hc), (get_af2_spec _ Hc).
  rewrite <- !andb_assoc. reflexivity.
Qed.

Definition cnt (h : list op) (v : Z) : Z := count_z v (af_rx h).

Lemma afp_eq b b' : afp b = afp b' ->
  d_af (b_used b) = d_af (b_used b') /\ d_af (b_temp b) = d_af (b_temp b') /\ b_ext b = b_ext b'.
Proof. unfold afp. intros H. inversion H. auto. Qed.

(* one parsed group *)
Lemma af_process g b h : wf_group g ->
  let b' := b_process lut g b in
  let h' := OParse g :: h in
  b_ext b' = b_ext b
  /\ (b_ext b = false -> AfInv (d_af (b_used b)) (fun w => 1 <=? cnt h w) ->
      AfInv (d_af (b_used b')) (fun w => 1 <=? count_z w (rx_af g ++ af_rx h)))
  /\ (b_ext b = true -> AfInv (d_af (b_used b)) (fun w => 2 <=? cnt h w) -> AfInv (d_af (b_temp b)) (fun w => 1 <=? cnt h w) ->
      AfInv (d_af (b_used b')) (fun w => 2 <=? count_z w (rx_af g ++ af_rx h))
      /\ AfInv (d_af (b_temp b')) (fun w => 1 <=? count_z w (rx_af g ++ af_rx h))).
Proof.
  intros Hwf. cbv zeta. pose proof (afp_b_process g b) as Hp. rewrite (cond_0A_spec g Hwf).
  destruct Hwf as [_ [_ [Hc _]]]. unfold blk_ok in Hc.
  pose proof (bits_W (gc g) Hc) as Hw. unfold bits_W_ok in Hw. split_andb Hw.
  assert (R1 : 0 <= get_af1 (gc g) < 256) by lia. assert (R2 : 0 <= get_af2 (gc g) < 256) by lia.
  destruct (cond_0A g).
  - set (b0 := b_group_parse g b) in *.
    assert (H0 : afp b0 = afp b).
    { unfold b0, b_group_parse. cbv zeta. repeat match goal with |- context [if ?c then _ else _] => destruct c end;
        rewrite ?afp_b_set; reflexivity. }
    destruct (afp_eq _ _ H0) as [U0 [T0 X0]].
    destruct (afp_eq _ _ Hp) as [U' [T' X']]. rewrite U', T', X'.
    set (c0 := cnt h).
    destruct (b_af_counts b0 c0 (get_af1 (gc g)) R1 (fun w => count_z_nonneg w _)) as [E1 [N1 X1]]. cbv zeta in N1, X1.
    set (c1 := fun w => (if get_af1 (gc g) =? w then 1 else 0) + c0 w) in *.
    destruct (b_af_counts (b_af (get_af1 (gc g)) b0) c1 (get_af2 (gc g)) R2
                (fun w => ltac:(unfold c1; pose proof (count_z_nonneg w (af_rx h)); unfold c0, cnt; destruct (_ =? w); lia)))
      as [E2 [N2 X2]]. cbv zeta in N2, X2.
    assert (Hcount : forall w, count_z w ([get_af1 (gc g); get_af2 (gc g)] ++ af_rx h)
                               = (if get_af2 (gc g) =? w then 1 else 0) + c1 w).
    { intros w. cbn [app]. rewrite !count_z_cons. unfold c1, c0, cnt. lia. }
    split; [congruence|]. split.
    + intros Hx Iu. rewrite <- X0 in Hx. rewrite <- U0 in Iu.
      eapply AfInv_ext; [apply N2; [congruence|apply N1; assumption]|].
      intros w _. cbv beta. rewrite Hcount. reflexivity.
    + intros Hx Iu It. rewrite <- X0 in Hx. rewrite <- U0 in Iu. rewrite <- T0 in It.
      destruct (X1 Hx Iu It) as [Iu1 It1]. destruct (X2 ltac:(congruence) Iu1 It1) as [Iu2 It2].
      split; (eapply AfInv_ext; [eassumption|]); intros w _; cbv beta; rewrite Hcount; reflexivity.
  - destruct (afp_eq _ _ Hp) as [U' [T' X']]. rewrite U', T', X'. cbn [app].
    split; [reflexivity|]. split; [intros _ H; exact H|intros _ H1 H2; split; assumption].
Qed.

Lemma reset_state_empty h : wf_hist h -> in_reset_state h = true ->
  d_af (b_used (b_hist lut h)) = af_empty /\ d_af (b_temp (b_hist lut h)) = af_empty /\ af_rx h = [].
Proof.
  induction h as [|o r IH]; intros Hw Hr; [repeat split; reflexivity|].
  inversion Hw as [|? ? Hwo Hwr]; subst.
  destruct o as [| |g|str|v|t k e|t v|u|fd id]; cbn [in_reset_state is_reset] in Hr; try discriminate;
    cbn [b_hist b_step af_rx is_reset op_group]; try (repeat split; reflexivity); try (apply IH; assumption).
Qed.

Theorem af_hist h : wf_hist h ->
  (no_ext h = true -> b_ext (b_hist lut h) = false
                      /\ AfInv (d_af (b_used (b_hist lut h))) (fun w => 1 <=? cnt h w))
  /\ (ext_scope h = true -> b_ext (b_hist lut h) = true
                            /\ AfInv (d_af (b_used (b_hist lut h))) (fun w => 2 <=? cnt h w)
                            /\ AfInv (d_af (b_temp (b_hist lut h))) (fun w => 1 <=? cnt h w)).
Proof.
  induction h as [|o r IH]; intros Hw.
  - split; [intros _|intros H; discriminate]. split; [reflexivity|]. apply af_empty_inv. intros v. reflexivity.
  - inversion Hw as [|? ? Hwo Hwr]; subst. destruct (IH Hwr) as [IHn IHe]. clear IH.
    assert (Empty1 : forall p, (forall v, p v = false) -> AfInv af_empty p) by (intros; apply af_empty_inv; assumption).
    destruct o as [| |g|str|v|t k e|t v|u|fd id]; cbn [no_ext ext_scope b_hist b_step].
    + (* init *) split; [intros _|intros H; discriminate]. split; [reflexivity|]. apply Empty1. intros v. reflexivity.
    + (* clear *) unfold cnt. cbn [af_rx is_reset]. split.
      * intros Hn. destruct (IHn Hn) as [Hx _]. split; [exact Hx|]. apply Empty1. intros v. reflexivity.
      * intros He. destruct (IHe He) as [Hx _]. split; [exact Hx|]. split; apply Empty1; intros v; reflexivity.
    + (* parse *) destruct (af_process g (b_hist lut r) r Hwo) as [Ex [Pn Pe]]. cbv zeta in Ex, Pn, Pe.
      unfold cnt in *. cbn [af_rx is_reset op_group]. split.
      * intros Hn. destruct (IHn Hn) as [Hx Iu]. split; [congruence|]. apply Pn; assumption.
      * intros He. destruct (IHe He) as [Hx [Iu It]]. split; [congruence|]. apply Pe; assumption.
    + (* parse_string *) destruct str as [l|]; [|unfold cnt; cbn [af_rx is_reset op_group]; split; assumption].
      destruct (utils_convert l) as [g|] eqn:E.
      2:{ unfold cnt. cbn [af_rx is_reset op_group]. rewrite E. split; assumption. }
      destruct (af_process g (b_hist lut r) r (utils_convert_wf l g E)) as [Ex [Pn Pe]]. cbv zeta in Ex, Pn, Pe.
      unfold cnt in *. cbn [af_rx is_reset op_group]. rewrite E. split.
      * intros Hn. destruct (IHn Hn) as [Hx Iu]. split; [congruence|]. apply Pn; assumption.
      * intros He. destruct (IHe He) as [Hx [Iu It]]. split; [congruence|]. apply Pe; assumption.
    + (* set_ext *) unfold cnt. cbn [af_rx is_reset op_group]. destruct v; split; try (intros H; discriminate).
      * intros He. apply orb_true_iff in He. destruct He as [Hr|He].
        -- destruct (reset_state_empty r Hwr Hr) as [Eu [Et Er]].
           unfold b_used, b_temp, b_ext. cbn [fst snd]. fold (b_used (b_hist lut r)). fold (b_temp (b_hist lut r)).
           rewrite Eu, Et, Er. split; [reflexivity|]. split; apply Empty1; intros w; reflexivity.
        -- destruct (IHe He) as [_ [Iu It]]. split; [reflexivity|]. split; assumption.
      * intros Hn. destruct (IHn Hn) as [_ Iu]. split; [reflexivity|]. exact Iu.
    + unfold cnt. cbn [af_rx is_reset op_group]. split; assumption.
    + unfold cnt. cbn [af_rx is_reset op_group]. split; assumption.
    + unfold cnt. cbn [af_rx is_reset op_group]. split; assumption.
    + unfold cnt. cbn [af_rx is_reset op_group]. split; assumption.
Qed.

End AfHist.

(* C10 for reachable states: the bitmap the AF getter returns *)
Theorem C10_af_set_holds conv lut h s : reach conv lut h s ->
  (no_ext h = true -> d_af (used s) = bitmap_of (fun v => 1 <=? count_z v (af_rx h)))
  /\ (ext_scope h = true -> d_af (used s) = bitmap_of (fun v => 2 <=? count_z v (af_rx h))).
Proof.
  intros Hr. pose proof (reach_bproj conv lut h s Hr) as Hb. pose proof (reach_wf_hist conv lut h s Hr) as Hw.
  destruct (af_hist lut h Hw) as [Hn He].
  replace (used s) with (b_used (b_hist lut h)) by (rewrite <- Hb; reflexivity).
  split; intros H.
  - destruct (Hn H) as [_ I]. apply (AfInv_bitmap _ _ I).
  - destruct (He H) as [_ [I _]]. apply (AfInv_bitmap _ _ I).
Qed.
