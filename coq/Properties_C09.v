(* Properties_C09.v — obligations of property C09.  Contains only theorem statements closed by
   `exact <lemma>` and Print Assumptions. *)
Require Import ObsRun.
Local Open Scope Z_scope.

(* non-vacuity: the observer of C09 is evaluated (and holds) along a run of the model that
   touches every group kind *)
Example C09_scenario : check_run_u (observer_u 9) scenario = true.
Proof. vm_compute. reflexivity. Qed.
Print Assumptions C09_scenario.
