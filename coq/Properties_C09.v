(* Properties_C09.v — obligations of property C09 (extended check: nothing seen only once ever
   becomes visible). *)
Require Import ObsRun Lemmas_Ext Lemmas_TabEcc Lemmas_ModeInd.
Local Open Scope Z_scope.

(* For EVERY history in which the extended check was switched on while the parser was in its reset
   state and never switched off (ext_scope), after every call: each of PI, PTY, TP, TA, MS, ECC,
   country equals last_confirmed of its reception list since the last reset —
     last_confirmed (x :: y :: r) = if x = y then x else last_confirmed (y :: r), unknown on shorter lists
   (most recent first; the initial unknown value counts as the oldest entry, which only matters for
   the country, whose unknown value 0 can itself be received) — i.e. a new value is taken exactly
   when the two most recent receptions of that field both carried it; and the AF list is the set of
   valid codes received at least twice since the last reset.  A value received once is therefore
   never visible, a stable value appears with a latency of exactly one extra occurrence.  Receptions
   of a field are those of C01 / C11 (errored groups do not count); the country reception is looked
   up with the PI accepted at that moment. *)
Theorem C09_observer : forall h s o, reach conv_u lut_g h s -> wf_op o ->
  obs_C09 lut_g (o :: h) (snap_of s) (snap_of (fst (step_u s o))) (snd (step_u s o)) (ret_of o) = true.
Proof. exact (C09_observer_holds conv_u lut_g lut_g_range). Qed.
Print Assumptions C09_observer.

(* the same, field by field, for any tables whose country values are valid enumerators *)
Theorem C09_scalar_confirmed : forall lut, (forall n e, 0 <= lut n e < 221) ->
  forall f h, wf_hist h -> ext_scope h = true ->
  getf f (b_used (b_hist lut h)) = confirmed (unk f) (sel lut f) h.
Proof.
  intros lut Hl f h Hw He. unfold confirmed. fold (rsx lut f h).
  destruct (sfield_eqb f SCountry) eqn:Ef.
  - destruct f; try discriminate. exact (f_equal fst (ext_hist_country lut Hl h Hw He)).
  - destruct (ext_hist_basic lut f ltac:(intros ->; discriminate) h Hw He) as [_ Hi]. exact (f_equal fst Hi).
Qed.
Print Assumptions C09_scalar_confirmed.

(* the candidate (second stage) is always the most recent reception *)
Theorem C09_candidate_is_last_reception : forall lut f, f <> SCountry -> forall h, wf_hist h -> ext_scope h = true ->
  getf f (b_temp (b_hist lut h)) = hd (unk f) (rsx lut f h).
Proof.
  intros lut f Hf h Hw He. destruct (ext_hist_basic lut f Hf h Hw He) as [_ Hi]. exact (f_equal snd Hi).
Qed.
Print Assumptions C09_candidate_is_last_reception.

(* AF: listed iff received at least twice; the candidates are the codes received at least once *)
Theorem C09_af_twice : forall conv lut h s, reach conv lut h s -> ext_scope h = true ->
  d_af (used s) = bitmap_of (fun v => 2 <=? count_z v (af_rx h)).
Proof. intros conv lut h s Hr He. exact (proj2 (C10_af_set_holds conv lut h s Hr) He). Qed.
Print Assumptions C09_af_twice.

(* TEXTS AND CLOCK TIME ARE NOT SUBJECT TO THE MODE.  Take two parser states that agree on the four
   texts, the A/B register, the text settings, the callbacks and the user data, and differ
   arbitrarily in the extended-check flag and in both stages of the scalar / AF buffer (e.g. the
   same stream fed with and without the check).  Every group keeps them in agreement on the texts,
   and they make exactly the same PS, RT, PTYN and clock-time callbacks. *)
Theorem C09_texts_ignore_the_mode : forall conv lut g s1 s2, Inv conv s1 -> Inv conv s2 -> wf_group g ->
  txt_eq s1 s2 -> txt_eq (fst (process conv lut g s1)) (fst (process conv lut g s2)).
Proof. exact texts_ignore_mode. Qed.
Print Assumptions C09_texts_ignore_the_mode.
Theorem C09_text_and_clock_callbacks_ignore_the_mode : forall conv lut g s1 s2, Inv conv s1 -> Inv conv s2 ->
  wf_group g -> txt_eq s1 s2 -> cb s1 = cb s2 -> ud s1 = ud s2 ->
  forall F, In F [FPS; FRT; FPTYN; FCT] ->
  filter (isf F) (snd (process conv lut g s1)) = filter (isf F) (snd (process conv lut g s2)).
Proof. exact text_and_clock_callbacks_ignore_mode. Qed.
Print Assumptions C09_text_and_clock_callbacks_ignore_the_mode.
(* (on the library: twin runs, one instance with the check, one without) *)
Example C09_scenario : check_run_u (observer_u 9) scenario = true.
Proof. vm_compute. reflexivity. Qed.
Example C09_alternation :
  last_confirmed (-1) [7; 5; 7; 5; -1] = -1 /\ last_confirmed (-1) [7; 7; 5; -1] = 7
  /\ last_confirmed (-1) [5; 7; 7; -1] = 7 /\ last_confirmed (-1) [5; -1] = -1.
Proof. vm_compute. repeat split. Qed.
