(* Lemmas_Leaf_C02.v — the cell addresses of PS, RT and PTYN: the C functions, translated on every run (GenLeaf.v), equal the functions of
   the model for every 16-bit block value (kernel sweep over all 65536 values: any equivalent
   rewrite of the C code still passes, any other has a concrete failing value). *)
Require Export Lemmas_LeafBase.
Require Import ZifyBool.
Local Open Scope Z_scope.

Definition leaf_C02_ok (x : Z) : bool :=
  (c_get_ps_pos 0 x 0 0 =? get_ps_pos x) && (c_get_rt_pos 0 x 0 0 =? get_rt_pos x) && (c_get_ptyn_pos 0 x 0 0 =? get_ptyn_pos x).
Lemma leaf_C02_sweep : all_from (Z.to_nat 65536) 0 leaf_C02_ok = true.
Proof. vm_compute. reflexivity. Qed.

Lemma leaf_get_ps_pos d0 d1 d2 d3 : 0 <= d1 < 65536 -> c_get_ps_pos d0 d1 d2 d3 = get_ps_pos d1.
Proof.
  intros H. pose proof (sweep16 _ leaf_C02_sweep d1 H) as S. unfold leaf_C02_ok in S. split_andb S.
  change (c_get_ps_pos d0 d1 d2 d3) with (c_get_ps_pos 0 d1 0 0). lia.
Qed.
Lemma leaf_get_rt_pos d0 d1 d2 d3 : 0 <= d1 < 65536 -> c_get_rt_pos d0 d1 d2 d3 = get_rt_pos d1.
Proof.
  intros H. pose proof (sweep16 _ leaf_C02_sweep d1 H) as S. unfold leaf_C02_ok in S. split_andb S.
  change (c_get_rt_pos d0 d1 d2 d3) with (c_get_rt_pos 0 d1 0 0). lia.
Qed.
Lemma leaf_get_ptyn_pos d0 d1 d2 d3 : 0 <= d1 < 65536 -> c_get_ptyn_pos d0 d1 d2 d3 = get_ptyn_pos d1.
Proof.
  intros H. pose proof (sweep16 _ leaf_C02_sweep d1 H) as S. unfold leaf_C02_ok in S. split_andb S.
  change (c_get_ptyn_pos d0 d1 d2 d3) with (c_get_ptyn_pos 0 d1 0 0). lia.
Qed.
