(* Properties_Mid_C12.v — C12 at the level of the code: rdsparser_group4_parse (src/group4.c),
   translated on every run with the local rdsparser_ct_t and the callback that receives a pointer to
   it, is the model's group4_parse: a clock-time report exactly for a 4A group with error-free
   blocks B, C, D, a registered callback and a valid time; what the callback reads through the six
   getters (ev_view) is the model's report; nothing of the parser changes. *)
Require Import Lemmas_Mid_G4.
Local Open Scope Z_scope.

Theorem C12_code_group4 : forall g flag s evs, wf_group g ->
  exists new,
    m_group4_parse (cb s FCT) evs (ud s) (ga g) (gb g) (gc g) (gd g) (ea g) (eb g) (ec g) (ed g) flag = (0, evs ++ new)
    /\ map ev_view new = map ev_call (snd (group4_parse g flag s))
    /\ fst (group4_parse g flag s) = s.
Proof. exact mid_group4_parse. Qed.
Print Assumptions C12_code_group4.
