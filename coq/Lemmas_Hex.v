(* Lemmas_Hex.v — C14: rdsparser_parse_string accepts exactly the strings of 16 or 18 hexadecimal
   digits, then behaves as rdsparser_parse on the decoded group; every other input is inert. *)
Require Export Lemmas_Step.
Require Import ZifyBool.
Local Open Scope Z_scope.
Ltac Zify.zify_post_hook ::= Z.div_mod_to_equations.

Lemma hexval_spec c : hexval c = if is_hexdigit c then Some (digit_val c) else None.
Proof.
  unfold hexval, is_hexdigit, digit_val.
  destruct ((48 <=? c) && (c <=? 57)) eqn:E1.
  - replace (c <=? 57) with true by lia. cbn [orb]. reflexivity.
  - destruct ((97 <=? c) && (c <=? 102)) eqn:E2.
    + replace ((65 <=? c) && (c <=? 70)) with false by lia. cbn [orb].
      replace (c <=? 57) with false by lia. replace (c <=? 70) with false by lia. reflexivity.
    + destruct ((65 <=? c) && (c <=? 70)) eqn:E3; cbn [orb]; [|reflexivity].
      replace (c <=? 57) with false by lia. replace (c <=? 70) with true by lia. reflexivity.
Qed.
Lemma digit_val_range c : is_hexdigit c = true -> 0 <= digit_val c < 16.
Proof. unfold is_hexdigit, digit_val. intros H. destruct (c <=? 57) eqn:E1; [lia|]. destruct (c <=? 70) eqn:E2; lia. Qed.

Definition lor16_ok : bool :=
  all_from (Z.to_nat 4096) 0 (fun acc => all_from 16 0 (fun d => to_u16 (Z.lor (Z.shiftl acc 4) d) =? 16 * acc + d)).
Lemma lor16_sweep : lor16_ok = true.
Proof. vm_compute. reflexivity. Qed.
Lemma lor16 acc d : 0 <= acc < 4096 -> 0 <= d < 16 -> to_u16 (Z.lor (Z.shiftl acc 4) d) = 16 * acc + d.
Proof.
  intros Ha Hd. pose proof (all_from_spec _ _ _ lor16_sweep acc ltac:(rewrite Z2Nat.id; lia)) as H1. cbv beta in H1.
  pose proof (all_from_spec _ _ _ H1 d ltac:(lia)) as H2. cbv beta in H2. lia.
Qed.

(* at most four digits: the 16-bit accumulator never wraps *)
Lemma parse_hex_value l : forall k acc, (length l + k = 4)%nat -> 0 <= acc < 16 ^ Z.of_nat k ->
  forallb is_hexdigit l = true ->
  parse_hex l acc = Some (hex_value l acc) /\ 0 <= hex_value l acc < 65536.
Proof.
  induction l as [|c r IH]; intros k acc Hk Ha Hf; cbn [parse_hex hex_value].
  - split; [reflexivity|]. cbn in Hk. subst k. cbn in Ha. lia.
  - cbn [forallb] in Hf. apply andb_true_iff in Hf. destruct Hf as [Hc Hr].
    rewrite hexval_spec, Hc. pose proof (digit_val_range c Hc) as Hd.
    assert (Hk3 : (k <= 3)%nat) by (cbn in Hk; lia).
    assert (Hp : 16 ^ Z.of_nat k <= 4096).
    { destruct k as [|[|[|[|k]]]]; cbn; try lia. }
    rewrite lor16 by lia.
    apply (IH (S k)); [cbn in Hk |- *; lia| |exact Hr].
    rewrite Nat2Z.inj_succ, Z.pow_succ_r by lia. lia.
Qed.

Lemma parse_hex_digits l : forall acc v, parse_hex l acc = Some v -> forallb is_hexdigit l = true.
Proof.
  induction l as [|c r IH]; intros acc v H; cbn [parse_hex forallb] in *; [reflexivity|].
  rewrite hexval_spec in H. destruct (is_hexdigit c); [|discriminate]. cbn [andb]. eapply IH; exact H.
Qed.

Lemma forallb_firstn {A} (p : A -> bool) n l : forallb p l = true -> forallb p (firstn n l) = true.
Proof.
  revert n; induction l as [|x r IH]; intros [|n] H; cbn [firstn forallb] in *; try reflexivity.
  apply andb_true_iff in H. destruct H as [H1 H2]. rewrite H1, (IH n H2). reflexivity.
Qed.
Lemma forallb_skipn {A} (p : A -> bool) n l : forallb p l = true -> forallb p (skipn n l) = true.
Proof.
  revert n; induction l as [|x r IH]; intros [|n] H; cbn [skipn forallb] in *; try reflexivity; try exact H.
  apply andb_true_iff in H. destruct H as [H1 H2]. apply (IH n H2).
Qed.

Lemma piece_ok l n : forallb is_hexdigit l = true -> (n + 4 <= length l)%nat ->
  parse_hex (firstn 4 (skipn n l)) 0 = Some (hex_value (firstn 4 (skipn n l)) 0)
  /\ 0 <= hex_value (firstn 4 (skipn n l)) 0 < 65536.
Proof.
  intros Hf Hl. apply (parse_hex_value _ 0%nat); [|cbn; lia|apply forallb_firstn, forallb_skipn, Hf].
  rewrite firstn_length, skipn_length. lia.
Qed.

Theorem utils_convert_spec l : hex_ok l = true -> utils_convert l = Some (decode l).
Proof.
  unfold hex_ok. intros H. apply andb_true_iff in H. destruct H as [Hlen Hf].
  unfold utils_convert, decode.
  assert (L16 : (16 <= length l)%nat).
  { apply orb_true_iff in Hlen. destruct Hlen as [E|E]; apply Nat.eqb_eq in E; lia. }
  destruct (piece_ok l 0 Hf ltac:(lia)) as [P0 R0]. cbn [skipn] in P0, R0.
  destruct (piece_ok l 4 Hf ltac:(lia)) as [P1 R1].
  destruct (piece_ok l 8 Hf ltac:(lia)) as [P2 R2].
  destruct (piece_ok l 12 Hf ltac:(lia)) as [P3 R3].
  assert (He : exists e, (if Nat.eqb (length l) 16 then Some 0
                          else if Nat.eqb (length l) 18 then parse_hex (skipn 16 l) 0 else None) = Some e
                         /\ to_u8 e = hex_value (skipn 16 l) 0 /\ 0 <= hex_value (skipn 16 l) 0 < 256).
  { destruct (Nat.eqb (length l) 16) eqn:E16.
    - apply Nat.eqb_eq in E16. exists 0. rewrite skipn_all2 by lia. cbn. repeat split; lia.
    - apply orb_true_iff in Hlen. destruct Hlen as [E|E]; [congruence|]. rewrite E. apply Nat.eqb_eq in E.
      destruct (parse_hex_value (skipn 16 l) 2%nat 0 ltac:(rewrite skipn_length; lia) ltac:(cbn; lia)
                                (forallb_skipn _ 16 l Hf)) as [Pe Re].
      exists (hex_value (skipn 16 l) 0). split; [exact Pe|].
      (* two digits: below 256 *)
      assert (Hlt : 0 <= hex_value (skipn 16 l) 0 < 256).
      { assert (Hl2 : length (skipn 16 l) = 2%nat) by (rewrite skipn_length; lia).
        pose proof (forallb_skipn _ 16 l Hf) as Hf2.
        destruct (skipn 16 l) as [|a [|b [|c r]]]; cbn in Hl2; try lia.
        cbn [forallb] in Hf2. apply andb_true_iff in Hf2. destruct Hf2 as [Ha Hb].
        apply andb_true_iff in Hb. destruct Hb as [Hb _].
        pose proof (digit_val_range a Ha). pose proof (digit_val_range b Hb). cbn [hex_value]. lia. }
      split; [unfold to_u8; rewrite Z.mod_small; lia|exact Hlt]. }
  destruct He as [e [Ee [Eu Re]]]. rewrite Ee, P0, P1, P2, P3.
  rewrite Eu. pose proof (errbits _ Re) as Hb. unfold errbits_ok in Hb. split_andb Hb.
  f_equal. f_equal; lia.
Qed.

Lemma skipn_skipn_add {A} n m (l : list A) : skipn n (skipn m l) = skipn (m + n) l.
Proof.
  revert l; induction m as [|m IH]; intros l; [reflexivity|].
  destruct l as [|x r]; [destruct n; reflexivity|]. cbn [skipn plus]. apply IH.
Qed.

Lemma split4 {A} (l : list A) :
  l = firstn 4 l ++ firstn 4 (skipn 4 l) ++ firstn 4 (skipn 8 l) ++ firstn 4 (skipn 12 l) ++ skipn 16 l.
Proof.
  transitivity (firstn 4 l ++ skipn 4 l); [symmetry; apply firstn_skipn|]. f_equal.
  transitivity (firstn 4 (skipn 4 l) ++ skipn 4 (skipn 4 l)); [symmetry; apply firstn_skipn|]. f_equal.
  rewrite skipn_skipn_add. change (4 + 4)%nat with 8%nat.
  transitivity (firstn 4 (skipn 8 l) ++ skipn 4 (skipn 8 l)); [symmetry; apply firstn_skipn|]. f_equal.
  rewrite skipn_skipn_add. change (8 + 4)%nat with 12%nat.
  transitivity (firstn 4 (skipn 12 l) ++ skipn 4 (skipn 12 l)); [symmetry; apply firstn_skipn|]. f_equal.
  rewrite skipn_skipn_add. reflexivity.
Qed.

Theorem utils_convert_accepts l : is_some (utils_convert l) = hex_ok l.
Proof.
  destruct (hex_ok l) eqn:H; [rewrite (utils_convert_spec l H); reflexivity|].
  destruct (utils_convert l) as [g|] eqn:E; [|reflexivity]. exfalso.
  unfold utils_convert in E.
  destruct (Nat.eqb (length l) 16) eqn:E16; [|destruct (Nat.eqb (length l) 18) eqn:E18; [|discriminate]].
  - destruct (parse_hex (firstn 4 l) 0) eqn:A; [|discriminate].
    destruct (parse_hex (firstn 4 (skipn 4 l)) 0) eqn:B; [|discriminate].
    destruct (parse_hex (firstn 4 (skipn 8 l)) 0) eqn:C; [|discriminate].
    destruct (parse_hex (firstn 4 (skipn 12 l)) 0) eqn:D; [|discriminate].
    apply parse_hex_digits in A, B, C, D. apply Nat.eqb_eq in E16.
    pose proof (split4 l) as Hl. assert (Hs16 : skipn 16 l = []) by (apply skipn_all2; lia). rewrite Hs16 in Hl. rewrite app_nil_r in Hl.
    unfold hex_ok in H. rewrite E16 in H. cbn [Nat.eqb orb andb] in H.
    rewrite Hl in H. rewrite !forallb_app, A, B, C, D in H. discriminate.
  - destruct (parse_hex (skipn 16 l) 0) eqn:Ee; [|discriminate].
    destruct (parse_hex (firstn 4 l) 0) eqn:A; [|discriminate].
    destruct (parse_hex (firstn 4 (skipn 4 l)) 0) eqn:B; [|discriminate].
    destruct (parse_hex (firstn 4 (skipn 8 l)) 0) eqn:C; [|discriminate].
    destruct (parse_hex (firstn 4 (skipn 12 l)) 0) eqn:D; [|discriminate].
    apply parse_hex_digits in A, B, C, D, Ee.
    pose proof (split4 l) as Hl.
    unfold hex_ok in H. rewrite E18, orb_true_r in H. cbn [andb] in H.
    rewrite Hl in H. rewrite !forallb_app, A, B, C, D, Ee in H. discriminate.
Qed.
