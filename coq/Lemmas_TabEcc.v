(* Lemmas_TabEcc.v — kernel-evaluated facts about the ECC lookup graph (16 PI nibbles x 256 ECC
   values) measured on the compiled library (Gen.v).  Used by C11. *)
Require Import Observers Inst Ref_Tables Lemmas_Base.
Require Gen.
From Coq Require Import String.
Local Open Scope Z_scope.

(* ---------- ECC ---------- *)
Fixpoint enum_value (e : string) (l : list (string * Z)) : Z :=
  match l with
  | [] => -1
  | (e', v) :: r => if String.eqb e e' then v else enum_value e r
  end.
Fixpoint ref_ecc_cell (nib ecc : Z) (l : list (Z * Z * string)) : Z :=
  match l with
  | [] => 0
  | (n, e, c) :: r => if (n =? nib) && (e =? ecc) then enum_value c Gen.country_enum else ref_ecc_cell nib ecc r
  end.
Definition in_ecc_ranges (ecc : Z) : bool :=
  ((160 <=? ecc) && (ecc <=? 166)) || ((208 <=? ecc) && (ecc <=? 212))
  || ((224 <=? ecc) && (ecc <=? 229)) || ((240 <=? ecc) && (ecc <=? 244)).
Definition ecc_ok : bool :=
  Nat.eqb (List.length Gen.ecc_lut) 16
  && forallb (fun r => Nat.eqb (List.length r) 256) Gen.ecc_lut
  && (Gen.ecc_graph_bad_pi =? -2)
  && all_from 16 0 (fun nib => all_from 256 0 (fun ecc =>
       let v := lut_g nib ecc in
       (v =? ref_ecc_cell nib ecc ref_ecc) && (0 <=? v) && (v <? 221)
       && (if (nib =? 0) || negb (in_ecc_ranges ecc) then v =? 0 else true))).
Lemma ecc_table_is_reference : ecc_ok = true.
Proof. vm_compute. reflexivity. Qed.

(* every value the lookup can return is a valid country enumerator, for ANY arguments *)
Lemma lut_g_range : forall n e, 0 <= lut_g n e < 221.
Proof.
  intros n e. pose proof ecc_table_is_reference as H. unfold ecc_ok in H.
  apply andb_true_iff in H. destruct H as [H Hsw].
  apply andb_true_iff in H. destruct H as [H _].
  apply andb_true_iff in H. destruct H as [Hlen Hrows].
  apply Nat.eqb_eq in Hlen.
  unfold lut_g.
  destruct (Nat.lt_ge_cases (Z.to_nat n) 16) as [Hn|Hn].
  2:{ rewrite (nth_overflow Gen.ecc_lut []) by lia. destruct (Z.to_nat e); simpl; lia. }
  assert (Hr : List.length (nth (Z.to_nat n) Gen.ecc_lut []) = 256%nat).
  { rewrite forallb_forall in Hrows. apply Nat.eqb_eq. apply Hrows. apply nth_In. lia. }
  destruct (Nat.lt_ge_cases (Z.to_nat e) 256) as [He|He].
  2:{ rewrite nth_overflow by lia. lia. }
  pose proof (all_from_spec _ _ _ Hsw (Z.of_nat (Z.to_nat n)) ltac:(simpl; lia)) as H1. cbv beta in H1.
  pose proof (all_from_spec _ _ _ H1 (Z.of_nat (Z.to_nat e)) ltac:(simpl; lia)) as H2. cbv beta zeta in H2.
  unfold lut_g in H2. rewrite !Nat2Z.id in H2.
  apply andb_true_iff in H2. destruct H2 as [H2 _].
  apply andb_true_iff in H2. destruct H2 as [H2 H3].
  apply andb_true_iff in H2. destruct H2 as [_ H2].
  apply Z.leb_le in H2. apply Z.ltb_lt in H3. lia.
Qed.
