(* Lemmas_Leaf.v — the leaf functions of the model ARE the leaf functions of the sources.
   GenLeaf.v is generated on every run from clang's typed AST of the C sources (tools/cleaf.py):
   one Gallina definition per C function, every implicit conversion explicit.  Here each of them is
   proved equal, for all arguments in the C parameter ranges, to the function the model uses.
   Single-block extractors: kernel sweep over all 65536 values (any equivalent rewrite of the C code
   still passes, any inequivalent one fails at a concrete value).  Two-block extractors: the
   generated term reads one block only through a small mask; that sub-term is generalised and both
   are swept.  Clock time: case analysis on the conditions of the C code. *)
Require Export Lemmas_Bits GenLeaf.
Require Import ZifyBool.
Local Open Scope Z_scope.
Ltac Zify.zify_post_hook ::= Z.div_mod_to_equations.

(* ---------- block B ---------- *)
Definition leaf_B_ok (b : Z) : bool :=
  (c_get_pty 0 b 0 0 =? get_pty b) && (c_get_tp 0 b 0 0 =? get_tp b)
  && (c_get_group 0 b 0 0 =? get_group b) && (c_get_flag 0 b 0 0 =? get_flag b)
  && (c_get_ta 0 b 0 0 =? get_ta b) && (c_get_ms 0 b 0 0 =? get_ms b)
  && (c_get_ps_pos 0 b 0 0 =? get_ps_pos b) && (c_get_rt_pos 0 b 0 0 =? get_rt_pos b)
  && (c_get_rt_flag 0 b 0 0 =? get_rt_flag b) && (c_get_ptyn_pos 0 b 0 0 =? get_ptyn_pos b).
Lemma leaf_B_sweep : all_from (Z.to_nat 65536) 0 leaf_B_ok = true.
Proof. vm_compute. reflexivity. Qed.
Lemma leaf_B b : 0 <= b < 65536 -> leaf_B_ok b = true.
Proof. intros Hb. apply (all_from_spec _ _ _ leaf_B_sweep). rewrite Z2Nat.id; lia. Qed.

(* ---------- block C ---------- *)
Definition leaf_C_ok (c : Z) : bool :=
  (c_get_af1 0 0 c 0 =? get_af1 c) && (c_get_af2 0 0 c 0 =? get_af2 c)
  && (c_get_variant 0 0 c 0 =? get_variant c) && (c_get_ecc 0 0 c 0 =? get_ecc c).
Lemma leaf_C_sweep : all_from (Z.to_nat 65536) 0 leaf_C_ok = true.
Proof. vm_compute. reflexivity. Qed.
Lemma leaf_C c : 0 <= c < 65536 -> leaf_C_ok c = true.
Proof. intros Hc. apply (all_from_spec _ _ _ leaf_C_sweep). rewrite Z2Nat.id; lia. Qed.

(* ---------- block D ---------- *)
Definition leaf_D_ok (d : Z) : bool :=
  (c_get_minute 0 0 0 d =? get_minute d) && (c_get_offset 0 0 0 d =? get_offset d).
Lemma leaf_D_sweep : all_from (Z.to_nat 65536) 0 leaf_D_ok = true.
Proof. vm_compute. reflexivity. Qed.
Lemma leaf_D d : 0 <= d < 65536 -> leaf_D_ok d = true.
Proof. intros Hd. apply (all_from_spec _ _ _ leaf_D_sweep). rewrite Z2Nat.id; lia. Qed.

(* ---------- the functions of the model, as the translated C functions ---------- *)
Section Single.
Variables d0 d1 d2 d3 : Z.
Hypothesis H1 : 0 <= d1 < 65536.
Hypothesis H2 : 0 <= d2 < 65536.
Hypothesis H3 : 0 <= d3 < 65536.

Ltac from_sweep L x Hx :=
  let H := fresh in pose proof (L x Hx) as H; unfold leaf_B_ok, leaf_C_ok, leaf_D_ok in H; split_andb H;
  match goal with |- ?f _ _ _ _ = _ => change (f d0 d1 d2 d3) with (f 0 x 0 0) || change (f d0 d1 d2 d3) with (f 0 0 x 0)
                                       || change (f d0 d1 d2 d3) with (f 0 0 0 x) end;
  lia.

Lemma leaf_get_pi : c_get_pi d0 d1 d2 d3 = d0.                   Proof. reflexivity. Qed.
Lemma leaf_get_pty : c_get_pty d0 d1 d2 d3 = get_pty d1.           Proof. from_sweep leaf_B d1 H1. Qed.
Lemma leaf_get_tp : c_get_tp d0 d1 d2 d3 = get_tp d1.              Proof. from_sweep leaf_B d1 H1. Qed.
Lemma leaf_get_group : c_get_group d0 d1 d2 d3 = get_group d1.     Proof. from_sweep leaf_B d1 H1. Qed.
Lemma leaf_get_flag : c_get_flag d0 d1 d2 d3 = get_flag d1.        Proof. from_sweep leaf_B d1 H1. Qed.
Lemma leaf_get_ta : c_get_ta d0 d1 d2 d3 = get_ta d1.              Proof. from_sweep leaf_B d1 H1. Qed.
Lemma leaf_get_ms : c_get_ms d0 d1 d2 d3 = get_ms d1.              Proof. from_sweep leaf_B d1 H1. Qed.
Lemma leaf_get_ps_pos : c_get_ps_pos d0 d1 d2 d3 = get_ps_pos d1.  Proof. from_sweep leaf_B d1 H1. Qed.
Lemma leaf_get_rt_pos : c_get_rt_pos d0 d1 d2 d3 = get_rt_pos d1.  Proof. from_sweep leaf_B d1 H1. Qed.
Lemma leaf_get_rt_flag : c_get_rt_flag d0 d1 d2 d3 = get_rt_flag d1. Proof. from_sweep leaf_B d1 H1. Qed.
Lemma leaf_get_ptyn_pos : c_get_ptyn_pos d0 d1 d2 d3 = get_ptyn_pos d1. Proof. from_sweep leaf_B d1 H1. Qed.
Lemma leaf_get_af1 : c_get_af1 d0 d1 d2 d3 = get_af1 d2.           Proof. from_sweep leaf_C d2 H2. Qed.
Lemma leaf_get_af2 : c_get_af2 d0 d1 d2 d3 = get_af2 d2.           Proof. from_sweep leaf_C d2 H2. Qed.
Lemma leaf_get_variant : c_get_variant d0 d1 d2 d3 = get_variant d2. Proof. from_sweep leaf_C d2 H2. Qed.
Lemma leaf_get_ecc : c_get_ecc d0 d1 d2 d3 = get_ecc d2.           Proof. from_sweep leaf_C d2 H2. Qed.
Lemma leaf_get_minute : c_get_minute d0 d1 d2 d3 = get_minute d3.  Proof. from_sweep leaf_D d3 H3. Qed.
Lemma leaf_get_offset : c_get_offset d0 d1 d2 d3 = get_offset d3.  Proof. from_sweep leaf_D d3 H3. Qed.
End Single.

(* ---------- two blocks: MJD (B, C) and hour (C, D) ---------- *)
Definition leaf_mjd_ok (c : Z) : bool :=
  (c_get_mjd 0 0 c 0 =? get_mjd 0 c) && (c_get_mjd 0 1 c 0 =? get_mjd 1 c)
  && (c_get_mjd 0 2 c 0 =? get_mjd 2 c) && (c_get_mjd 0 3 c 0 =? get_mjd 3 c).
Lemma leaf_mjd_sweep : all_from (Z.to_nat 65536) 0 leaf_mjd_ok = true.
Proof. vm_compute. reflexivity. Qed.
Definition leaf_hour_ok (d : Z) : bool :=
  (c_get_hour 0 0 0 d =? get_hour 0 d) && (c_get_hour 0 0 1 d =? get_hour 1 d).
Lemma leaf_hour_sweep : all_from (Z.to_nat 65536) 0 leaf_hour_ok = true.
Proof. vm_compute. reflexivity. Qed.

Lemma land_idem x m : Z.land (Z.land x m) m = Z.land x m.
Proof. rewrite <- Z.land_assoc, Z.land_diag. reflexivity. Qed.
Lemma land3_mod x : 0 <= x -> Z.land x 3 = x mod 4.
Proof. intros H. change 3 with (Z.ones 2). rewrite Z.land_ones by lia. reflexivity. Qed.
Lemma land1_mod x : 0 <= x -> Z.land x 1 = x mod 2.
Proof. intros H. change 1 with (Z.ones 1). rewrite Z.land_ones by lia. reflexivity. Qed.
Lemma land3_cases x : 0 <= x -> Z.land x 3 = 0 \/ Z.land x 3 = 1 \/ Z.land x 3 = 2 \/ Z.land x 3 = 3.
Proof. intros H. rewrite (land3_mod x H). lia. Qed.
Lemma land1_cases x : 0 <= x -> Z.land x 1 = 0 \/ Z.land x 1 = 1.
Proof. intros H. rewrite (land1_mod x H). lia. Qed.

Lemma leaf_get_mjd d0 d1 d2 d3 : 0 <= d1 < 65536 -> 0 <= d2 < 65536 ->
  c_get_mjd d0 d1 d2 d3 = get_mjd d1 d2.
Proof.
  intros H1 H2.
  (* both sides read block B only through B & 3 *)
  assert (E1 : c_get_mjd d0 d1 d2 d3 = c_get_mjd 0 (Z.land d1 3) d2 0)
    by (unfold c_get_mjd; rewrite land_idem; reflexivity).
  assert (E2 : get_mjd d1 d2 = get_mjd (Z.land d1 3) d2)
    by (unfold get_mjd; rewrite land_idem; reflexivity).
  rewrite E1, E2.
  pose proof (all_from_spec _ _ _ leaf_mjd_sweep d2 ltac:(rewrite Z2Nat.id; lia)) as S.
  unfold leaf_mjd_ok in S. split_andb S.
  destruct (land3_cases d1 ltac:(lia)) as [K|[K|[K|K]]]; rewrite K; apply Z.eqb_eq; assumption.
Qed.

Lemma leaf_get_hour d0 d1 d2 d3 : 0 <= d2 < 65536 -> 0 <= d3 < 65536 ->
  c_get_hour d0 d1 d2 d3 = get_hour d2 d3.
Proof.
  intros H2 H3.
  assert (E1 : c_get_hour d0 d1 d2 d3 = c_get_hour 0 0 (Z.land d2 1) d3)
    by (unfold c_get_hour; rewrite land_idem; reflexivity).
  assert (E2 : get_hour d2 d3 = get_hour (Z.land d2 1) d3)
    by (unfold get_hour; rewrite land_idem; reflexivity).
  rewrite E1, E2.
  pose proof (all_from_spec _ _ _ leaf_hour_sweep d3 ltac:(rewrite Z2Nat.id; lia)) as S.
  unfold leaf_hour_ok in S. split_andb S.
  destruct (land1_cases d2 ltac:(lia)) as [K|K]; rewrite K; apply Z.eqb_eq; assumption.
Qed.

(* ---------- the weighted error level: all 256 x 256 error-code pairs ---------- *)
Definition leaf_err_ok (i : Z) : bool :=
  all_from (Z.to_nat 256) 0 (fun d => c_calc_error i d =? calc_error i d).
Lemma leaf_err_sweep : all_from (Z.to_nat 256) 0 leaf_err_ok = true.
Proof. vm_compute. reflexivity. Qed.
Lemma leaf_calc_error i d : 0 <= i < 256 -> 0 <= d < 256 -> c_calc_error i d = calc_error i d.
Proof.
  intros Hi Hd.
  pose proof (all_from_spec _ _ _ leaf_err_sweep i ltac:(rewrite Z2Nat.id; lia)) as S. unfold leaf_err_ok in S.
  pose proof (all_from_spec _ _ _ S d ltac:(rewrite Z2Nat.id; lia)) as S2. cbv beta in S2. lia.
Qed.
