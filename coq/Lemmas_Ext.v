(* Lemmas_Ext.v — C09: under the extended check (switched on in the reset state, never off) each
   of the seven buffered scalars equals last_confirmed of its reception list: a value becomes
   visible exactly when the two most recent receptions of that field both carried it. *)
Require Export Lemmas_AfHist Lemmas_Ecc.
Require Import ZifyBool.
Local Open Scope Z_scope.

Definition pairf (f : sfield) (b : bst) : Z * Z := (getf f (b_used b), getf f (b_temp b)).
(* RDSPARSER_BUFFER_UPDATE on the (accepted, candidate) pair of one field *)
Definition macro (x : bool) (p : Z * Z) (v : Z) : Z * Z :=
  if (fst p =? v) || (x && negb (snd p =? v)) then (fst p, v) else (v, snd p).

Lemma pairf_b_set f f' v b :
  pairf f' (b_set f v b) = if sfield_eqb f f' then macro (b_ext b) (pairf f b) v else pairf f' b.
Proof.
  destruct b as [[u t] x]. unfold pairf, b_set, macro, b_used, b_temp, b_ext. cbn [fst snd].
  destruct ((getf f u =? v) || (x && negb (getf f t =? v))); cbn [fst snd]; rewrite !getf_setf;
    destruct (sfield_eqb f f') eqn:E; try reflexivity;
    destruct f, f'; try discriminate; reflexivity.
Qed.
Lemma pairf_b_af f v b : pairf f (b_af v b) = pairf f b.
Proof.
  destruct b as [[u t] x]. unfold pairf, b_af, b_used, b_temp. cbn [fst snd].
  destruct (negb _); [|reflexivity]. destruct (x && _).
  - destruct (af_set (d_af t) v) as [[a r]|]; cbn [fst snd]; rewrite ?getf_set_af; reflexivity.
  - destruct (af_set (d_af u) v) as [[a r]|]; cbn [fst snd]; rewrite ?getf_set_af; reflexivity.
Qed.

(* the macro against last_confirmed: rs' is the reception list so far with the initial value at
   its end; the accepted value is last_confirmed, the candidate the most recent reception *)
Lemma macro_confirmed unk rs v : rs <> [] ->
  macro true (last_confirmed unk rs, hd unk rs) v = (last_confirmed unk (v :: rs), v).
Proof.
  intros Hne. destruct rs as [|t r]; [contradiction|]. cbn [hd]. unfold macro. cbn [fst snd andb].
  change (last_confirmed unk (v :: t :: r)) with (if v =? t then v else last_confirmed unk (t :: r)).
  destruct (Z.eqb_spec t v) as [->|N].
  - rewrite Z.eqb_refl. cbn [negb]. rewrite orb_false_r.
    destruct (Z.eqb_spec (last_confirmed unk (v :: r)) v) as [E|E]; [rewrite E; reflexivity|reflexivity].
  - cbn [negb]. rewrite orb_true_r. replace (v =? t) with false by lia. reflexivity.
Qed.

Section Ext.
Variable lut : Z -> Z -> Z.

(* receptions with the extractors of the sources; the country needs the PI accepted so far *)
Definition rxe (f : sfield) (b : bst) (g : group) : option Z :=
  match f with
  | SEcc => if cond_1A0 g then Some (get_ecc (gc g)) else None
  | SCountry => if cond_1A0 g
                then Some (ecc_lookup lut (fst (match rxs SPi g with
                                                 | Some v => macro (b_ext b) (pairf SPi b) v
                                                 | None => pairf SPi b end)) (get_ecc (gc g)))
                else None
  | _ => rxs f g
  end.

Lemma b_group_parse_pair f g b :
  pairf f (b_group_parse g b) =
  match f with
  | SPi | SPty | STp => match rxs f g with Some v => macro (b_ext b) (pairf f b) v | None => pairf f b end
  | _ => pairf f b
  end.
Proof.
  unfold b_group_parse, rxs. cbv zeta.
  destruct (ea g =? 0), (eb g =? 0); destruct f;
    rewrite ?pairf_b_set, ?b_set_ext; cbn [sfield_eqb]; rewrite ?pairf_b_set, ?b_set_ext; cbn [sfield_eqb];
    rewrite ?pairf_b_set, ?b_set_ext; cbn [sfield_eqb]; reflexivity.
Qed.
Lemma b_group_parse_ext g b : b_ext (b_group_parse g b) = b_ext b.
Proof. unfold b_group_parse. cbv zeta. destruct (ea g =? 0), (eb g =? 0); rewrite ?b_set_ext; reflexivity. Qed.

Lemma b_process_pair f g b :
  pairf f (b_process lut g b) = match rxe f b g with Some v => macro (b_ext b) (pairf f b) v | None => pairf f b end.
Proof.
  unfold b_process, b_dispatch, b_group0, b_group1.
  pose proof (b_group_parse_pair f g b) as Hgp. pose proof (b_group_parse_ext g b) as Hge.
  pose proof (b_group_parse_pair SPi g b) as Hpi. cbv beta iota in Hpi.
  set (b2 := b_group_parse g b) in *.
  unfold rxe, cond_1A0, rxs in *.
  destruct (get_group (gb g) =? 0) eqn:G0; destruct (get_group (gb g) =? 1) eqn:G1; cbn [andb];
    try (apply Z.eqb_eq in G0; apply Z.eqb_eq in G1; lia).
  - (* type 0 *)
    cbv zeta. destruct (eb g =? 0) eqn:Eb; cbn [andb];
      repeat match goal with |- context [if ?c then _ else _] =>
               match c with context [f] => fail 1 | _ => destruct c end end;
      rewrite ?pairf_b_af, ?pairf_b_set, ?b_set_ext, ?b_af_ext; cbn [sfield_eqb];
      rewrite ?pairf_b_set, ?b_set_ext; cbn [sfield_eqb];
      destruct f; cbn [sfield_eqb]; rewrite ?Hgp, ?Hge; try reflexivity; rewrite ?Eb; try reflexivity.
  - (* type 1 *)
    destruct ((get_flag (gb g) =? 0) && (eb g =? 0) && (ec g =? 0) && (get_variant (gc g) =? 0)) eqn:C; cbv zeta.
    + rewrite !pairf_b_set, !b_set_ext. unfold b_used at 1. 
      destruct f; cbn [sfield_eqb]; rewrite ?pairf_b_set; cbn [sfield_eqb]; rewrite ?Hgp, ?Hge; try reflexivity.
      (* country: looked up with the PI accepted after this group's block A *)
      f_equal. f_equal.
      change (d_pi (fst (fst (b_set SEcc (get_ecc (gc g)) b2)))) with (getf SPi (b_used (b_set SEcc (get_ecc (gc g)) b2))).
      change (getf SPi (b_used (b_set SEcc (get_ecc (gc g)) b2))) with (fst (pairf SPi (b_set SEcc (get_ecc (gc g)) b2))).
      rewrite pairf_b_set. cbn [sfield_eqb]. rewrite Hpi. reflexivity.
    + destruct f; rewrite ?Hgp; reflexivity.
  - destruct f; rewrite ?Hgp; reflexivity.
Qed.

End Ext.

Section ExtHist.
Variable lut : Z -> Z -> Z.
Hypothesis lut_range : forall n e, 0 <= lut n e < 221.

Definition unk (f : sfield) : Z := match f with SCountry => 0 | _ => -1 end.
Definition sel (f : sfield) : list op -> group -> option Z :=
  match f with
  | SPi => fun _ => rx_pi | SPty => fun _ => rx_pty | STp => fun _ => rx_tp | STa => fun _ => rx_ta
  | SMs => fun _ => rx_ms | SEcc => fun _ => rx_ecc | SCountry => rx_country_ext lut
  end.
Definition rsx (f : sfield) (h : list op) : list Z := rx_list (sel f) h ++ [unk f].

Lemma rsx_nonempty f h : rsx f h <> [].
Proof. unfold rsx. destruct (rx_list (sel f) h); discriminate. Qed.

Lemma reset_state_scalars f h : wf_hist h -> in_reset_state h = true ->
  pairf f (b_hist lut h) = (unk f, unk f) /\ rx_list (sel f) h = [].
Proof.
  induction h as [|o r IH]; intros Hw Hr.
  - split; [destruct f; reflexivity|reflexivity].
  - inversion Hw as [|? ? Hwo Hwr]; subst.
    destruct o as [| |g|str|v|t k e|t v|u|fd id]; cbn [in_reset_state is_reset] in Hr; try discriminate;
      cbn [b_hist b_step rx_list is_reset op_group]; try (split; [destruct f; reflexivity|reflexivity]);
      try (apply IH; assumption).
Qed.

(* one group under the check: the pair of field f moves by `macro` with the value the group
   delivers, if any *)
Definition inv_f (f : sfield) (h : list op) : Prop :=
  pairf f (b_hist lut h) = (last_confirmed (unk f) (rsx f h), hd (unk f) (rsx f h)).

Lemma step_inv_f f g h v_opt : b_ext (b_hist lut h) = true -> inv_f f h ->
  rxe lut f (b_hist lut h) g = v_opt -> sel f (OParse g :: h) g = v_opt ->
  forall o, op_group o = Some g -> is_reset o = false -> b_step lut (b_hist lut h) o = b_process lut g (b_hist lut h) ->
  inv_f f (o :: h).
Proof.
  intros Hx Hi Hr Hs o Hog Hnr Hbs. unfold inv_f in *. cbn [b_hist]. rewrite Hbs, b_process_pair, Hr, Hx.
  unfold rsx in *. cbn [rx_list]. rewrite Hnr, Hog.
  assert (Hsel : sel f (o :: h) g = v_opt).
  { rewrite <- Hs. destruct f; try reflexivity. cbn [sel]. unfold rx_country_ext.
    destruct (is_1A0 g); [|reflexivity]. f_equal. f_equal. unfold confirmed. f_equal. f_equal.
    cbn [rx_list]. rewrite Hnr, Hog. cbn [is_reset op_group]. reflexivity. }
  rewrite Hsel. destruct v_opt as [v|]; [|exact Hi].
  rewrite Hi. cbn [app]. rewrite macro_confirmed by apply rsx_nonempty. reflexivity.
Qed.

(* the value a group delivers: extractor form = arithmetic form, for the six fields that do not
   depend on the state *)
Lemma rxe_sel_basic f g b h : wf_group g -> f <> SCountry -> rxe lut f b g = sel f h g.
Proof.
  intros Hwf Hf. destruct (rxs_spec g Hwf) as [E1 [E2 [E3 [E4 E5]]]].
  destruct f; cbn [rxe sel]; try assumption; try contradiction.
  unfold rx_ecc. rewrite (cond_1A0_spec g Hwf). destruct Hwf as [_ [_ [Hc _]]]. rewrite (get_ecc_spec _ Hc). reflexivity.
Qed.

Theorem ext_hist_basic f : f <> SCountry -> forall h, wf_hist h -> ext_scope h = true ->
  b_ext (b_hist lut h) = true /\ inv_f f h.
Proof.
  intros Hf. induction h as [|o r IH]; intros Hw He; [discriminate|].
  inversion Hw as [|? ? Hwo Hwr]; subst.
  destruct o as [| |g|str|v|t k e|t v|u|fd id]; cbn [ext_scope] in He; try discriminate.
  - (* clear *) destruct (IH Hwr He) as [Hx _]. split; [exact Hx|].
    unfold inv_f, rsx. cbn [b_hist b_step rx_list is_reset app]. destruct f; reflexivity.
  - (* parse *) destruct (IH Hwr He) as [Hx Hi]. split; [cbn [b_hist b_step]; rewrite b_process_ext; exact Hx|].
    eapply (step_inv_f f g r _ Hx Hi eq_refl); try reflexivity.
    symmetry. apply rxe_sel_basic; assumption.
  - (* parse_string *) destruct (IH Hwr He) as [Hx Hi].
    destruct str as [l|]; [|split; [exact Hx|unfold inv_f, rsx in *; cbn [b_hist b_step rx_list is_reset op_group]; exact Hi]].
    destruct (utils_convert l) as [g|] eqn:E.
    2:{ split; [cbn [b_hist b_step]; rewrite E; exact Hx|].
        unfold inv_f, rsx in *. cbn [b_hist b_step rx_list is_reset op_group]. rewrite E. exact Hi. }
    split; [cbn [b_hist b_step]; rewrite E, b_process_ext; exact Hx|].
    eapply (step_inv_f f g r _ Hx Hi eq_refl); try reflexivity.
    + symmetry. apply rxe_sel_basic; [eapply utils_convert_wf; exact E|assumption].
    + cbn [op_group]. exact E.
    + cbn [b_step]. rewrite E. reflexivity.
  - (* set_ext *) destruct v; [|discriminate]. apply orb_true_iff in He. destruct He as [Hr|He].
    + destruct (reset_state_scalars f r Hwr Hr) as [P R]. split; [reflexivity|].
      unfold inv_f, rsx. cbn [b_hist b_step rx_list is_reset op_group]. rewrite R. cbn [app last_confirmed hd].
      unfold pairf, b_used, b_temp in *. cbn [fst snd] in *. exact P.
    + destruct (IH Hwr He) as [_ Hi]. split; [reflexivity|].
      unfold inv_f, rsx, pairf, b_used, b_temp in *. cbn [b_hist b_step rx_list is_reset op_group fst snd] in *. exact Hi.
  - destruct (IH Hwr He) as [Hx Hi]. split; [exact Hx|unfold inv_f, rsx in *; cbn [b_hist b_step rx_list is_reset op_group]; exact Hi].
  - destruct (IH Hwr He) as [Hx Hi]. split; [exact Hx|unfold inv_f, rsx in *; cbn [b_hist b_step rx_list is_reset op_group]; exact Hi].
  - destruct (IH Hwr He) as [Hx Hi]. split; [exact Hx|unfold inv_f, rsx in *; cbn [b_hist b_step rx_list is_reset op_group]; exact Hi].
  - destruct (IH Hwr He) as [Hx Hi]. split; [exact Hx|unfold inv_f, rsx in *; cbn [b_hist b_step rx_list is_reset op_group]; exact Hi].
Qed.

(* the country: its reception is looked up with the PI accepted after this group's block A, which
   by the PI instance above is `confirmed` PI of the history including this group *)
Lemma rxe_sel_country g h : wf_group g -> wf_hist h -> ext_scope h = true ->
  rxe lut SCountry (b_hist lut h) g = sel SCountry (OParse g :: h) g.
Proof.
  intros Hwf Hw He. cbn [rxe sel]. unfold rx_country_ext. rewrite (cond_1A0_spec g Hwf).
  destruct (is_1A0 g); [|reflexivity]. f_equal.
  destruct (ext_hist_basic SPi ltac:(discriminate) h Hw He) as [Hx Hi].
  assert (Hpi : fst (match rxs SPi g with Some v => macro (b_ext (b_hist lut h)) (pairf SPi (b_hist lut h)) v
                                     | None => pairf SPi (b_hist lut h) end)
                = confirmed (-1) (fun _ => rx_pi) (OParse g :: h)).
  { unfold confirmed. cbn [rx_list is_reset op_group]. destruct (rxs_spec g Hwf) as [E1 _]. rewrite E1, Hx, Hi.
    fold (rsx SPi h). change (fun _ : list op => rx_pi) with (sel SPi).
    destruct (rx_pi g) as [v|]; [|reflexivity].
    rewrite macro_confirmed by apply rsx_nonempty. reflexivity. }
  rewrite Hpi. pose proof Hwf as [_ [_ [Hc _]]]. rewrite (get_ecc_spec _ Hc).
  apply spec_country_lookup.
  (* the confirmed PI is unknown or a 16-bit value *)
  rewrite <- Hpi. pose proof (b_hist_ranges lut lut_range h Hw) as [R1 [R2 _]].
  unfold rxs. destruct (ea g =? 0); [|exact R1].
  unfold macro, pairf. cbn [fst snd getf]. destruct (_ || _); cbn [fst]; [exact R1|].
  right. destruct Hwf as [Ha _]. exact Ha.
Qed.

Theorem ext_hist_country : forall h, wf_hist h -> ext_scope h = true -> inv_f SCountry h.
Proof.
  induction h as [|o r IH]; intros Hw He; [discriminate|].
  inversion Hw as [|? ? Hwo Hwr]; subst.
  destruct o as [| |g|str|v|t k e|t v|u|fd id]; cbn [ext_scope] in He; try discriminate.
  - unfold inv_f, rsx. cbn [b_hist b_step rx_list is_reset app]. reflexivity.
  - destruct (ext_hist_basic SPi ltac:(discriminate) r Hwr He) as [Hx _].
    eapply (step_inv_f SCountry g r _ Hx (IH Hwr He) eq_refl); try reflexivity.
    symmetry. apply rxe_sel_country; assumption.
  - destruct (ext_hist_basic SPi ltac:(discriminate) r Hwr He) as [Hx _]. pose proof (IH Hwr He) as Hi.
    destruct str as [l|]; [|unfold inv_f, rsx in *; cbn [b_hist b_step rx_list is_reset op_group]; exact Hi].
    destruct (utils_convert l) as [g|] eqn:E.
    2:{ unfold inv_f, rsx in *. cbn [b_hist b_step rx_list is_reset op_group]. rewrite E. exact Hi. }
    eapply (step_inv_f SCountry g r _ Hx Hi eq_refl); try reflexivity.
    + symmetry. apply rxe_sel_country; [eapply utils_convert_wf; exact E|assumption|assumption].
    + cbn [op_group]. exact E.
    + cbn [b_step]. rewrite E. reflexivity.
  - destruct v; [|discriminate]. apply orb_true_iff in He. destruct He as [Hr|He].
    + destruct (reset_state_scalars SCountry r Hwr Hr) as [P R].
      unfold inv_f, rsx. cbn [b_hist b_step rx_list is_reset op_group]. rewrite R. cbn [app last_confirmed hd].
      unfold pairf, b_used, b_temp in *. cbn [fst snd] in *. exact P.
    + pose proof (IH Hwr He) as Hi.
      unfold inv_f, rsx, pairf, b_used, b_temp in *. cbn [b_hist b_step rx_list is_reset op_group fst snd] in *. exact Hi.
  - pose proof (IH Hwr He) as Hi. unfold inv_f, rsx in *; cbn [b_hist b_step rx_list is_reset op_group]; exact Hi.
  - pose proof (IH Hwr He) as Hi. unfold inv_f, rsx in *; cbn [b_hist b_step rx_list is_reset op_group]; exact Hi.
  - pose proof (IH Hwr He) as Hi. unfold inv_f, rsx in *; cbn [b_hist b_step rx_list is_reset op_group]; exact Hi.
  - pose proof (IH Hwr He) as Hi. unfold inv_f, rsx in *; cbn [b_hist b_step rx_list is_reset op_group]; exact Hi.
Qed.

End ExtHist.

(* C09 as the observer states it *)
Theorem C09_observer_holds conv lut : (forall n e, 0 <= lut n e < 221) ->
  forall h s o, reach conv lut h s -> wf_op o ->
  obs_C09 lut (o :: h) (snap_of s) (snap_of (fst (step conv lut s o))) (snd (step conv lut s o)) (ret_of o) = true.
Proof.
  intros Hl h s o Hr Hwf. unfold obs_C09. destruct (ext_scope (o :: h)) eqn:He; [|reflexivity].
  pose proof (reach_step conv lut h s o Hr Hwf) as Hr'.
  pose proof (reach_bproj conv lut _ _ Hr') as Hb. pose proof (reach_wf_hist _ _ _ _ Hr') as Hw.
  set (s' := fst (step conv lut s o)) in *.
  assert (Eu : used s' = b_used (b_hist lut (o :: h))) by (rewrite <- Hb; reflexivity).
  assert (Hf : forall f, getf f (used s') = confirmed (unk f) (sel lut f) (o :: h)).
  { intros f. rewrite Eu. unfold confirmed. fold (rsx lut f (o :: h)).
    destruct (sfield_eqb f SCountry) eqn:Ef.
    - destruct f; try discriminate. pose proof (ext_hist_country lut Hl _ Hw He) as Hi.
      unfold inv_f, pairf in Hi. exact (f_equal fst Hi).
    - destruct (ext_hist_basic lut f ltac:(intros ->; discriminate) _ Hw He) as [_ Hi].
      unfold inv_f, pairf in Hi. exact (f_equal fst Hi). }
  destruct (C10_af_set_holds conv lut _ _ Hr') as [_ Haf]. specialize (Haf He). fold s' in Haf.
  unfold snap_of. cbn [sn_pi sn_pty sn_tp sn_ta sn_ms sn_ecc sn_country sn_af].
  pose proof (Hf SPi) as H1. pose proof (Hf SPty) as H2. pose proof (Hf STp) as H3. pose proof (Hf STa) as H4.
  pose proof (Hf SMs) as H5. pose proof (Hf SEcc) as H6. pose proof (Hf SCountry) as H7.
  cbn [getf unk sel] in H1, H2, H3, H4, H5, H6, H7.
  rewrite H1, H2, H3, H4, H5, H6, H7, Haf, !Z.eqb_refl, list_eqb_Z_refl. reflexivity.
Qed.
