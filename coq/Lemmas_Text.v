(* Lemmas_Text.v — what one reception does to a text buffer, in terms of the (character, level)
   pairs the getters show: update_single = cell_after at the addressed cell, nothing elsewhere;
   "changed" is reported iff the pair changed. *)
Require Export Lemmas_Hex Lemmas_Core.
Require Import ZifyBool.
Local Open Scope Z_scope.
Ltac Zify.zify_post_hook ::= Z.div_mod_to_equations.

Definition cellp (c : cell) : Z * Z := (ch c, lv c).
Definition cells (t : text) : list (Z * Z) := map cellp t.

Lemma upd_same {A} (l : list A) i x : nth_error l i = Some x -> upd i x l = l.
Proof.
  revert i; induction l as [|h t IH]; intros [|i] H; simpl in *; try discriminate.
  - inversion H; reflexivity.
  - f_equal. apply IH. exact H.
Qed.

Lemma tsnap_cells t : ts_cells (tsnap_of t) = cells t.
Proof. reflexivity. Qed.

Lemma calc_error_lvl ei ed : 0 <= ei <= 2 -> 0 <= ed <= 2 -> calc_error ei ed = lvl ei ed.
Proof.
  intros H1 H2. unfold calc_error, lvl, to_u8.
  destruct ((ei =? 0) && (ed =? 0)) eqn:E.
  - assert (ei = 0 /\ ed = 0) as [-> ->] by lia. reflexivity.
  - rewrite Z.mod_small by lia. destruct (2 * ei + 3 * ed =? 0) eqn:E0; lia.
Qed.
Lemma lvl_zero ei ed : 0 <= ei -> 0 <= ed -> (lvl ei ed =? 0) = ((ei =? 0) && (ed =? 0)).
Proof. intros H1 H2. unfold lvl. destruct ((ei =? 0) && (ed =? 0)) eqn:E; lia. Qed.

Section Text.
Variable conv : Z -> Z.

(* one character *)
Lemma update_single_cells t inp ei ed pos pr c :
  nth_error t pos = Some c -> 0 <= ei <= 2 -> 0 <= ed <= 2 ->
  let new := cell_after conv ei ed pr (cellp c) inp ei ed in
  exists t', update_single conv t inp ei ed pos pr = Some (t', negb (pair_eqb new (cellp c)))
             /\ cells t' = upd pos new (cells t).
Proof.
  intros Hn Hei Hed new. unfold update_single. rewrite Hn.
  assert (Hcs : nth_error (cells t) pos = Some (cellp c)) by (unfold cells; rewrite nth_error_map, Hn; reflexivity).
  subst new. unfold cell_after.
  replace ((ei <? ei) || (ed <? ed)) with false by lia.
  rewrite (calc_error_lvl ei ed Hei Hed). rewrite (lvl_zero ei ed) by lia.
  cbn [cellp fst snd].
  destruct (pr && (lv c <? lvl ei ed)).
  { exists t. rewrite pair_eqb_refl. split; [reflexivity|]. symmetry. apply upd_same. exact Hcs. }
  destruct ((inp =? 13) && negb ((ei =? 0) && (ed =? 0))).
  { exists t. rewrite pair_eqb_refl. split; [reflexivity|]. symmetry. apply upd_same. exact Hcs. }
  destruct (negb (inp =? 13) && (inp <? 32)).
  { exists t. rewrite pair_eqb_refl. split; [reflexivity|]. symmetry. apply upd_same. exact Hcs. }
  destruct ((127 <=? inp) && negb ((ei =? 0) && (ed =? 0))).
  { exists t. rewrite pair_eqb_refl. split; [reflexivity|]. symmetry. apply upd_same. exact Hcs. }
  unfold convert.
  destruct ((ch c =? (if inp =? 13 then 0 else conv inp)) && (lv c <=? lvl ei ed)) eqn:Same.
  - eexists. rewrite pair_eqb_refl. split; [reflexivity|].
    unfold cells. rewrite map_upd. cbn [cellp ch lv]. fold (cellp c). fold (cells t).
    rewrite upd_same by exact Hcs. symmetry. apply upd_same. exact Hcs.
  - eexists. split.
    + f_equal. f_equal. unfold pair_eqb, cellp. cbn [fst snd].
      destruct (Z.eqb_spec (if inp =? 13 then 0 else conv inp) (ch c)) as [E|E]; cbn [andb]; [|reflexivity].
      rewrite <- E in Same. rewrite Z.eqb_refl in Same. cbn [andb] in Same.
      destruct (Z.eqb_spec (lvl ei ed) (lv c)) as [E2|E2]; [|reflexivity]. lia.
    + unfold cells. rewrite map_upd. reflexivity.
Qed.

(* the two characters of one block *)
Lemma string_update_cells t b0 b1 ei ed pos pr c0 c1 :
  nth_error t pos = Some c0 -> nth_error t (S pos) = Some c1 -> 0 <= ei <= 2 -> 0 <= ed <= 2 ->
  let n0 := cell_after conv ei ed pr (cellp c0) b0 ei ed in
  let n1 := cell_after conv ei ed pr (cellp c1) b1 ei ed in
  exists t', string_update conv t b0 b1 ei ed pos pr
             = Some (t', negb (pair_eqb n0 (cellp c0)) || negb (pair_eqb n1 (cellp c1)))
             /\ cells t' = upd (S pos) n1 (upd pos n0 (cells t)).
Proof.
  intros H0 H1 Hei Hed n0 n1. unfold string_update.
  destruct (update_single_cells t b0 ei ed pos pr c0 H0 Hei Hed) as [t1 [E1 C1]]. cbv zeta in E1, C1.
  rewrite E1.
  assert (H1' : nth_error t1 (S pos) = Some c1 \/ exists c1', nth_error t1 (S pos) = Some c1' /\ cellp c1' = cellp c1).
  { left. unfold update_single in E1. rewrite H0 in E1.
    repeat match type of E1 with context [if ?b then _ else _] => destruct b end;
      inversion E1; subst; try exact H1; rewrite nth_error_upd_other by lia; exact H1. }
  destruct H1' as [H1'|[c1' [H1' Hc]]].
  - destruct (update_single_cells t1 b1 ei ed (S pos) pr c1 H1' Hei Hed) as [t2 [E2 C2]]. cbv zeta in E2, C2.
    rewrite E2. exists t2. split; [reflexivity|]. rewrite C2, C1. reflexivity.
  - destruct (update_single_cells t1 b1 ei ed (S pos) pr c1' H1' Hei Hed) as [t2 [E2 C2]]. cbv zeta in E2, C2.
    rewrite Hc in E2, C2. rewrite E2. exists t2. split; [reflexivity|]. rewrite C2, C1. reflexivity.
Qed.

End Text.

(* ---------- one block (two characters) of a text group ---------- *)
Section TextBlock.
Variable conv : Z -> Z.

Lemma set_text_get_same sl t s : get_text sl (set_text sl t s) = t.
Proof. destruct sl; reflexivity. Qed.
Lemma set_text_get_other sl sl' t s : sl <> sl' -> get_text sl' (set_text sl t s) = get_text sl' s.
Proof. destruct sl, sl'; try reflexivity; intros H; contradiction H; reflexivity. Qed.
Lemma set_text_same sl s : set_text sl (get_text sl s) s = s.
Proof. destruct s; destruct sl; reflexivity. Qed.

Lemma cell_after_gate info data pr old b ei ed : ei <= info -> ed <= data ->
  cell_after conv info data pr old b ei ed = cell_after conv ei ed pr old b ei ed.
Proof.
  intros H1 H2. unfold cell_after.
  replace ((info <? ei) || (data <? ed)) with false by lia.
  replace ((ei <? ei) || (ed <? ed)) with false by lia. reflexivity.
Qed.
Lemma cell_after_closed info data pr old b ei ed : (info <? ei) || (data <? ed) = true ->
  cell_after conv info data pr old b ei ed = old.
Proof. intros H. unfold cell_after. rewrite H. reflexivity. Qed.

Lemma nth_cells t i c : nth_error t i = Some c -> nth i (cells t) (0, 0) = cellp c.
Proof.
  intros H. unfold cells. erewrite nth_indep.
  - rewrite (map_nth cellp t c). f_equal. apply nth_error_nth. exact H.
  - rewrite map_length. apply nth_error_Some. congruence.
Qed.

(* two consecutive writes, each reading the cell it is about to replace *)
Definition write2 (info data : Z) (pr : bool) (eb e : Z) (pos : nat) (w : Z) (cs : list (Z * Z)) : list (Z * Z) :=
  let cs1 := upd pos (cell_after conv info data pr (nth pos cs (0, 0)) (w_hi w) eb e) cs in
  upd (S pos) (cell_after conv info data pr (nth (S pos) cs1 (0, 0)) (w_lo w) eb e) cs1.
Definition changed2 (info data : Z) (pr : bool) (eb e : Z) (pos : nat) (w : Z) (cs : list (Z * Z)) : bool :=
  negb (pair_eqb (cell_after conv info data pr (nth pos cs (0, 0)) (w_hi w) eb e) (nth pos cs (0, 0)))
  || negb (pair_eqb (cell_after conv info data pr (nth (S pos) cs (0, 0)) (w_lo w) eb e) (nth (S pos) cs (0, 0))).

Lemma upd_string_spec sl w ei ed pos s :
  Inv conv s -> 0 <= w < 65536 -> 0 <= ei -> 0 <= ed -> (S pos < cap sl)%nat ->
  let info := corr s (tid_of sl) INFO in let data := corr s (tid_of sl) DATA in
  let pr := prog s (tid_of sl) in
  exists t', upd_string conv sl w ei ed pos s
             = (set_text sl t' s, changed2 info data pr ei ed pos w (cells (get_text sl s)))
             /\ cells t' = write2 info data pr ei ed pos w (cells (get_text sl s)).
Proof.
  intros I Hw Hei Hed Hp info data pr.
  destruct (inv_text conv sl s I) as [Hl Hf].
  destruct (nth_error (get_text sl s) pos) as [c0|] eqn:E0; [|apply nth_error_None in E0; lia].
  destruct (nth_error (get_text sl s) (S pos)) as [c1|] eqn:E1; [|apply nth_error_None in E1; lia].
  pose proof (nth_cells _ _ _ E0) as N0. pose proof (nth_cells _ _ _ E1) as N1.
  unfold upd_string. fold info data pr.
  destruct ((ei <=? info) && (ed <=? data)) eqn:G.
  - apply andb_true_iff in G. destruct G as [G1 G2]. apply Z.leb_le in G1, G2.
    pose proof (inv_corr conv s I (tid_of sl) INFO). pose proof (inv_corr conv s I (tid_of sl) DATA).
    fold info in H. fold data in H0.
    pose proof (bits_W w Hw) as Hb. unfold bits_W_ok in Hb. split_andb Hb.
    destruct (string_update_cells conv (get_text sl s) (hi_byte w) (lo_byte w) ei ed pos pr c0 c1 E0 E1 ltac:(lia) ltac:(lia))
      as [t' [Es Cs]]. cbv zeta in Es, Cs.
    rewrite Es. exists t'. split.
    + f_equal. unfold changed2. rewrite N0, N1.
      rewrite !(cell_after_gate info data) by lia.
      replace (hi_byte w) with (w_hi w) by lia. replace (lo_byte w) with (w_lo w) by lia. reflexivity.
    + rewrite Cs. unfold write2. rewrite N0. rewrite nth_upd_other by lia. rewrite N1.
      rewrite !(cell_after_gate info data) by lia.
      replace (hi_byte w) with (w_hi w) by lia. replace (lo_byte w) with (w_lo w) by lia. reflexivity.
  - exists (get_text sl s). rewrite set_text_same.
    assert (Gc : (info <? ei) || (data <? ed) = true) by lia.
    split.
    + f_equal. unfold changed2. rewrite !cell_after_closed by exact Gc. rewrite !pair_eqb_refl. reflexivity.
    + unfold write2. rewrite !cell_after_closed by exact Gc.
      assert (Hc0 : nth_error (cells (get_text sl s)) pos = Some (nth pos (cells (get_text sl s)) (0, 0))).
      { rewrite N0. unfold cells. rewrite nth_error_map, E0. reflexivity. }
      rewrite (upd_same _ _ _ Hc0).
      assert (Hc1 : nth_error (cells (get_text sl s)) (S pos) = Some (nth (S pos) (cells (get_text sl s)) (0, 0))).
      { rewrite N1. unfold cells. rewrite nth_error_map, E1. reflexivity. }
      rewrite (upd_same _ _ _ Hc1). reflexivity.
Qed.

End TextBlock.
