(* Lemmas_ObsText.v — the boolean observers of the text properties (obs_C06, obs_C02, obs_C07)
   hold of every step of the model from every reachable state: the function the check evaluates on
   the library's traces is a theorem of the model. *)
Require Export Lemmas_CellSpec Lemmas_Step.
Require Import ZifyBool.
Local Open Scope Z_scope.
Ltac Zify.zify_post_hook ::= Z.div_mod_to_equations.

Section ObsText.
Variable conv : Z -> Z.
Variable lut : Z -> Z -> Z.
Notation Inv := (Inv conv).
Notation reach := (reach conv lut).
Notation step := (step conv lut).
Notation process := (process conv lut).

(* ---------- the snapshot of a state, read back ---------- *)
Lemma snap_text sl s : sn_text sl (snap_of s) = tsnap_of (get_text sl s).
Proof. destruct sl; reflexivity. Qed.
Lemma snap_cell sl s i : tcell (sn_text sl (snap_of s)) i = cell_of sl s i.
Proof. rewrite snap_text. unfold tcell, cell_of. rewrite tsnap_cells. reflexivity. Qed.
Lemma snap_cells sl s : ts_cells (sn_text sl (snap_of s)) = cells (get_text sl s).
Proof. rewrite snap_text. apply tsnap_cells. Qed.
Lemma snap_avail sl s : ts_avail (sn_text sl (snap_of s)) = string_available (get_text sl s).
Proof. rewrite snap_text. reflexivity. Qed.
Lemma snap_cells_avail sl s : cells_avail (sn_text sl (snap_of s)) = string_available (get_text sl s).
Proof.
  rewrite snap_text. unfold cells_avail, tsnap_of, string_available. cbn [ts_cells].
  induction (get_text sl s) as [|c r IH]; [reflexivity|]. cbn [map existsb snd]. rewrite IH. reflexivity.
Qed.
Lemma snap_corr s t k : cfg_corr (snap_of s) t k = corr s t k.
Proof. destruct t, k; reflexivity. Qed.
Lemma snap_prog s t : cfg_prog (snap_of s) t = prog s t.
Proof. destruct t; unfold cfg_prog, cfg_nth; cbn; destruct (prog s _); reflexivity. Qed.
Lemma snap_len sl s : Inv s -> length (ts_cells (sn_text sl (snap_of s))) = cap sl.
Proof. intros I. rewrite snap_cells. apply (cells_length conv sl s I). Qed.

(* ---------- a successful parse call is `process` ---------- *)
Lemma parse_step o g s : op_group o = Some g -> wf_op o -> step s o = process g s /\ wf_group g.
Proof.
  destruct o as [| |g'|str|v|t k e|t v|u|fd id]; cbn [op_group]; try discriminate.
  - intros E W. inversion E; subst. split; [reflexivity|exact W].
  - destruct str as [l|]; [|discriminate]. intros E W. cbn [step]. rewrite E. split; [reflexivity|].
    exact (utils_convert_wf l g E).
Qed.

Lemma no_parse_step o s : op_group o = None -> is_reset o = false ->
  P_txt (fst (step s o)) = P_txt s.
Proof.
  destruct o as [| |g'|str|v|t k e|t v|u|fd id]; cbn [op_group is_reset]; try discriminate; intros E _;
    try reflexivity.
  - destruct str as [l|]; [|reflexivity]. cbn [step]. rewrite E. reflexivity.
Qed.

Lemma rt_switch_m o h g : rt_switch (o :: h) g = m_switch (h_last_rt h) g.
Proof. reflexivity. Qed.
Lemma rt_ignored_m o h g : rt_ignored (o :: h) g = m_ignored (h_last_rt h) g.
Proof. reflexivity. Qed.

Lemma forallb_seq n p : (forall i, (i < n)%nat -> p i = true) -> all_cells n p = true.
Proof.
  intros H. unfold all_cells. apply forallb_forall. intros i Hi. apply in_seq in Hi. apply H. lia.
Qed.

Lemma levels_ok s sl : Inv s ->
  forallb (fun '(c, l) => (0 <=? l) && (l <=? 10)) (ts_cells (sn_text sl (snap_of s))) = true.
Proof.
  intros I. rewrite snap_cells. apply forallb_forall. intros [c l] HIn.
  unfold cells in HIn. apply in_map_iff in HIn. destruct HIn as [x [E Hx]].
  destruct (inv_text conv sl s I) as [_ F]. rewrite Forall_forall in F. destruct (F x Hx) as [R _].
  unfold cellp in E. inversion E; subst. lia.
Qed.

(* the base cell of the cell spec, in the observer's words *)
Lemma base_cell_obs g s sl i L : L = last_rt s ->
  (m_switch L g = true -> sl = rt_slot (b_rtflag (gb g))) ->
  (if m_switch L g && ts_avail (sn_text sl (snap_of s)) then empty_pair else tcell (sn_text sl (snap_of s)) i)
  = base_cell g s sl i.
Proof.
  intros -> Hsl. unfold base_cell, m_cleared. rewrite snap_avail, snap_cell.
  destruct (m_switch (last_rt s) g) eqn:E; [|reflexivity].
  rewrite (Hsl eq_refl), tslot_eqb_refl. reflexivity.
Qed.

Lemma switch_slot L g sl p byte e : In (sl, p, byte, e) (writes_of g) -> m_switch L g = true ->
  sl = rt_slot (b_rtflag (gb g)).
Proof.
  intros HIn Hs. rewrite (writes_slot g sl p byte e HIn).
  unfold m_switch, is_type2 in Hs. destruct (b_group (gb g) =? 2) eqn:E; [|discriminate].
  replace (b_group (gb g) =? 0) with false by lia. reflexivity.
Qed.

(* ---------- C06 ---------- *)
Theorem obs_C06_holds h s o ret : reach h s -> wf_op o ->
  obs_C06 conv (o :: h) (snap_of s) (snap_of (fst (step s o))) (snd (step s o)) ret = true.
Proof.
  intros Hr Wo. pose proof (reach_inv conv lut h s Hr) as I.
  unfold obs_C06. cbn [cur_group]. destruct (op_group o) as [g|] eqn:Eo; [|reflexivity].
  destruct (parse_step o g s Eo Wo) as [Es Wg]. rewrite Es.
  rewrite rt_ignored_m, rt_switch_m. pose proof (reach_last_rt conv lut h s Hr) as HL.
  destruct (m_ignored (h_last_rt h) g) eqn:Ig; [reflexivity|].
  assert (I' : Inv (fst (process g s))) by (apply process_inv; assumption).
  apply andb_true_intro. split.
  - apply forallb_forall. intros [[[sl p] byte] e] HIn.
    rewrite (base_cell_obs g s sl p (h_last_rt h) (eq_sym HL) (switch_slot _ g sl p byte e HIn)).
    rewrite snap_cell, !snap_corr, snap_prog.
    rewrite <- HL in Ig. rewrite (cell_written conv lut g s sl p byte e I Wg Ig HIn).
    apply pair_eqb_refl.
  - cbn [forallb]. rewrite !(levels_ok _ _ I'). reflexivity.
Qed.

(* ---------- C02 ---------- *)
Lemma cleared_may g s sl : m_cleared (last_rt s) g s sl = true ->
  is_type2 g && (eb g =? 0) && tslot_eqb sl (rt_slot (b_rtflag (gb g))) = true.
Proof.
  unfold m_cleared, m_switch. intros H.
  destruct (is_type2 g), (eb g =? 0), (tslot_eqb sl (rt_slot (b_rtflag (gb g)))); cbn in *; try discriminate;
    try reflexivity; repeat rewrite ?andb_false_r, ?andb_false_l in H; try discriminate.
Qed.

Lemma ignored_not_ef L g : eb g =? 0 = true -> m_ignored L g = false.
Proof. intros H. unfold m_ignored. rewrite H. cbn [negb]. rewrite andb_false_r. reflexivity. Qed.

Theorem obs_C02_holds h s o ret : reach h s -> wf_op o ->
  obs_C02 conv (o :: h) (snap_of s) (snap_of (fst (step s o))) (snd (step s o)) ret = true.
Proof.
  intros Hr Wo. pose proof (reach_inv conv lut h s Hr) as I.
  pose proof (step_inv conv lut s o I Wo) as I'.
  unfold obs_C02. destruct (is_reset o) eqn:Er; [reflexivity|].
  destruct (op_group o) as [g|] eqn:Eo.
  - destruct (parse_step o g s Eo Wo) as [Es Wg]. rewrite Es in *.
    apply andb_true_intro. split.
    + apply forallb_forall. intros sl _.
      rewrite !(snap_len _ _ I), (snap_len _ _ I'), Nat.eqb_refl. cbn [andb].
      destruct (m_ignored (last_rt s) g) eqn:Ig.
      { apply orb_true_iff. left. apply forallb_seq. intros i Hi.
        rewrite !snap_cell, (cell_ignored conv lut g s sl i I Wg Ig), pair_eqb_refl. apply orb_true_r. }
      destruct (m_cleared (last_rt s) g s sl) eqn:Cl.
      * apply orb_true_iff. right. rewrite (cleared_may g s sl Cl). cbn [andb].
        apply forallb_seq. intros i Hi. destruct (addressed (writes_of g) sl i) eqn:A; [reflexivity|].
        rewrite snap_cell, (cell_kept conv lut g s sl i I Wg Ig Hi A). unfold base_cell. rewrite Cl.
        apply pair_eqb_refl.
      * apply orb_true_iff. left. apply forallb_seq. intros i Hi.
        destruct (addressed (writes_of g) sl i) eqn:A; [reflexivity|].
        rewrite !snap_cell, (cell_kept conv lut g s sl i I Wg Ig Hi A). unfold base_cell. rewrite Cl.
        apply pair_eqb_refl.
    + destruct (eb g =? 0) eqn:Eb; [|reflexivity].
      pose proof (ignored_not_ef (last_rt s) g Eb) as Ig.
      apply forallb_forall. intros [[[sl p] byte] e] HIn.
      destruct (e =? 0) eqn:Ee; [|reflexivity]. apply Z.eqb_eq in Ee. subst e.
      rewrite !snap_cell, (cell_written conv lut g s sl p byte 0 I Wg Ig HIn).
      apply Z.eqb_eq in Eb. rewrite Eb.
      pose proof (inv_corr conv s I (tid_of sl) INFO) as C1. pose proof (inv_corr conv s I (tid_of sl) DATA) as C2.
      unfold base_cell. destruct (m_cleared (last_rt s) g s sl) eqn:Cl.
      * rewrite cell_after_error_free by (cbn; lia).
        apply cleared_may in Cl. rewrite Eb in Cl. cbn [Z.eqb] in Cl. rewrite Cl. cbn [andb]. rewrite pair_eqb_refl. apply orb_true_r.
      * rewrite cell_after_error_free; [rewrite pair_eqb_refl; reflexivity|lia|lia|].
        pose proof Wg as [_ [Hb _]].
        pose proof (writes_in_range g sl p byte 0 Hb HIn) as Hp.
        destruct (inv_text conv sl s I) as [Hl F].
        unfold cell_of.
        destruct (nth_error (get_text sl s) p) as [c|] eqn:En.
        -- rewrite (nth_cells _ _ _ En). rewrite Forall_forall in F.
           destruct (F c (nth_error_In _ _ En)) as [R _]. cbn. lia.
        -- apply nth_error_None in En. lia.
  - (* not a parse call, not a reset: no text changes *)
    pose proof (no_parse_step o s Eo Er) as K. destruct (P_txt_fields _ _ K) as [K1 [K2 [K3 [K4 _]]]].
    rewrite andb_true_r. apply forallb_forall. intros sl _.
    assert (T : get_text sl (fst (step s o)) = get_text sl s) by (destruct sl; cbn [get_text]; assumption).
    rewrite !snap_text, T, Nat.eqb_refl. cbn [andb]. apply orb_true_iff. left.
    apply forallb_seq. intros i _. rewrite pair_eqb_refl. apply orb_true_r.
Qed.

(* ---------- C07 ---------- *)
Theorem obs_C07_holds h s o ret : reach h s -> wf_op o ->
  obs_C07 (o :: h) (snap_of s) (snap_of (fst (step s o))) (snd (step s o)) ret = true.
Proof.
  intros Hr Wo. pose proof (reach_inv conv lut h s Hr) as I.
  pose proof (reach_last_rt conv lut h s Hr) as HL.
  unfold obs_C07. destruct (is_reset o) eqn:Er; [reflexivity|].
  apply forallb_forall. intros sl _. rewrite snap_prog.
  destruct (prog s (tid_of sl)) eqn:Pg; [|reflexivity].
  destruct (op_group o) as [g|] eqn:Eo.
  - destruct (parse_step o g s Eo Wo) as [Es Wg]. rewrite Es in *. cbn [tl].
    destruct (is_type2 g && (eb g =? 0) && negb (h_last_rt h =? b_rtflag (gb g))
              && tslot_eqb sl (rt_slot (b_rtflag (gb g)))) eqn:Ex; [reflexivity|]. cbn [orb].
    rewrite (snap_len _ _ I).
    assert (Cl : m_cleared (last_rt s) g s sl = false).
    { unfold m_cleared, m_switch. rewrite HL.
      destruct (is_type2 g), (eb g =? 0), (h_last_rt h =? b_rtflag (gb g)), (tslot_eqb sl (rt_slot (b_rtflag (gb g))));
        cbn in *; try discriminate; rewrite ?andb_false_r; reflexivity. }
    apply forallb_seq. intros i Hi. rewrite !snap_cell.
    destruct (m_ignored (last_rt s) g) eqn:Ig.
    { rewrite (cell_ignored conv lut g s sl i I Wg Ig), pair_eqb_refl. cbn [orb]. rewrite andb_true_r. lia. }
    destruct (addressed (writes_of g) sl i) eqn:A.
    + unfold addressed in A. apply existsb_exists in A. destruct A as [[[[sl' p] byte] e] [HIn Hm]].
      apply andb_true_iff in Hm. destruct Hm as [Hs Hp]. apply tslot_eqb_eq in Hs. apply Nat.eqb_eq in Hp. subst sl' p.
      rewrite (cell_written conv lut g s sl i byte e I Wg Ig HIn). unfold base_cell. rewrite Cl, Pg.
      pose proof (cell_after_progressive conv (corr s (tid_of sl) INFO) (corr s (tid_of sl) DATA) (cell_of sl s i) byte (eb g) e) as [P1 P2].
      cbv zeta in P1, P2.
      set (new := cell_after conv (corr s (tid_of sl) INFO) (corr s (tid_of sl) DATA) true (cell_of sl s i) byte (eb g) e) in *.
      apply andb_true_intro. split; [lia|].
      destruct (pair_eqb new (cell_of sl s i)) eqn:Pe; [reflexivity|]. cbn [orb].
      assert (Hne : new <> cell_of sl s i) by (intros Q; rewrite Q, pair_eqb_refl in Pe; discriminate).
      destruct (P2 Hne) as [Q1 _].
      apply existsb_exists. exists (sl, i, byte, e). split; [exact HIn|].
      rewrite tslot_eqb_refl, Nat.eqb_refl. cbn [andb]. lia.
    + rewrite (cell_kept conv lut g s sl i I Wg Ig Hi A). unfold base_cell. rewrite Cl, pair_eqb_refl.
      cbn [orb]. rewrite andb_true_r. lia.
  - pose proof (no_parse_step o s Eo Er) as K. destruct (P_txt_fields _ _ K) as [K1 [K2 [K3 [K4 _]]]].
    assert (T : get_text sl (fst (step s o)) = get_text sl s) by (destruct sl; cbn [get_text]; assumption).
    cbn [orb]. apply forallb_seq. intros i _. rewrite !snap_text, T, pair_eqb_refl. cbn [orb].
    rewrite andb_true_r. lia.
Qed.

End ObsText.
