(* Lemmas_Step.v — every API call preserves the invariant; hence it holds in every reachable
   state (C05: no index ever leaves its array; C13: clear = fresh with the same settings). *)
Require Export Lemmas_Inv.
Require Import ZifyBool.
Local Open Scope Z_scope.
Ltac Zify.zify_post_hook ::= Z.div_mod_to_equations.

Definition errbits_ok (e : Z) : bool :=
  let in03 x := (0 <=? x) && (x <? 4) in
  in03 (Z.shiftr (Z.land e 192) 6) && in03 (Z.shiftr (Z.land e 48) 4)
  && in03 (Z.shiftr (Z.land e 12) 2) && in03 (Z.land e 3)
  && (Z.shiftr (Z.land e 192) 6 =? (e / 64) mod 4) && (Z.shiftr (Z.land e 48) 4 =? (e / 16) mod 4)
  && (Z.shiftr (Z.land e 12) 2 =? (e / 4) mod 4) && (Z.land e 3 =? e mod 4).
Lemma errbits_sweep : all_from 256 0 errbits_ok = true.
Proof. vm_compute. reflexivity. Qed.
Lemma errbits e : 0 <= e < 256 -> errbits_ok e = true.
Proof. intros He. apply (all_from_spec _ _ _ errbits_sweep). lia. Qed.

Lemma parse_hex_range l : forall acc, 0 <= acc < 65536 ->
  forall v, parse_hex l acc = Some v -> 0 <= v < 65536.
Proof.
  induction l as [|c r IH]; intros acc Ha v H; simpl in H.
  - inversion H; subst; exact Ha.
  - destruct (hexval c) as [d|]; [|discriminate].
    eapply IH; [|exact H]. unfold to_u16. lia.
Qed.

Lemma utils_convert_wf l g : utils_convert l = Some g -> wf_group g.
Proof.
  unfold utils_convert. intros H.
  destruct (if Nat.eqb (length l) 16 then Some 0 else if Nat.eqb (length l) 18 then parse_hex (skipn 16 l) 0 else None) as [e|]; [|discriminate].
  destruct (parse_hex (firstn 4 l) 0) as [a|] eqn:Ea; [|discriminate].
  destruct (parse_hex (firstn 4 (skipn 4 l)) 0) as [b|] eqn:Eb; [|discriminate].
  destruct (parse_hex (firstn 4 (skipn 8 l)) 0) as [c|] eqn:Ec; [|discriminate].
  destruct (parse_hex (firstn 4 (skipn 12 l)) 0) as [d|] eqn:Ed; [|discriminate].
  inversion H; subst; clear H.
  assert (Z0 : 0 <= 0 < 65536) by lia.
  pose proof (parse_hex_range _ 0 Z0 _ Ea). pose proof (parse_hex_range _ 0 Z0 _ Eb).
  pose proof (parse_hex_range _ 0 Z0 _ Ec). pose proof (parse_hex_range _ 0 Z0 _ Ed).
  assert (He : 0 <= to_u8 e < 256) by (unfold to_u8; lia).
  pose proof (errbits _ He) as Hb. unfold errbits_ok in Hb. split_andb Hb.
  unfold wf_group, blk_ok, err_ok; cbn [ga gb gc gd ea eb ec ed]. repeat split; lia.
Qed.

Section Step.
Variable conv : Z -> Z.
Variable lut : Z -> Z -> Z.
Notation step := (step conv lut).
Notation reach := (reach conv lut).
Notation Inv := (Inv conv).

Lemma step_inv s o : Inv s -> wf_op o -> Inv (fst (step s o)).
Proof.
  intros I Hwf. destruct o as [| |g|str|v|t k e|t v|u|f id]; cbn [step fst].
  - apply init_inv.
  - apply clear_inv, I.
  - apply process_inv; assumption.
  - destruct str as [l|]; [|exact I]. destruct (utils_convert l) as [g|] eqn:E; [|exact I].
    apply process_inv; [eapply utils_convert_wf; exact E|exact I].
  - constructor; cbn; apply I.
  - cbn in Hwf. constructor; cbn; try apply I.
    intros t' k'. unfold fupd. destruct (text_id_eqb t t'); [|apply I].
    destruct (blk_type_eqb k k'); [|apply I]. destruct (e <? 2) eqn:E; lia.
  - constructor; cbn; apply I.
  - constructor; cbn; apply I.
  - constructor; cbn; apply I.
Qed.

Theorem reach_inv h s : reach h s -> Inv s.
Proof. induction 1 as [|h s o Hr IH Hwf]; [apply init_inv|apply step_inv; assumption]. Qed.

(* C05 (model part): no array index computed from the data ever leaves its array *)
Theorem no_fault h s : reach h s -> fault s = false.
Proof. intros H. apply (inv_fault conv s (reach_inv h s H)). Qed.

(* C13: rdsparser_clear yields exactly the freshly initialised state, except for the settings,
   the callbacks and the user data, which are those of s *)
Definition with_settings_of (s fresh : state) : state :=
  mkstate (used fresh) (temp fresh) (ext s) (ps fresh) (rt0 fresh) (rt1 fresh) (ptyn fresh)
          (prog s) (corr s) (ud s) (cb s) (last_rt fresh) (fault fresh).

Theorem clear_is_fresh h s : reach h s -> clear s = with_settings_of s init_state.
Proof.
  intros H. pose proof (reach_inv h s H) as I. unfold clear, with_settings_of, init_state.
  cbn [used temp ps rt0 rt1 ptyn last_rt fault].
  destruct I as [[L1 _] [L2 _] [L3 _] [L4 _] _ _ Hf _ _].
  rewrite (string_clear_is_init 8 _ L1), (string_clear_is_init 64 _ L2),
          (string_clear_is_init 64 _ L3), (string_clear_is_init 8 _ L4), Hf.
  reflexivity.
Qed.

(* therefore every continuation behaves identically *)
Corollary clear_same_future h s ops : reach h s ->
  run_from conv lut (clear s) ops = run_from conv lut (with_settings_of s init_state) ops.
Proof. intros H. rewrite (clear_is_fresh h s H). reflexivity. Qed.

End Step.
