(* Lemmas_Mid_G4.v — clock time (src/group4.c: rdsparser_group4_parse with rdsparser_group4a_parse;
   the local rdsparser_ct_t and the pointer to it passed to the callback), translated on every run
   (GenMid.v), against the model's group4_parse.  The translated event carries the raw members of
   the local struct; the model's (and an application's) view of them is through the six getters
   (ev_view).  Uses the structural clock-time bridge of Lemmas_Leaf_C12full.v. *)
Require Export Lemmas_Mid_Acts Lemmas_Leaf_C12full Lemmas_Ct.
Require Import ZifyBool.
Local Open Scope Z_scope.
Ltac Zify.zify_post_hook ::= Z.div_mod_to_equations.

Definition ev_view (e : list Z) : list Z :=
  match e with
  | [11; cbk; y; m; d; h; mi; off; udv] =>
    [11; cbk; c_ct_get_year y; c_ct_get_month m; c_ct_get_day d; c_ct_get_hour h; c_ct_get_minute mi;
     c_ct_get_offset off; udv]
  | _ => e
  end.

Theorem mid_group4_parse : forall g flag s evs, wf_group g ->
  exists new,
    m_group4_parse (cb s FCT) evs (ud s) (ga g) (gb g) (gc g) (gd g) (ea g) (eb g) (ec g) (ed g) flag = (0, evs ++ new)
    /\ map ev_view new = map ev_call (snd (group4_parse g flag s))
    /\ fst (group4_parse g flag s) = s.
Proof.
  intros g flag s evs W. pose proof (ct_fields g W) as [F1 [F2 [F3 F4]]].
  destruct W as [Wa [Wb [Wc [Wd _]]]]. unfold blk_ok in *.
  unfold m_group4_parse. cbv zeta.
  rewrite (leaf_get_mjd _ _ _ _ Wb Wc), (leaf_get_hour _ _ _ _ Wc Wd), (leaf_get_minute _ _ _ _ Wd),
          (leaf_get_offset _ _ _ _ Wd).
  change (to_u32 0) with 0.
  assert (Rm : 0 <= get_mjd (gb g) (gc g) < 131072) by (rewrite F1; unfold ct_mjd; lia).
  assert (Rh : 0 <= get_hour (gc g) (gd g) < 32) by (rewrite F2; unfold ct_hour; lia).
  assert (Rmi : 0 <= get_minute (gd g) < 64) by (rewrite F3; unfold ct_minute; lia).
  assert (Ro : -31 <= get_offset (gd g) <= 31) by (rewrite F4; unfold ct_offset; destruct ((gd g / 32) mod 2 =? 0); lia).
  rewrite !to_s8_small by lia.
  unfold group4_parse.
  set (mjd := get_mjd (gb g) (gc g)) in *. set (h := get_hour (gc g) (gd g)) in *.
  set (mi := get_minute (gd g)) in *. set (off := get_offset (gd g)) in *.
  pose proof (leaf_ct_init mjd h mi off ltac:(lia) ltac:(lia) ltac:(lia) ltac:(lia)) as B.
  rewrite ct_view_of in B. unfold view_of in B.
  destruct (c_ct_init mjd h mi off) as [[[[[[ret y] m] d] hh] mm] oo].
  destruct (flag =? 0); destruct (eb g =? 0); destruct (ec g =? 0); destruct (ed g =? 0); cbn [andb]; cbv iota;
    try (exists []; rewrite app_nil_r; repeat split; reflexivity).
  unfold emit.
  destruct (cb s FCT =? 0) eqn:Ecb; cbn [negb andb]; cbv iota;
    [exists []; rewrite app_nil_r; repeat split; reflexivity|].
  destruct (ret =? 0) eqn:Er; cbn [negb]; cbv iota.
  - rewrite <- B. exists []. rewrite app_nil_r. repeat split; reflexivity.
  - rewrite <- B. eexists. split; [reflexivity|]. split; reflexivity.
Qed.
