(* Properties_C17.v — obligations of property C17.  Contains only theorem statements closed by
   `exact <lemma>` and Print Assumptions. *)
Require Import ObsRun.
Local Open Scope Z_scope.

(* non-vacuity: the observer of C17 is evaluated (and holds) along a run of the model that
   touches every group kind *)
Example C17_scenario : check_run_u (observer_u 17) scenario = true.
Proof. vm_compute. reflexivity. Qed.
Print Assumptions C17_scenario.
