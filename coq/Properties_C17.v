(* Properties_C17.v — obligations of property C17 (settings are independent, clamped, and only
   changed by their setters).  Only statements closed by `exact <lemma>` and Print Assumptions. *)
Require Import ObsRun Lemmas_Settings.
Local Open Scope Z_scope.

(* For EVERY history of API calls (any length, any interleaving of setters, parse, clear, init)
   and for any character / ECC tables: the ten settings getters return settings_of h — the value
   last written to that very key since initialisation, thresholds clamped by Z.min e 2, defaults
   (off, 0, off).  Since settings_of ignores OParse / OParseString / OClear and, for each key,
   the writes to all other keys, this is "reads back what was last written to that key",
   "writing one key never changes another key", "survive clear", "never modified by parsing". *)
Theorem C17_settings_read_back : forall conv lut h s,
  reach conv lut h s -> cfg_of s = settings_of h.
Proof. exact settings_readback. Qed.
Print Assumptions C17_settings_read_back.

(* The full observer (read-back + a setter changes no decoded datum and fires no callback) holds
   at every step of every run of the model; the same observer is evaluated on the library. *)
Theorem C17_observer : forall conv lut h s o, reach conv lut h s -> wf_op o ->
  obs_C17 (o :: h) (snap_of s) (snap_of (fst (step conv lut s o))) (snd (step conv lut s o)) (ret_of o) = true.
Proof. exact C17_observer_holds. Qed.
Print Assumptions C17_observer.

(* non-vacuity: a concrete run with every kind of call; the observer is evaluated, and holds *)
Example C17_scenario : check_run_u (observer_u 17) scenario = true.
Proof. vm_compute. reflexivity. Qed.
Example C17_clamp : forall conv lut,
  cfg_of (fst (step conv lut init_state (OSetCorr RT DATA 200))) = [0; 0; 0; 0; 0; 0; 0; 2; 0; 0].
Proof. intros. reflexivity. Qed.
