(* Lemmas_Mid_G1.v — ECC and country (src/ecc.c: rdsparser_ecc_lookup with its four file-scope
   tables; src/group1.c: rdsparser_group1_parse), translated on every run (GenMid.v), against the
   model's ecc_lookup (instantiated with the table MEASURED on the compiled library, Gen.v) and
   group1_parse. *)
Require Export Lemmas_Mid_Acts Lemmas_Leaf_C11 Inst.
Require Import ZifyBool.
Local Open Scope Z_scope.

(* the tables written in the source are the measured graph: 16 country nibbles x 256 ECC values *)
Definition ecc_src_ok (n : Z) : bool :=
  all_from (Z.to_nat 256) 0 (fun e => m_ecc_lookup (n * 4096) e =? lut_g n e).
Lemma ecc_src_sweep : all_from (Z.to_nat 16) 0 ecc_src_ok = true.
Proof. vm_compute. reflexivity. Qed.

Lemma nibble_of_mul n : 0 <= n < 16 -> Z.land (Z.shiftr (n * 4096) 12) 15 = n.
Proof.
  intros H. rewrite Z.shiftr_div_pow2 by lia. change (2 ^ 12) with 4096. rewrite Z.div_mul by lia.
  change 15 with (Z.ones 4). rewrite Z.land_ones by lia. apply Z.mod_small. change (2 ^ 4) with 16. lia.
Qed.

Theorem mid_ecc_lookup : forall pi ecc, -1 <= pi < 65536 -> 0 <= ecc < 256 ->
  m_ecc_lookup pi ecc = ecc_lookup lut_g pi ecc.
Proof.
  intros pi ecc Hp He. unfold ecc_lookup.
  destruct (Z.eq_dec pi (-1)) as [->|N].
  - pose proof (all_from_spec _ _ _ ecc_src_sweep 0 ltac:(lia)) as S0. clear S0.
    unfold m_ecc_lookup. cbv zeta. change (-1 =? -1) with true. cbn [negb andb]. reflexivity.
  - replace (pi =? -1) with false by lia.
    set (n := Z.land (Z.shiftr pi 12) 15).
    assert (Hn : 0 <= n < 16).
    { unfold n. change 15 with (Z.ones 4). rewrite Z.land_ones by lia. apply Z.mod_pos_bound. lia. }
    pose proof (all_from_spec _ _ _ ecc_src_sweep n ltac:(rewrite Z2Nat.id; lia)) as S. unfold ecc_src_ok in S.
    pose proof (all_from_spec _ _ _ S ecc ltac:(rewrite Z2Nat.id; lia)) as S2. cbv beta in S2.
    apply Z.eqb_eq in S2. rewrite <- S2.
    unfold m_ecc_lookup. cbv zeta. rewrite (nibble_of_mul n Hn). fold n.
    replace (pi =? -1) with false by lia. replace (n * 4096 =? -1) with false by lia.
    reflexivity.
Qed.

Lemma fr_set_pi_other f0 v s : f0 <> SPi -> d_pi (used (fst (set_scalar f0 v s))) = d_pi (used s).
Proof. intros N. exact (fr_set_used SPi f0 v s (fun E => N (eq_sym E))). Qed.

Theorem mid_group1_parse : forall g flag s evs, wf_group g -> -1 <= d_pi (used s) < 65536 ->
  m_group1_parse (getf SCountry (temp s)) (getf SEcc (temp s)) (getf SCountry (used s)) (getf SEcc (used s))
                 (d_pi (used s)) (b2z (ext s)) (cb s FCOUNTRY) (cb s FECC) evs (ud s)
                 (ga g) (gb g) (gc g) (gd g) (ea g) (eb g) (ec g) (ed g) flag
  = let r := group1_parse lut_g g flag s in
    let s' := fst r in
    (0, getf SCountry (temp s'), getf SEcc (temp s'), getf SCountry (used s'), getf SEcc (used s'),
     evs ++ map ev_call (snd r)).
Proof.
  intros g flag s evs W Hpi. destruct W as [Wa [Wb [Wc _]]]. unfold blk_ok in *.
  unfold m_group1_parse. cbv zeta.
  rewrite (leaf_get_variant _ _ _ _ Wc), (leaf_get_ecc _ _ _ _ Wc).
  change (to_u32 0) with 0.
  assert (Re : 0 <= get_ecc (gc g) < 256).
  { unfold get_ecc. change 255 with (Z.ones 8). rewrite Z.land_ones by lia. apply Z.mod_pos_bound. lia. }
  set (e := get_ecc (gc g)) in *.
  rewrite (mid_ecc_lookup (d_pi (used s)) e Hpi Re).
  pose proof (mid_set_scalar SEcc e s evs) as H1. cbv zeta in H1. cbn [m_set field_of] in H1. rewrite H1. clear H1.
  set (s1 := fst (set_scalar SEcc e s)).
  set (c := ecc_lookup lut_g (d_pi (used s)) e).
  pose proof (mid_set_scalar SCountry c s1 (evs ++ map ev_call (snd (set_scalar SEcc e s)))) as H2.
  cbv zeta in H2. cbn [m_set field_of] in H2. unfold s1 in H2. frames_in H2. fold s1 in H2. rewrite H2. clear H2.
  unfold group1_parse.
  assert (Pi1 : d_pi (used s1) = d_pi (used s)) by (unfold s1; apply fr_set_pi_other; discriminate).
  destruct (flag =? 0); destruct (eb g =? 0); destruct (ec g =? 0); destruct (get_variant (gc g) =? 0);
    cbn [andb]; cbv iota; rewrite ?when_true, ?when_false; rewrite ?andthen_fst, ?andthen_snd;
    cbn [skip fst snd app map]; rewrite ?app_nil_r; try reflexivity.
  fold e. fold s1. rewrite Pi1. fold c.
  unfold s1. frames. fold s1.
  rewrite map_app, app_assoc. reflexivity.
Qed.
