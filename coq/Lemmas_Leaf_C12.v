(* Lemmas_Leaf_C12.v — the four 4A field extractors, rdsparser_ct_init and the six rdsparser_ct_get_*: the C functions, translated on every run (GenLeaf.v), equal the functions of
   the model for every 16-bit block value (kernel sweep over all 65536 values: any equivalent
   rewrite of the C code still passes, any other has a concrete failing value). *)
Require Export Lemmas_LeafBase.
Require Import ZifyBool.
Local Open Scope Z_scope.

Ltac Zify.zify_post_hook ::= Z.div_mod_to_equations.

Definition leaf_C12_ok (x : Z) : bool :=
  (c_get_minute 0 0 0 x =? get_minute x) && (c_get_offset 0 0 0 x =? get_offset x).
Lemma leaf_C12_sweep : all_from (Z.to_nat 65536) 0 leaf_C12_ok = true.
Proof. vm_compute. reflexivity. Qed.

Lemma leaf_get_minute d0 d1 d2 d3 : 0 <= d3 < 65536 -> c_get_minute d0 d1 d2 d3 = get_minute d3.
Proof.
  intros H. pose proof (sweep16 _ leaf_C12_sweep d3 H) as S. unfold leaf_C12_ok in S. split_andb S.
  change (c_get_minute d0 d1 d2 d3) with (c_get_minute 0 0 0 d3). lia.
Qed.
Lemma leaf_get_offset d0 d1 d2 d3 : 0 <= d3 < 65536 -> c_get_offset d0 d1 d2 d3 = get_offset d3.
Proof.
  intros H. pose proof (sweep16 _ leaf_C12_sweep d3 H) as S. unfold leaf_C12_ok in S. split_andb S.
  change (c_get_offset d0 d1 d2 d3) with (c_get_offset 0 0 0 d3). lia.
Qed.

(* ---------- two blocks: MJD (B, C) and hour (C, D) ---------- *)
Definition leaf_mjd_ok (c : Z) : bool :=
  (c_get_mjd 0 0 c 0 =? get_mjd 0 c) && (c_get_mjd 0 1 c 0 =? get_mjd 1 c)
  && (c_get_mjd 0 2 c 0 =? get_mjd 2 c) && (c_get_mjd 0 3 c 0 =? get_mjd 3 c).
Lemma leaf_mjd_sweep : all_from (Z.to_nat 65536) 0 leaf_mjd_ok = true.
Proof. vm_compute. reflexivity. Qed.
Definition leaf_hour_ok (d : Z) : bool :=
  (c_get_hour 0 0 0 d =? get_hour 0 d) && (c_get_hour 0 0 1 d =? get_hour 1 d).
Lemma leaf_hour_sweep : all_from (Z.to_nat 65536) 0 leaf_hour_ok = true.
Proof. vm_compute. reflexivity. Qed.

Lemma leaf_get_mjd d0 d1 d2 d3 : 0 <= d1 < 65536 -> 0 <= d2 < 65536 ->
  c_get_mjd d0 d1 d2 d3 = get_mjd d1 d2.
Proof.
  intros H1 H2.
  (* both sides read block B only through B & 3 *)
  assert (E1 : c_get_mjd d0 d1 d2 d3 = c_get_mjd 0 (Z.land d1 3) d2 0)
    by (unfold c_get_mjd; rewrite land_idem; reflexivity).
  assert (E2 : get_mjd d1 d2 = get_mjd (Z.land d1 3) d2)
    by (unfold get_mjd; rewrite land_idem; reflexivity).
  rewrite E1, E2.
  pose proof (sweep16 _ leaf_mjd_sweep d2 H2) as S.
  unfold leaf_mjd_ok in S. split_andb S.
  destruct (land3_cases d1 ltac:(lia)) as [K|[K|[K|K]]]; rewrite K; apply Z.eqb_eq; assumption.
Qed.

Lemma leaf_get_hour d0 d1 d2 d3 : 0 <= d2 < 65536 -> 0 <= d3 < 65536 ->
  c_get_hour d0 d1 d2 d3 = get_hour d2 d3.
Proof.
  intros H2 H3.
  assert (E1 : c_get_hour d0 d1 d2 d3 = c_get_hour 0 0 (Z.land d2 1) d3)
    by (unfold c_get_hour; rewrite land_idem; reflexivity).
  assert (E2 : get_hour d2 d3 = get_hour (Z.land d2 1) d3)
    by (unfold get_hour; rewrite land_idem; reflexivity).
  rewrite E1, E2.
  pose proof (sweep16 _ leaf_hour_sweep d3 H3) as S.
  unfold leaf_hour_ok in S. split_andb S.
  destruct (land1_cases d2 ltac:(lia)) as [K|K]; rewrite K; apply Z.eqb_eq; assumption.
Qed.


(* ---------- clock time: rdsparser_ct_init and the six rdsparser_ct_get_* ---------- *)
Lemma to_s32w_eq x : 0 <= x < 4294967296 -> to_s32w x = to_s32 x.
Proof. intros H. unfold to_s32w, to_s32. rewrite Z.mod_small by lia. reflexivity. Qed.
Lemma to_u32_range x : 0 <= to_u32 x < 4294967296.
Proof. unfold to_u32. apply Z.mod_pos_bound. lia. Qed.
Lemma to_s16_small x : -32768 <= x < 32768 -> to_s16 x = x.
Proof. intros H. unfold to_s16. cbv zeta. destruct (x mod 65536 <? 32768) eqn:E; lia. Qed.

(* what an application sees of a rdsparser_ct_init call: the return value and, through the six
   getters, the fields it stored *)
Definition ct_view (mjd hour minute offset : Z) : option arg :=
  if c_ct_init__ret mjd hour minute offset =? 0 then None
  else Some (ACT (c_ct_get_year (c_ct_init__year mjd hour minute offset))
                 (c_ct_get_month (c_ct_init__month mjd hour minute offset))
                 (c_ct_get_day (c_ct_init__day mjd hour minute offset))
                 (c_ct_get_hour (c_ct_init__hour mjd hour minute offset))
                 (c_ct_get_minute (c_ct_init__minute mjd hour minute offset))
                 (c_ct_get_offset (c_ct_init__offset mjd hour minute offset))).

(* equal up to arithmetic inside the conversions *)
Ltac eq_arith := repeat first [reflexivity | lia | progress f_equal].
(* case analysis on every remaining condition, innermost first (syntactic: no arithmetic) *)
Ltac split_ifs :=
  repeat match goal with
         | |- context [if ?c then _ else _] =>
           lazymatch c with context [if _ then _ else _] => fail | _ => idtac end;
           destruct c eqn:?; cbv beta iota
         end.

(* For ALL parameter values of the C types: the translated rdsparser_ct_init (seen through its return
   value and the six translated getters) is the model's ct_init.  The proof follows the conditions of
   the function (range test, minute carry, hour carry); within each case the two sides are the same
   term up to the conversions that are the identity on the parameter ranges. *)
Theorem leaf_ct_init mjd hour minute offset :
  0 <= mjd < 4294967296 -> -128 <= hour < 128 -> -128 <= minute < 128 -> -128 <= offset < 128 ->
  ct_view mjd hour minute offset = ct_init mjd hour minute offset.
Proof.
  intros Hm Hh Hmi Ho.
  unfold ct_view, c_ct_init__ret, c_ct_init__year, c_ct_init__month, c_ct_init__day, c_ct_init__hour,
         c_ct_init__minute, c_ct_init__offset, c_ct_get_year, c_ct_get_month, c_ct_get_day, c_ct_get_hour,
         c_ct_get_minute, c_ct_get_offset, c_ct_init, ct_init.
  cbv zeta. rewrite ?Z.geb_leb, ?Z.gtb_ltb.
  assert (S16 : to_s16 (offset * 30) = offset * 30) by (apply to_s16_small; lia).
  rewrite ?S16.
  destruct (24 <=? hour) eqn:R1; [reflexivity|]. destruct (60 <=? minute) eqn:R2; [reflexivity|].
  cbn [orb]. cbv beta iota.
  set (m1 := to_s8 (minute + Z.rem offset 2 * 30)).
  destruct (60 <=? m1) eqn:C1; [|destruct (m1 <? 0) eqn:C2].
  all: cbv beta iota.
  all: match goal with |- context [to_s8 (?h + Z.quot ?o 2)] => set (h2 := to_s8 (h + Z.quot o 2)) end.
  all: destruct (24 <=? h2) eqn:C3; [|destruct (h2 <? 0) eqn:C4].
  all: cbv beta iota.
  all: rewrite ?to_s32w_eq by (first [apply to_u32_range | exact Hm]).
  all: cbn [Z.eqb]; first [reflexivity | timeout 120 (split_ifs; cbn [Z.eqb]; eq_arith)].
Qed.
