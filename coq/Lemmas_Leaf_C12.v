(* Lemmas_Leaf_C12.v — the four 4A field extractors, rdsparser_ct_init and the six rdsparser_ct_get_*: the C functions, translated on every run (GenLeaf.v), equal the functions of
   the model for every 16-bit block value (kernel sweep over all 65536 values: any equivalent
   rewrite of the C code still passes, any other has a concrete failing value). *)
Require Export Lemmas_LeafBase.
Require Import ZifyBool.
Local Open Scope Z_scope.

Ltac Zify.zify_post_hook ::= Z.div_mod_to_equations.

Definition leaf_C12_ok (x : Z) : bool :=
  (c_get_minute 0 0 0 x =? get_minute x) && (c_get_offset 0 0 0 x =? get_offset x).
Lemma leaf_C12_sweep : all_from (Z.to_nat 65536) 0 leaf_C12_ok = true.
Proof. vm_compute. reflexivity. Qed.

Lemma leaf_get_minute d0 d1 d2 d3 : 0 <= d3 < 65536 -> c_get_minute d0 d1 d2 d3 = get_minute d3.
Proof.
  intros H. pose proof (sweep16 _ leaf_C12_sweep d3 H) as S. unfold leaf_C12_ok in S. split_andb S.
  change (c_get_minute d0 d1 d2 d3) with (c_get_minute 0 0 0 d3). lia.
Qed.
Lemma leaf_get_offset d0 d1 d2 d3 : 0 <= d3 < 65536 -> c_get_offset d0 d1 d2 d3 = get_offset d3.
Proof.
  intros H. pose proof (sweep16 _ leaf_C12_sweep d3 H) as S. unfold leaf_C12_ok in S. split_andb S.
  change (c_get_offset d0 d1 d2 d3) with (c_get_offset 0 0 0 d3). lia.
Qed.

(* ---------- two blocks: MJD (B, C) and hour (C, D) ---------- *)
Definition leaf_mjd_ok (c : Z) : bool :=
  (c_get_mjd 0 0 c 0 =? get_mjd 0 c) && (c_get_mjd 0 1 c 0 =? get_mjd 1 c)
  && (c_get_mjd 0 2 c 0 =? get_mjd 2 c) && (c_get_mjd 0 3 c 0 =? get_mjd 3 c).
Lemma leaf_mjd_sweep : all_from (Z.to_nat 65536) 0 leaf_mjd_ok = true.
Proof. vm_compute. reflexivity. Qed.
Definition leaf_hour_ok (d : Z) : bool :=
  (c_get_hour 0 0 0 d =? get_hour 0 d) && (c_get_hour 0 0 1 d =? get_hour 1 d).
Lemma leaf_hour_sweep : all_from (Z.to_nat 65536) 0 leaf_hour_ok = true.
Proof. vm_compute. reflexivity. Qed.

Lemma leaf_get_mjd d0 d1 d2 d3 : 0 <= d1 < 65536 -> 0 <= d2 < 65536 ->
  c_get_mjd d0 d1 d2 d3 = get_mjd d1 d2.
Proof.
  intros H1 H2.
  (* both sides read block B only through B & 3 *)
  assert (E1 : c_get_mjd d0 d1 d2 d3 = c_get_mjd 0 (Z.land d1 3) d2 0)
    by (unfold c_get_mjd; rewrite land_idem; reflexivity).
  assert (E2 : get_mjd d1 d2 = get_mjd (Z.land d1 3) d2)
    by (unfold get_mjd; rewrite land_idem; reflexivity).
  rewrite E1, E2.
  pose proof (sweep16 _ leaf_mjd_sweep d2 H2) as S.
  unfold leaf_mjd_ok in S. split_andb S.
  destruct (land3_cases d1 ltac:(lia)) as [K|[K|[K|K]]]; rewrite K; apply Z.eqb_eq; assumption.
Qed.

Lemma leaf_get_hour d0 d1 d2 d3 : 0 <= d2 < 65536 -> 0 <= d3 < 65536 ->
  c_get_hour d0 d1 d2 d3 = get_hour d2 d3.
Proof.
  intros H2 H3.
  assert (E1 : c_get_hour d0 d1 d2 d3 = c_get_hour 0 0 (Z.land d2 1) d3)
    by (unfold c_get_hour; rewrite land_idem; reflexivity).
  assert (E2 : get_hour d2 d3 = get_hour (Z.land d2 1) d3)
    by (unfold get_hour; rewrite land_idem; reflexivity).
  rewrite E1, E2.
  pose proof (sweep16 _ leaf_hour_sweep d3 H3) as S.
  unfold leaf_hour_ok in S. split_andb S.
  destruct (land1_cases d2 ltac:(lia)) as [K|K]; rewrite K; apply Z.eqb_eq; assumption.
Qed.


(* ---------- clock time: rdsparser_ct_init and the six rdsparser_ct_get_* ---------- *)
Lemma to_s32w_eq x : 0 <= x < 4294967296 -> to_s32w x = to_s32 x.
Proof. intros H. unfold to_s32w, to_s32. rewrite Z.mod_small by lia. reflexivity. Qed.
Lemma to_u32_range x : 0 <= to_u32 x < 4294967296.
Proof. unfold to_u32. apply Z.mod_pos_bound. lia. Qed.
Lemma to_s16_small x : -32768 <= x < 32768 -> to_s16 x = x.
Proof. intros H. unfold to_s16. cbv zeta. destruct (x mod 65536 <? 32768) eqn:E; lia. Qed.

(* what an application sees of a rdsparser_ct_init call: the return value and, through the six
   getters, the fields it stored *)
Definition ct_view (mjd hour minute offset : Z) : option arg :=
  if c_ct_init__ret mjd hour minute offset =? 0 then None
  else Some (ACT (c_ct_get_year (c_ct_init__year mjd hour minute offset))
                 (c_ct_get_month (c_ct_init__month mjd hour minute offset))
                 (c_ct_get_day (c_ct_init__day mjd hour minute offset))
                 (c_ct_get_hour (c_ct_init__hour mjd hour minute offset))
                 (c_ct_get_minute (c_ct_init__minute mjd hour minute offset))
                 (c_ct_get_offset (c_ct_init__offset mjd hour minute offset))).

(* ---------- the bridge on everything a 4A group can carry, by kernel sweeps ---------- *)
Definition arg_same (a b : option arg) : bool :=
  match a, b with
  | None, None => true
  | Some (ACT y m d h mi o), Some (ACT y' m' d' h' mi' o') =>
    (y =? y') && (m =? m') && (d =? d') && (h =? h') && (mi =? mi') && (o =? o')
  | _, _ => false
  end.
Lemma arg_same_eq a b : arg_same a b = true -> a = b.
Proof.
  destruct a as [[]|], b as [[]|]; cbn; intros H; try discriminate; try reflexivity.
  repeat (apply andb_true_iff in H; destruct H as [H ?]).
  repeat match goal with Hx : (_ =? _) = true |- _ => apply Z.eqb_eq in Hx end. subst. reflexivity.
Qed.
(* one evaluation of the translated function per point *)
Definition view_of (r : Z * Z * Z * Z * Z * Z * Z) : option arg :=
  let '(ret, y, m, d, h, mi, off) := r in
  if ret =? 0 then None
  else Some (ACT (c_ct_get_year y) (c_ct_get_month m) (c_ct_get_day d) (c_ct_get_hour h) (c_ct_get_minute mi)
                 (c_ct_get_offset off)).
Lemma ct_view_of mjd hour minute offset : ct_view mjd hour minute offset = view_of (c_ct_init mjd hour minute offset).
Proof.
  unfold ct_view, view_of, c_ct_init__ret, c_ct_init__year, c_ct_init__month, c_ct_init__day, c_ct_init__hour,
         c_ct_init__minute, c_ct_init__offset.
  destruct (c_ct_init mjd hour minute offset) as [[[[[[ret y] m] d] h] mi] off]. reflexivity.
Qed.
Definition ct_agree (mjd hour minute offset : Z) : bool :=
  arg_same (view_of (c_ct_init mjd hour minute offset)) (ct_init mjd hour minute offset).

(* every clock time a 4A group can carry: hour 0..31, minute 0..63, offset -31..31, at day number 65536 *)
Lemma ct_time_sweep :
  all_from 32 0 (fun h => all_from 64 0 (fun mi => all_from 63 (-31) (fun off => ct_agree 65536 h mi off))) = true.
Proof. vm_compute. reflexivity. Qed.
(* every day number a 4A group can carry (0..131071), at a clock time without carry, with a carry into
   the next day and with a carry into the previous day *)
Definition ct_date_at (mjd : Z) : bool := ct_agree mjd 12 0 0 && ct_agree mjd 23 59 1 && ct_agree mjd 0 0 (-1).
Lemma ct_date_sweep : all_from (Z.to_nat 131072) 0 ct_date_at = true.
Proof. vm_compute. reflexivity. Qed.

Theorem leaf_ct_all_times h mi off :
  0 <= h < 32 -> 0 <= mi < 64 -> -31 <= off <= 31 -> ct_view 65536 h mi off = ct_init 65536 h mi off.
Proof.
  intros Hh Hmi Ho. rewrite ct_view_of. apply arg_same_eq.
  pose proof (all_from_spec _ _ _ ct_time_sweep h ltac:(lia)) as S1. cbv beta in S1.
  pose proof (all_from_spec _ _ _ S1 mi ltac:(lia)) as S2. cbv beta in S2.
  exact (all_from_spec _ _ _ S2 off ltac:(lia)).
Qed.
Theorem leaf_ct_all_days mjd h mi off : 0 <= mjd < 131072 ->
  In (h, mi, off) [(12, 0, 0); (23, 59, 1); (0, 0, -1)] ->
  ct_view mjd h mi off = ct_init mjd h mi off.
Proof.
  intros Hm Ht. rewrite ct_view_of. apply arg_same_eq.
  assert (S : ct_date_at mjd = true) by (apply (all_from_spec _ _ _ ct_date_sweep); rewrite Z2Nat.id; lia).
  unfold ct_date_at in S. split_andb S. fold (ct_agree mjd h mi off).
  destruct Ht as [E|[E|[E|[]]]]; inversion E; subst; assumption.
Qed.
