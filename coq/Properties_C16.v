(* Properties_C16.v — obligations of property C16 (text buffers are always well-formed, printable
   and terminated). *)
Require Import ObsRun Lemmas_WF Lemmas_TabConv Lemmas_Narrow Lemmas_ObsCb.
Local Open Scope Z_scope.

(* After EVERY call of EVERY call sequence, each of the four texts shown by the getters has its
   capacity (8, 64, 64, 8), terminator 0, every level in 0..10, level 10 => character ' ',
   every character printable (>= 0x20, not 0x7F..0x9F) or the end-of-text marker 0 and one of the
   character table, availability = some level <> 10, length = index of the first 0 or the
   capacity.  Stated for the character table measured on the compiled library. *)
Theorem C16_always : forall h s b, reach conv_u lut_g h s -> obs_C16_snap conv_u b (snap_of s) = true.
Proof.
  exact (wf_always conv_u lut_g (proj1 (conv_printable_spec conv_u conv_unicode_printable))
                   (proj2 (conv_printable_spec conv_u conv_unicode_printable))).
Qed.
Print Assumptions C16_always.

(* availability <=> some cell has been received: the ghost "reception accepted since reset"
   flag of the model coincides with level <> uncorrectable *)
Theorem C16_received_iff_level : forall conv lut h s sl c, reach conv lut h s ->
  In c (get_text sl s) -> (rx c = true <-> lv c <> 10).
Proof. exact received_iff_level. Qed.
Print Assumptions C16_received_iff_level.

(* every stored character of the table is printable (kernel-evaluated over all 224 entries) *)
Theorem C16_charset_printable : conv_printable_ok conv_u = true.
Proof. exact conv_unicode_printable. Qed.
Print Assumptions C16_charset_printable.

(* THE OBSERVER, including the text samples handed to callbacks: every text a callback sees during
   a call is one of the four buffers of the state after the call, hence well-formed in the same
   sense; for the unicode table and for the table of the non-unicode build *)
Theorem C16_observer : forall h s o ret, reach conv_u lut_g h s -> wf_op o ->
  obs_C16 conv_u (o :: h) (snap_of s) (snap_of (fst (step_u s o))) (snd (step_u s o)) ret = true.
Proof.
  exact (obs_C16_holds conv_u lut_g (proj1 (conv_printable_spec conv_u conv_unicode_printable))
                       (proj2 (conv_printable_spec conv_u conv_unicode_printable))).
Qed.
Print Assumptions C16_observer.
Theorem C16_observer_narrow : forall h s o ret, reach conv_n lut_g h s -> wf_op o ->
  obs_C16 conv_n (o :: h) (snap_of s) (snap_of (fst (step_n s o))) (snd (step_n s o)) ret = true.
Proof.
  exact (obs_C16_holds conv_n lut_g (proj1 (conv_printable_spec conv_n conv_narrow_printable))
                       (proj2 (conv_printable_spec conv_n conv_narrow_printable))).
Qed.
Print Assumptions C16_observer_narrow.

Example C16_scenario : check_run_u (observer_u 16) scenario = true.
Proof. vm_compute. reflexivity. Qed.
