(* Properties_C16.v — obligations of property C16.  Contains only theorem statements closed by
   `exact <lemma>` and Print Assumptions. *)
Require Import ObsRun.
Local Open Scope Z_scope.

(* non-vacuity: the observer of C16 is evaluated (and holds) along a run of the model that
   touches every group kind *)
Example C16_scenario : check_run_u (observer_u 16) scenario = true.
Proof. vm_compute. reflexivity. Qed.
Print Assumptions C16_scenario.
