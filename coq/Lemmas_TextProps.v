(* Lemmas_TextProps.v — consequences of the text step theorems: the last-flag register is the
   history function h_last_rt; frame and monotonicity facts about write2 / cell_after. *)
Require Export Lemmas_TextStep.
Require Import ZifyBool.
Local Open Scope Z_scope.
Ltac Zify.zify_post_hook ::= Z.div_mod_to_equations.

Section TextProps.
Variable conv : Z -> Z.
Variable lut : Z -> Z -> Z.
Notation reach := (reach conv lut).
Notation step := (step conv lut).

Lemma group_cases b : 0 <= b < 65536 ->
  b_group b = 0 \/ b_group b = 2 \/ (b_group b = 10 /\ b_ver b = 0)
  \/ (b_group b <> 0 /\ b_group b <> 2 /\ (b_group b = 10 -> b_ver b = 1)).
Proof. intros Hb. unfold b_group, b_ver. lia. Qed.

(* what a group does to the last-flag register, in one formula *)
Lemma process_last_rt g s : Inv conv s -> wf_group g ->
  last_rt (fst (process conv lut g s)) =
  if (b_group (gb g) =? 2) && (eb g =? 0) then b_rtflag (gb g) else last_rt s.
Proof.
  intros I Hwf. pose proof Hwf as [_ [Hb _]].
  destruct (group_cases (gb g) Hb) as [G|[G|[[G V]|[N0 [N2 N10]]]]].
  - destruct (ps_step conv lut g s I Hwf G) as [_ [_ [_ [_ L]]]]. rewrite L, G. reflexivity.
  - destruct (rt_step conv lut g s I Hwf G) as [_ [_ [_ [L _]]]]. rewrite L, G. cbn [Z.eqb Pos.eqb andb].
    destruct (eb g =? 0); cbn [andb]; [|reflexivity].
    destruct (Z.eqb_spec (b_rtflag (gb g)) (last_rt s)) as [E|E]; cbn [negb]; [exact (eq_sym E)|reflexivity].
  - destruct (ptyn_step conv lut g s I Hwf G V) as [_ [_ [_ [_ L]]]]. rewrite L, G. reflexivity.
  - destruct (no_text_step conv lut g s I Hwf N0 N2 N10) as [_ [_ [_ [_ L]]]]. rewrite L.
    replace (b_group (gb g) =? 2) with false by lia. reflexivity.
Qed.

Theorem reach_last_rt h s : reach h s -> last_rt s = h_last_rt h.
Proof.
  induction 1 as [|h s o Hr IH Hwf].
  - reflexivity.
  - pose proof (reach_inv conv lut h s Hr) as I.
    destruct o as [| |g|str|v|t k e|t v|u|fd id]; cbn [step fst h_last_rt is_reset op_group]; try exact IH; try reflexivity.
    + rewrite (process_last_rt g s I Hwf), IH. unfold is_type2. reflexivity.
    + destruct str as [l|]; [|exact IH]. destruct (utils_convert l) as [g|] eqn:E; [|exact IH].
      rewrite (process_last_rt g s I (utils_convert_wf l g E)), IH. reflexivity.
Qed.

End TextProps.

(* ---------- write2 / cell_after facts (for any table) ---------- *)
Section CellFacts.
Variable conv : Z -> Z.

Lemma write2_other info data pr eb e pos w cs i : i <> pos -> i <> S pos ->
  nth i (write2 conv info data pr eb e pos w cs) (0, 0) = nth i cs (0, 0).
Proof. intros H1 H2. unfold write2. rewrite !nth_upd_other by auto. reflexivity. Qed.

Lemma write2_length info data pr eb e pos w cs : length (write2 conv info data pr eb e pos w cs) = length cs.
Proof. unfold write2. rewrite !upd_length. reflexivity. Qed.

Lemma write2_first info data pr eb e pos w cs : (S pos < length cs)%nat ->
  nth pos (write2 conv info data pr eb e pos w cs) (0, 0)
  = cell_after conv info data pr (nth pos cs (0, 0)) (w_hi w) eb e.
Proof. intros H. unfold write2. rewrite nth_upd_other by lia. apply nth_upd_same. lia. Qed.

Lemma write2_second info data pr eb e pos w cs : (S pos < length cs)%nat ->
  nth (S pos) (write2 conv info data pr eb e pos w cs) (0, 0)
  = cell_after conv info data pr (nth (S pos) cs (0, 0)) (w_lo w) eb e.
Proof.
  intros H. unfold write2. rewrite nth_upd_same by (rewrite upd_length; lia).
  rewrite nth_upd_other by lia. reflexivity.
Qed.

(* an error-free reception: the G0 image at level 0; 0x0D the end-of-text marker; control codes
   leave the cell alone *)
Lemma cell_after_error_free info data pr old b : 0 <= info -> 0 <= data -> 0 <= snd old ->
  cell_after conv info data pr old b 0 0 = cell_ef conv old b.
Proof.
  intros Hi Hd Ho. unfold cell_after, cell_ef, lvl.
  replace ((info <? 0) || (data <? 0)) with false by lia. cbn [Z.eqb andb].
  replace (snd old <? 0) with false by lia. rewrite andb_false_r. cbn [negb andb]. rewrite !andb_false_r.
  destruct (b =? 13) eqn:E13.
  - cbn [negb andb]. destruct ((fst old =? 0) && (snd old <=? 0)) eqn:S; [|reflexivity].
    destruct old as [c l]. cbn [fst snd] in *. f_equal; lia.
  - cbn [negb andb]. destruct (b <? 32); [reflexivity|].
    destruct ((fst old =? conv b) && (snd old <=? 0)) eqn:S; [|reflexivity].
    destruct old as [c l]. cbn [fst snd] in *. f_equal; lia.
Qed.

(* progressive correction: a reception never raises the level of the cell; if it rewrites the
   cell, the new level is the reception's weighted level, not worse than the old one *)
Lemma cell_after_progressive info data old b eb e :
  let new := cell_after conv info data true old b eb e in
  snd new <= snd old /\ (new <> old -> snd new = lvl eb e /\ lvl eb e <= snd old).
Proof.
  cbv zeta. unfold cell_after.
  destruct ((info <? eb) || (data <? e)); [split; [lia|congruence]|].
  cbn [andb]. destruct (snd old <? lvl eb e) eqn:P; [split; [lia|congruence]|].
  destruct ((b =? 13) && negb (lvl eb e =? 0)); [split; [lia|congruence]|].
  destruct (negb (b =? 13) && (b <? 32)); [split; [lia|congruence]|].
  destruct ((127 <=? b) && negb (lvl eb e =? 0)); [split; [lia|congruence]|].
  destruct ((fst old =? (if b =? 13 then 0 else conv b)) && (snd old <=? lvl eb e)); [split; [lia|congruence]|].
  cbn [snd]. split; [lia|intros _; split; [reflexivity|lia]].
Qed.

(* the weighted level *)
Lemma lvl_facts :
  (forall eb e, 0 <= eb <= 2 -> 0 <= e <= 2 -> 0 <= lvl eb e <= 9 /\ (lvl eb e = 0 <-> eb = 0 /\ e = 0))
  /\ (forall x, 1 <= x <= 2 -> lvl x 0 < lvl 0 x)            (* a data error outweighs an info error *)
  /\ (forall eb e e', 0 <= eb <= 2 -> 0 <= e < e' -> e' <= 2 -> lvl eb e < lvl eb e')
  /\ (forall eb eb' e, 0 <= e <= 2 -> 0 <= eb < eb' -> eb' <= 2 -> lvl eb e < lvl eb' e).
Proof.
  unfold lvl. repeat split; intros;
    repeat match goal with
           | |- context [if ?c then _ else _] => destruct c eqn:?
           | H : context [if ?c then _ else _] |- _ => destruct c eqn:?
           end; try lia.
Qed.

End CellFacts.
