(* Lemmas_Ct.v — C12: every clock-time report is the broadcast MJD/UTC instant shifted by the
   local offset.  The domains are finite (17-bit MJD, 5+6+6 bits of time and offset) and are
   swept completely by the kernel: all 131074 day numbers -1 .. 131072 for the calendar
   conversion, all 24 x 60 x 63 (hour, minute, offset) for the time arithmetic, all 65536 values
   of each block for the bit fields. *)
Require Export Lemmas_Ecc.
Require Import ZifyBool.
Local Open Scope Z_scope.
Ltac Zify.zify_post_hook ::= Z.div_mod_to_equations.

(* the three stages of ct_init, cut out of the model's definition *)
Definition time_part (hour minute offset : Z) : Z * Z :=
  let minute1 := to_s8 (minute + Z.rem offset 2 * 30) in
  let '(hour1, minute2) :=
    if 60 <=? minute1 then (to_s8 (hour + 1), to_s8 (Z.rem minute1 60))
    else if minute1 <? 0 then (to_s8 (hour - 1), to_s8 (60 + minute1))
    else (hour, minute1) in
  (to_s8 (hour1 + Z.quot offset 2), minute2).
Definition day_part (mjd hour2 : Z) : Z * Z :=
  if 24 <=? hour2 then (to_u32 (mjd + 1), to_s8 (Z.rem hour2 24))
  else if hour2 <? 0 then (to_u32 (mjd - 1), to_s8 (24 + hour2))
  else (mjd, hour2).
Definition date_part (mjd1 : Z) : Z * Z * Z :=
  let z := to_s32 mjd1 + 678881 in
  let era := Z.quot z 146097 in
  let doe := z - era * 146097 in
  let yoe := Z.quot (doe - Z.quot doe 1460 + Z.quot doe 36524 - Z.quot doe 146096) 365 in
  let doy := doe - (365 * yoe + Z.quot yoe 4 - Z.quot yoe 100) in
  let mp := Z.quot (5 * doy + 2) 153 in
  let day := to_u8 (doy - Z.quot (153 * mp + 2) 5 + 1) in
  let month := to_u8 (if mp <? 10 then mp + 3 else mp - 9) in
  let year := to_u16 (yoe + era * 400 + (if month <=? 2 then 1 else 0)) in
  (year, month, day).

Lemma ct_init_stages mjd hour minute offset :
  ct_init mjd hour minute offset =
  if (24 <=? hour) || (60 <=? minute) then None
  else
    let '(hour2, minute2) := time_part hour minute offset in
    let '(mjd1, hour3) := day_part mjd hour2 in
    let '(y, m, d) := date_part mjd1 in
    Some (ACT y m d (to_u8 hour3) (to_u8 minute2) (offset * 30)).
Proof.
  unfold ct_init, time_part, day_part, date_part.
  destruct ((24 <=? hour) || (60 <=? minute)); [reflexivity|].
  cbv zeta.
  destruct (60 <=? to_s8 (minute + Z.rem offset 2 * 30)); [|destruct (to_s8 (minute + Z.rem offset 2 * 30) <? 0)];
    match goal with |- context [24 <=? ?h] => destruct (24 <=? h); [|destruct (h <? 0)] end; reflexivity.
Qed.

(* ---- sweep 1: the time arithmetic ---- *)
Definition time_ok (hour minute offset : Z) : bool :=
  let '(hour2, minute2) := time_part hour minute offset in
  let carry := if 24 <=? hour2 then 1 else if hour2 <? 0 then -1 else 0 in
  let hour3 := snd (day_part 0 hour2) in
  (0 <=? hour3) && (hour3 <? 24) && (0 <=? minute2) && (minute2 <? 60)
  && (60 * hour3 + minute2 + 1440 * carry =? 60 * hour + minute + 30 * offset).
Lemma time_sweep :
  all_from 24 0 (fun h => all_from 60 0 (fun mi => all_from 63 (-31) (fun off => time_ok h mi off))) = true.
Proof. vm_compute. reflexivity. Qed.
Lemma time_spec h mi off : 0 <= h < 24 -> 0 <= mi < 60 -> -31 <= off <= 31 -> time_ok h mi off = true.
Proof.
  intros Hh Hm Ho.
  pose proof (all_from_spec _ _ _ time_sweep h ltac:(lia)) as H1. cbv beta in H1.
  pose proof (all_from_spec _ _ _ H1 mi ltac:(lia)) as H2. cbv beta in H2.
  exact (all_from_spec _ _ _ H2 off ltac:(lia)).
Qed.

(* ---- sweep 2: the calendar, every day number a 17-bit MJD plus/minus one day can reach ---- *)
Definition date_ok (m1 : Z) : bool :=
  let '(y, m, d) := date_part (to_u32 m1) in
  valid_date y m d && (mjd_of_civil y m d =? m1).
Lemma date_sweep : all_from (Z.to_nat 131074) (-1) date_ok = true.
Proof. vm_compute. reflexivity. Qed.
Lemma date_spec m1 : -1 <= m1 <= 131072 -> date_ok m1 = true.
Proof. intros H. apply (all_from_spec _ _ _ date_sweep). rewrite Z2Nat.id; lia. Qed.

(* ---- sweep 3: the bit fields of group 4A ---- *)
Definition b4_ok (x : Z) : bool :=
  (Z.land x 3 =? x mod 4) && (Z.shiftr x 1 =? x / 2) && (Z.land x 1 =? x mod 2)
  && (Z.shiftr (Z.land x 61440) 12 =? x / 4096) && (get_minute x =? (x / 64) mod 64)
  && (get_offset x =? (if (x / 32) mod 2 =? 0 then x mod 32 else - (x mod 32))).
Lemma b4_sweep : all_from (Z.to_nat 65536) 0 b4_ok = true.
Proof. vm_compute. reflexivity. Qed.
Definition lor_ok : bool :=
  all_from 4 0 (fun x => all_from (Z.to_nat 32768) 0 (fun y => Z.lor (Z.shiftl x 15) y =? x * 32768 + y))
  && all_from 2 0 (fun x => all_from 16 0 (fun y => Z.lor (Z.shiftl x 4) y =? x * 16 + y)).
Lemma lor_sweep : lor_ok = true.
Proof. vm_compute. reflexivity. Qed.

Lemma b4_spec x : 0 <= x < 65536 ->
  Z.land x 3 = x mod 4 /\ Z.shiftr x 1 = x / 2 /\ Z.land x 1 = x mod 2
  /\ Z.shiftr (Z.land x 61440) 12 = x / 4096 /\ get_minute x = (x / 64) mod 64
  /\ get_offset x = (if (x / 32) mod 2 =? 0 then x mod 32 else - (x mod 32)).
Proof.
  intros Hx. pose proof (all_from_spec _ _ _ b4_sweep x ltac:(rewrite Z2Nat.id; lia)) as B.
  unfold b4_ok in B. split_andb B. repeat split; apply Z.eqb_eq; assumption.
Qed.

Lemma ct_fields g : wf_group g ->
  get_mjd (gb g) (gc g) = ct_mjd g /\ get_hour (gc g) (gd g) = ct_hour g
  /\ get_minute (gd g) = ct_minute g /\ get_offset (gd g) = ct_offset g.
Proof.
  intros [_ [Hb [Hc [Hd _]]]]. unfold blk_ok in *.
  destruct (b4_spec _ Hb) as [Eb1 _].
  destruct (b4_spec _ Hc) as [_ [Ec2 [Ec3 _]]].
  destruct (b4_spec _ Hd) as [_ [_ [_ [Ed4 [Ed5 Ed6]]]]].
  pose proof lor_sweep as L. unfold lor_ok in L. apply andb_true_iff in L. destruct L as [L1 L2].
  unfold get_mjd, get_hour, ct_mjd, ct_hour, ct_minute, ct_offset.
  rewrite Eb1, Ec2, Ec3, Ed4.
  assert (R1 : 0 <= gb g mod 4 < 0 + Z.of_nat 4) by (clear - Hb; lia).
  assert (R2 : 0 <= gc g / 2 < 0 + Z.of_nat (Z.to_nat 32768)) by (clear - Hc; rewrite Z2Nat.id; lia).
  assert (R3 : 0 <= gc g mod 2 < 0 + Z.of_nat 2) by (clear - Hc; lia).
  assert (R4 : 0 <= gd g / 4096 < 0 + Z.of_nat 16) by (clear - Hd; lia).
  pose proof (all_from_spec _ _ _ L1 _ R1) as H1. cbv beta in H1.
  pose proof (all_from_spec _ _ _ H1 _ R2) as H2. cbv beta in H2. apply Z.eqb_eq in H2.
  pose proof (all_from_spec _ _ _ L2 _ R3) as H3. cbv beta in H3.
  pose proof (all_from_spec _ _ _ H3 _ R4) as H4. cbv beta in H4. apply Z.eqb_eq in H4.
  repeat split; assumption.
Qed.

(* the report of one due group *)
Theorem ct_init_correct g : wf_group g -> ct_hour g < 24 -> ct_minute g < 60 ->
  exists a, ct_init (get_mjd (gb g) (gc g)) (get_hour (gc g) (gd g)) (get_minute (gd g)) (get_offset (gd g)) = Some a
            /\ forall cbid u, ct_report_ok g (mkev FCT cbid u a SmNone) = true.
Proof.
  intros Hwf Hh Hm. destruct (ct_fields g Hwf) as [E1 [E2 [E3 E4]]]. rewrite E1, E2, E3, E4.
  destruct Hwf as [_ [Hb [Hc [Hd _]]]]. unfold blk_ok in *.
  assert (R1 : 0 <= ct_mjd g < 131072) by (unfold ct_mjd; lia).
  assert (R2 : 0 <= ct_hour g) by (unfold ct_hour; lia).
  assert (R3 : 0 <= ct_minute g) by (unfold ct_minute; lia).
  assert (R4 : -31 <= ct_offset g <= 31) by (unfold ct_offset; destruct (_ =? 0); lia).
  rewrite ct_init_stages.
  replace ((24 <=? ct_hour g) || (60 <=? ct_minute g)) with false by lia.
  pose proof (time_spec (ct_hour g) (ct_minute g) (ct_offset g) ltac:(lia) ltac:(lia) R4) as T.
  unfold time_ok in T. destruct (time_part (ct_hour g) (ct_minute g) (ct_offset g)) as [hour2 minute2].
  cbv zeta in T.
  set (carry := if 24 <=? hour2 then 1 else if hour2 <? 0 then -1 else 0) in T.
  assert (Hday : day_part (ct_mjd g) hour2 = (to_u32 (ct_mjd g + carry), snd (day_part 0 hour2))).
  { unfold day_part, carry. destruct (24 <=? hour2); [reflexivity|]. destruct (hour2 <? 0); [reflexivity|].
    cbn [snd]. f_equal. unfold to_u32. rewrite Z.add_0_r. rewrite Z.mod_small; lia. }
  rewrite Hday.
  assert (Rc : -1 <= ct_mjd g + carry <= 131072) by (unfold carry; destruct (24 <=? hour2); [|destruct (hour2 <? 0)]; lia).
  pose proof (date_spec _ Rc) as D. unfold date_ok in D.
  destruct (date_part (to_u32 (ct_mjd g + carry))) as [[y m] d].
  eexists. split; [reflexivity|]. intros cbid u. unfold ct_report_ok. cbn [ev_arg].
  split_andb T. apply andb_true_iff in D. destruct D as [D1 D2].
  set (h3 := snd (day_part 0 hour2)) in *.
  assert (U1 : to_u8 h3 = h3) by (unfold to_u8; rewrite Z.mod_small; lia).
  assert (U2 : to_u8 minute2 = minute2) by (unfold to_u8; rewrite Z.mod_small; lia).
  rewrite U1, U2, D1. cbn [andb].
  repeat (apply andb_true_iff; split); lia.
Qed.

(* a rejected time (hour >= 24 or minute >= 60) gives no report *)
Lemma ct_init_rejects g : wf_group g -> (24 <= ct_hour g \/ 60 <= ct_minute g) ->
  ct_init (get_mjd (gb g) (gc g)) (get_hour (gc g) (gd g)) (get_minute (gd g)) (get_offset (gd g)) = None.
Proof.
  intros Hwf H. destruct (ct_fields g Hwf) as [E1 [E2 [E3 E4]]]. rewrite E1, E2, E3, E4.
  unfold ct_init. replace ((24 <=? ct_hour g) || (60 <=? ct_minute g)) with true by lia. reflexivity.
Qed.
