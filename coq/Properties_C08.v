(* Properties_C08.v — obligations of property C08 (RadioText A/B protocol). *)
Require Import ObsRun Lemmas_TextProps Lemmas_CbRt Lemmas_ObsEv Lemmas_Leaf_C08.
Local Open Scope Z_scope.

(* the register "flag last seen" of a reachable state is the history function h_last_rt: the A/B
   flag of the most recent type-2 group with an error-free block B since the last clear / init,
   -1 when there is none *)
Theorem C08_last_flag_is_history : forall conv lut h s, reach conv lut h s -> last_rt s = h_last_rt h.
Proof. exact reach_last_rt. Qed.
Print Assumptions C08_last_flag_is_history.

(* For every reachable state and every type-2 group with flag f (last = flag last seen):
   - PS and PTYN are untouched and the buffer of the OTHER flag is exactly as it was;
   - the flag last seen becomes f iff block B is error-free (it changes only then);
   - eb <> 0, last <> -1, last <> f  (possible bit-flip): the buffer of f is unchanged, i.e. the group
     is ignored as far as RadioText goes;
   - otherwise the buffer of f is first emptied iff eb = 0, last <> -1, last <> f and it held something
     (so the very first flag after a reset empties nothing), and then only the addressed cells are
     written (2A: 4s..4s+3 from C and D; 2B: 2s, 2s+1 from D; s = B mod 16). *)
Theorem C08_protocol : forall conv lut h g s, reach conv lut h s -> wf_group g -> b_group (gb g) = 2 ->
  let s' := fst (process conv lut g s) in
  let f := b_rtflag (gb g) in
  let last := h_last_rt h in
  let switch := (eb g =? 0) && negb (f =? last) in
  let ignored := negb (eb g =? 0) && negb (f =? last) && negb (last =? -1) in
  let base := if switch && negb (last =? -1) && string_available (rt_of f s)
              then cells (string_clear (rt_of f s)) else cells (rt_of f s) in
  let w := write2 conv (corr s RT INFO) (corr s RT DATA) (prog s RT) (eb g) in
  ps s' = ps s /\ ptyn s' = ptyn s
  /\ rt_of (1 - f) s' = rt_of (1 - f) s
  /\ last_rt s' = (if switch then f else last)
  /\ cells (rt_of f s') =
     if ignored then cells (rt_of f s)
     else if b_ver (gb g) =? 0
          then w (ed g) (Z.to_nat (4 * (gb g mod 16) + 2)) (gd g) (w (ec g) (Z.to_nat (4 * (gb g mod 16))) (gc g) base)
          else w (ed g) (Z.to_nat (2 * (gb g mod 16))) (gd g) base.
Proof.
  intros conv lut h g s Hr W G. cbv zeta.
  rewrite <- (reach_last_rt conv lut h s Hr).
  exact (rt_step conv lut g s (reach_inv conv lut h s Hr) W G).
Qed.
Print Assumptions C08_protocol.

(* no other group touches the two RT buffers or the flag last seen *)
Theorem C08_only_type2 : forall conv lut g s, Inv conv s -> wf_group g -> b_group (gb g) <> 2 ->
  let s' := fst (process conv lut g s) in rt0 s' = rt0 s /\ rt1 s' = rt1 s /\ last_rt s' = last_rt s.
Proof.
  intros conv lut g s I W N2. cbv zeta. pose proof W as [_ [Hb _]].
  destruct (group_cases conv lut (gb g) Hb) as [G|[G|[[G V]|[N0 [_ N10]]]]]; [|contradiction| |].
  - destruct (ps_step conv lut g s I W G) as [_ [A [B [_ C]]]]. auto.
  - destruct (ptyn_step conv lut g s I W G V) as [_ [_ [A [B C]]]]. auto.
  - destruct (no_text_step conv lut g s I W N0 N2 N10) as [_ [A [B [_ C]]]]. auto.
Qed.
Print Assumptions C08_only_type2.

(* the RT callback: when the switch empties a buffer that held something, the callback is made
   (if registered) and reports the new flag; an ignored group makes none *)
Theorem C08_rt_callback : forall conv lut g s, Inv conv s -> wf_group g -> b_group (gb g) = 2 ->
  let s' := fst (process conv lut g s) in
  let f := b_rtflag (gb g) in
  let last := last_rt s in
  let clr := (eb g =? 0) && negb (f =? last) && negb (last =? -1) && string_available (rt_of f s) in
  let ignored := negb (eb g =? 0) && negb (f =? last) && negb (last =? -1) in
  let base := if clr then cells (string_clear (rt_of f s)) else cells (rt_of f s) in
  filter (isf FRT) (snd (process conv lut g s)) =
  if ignored then []
  else if (clr || negb (cells_eqb (cells (rt_of f s')) base)) && negb (cb s FRT =? 0)
       then [mkev FRT (cb s FRT) (ud s) (AFlag f) (SmText (tsnap_of (rt_of f s')))] else [].
Proof. exact rt_callbacks. Qed.
Print Assumptions C08_rt_callback.
(* THE OBSERVER (all clauses of the A/B protocol in one boolean function, as evaluated on the
   library): other buffer untouched, RT callbacks carry the group's flag, at most one; an ignored
   group changes nothing and notifies nothing; a switch empties a non-empty buffer and notifies;
   otherwise only addressed cells change and a due change is not dropped; non-type-2 calls leave
   both buffers alone and make no RT callback *)
Theorem C08_observer : forall conv lut h s o ret, reach conv lut h s -> wf_op o ->
  obs_C08 conv (o :: h) (snap_of s) (snap_of (fst (step conv lut s o))) (snd (step conv lut s o)) ret = true.
Proof. exact obs_C08_holds. Qed.
Print Assumptions C08_observer.

(* THE CODE ITSELF: the A/B flag extractor, translated from clang's typed AST on every run *)
Theorem C08_code_flag : forall d0 d1 d2 d3, 0 <= d1 < 65536 -> c_get_rt_flag d0 d1 d2 d3 = get_rt_flag d1.
Proof. exact leaf_get_rt_flag. Qed.
Print Assumptions C08_code_flag.

Example C08_scenario : check_run_u (observer_u 8) scenario = true.
Proof. vm_compute. reflexivity. Qed.
