(* Properties_C08.v — obligations of property C08.  Contains only theorem statements closed by
   `exact <lemma>` and Print Assumptions. *)
Require Import ObsRun.
Local Open Scope Z_scope.

(* non-vacuity: the observer of C08 is evaluated (and holds) along a run of the model that
   touches every group kind *)
Example C08_scenario : check_run_u (observer_u 8) scenario = true.
Proof. vm_compute. reflexivity. Qed.
Print Assumptions C08_scenario.
