(* Lemmas_Settings.v — C17: the ten settings getters equal the history function settings_of;
   setters change nothing else and fire no callback. *)
Require Export Lemmas_Reach.
Local Open Scope Z_scope.

Section Settings.
Variable conv : Z -> Z.
Variable lut : Z -> Z -> Z.
Notation step := (step conv lut).
Notation reach := (reach conv lut).

Lemma cfg_of_P_set s s' : P_set s' = P_set s -> cfg_of s' = cfg_of s.
Proof. unfold P_set, cfg_of. intros H. inversion H as [[H1 H2 H3 H4 H5]]. rewrite H1, H2, H3. reflexivity. Qed.

Lemma process_cfg g s : cfg_of (fst (process conv lut g s)) = cfg_of s.
Proof. apply cfg_of_P_set. apply process_keeps_settings. Qed.

Lemma min_clamp e : (if e <? 2 then e else 2) = Z.min e 2.
Proof. destruct (Z.ltb_spec e 2); lia. Qed.

Theorem settings_readback : forall h s, reach h s -> cfg_of s = settings_of h.
Proof.
  induction 1 as [|h s o Hr IH Hwf].
  - reflexivity.
  - destruct o as [| |g|str|v|t k e|t v|u|f id]; cbn [step fst].
    + reflexivity.
    + (* clear *) unfold settings_of in *. cbn [set_ext_of set_prog_of set_corr_of]. exact IH.
    + rewrite process_cfg. exact IH.
    + destruct str as [l|]; [destruct (utils_convert l) as [g|]|]; cbn [fst];
        try rewrite process_cfg; exact IH.
    + unfold settings_of, cfg_of in *. cbn [set_ext_of set_prog_of set_corr_of with_ext ext prog corr].
      inversion IH as [[H0 H1 H2 H3 H4 H5 H6 H7 H8 H9]]. rewrite H1, H2, H3, H4, H5, H6, H7, H8, H9. reflexivity.
    + unfold settings_of, cfg_of in *. inversion IH as [[H0 H1 H2 H3 H4 H5 H6 H7 H8 H9]].
      unfold set_corr. rewrite min_clamp.
      cbn [set_ext_of set_prog_of set_corr_of with_corr ext prog corr].
      rewrite H0, H1, H2, H3.
      destruct t, k; cbn [fupd text_id_eqb blk_type_eqb andb];
        rewrite ?H4, ?H5, ?H6, ?H7, ?H8, ?H9; reflexivity.
    + unfold settings_of, cfg_of in *. inversion IH as [[H0 H1 H2 H3 H4 H5 H6 H7 H8 H9]].
      cbn [set_ext_of set_prog_of set_corr_of with_prog ext prog corr].
      rewrite H0, H4, H5, H6, H7, H8, H9.
      destruct t; cbn [fupd text_id_eqb]; rewrite ?H1, ?H2, ?H3; reflexivity.
    + unfold settings_of, cfg_of in *. cbn [set_ext_of set_prog_of set_corr_of with_ud ext prog corr]. exact IH.
    + unfold settings_of, cfg_of in *. cbn [set_ext_of set_prog_of set_corr_of with_cb ext prog corr]. exact IH.
Qed.

Lemma data_eqb_same_data s s' :
  used s' = used s -> ps s' = ps s -> rt0 s' = rt0 s -> rt1 s' = rt1 s -> ptyn s' = ptyn s ->
  data_eqb (snap_of s') (snap_of s) = true.
Proof.
  intros H1 H2 H3 H4 H5. unfold snap_of, data_eqb.
  cbn [sn_pi sn_pty sn_tp sn_ta sn_ms sn_ecc sn_country sn_af sn_ps sn_rt0 sn_rt1 sn_ptyn].
  rewrite H1, H2, H3, H4, H5.
  rewrite !Z.eqb_refl, list_eqb_Z_refl, !tsnap_eqb_refl. reflexivity.
Qed.

(* a setter leaves every decoded datum as it was and makes no callback *)
Lemma setter_inert : forall s o, is_setter o = true ->
  snd (step s o) = [] /\ data_eqb (snap_of (fst (step s o))) (snap_of s) = true.
Proof.
  intros s o Hs. destruct o; try discriminate; cbn [step fst snd]; split; try reflexivity;
    apply data_eqb_same_data; reflexivity.
Qed.

Theorem C17_observer_holds : forall h s o, reach h s -> wf_op o ->
  obs_C17 (o :: h) (snap_of s) (snap_of (fst (step s o))) (snd (step s o)) (ret_of o) = true.
Proof.
  intros h s o Hr Hwf. unfold obs_C17.
  pose proof (settings_readback _ _ (reach_step conv lut h s o Hr Hwf)) as Hc.
  apply andb_true_iff. split.
  - cbn [snap_of sn_cfg]. rewrite Hc. apply list_eqb_Z_refl.
  - destruct (is_setter o) eqn:Hs; [|reflexivity].
    destruct (setter_inert s o Hs) as [He Hd]. rewrite Hd, He. reflexivity.
Qed.

End Settings.
