(* Lemmas_TabConv.v — kernel-evaluated facts about the character graph of the unicode build (all
   256 bytes) measured on the compiled library (Gen.v).  Used by C02, C16, C20. *)
Require Import Observers Inst Ref_Tables Lemmas_Base.
Require Gen.
From Coq Require Import String.
Local Open Scope Z_scope.

(* ---------- charset ---------- *)
Definition conv_unicode_ok : bool :=
  Nat.eqb (List.length Gen.conv_unicode) 256
  && list_eqb Z.eqb (skipn 32 Gen.conv_unicode) ref_g0
  (* control codes are not stored, except 0x0D which is the end-of-text marker *)
  && all_from 32 0 (fun b => nth (Z.to_nat b) Gen.conv_unicode 99 =? (if b =? 13 then 0 else -1)).
Definition conv_narrow_ok : bool :=
  Nat.eqb (List.length Gen.conv_narrow) 256
  && all_from 256 0 (fun b => nth (Z.to_nat b) Gen.conv_narrow 99 =?
                                (if b =? 13 then 0 else if b <? 32 then -1 else if b <? 127 then b else 32)).
(* every stored character is printable: >= 0x20, not a C1 control, not NUL *)
Definition conv_printable_ok (conv : Z -> Z) : bool :=
  all_from 224 32 (fun b => printable (conv b)) && (conv 32 =? 32).
(* two bytes with the same unicode image have the same narrow image *)
Definition narrow_well_defined_ok : bool :=
  all_from 224 32 (fun i => all_from 224 32 (fun j =>
    negb (conv_u i =? conv_u j) || (conv_n i =? conv_n j))).

Lemma conv_unicode_is_G0 : conv_unicode_ok = true.
Proof. vm_compute. reflexivity. Qed.
Lemma conv_unicode_printable : conv_printable_ok conv_u = true.
Proof. vm_compute. reflexivity. Qed.
Lemma conv_printable_spec conv : conv_printable_ok conv = true ->
  (forall b, 32 <= b < 256 -> printable (conv b) = true) /\ conv 32 = 32.
Proof.
  unfold conv_printable_ok. intros H. apply andb_true_iff in H. destruct H as [H1 H2]. split.
  - intros b Hb. apply (all_from_spec _ _ _ H1). simpl. lia.
  - apply Z.eqb_eq. exact H2.
Qed.

