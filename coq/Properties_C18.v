(* Properties_C18.v — obligations of property C18.  Contains only theorem statements closed by
   `exact <lemma>` and Print Assumptions. *)
Require Import ObsRun.
Local Open Scope Z_scope.

(* non-vacuity: the observer of C18 is evaluated (and holds) along a run of the model that
   touches every group kind *)
Example C18_scenario : check_run_u (observer_u 18) scenario = true.
Proof. vm_compute. reflexivity. Qed.
Print Assumptions C18_scenario.
