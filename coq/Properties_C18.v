(* Properties_C18.v — obligations of property C18 (PTY and country lookups are total, bounded
   and name the right entity).  Every statement is a decidable fact about the COMPLETE graphs of
   the five lookup functions (all 256 argument values x RDS/RBDS x 3 tables, all 256 country
   arguments x 2 tables) as measured on the compiled library of the current tree (Gen.v), checked
   by the kernel.  Only `exact <lemma>` and Print Assumptions below. *)
Require Import ObsRun Lemmas_TabLookup.
Local Open Scope Z_scope.

(* total (no NULL, no embedded NUL), placeholder "Unknown" exactly outside 0..31, and inside the
   range the display terms of the reference tables — for all six PTY tables *)
Theorem C18_pty_total_placeholder_reference : pty_all_ok = true.
Proof. exact pty_tables_are_reference. Qed.
Print Assumptions C18_pty_total_placeholder_reference.

(* short names fit 8 characters, long names 16, RDS and RBDS *)
Theorem C18_pty_widths : pty_widths_ok = true.
Proof. exact pty_widths. Qed.
Print Assumptions C18_pty_widths.

(* 221 enumerators numbered consecutively; placeholder "Unknown"/"??" exactly for 0 and 221..255 *)
Theorem C18_country_total_placeholder : country_shape_ok = true.
Proof. exact country_shape. Qed.
Print Assumptions C18_country_total_placeholder.

(* for every enumerator IDENTIFIER of the public header, name and ISO 3166-1 code are those of
   the reference table entry of that identifier (so a reordering of the enum or of one of the two
   tables alone is caught) *)
Theorem C18_country_name_iso_reference : country_entries_ok = true.
Proof. exact country_tables_are_reference. Qed.
Print Assumptions C18_country_name_iso_reference.

Theorem C18_iso_two_letters : iso_all_format_ok = true.
Proof. exact iso_format. Qed.
Print Assumptions C18_iso_two_letters.

Theorem C18_iso_unique : iso_unique_ok = true.
Proof. exact iso_unique. Qed.
Print Assumptions C18_iso_unique.
