(* Lemmas_Cb.v — C04 for the seven buffered scalars: during a parse call the callback of a field is
   invoked exactly when the getter of that field returns something else after the call than before
   it, once, and it sees the new value. *)
Require Export Lemmas_NonInt Lemmas_Ext.
Local Open Scope Z_scope.

Definition isf (F : field) (e : event) : bool := field_eqb (ev_field e) F.

Section Cb.
Variable conv : Z -> Z.
Variable lut : Z -> Z -> Z.

(* every event an action can emit has its field in Fs *)
Definition fields_in (Fs : list field) (a : act) : Prop :=
  forall s e, In e (snd (a s)) -> In (ev_field e) Fs.

Lemma fields_skip Fs : fields_in Fs skip.
Proof. intros s e H. destruct H. Qed.
Lemma fields_andthen Fs a b : fields_in Fs a -> fields_in Fs b -> fields_in Fs (andthen a b).
Proof. intros Ha Hb s e H. rewrite andthen_snd in H. apply in_app_or in H. destruct H; [eapply Ha|eapply Hb]; eassumption. Qed.
Lemma fields_when Fs c a : fields_in Fs a -> fields_in Fs (when c a).
Proof. intros Ha. destruct c; [exact Ha|apply fields_skip]. Qed.
Lemma fields_weaken Fs Fs' a : fields_in Fs a -> incl Fs Fs' -> fields_in Fs' a.
Proof. intros H Hi s e He. apply Hi. eapply H. exact He. Qed.

Lemma emit_field F a sm s e : In e (emit F a sm s) -> ev_field e = F.
Proof. unfold emit. destruct (cb s F =? 0); [intros []|]. intros [<-|[]]. reflexivity. Qed.

Lemma fields_set_scalar f v : fields_in [field_of f] (set_scalar f v).
Proof.
  intros s e H. unfold set_scalar in H. destruct (buffer_update f v s) as [s' chg]. cbn [snd] in H.
  destruct chg; [|destruct H]. left. symmetry. eapply emit_field. exact H.
Qed.
Lemma fields_add_af v : fields_in [FAF] (add_af v).
Proof.
  intros s e H. unfold add_af in H. destruct (buffer_add_af v s) as [s' chg]. cbn [snd] in H.
  destruct chg; [|destruct H]. left. symmetry. eapply emit_field. exact H.
Qed.
Lemma text_event_field F a sl chg s e : In e (text_event F a sl chg s) -> ev_field e = F.
Proof. unfold text_event. destruct chg; [apply emit_field|intros []]. Qed.

Lemma fields_dispatch g : fields_in [FTA; FMS; FPS; FAF; FECC; FCOUNTRY; FRT; FCT; FPTYN] (dispatch conv lut g).
Proof.
  unfold dispatch. cbv zeta.
  destruct (get_group (gb g) =? 0).
  { unfold group0_parse, group0a_parse. apply fields_andthen; [apply fields_andthen|].
    - apply fields_when, fields_andthen; eapply fields_weaken; try apply fields_set_scalar; intros x [<-|[]]; cbn; tauto.
    - intros s e H. destruct (upd_string conv TPS _ _ _ _ s) as [s' chg]. cbn [snd] in H.
      apply text_event_field in H. rewrite H. cbn; tauto.
    - apply fields_when, fields_when, fields_when, fields_andthen; eapply fields_weaken; try apply fields_add_af; intros x [<-|[]]; cbn; tauto. }
  destruct (get_group (gb g) =? 1).
  { unfold group1_parse. apply fields_when, fields_andthen.
    - eapply fields_weaken; [apply fields_set_scalar|]. intros x [<-|[]]; cbn; tauto.
    - intros s e H. apply (fields_set_scalar SCountry _ s) in H. destruct H as [<-|[]]. cbn; tauto. }
  destruct (get_group (gb g) =? 2).
  { intros s e H. unfold group2_parse in H.
    repeat match type of H with context [let '(_, _) := ?X in _] => destruct X as [? ?] end.
    repeat match type of H with context [if ?c then _ else _] => destruct c end;
      repeat match type of H with context [let '(_, _) := ?X in _] => destruct X as [? ?] end;
      cbn [snd] in H; try (destruct H; fail); apply text_event_field in H; rewrite H; cbn; tauto. }
  destruct (get_group (gb g) =? 4).
  { intros s e H. rewrite group4_events in H.
    destruct (_ && negb _); [|destruct H]. destruct (ct_init _ _ _ _); [|destruct H].
    destruct H as [<-|[]]. cbn; tauto. }
  destruct (get_group (gb g) =? 10); [|apply fields_skip].
  intros s e H. unfold group10_parse in H. destruct (_ =? 0); [|destruct H].
  destruct (upd_string conv TPTYN (gc g) _ _ _ s) as [s2 c1].
  destruct (upd_string conv TPTYN (gd g) _ _ _ s2) as [s3 c2]. cbn [snd] in H.
  apply text_event_field in H. rewrite H. cbn; tauto.
Qed.

Lemma filter_fields F Fs a s : fields_in Fs a -> ~ In F Fs -> filter (isf F) (snd (a s)) = [].
Proof.
  intros Hf Hn. apply filter_none. apply Forall_forall. intros e He. unfold isf, field_eqb.
  destruct (Z.eqb_spec (field_idx (ev_field e)) (field_idx F)) as [E|E]; [|reflexivity].
  exfalso. apply Hn. assert (ev_field e = F) by (destruct (ev_field e), F; cbn in E; try discriminate; reflexivity).
  subst F. eapply Hf. exact He.
Qed.

(* one buffered scalar: the event list of set_scalar, in terms of the getter before and after *)
Lemma set_scalar_events f v s :
  let s' := fst (set_scalar f v s) in
  snd (set_scalar f v s) =
  if negb (getf f (used s') =? getf f (used s)) && negb (cb s (field_of f) =? 0)
  then [mkev (field_of f) (cb s (field_of f)) (ud s) ANone (SmZ (getf f (used s')))] else [].
Proof.
  cbv zeta. unfold set_scalar, buffer_update.
  destruct ((getf f (used s) =? v) || (ext s && negb (getf f (temp s) =? v))) eqn:C; cbn [fst snd].
  - cbn [with_temp used]. rewrite Z.eqb_refl. reflexivity.
  - cbn [with_used used cb ud]. rewrite getf_setf.
    replace (sfield_eqb f f) with true by (destruct f; reflexivity).
    apply orb_false_iff in C. destruct C as [C _]. rewrite Z.eqb_sym, C. cbn [negb andb].
    unfold emit. cbn [cb ud with_used]. destruct (cb s (field_of f) =? 0); reflexivity.
Qed.

End Cb.

Section CbScalar.
Variable conv : Z -> Z.
Variable lut : Z -> Z -> Z.

Definition formula (f : sfield) (s s' : state) : list event :=
  if negb (getf f (used s') =? getf f (used s)) && negb (cb s (field_of f) =? 0)
  then [mkev (field_of f) (cb s (field_of f)) (ud s) ANone (SmZ (getf f (used s')))] else [].

(* an action that neither changes the accepted value of f nor notifies its field *)
Definition untouched (f : sfield) (a : act) : Prop :=
  (forall s, getf f (used (fst (a s))) = getf f (used s))
  /\ (forall s, filter (isf (field_of f)) (snd (a s)) = []).
(* an action whose notifications of f's field are exactly: one iff the accepted value changed *)
Definition okf (f : sfield) (a : act) : Prop :=
  forall s, filter (isf (field_of f)) (snd (a s)) = formula f s (fst (a s)).

Lemma formula_same f s s' : getf f (used s') = getf f (used s) -> formula f s s' = [].
Proof. intros H. unfold formula. rewrite H, Z.eqb_refl. reflexivity. Qed.

Lemma untouched_okf f a : untouched f a -> okf f a.
Proof. intros [H1 H2] s. rewrite H2, formula_same by apply H1. reflexivity. Qed.
Lemma untouched_skip f : untouched f skip.
Proof. split; intros s; reflexivity. Qed.
Lemma untouched_andthen f a b : untouched f a -> untouched f b -> untouched f (andthen a b).
Proof.
  intros [A1 A2] [B1 B2]. split; intros s.
  - rewrite andthen_fst, B1, A1. reflexivity.
  - rewrite andthen_snd, filter_app, A2, B2. reflexivity.
Qed.
Lemma untouched_when f c a : untouched f a -> untouched f (when c a).
Proof. intros H. destruct c; [exact H|apply untouched_skip]. Qed.

Lemma okf_andthen_l f a b : okf f a -> untouched f b -> okf f (andthen a b).
Proof.
  intros Ha [B1 B2] s. rewrite andthen_snd, andthen_fst, filter_app, Ha, B2, app_nil_r.
  unfold formula. rewrite B1. reflexivity.
Qed.
Lemma okf_andthen_r f a b : untouched f a -> keeps P_set a -> okf f b -> okf f (andthen a b).
Proof.
  intros [A1 A2] K Hb s. rewrite andthen_snd, andthen_fst, filter_app, A2, Hb. cbn [app].
  unfold formula. rewrite A1. destruct (P_set_fields _ _ (K s)) as [_ [_ [Kc Ku]]]. rewrite Kc, Ku. reflexivity.
Qed.
Lemma okf_when f c a : okf f a -> okf f (when c a).
Proof. intros H. destruct c; [exact H|]. apply untouched_okf, untouched_skip. Qed.

Lemma isf_field_of_neq f f' e : ev_field e = field_of f' -> f <> f' -> isf (field_of f) e = false.
Proof. intros E N. unfold isf. rewrite E. destruct f, f'; try reflexivity; contradiction N; reflexivity. Qed.

Lemma okf_set_scalar f v : okf f (set_scalar f v).
Proof.
  intros s. rewrite set_scalar_events. cbv zeta. unfold formula.
  destruct (_ && _); [|reflexivity]. cbn [filter]. unfold isf. cbn [ev_field]. unfold field_eqb. rewrite Z.eqb_refl. reflexivity.
Qed.
Lemma untouched_set_scalar f f' v : f <> f' -> untouched f (set_scalar f' v).
Proof.
  intros N. split; intros s.
  - pose proof (refines_set_scalar f' v s) as R. unfold bproj in R.
    assert (E : used (fst (set_scalar f' v s)) = b_used (b_set f' v (used s, temp s, ext s))) by (rewrite <- R; reflexivity).
    rewrite E. change (getf f (b_used (b_set f' v (used s, temp s, ext s)))) with (fst (pairf f (b_set f' v (used s, temp s, ext s)))).
    rewrite pairf_b_set. replace (sfield_eqb f' f) with false by (destruct f, f'; try reflexivity; contradiction N; reflexivity).
    reflexivity.
  - apply filter_none. apply Forall_forall. intros e He. apply (fields_set_scalar f' v s) in He.
    destruct He as [He|[]]. apply (isf_field_of_neq f f' e (eq_sym He) N).
Qed.
Lemma untouched_add_af f v : untouched f (add_af v).
Proof.
  split; intros s.
  - pose proof (refines_add_af v s) as R. unfold bproj in R.
    assert (E : used (fst (add_af v s)) = b_used (b_af v (used s, temp s, ext s))) by (rewrite <- R; reflexivity).
    rewrite E. apply b_af_used.
  - apply (filter_fields (field_of f) [FAF] (add_af v) s (fields_add_af v)). destruct f; cbn; intuition discriminate.
Qed.

(* an action that keeps the buffer and only emits text / clock-time events *)
Lemma untouched_text f a Fs : keeps P_buf a -> fields_in Fs a -> ~ In (field_of f) Fs -> untouched f a.
Proof.
  intros K Hf Hn. split; intros s.
  - pose proof (K s) as E. unfold P_buf in E. inversion E as [[E1 E2]]. rewrite E1. reflexivity.
  - apply (filter_fields _ Fs a s Hf Hn).
Qed.

Lemma keeps_buf_ps_update g : keeps P_buf
  (fun s => let (s', chg) := upd_string conv TPS (gd g) (eb g) (ed g) (Z.to_nat (2 * get_ps_pos (gb g))) s in
            (s', text_event FPS ANone TPS chg s')).
Proof. keeps_leaf. Qed.
Lemma fields_ps_update g : fields_in [FPS]
  (fun s => let (s', chg) := upd_string conv TPS (gd g) (eb g) (ed g) (Z.to_nat (2 * get_ps_pos (gb g))) s in
            (s', text_event FPS ANone TPS chg s')).
Proof.
  intros s e H. destruct (upd_string conv TPS _ _ _ _ s) as [s' chg]. cbn [snd] in H.
  apply text_event_field in H. left. symmetry. exact H.
Qed.

(* the type-specific part of a group that is not type 0 or 1 never touches a buffered scalar *)
Lemma untouched_dispatch_rest f g : (get_group (gb g) =? 0) = false -> (get_group (gb g) =? 1) = false ->
  untouched f (dispatch conv lut g).
Proof.
  intros G0 G1. split; intros s.
  - pose proof (dispatch_refines conv lut g s) as R. unfold bproj in R.
    assert (E : used (fst (dispatch conv lut g s)) = b_used (b_dispatch lut g (used s, temp s, ext s))) by (rewrite <- R; reflexivity).
    rewrite E. unfold b_dispatch. rewrite G0, G1. reflexivity.
  - unfold dispatch. cbv zeta. rewrite G0, G1.
    destruct (get_group (gb g) =? 2).
    { apply (filter_fields _ [FRT]); [|destruct f; cbn; intuition discriminate].
      intros s0 e H. unfold group2_parse in H.
      repeat match type of H with context [let '(_, _) := ?X in _] => destruct X as [? ?] end.
      repeat match type of H with context [if ?c then _ else _] => destruct c end;
        repeat match type of H with context [let '(_, _) := ?X in _] => destruct X as [? ?] end;
        cbn [snd] in H; try (destruct H; fail); apply text_event_field in H; left; symmetry; exact H. }
    destruct (get_group (gb g) =? 4).
    { apply (filter_fields _ [FCT]); [|destruct f; cbn; intuition discriminate].
      intros s0 e H. rewrite group4_events in H.
      destruct (_ && negb _); [|destruct H]. destruct (ct_init _ _ _ _); [|destruct H].
      destruct H as [<-|[]]. left. reflexivity. }
    destruct (get_group (gb g) =? 10); [|reflexivity].
    apply (filter_fields _ [FPTYN]); [|destruct f; cbn; intuition discriminate].
    intros s0 e H. unfold group10_parse in H. destruct (get_flag (gb g) =? 0); [|destruct H].
    destruct (upd_string conv TPTYN (gc g) _ _ _ s0) as [s2 c1].
    destruct (upd_string conv TPTYN (gd g) _ _ _ s2) as [s3 c2]. cbn [snd] in H.
    apply text_event_field in H. left. symmetry. exact H.
Qed.

Ltac ne := let H := fresh in intros H; discriminate H.

(* C04 for every buffered scalar *)
Theorem process_scalar_callbacks f g : okf f (process conv lut g).
Proof.
  unfold process, group_parse.
  assert (Kgp : forall a b c, keeps P_set (andthen (when a (set_scalar SPi b)) (when c (andthen (set_scalar SPty (get_pty (gb g))) (set_scalar STp (get_tp (gb g))))))).
  { intros. apply keeps_andthen; [apply keeps_when, keeps_set_scalar|apply keeps_when, keeps_andthen; apply keeps_set_scalar]. }
  unfold dispatch. cbv zeta.
  destruct (get_group (gb g) =? 0) eqn:G0.
  { (* type 0: PI | PTY TP | TA MS | PS | AF *)
    unfold group0_parse, group0a_parse.
    set (A1 := when (ea g =? 0) (set_scalar SPi (ga g))).
    set (A2 := when (eb g =? 0) (andthen (set_scalar SPty (get_pty (gb g))) (set_scalar STp (get_tp (gb g))))).
    set (A3 := when (eb g =? 0) (andthen (set_scalar STa (get_ta (gb g))) (set_scalar SMs (get_ms (gb g))))).
    set (A4 := fun s => let (s', chg) := upd_string conv TPS (gd g) (eb g) (ed g) (Z.to_nat (2 * get_ps_pos (gb g))) s in (s', text_event FPS ANone TPS chg s')).
    set (A5 := when (get_flag (gb g) =? 0) (when ((eb g =? 0) && (ec g =? 0)) (when (negb (get_af1 (gc g) =? 250)) (andthen (add_af (get_af1 (gc g))) (add_af (get_af2 (gc g))))))).
    assert (U4 : untouched f A4).
    { apply (untouched_text f A4 [FPS]); [apply keeps_buf_ps_update|apply fields_ps_update|destruct f; cbn; intuition discriminate]. }
    assert (U5 : untouched f A5).
    { unfold A5. apply untouched_when, untouched_when, untouched_when, untouched_andthen; apply untouched_add_af. }
    assert (K1 : keeps P_set A1) by (apply keeps_when, keeps_set_scalar).
    assert (K2 : keeps P_set A2) by (apply keeps_when, keeps_andthen; apply keeps_set_scalar).
    assert (K12 : keeps P_set (andthen A1 A2)) by (apply keeps_andthen; assumption).
    destruct f.
    - (* PI *) apply okf_andthen_l.
      + apply okf_andthen_l; [apply okf_when, okf_set_scalar|].
        apply untouched_when, untouched_andthen; apply untouched_set_scalar; ne.
      + apply untouched_andthen; [apply untouched_andthen|]; try assumption.
        apply untouched_when, untouched_andthen; apply untouched_set_scalar; ne.
    - (* PTY *) apply okf_andthen_l.
      + apply okf_andthen_r; [apply untouched_when, untouched_set_scalar; ne|exact K1|].
        apply okf_when, okf_andthen_l; [apply okf_set_scalar|apply untouched_set_scalar; ne].
      + apply untouched_andthen; [apply untouched_andthen|]; try assumption.
        apply untouched_when, untouched_andthen; apply untouched_set_scalar; ne.
    - (* TP *) apply okf_andthen_l.
      + apply okf_andthen_r; [apply untouched_when, untouched_set_scalar; ne|exact K1|].
        apply okf_when, okf_andthen_r; [apply untouched_set_scalar; ne|apply keeps_set_scalar|apply okf_set_scalar].
      + apply untouched_andthen; [apply untouched_andthen|]; try assumption.
        apply untouched_when, untouched_andthen; apply untouched_set_scalar; ne.
    - (* TA *) apply okf_andthen_r.
      + apply untouched_andthen; [apply untouched_when, untouched_set_scalar; ne|].
        apply untouched_when, untouched_andthen; apply untouched_set_scalar; ne.
      + exact K12.
      + apply okf_andthen_l; [apply okf_andthen_l|]; try assumption.
        apply okf_when, okf_andthen_l; [apply okf_set_scalar|apply untouched_set_scalar; ne].
    - (* MS *) apply okf_andthen_r.
      + apply untouched_andthen; [apply untouched_when, untouched_set_scalar; ne|].
        apply untouched_when, untouched_andthen; apply untouched_set_scalar; ne.
      + exact K12.
      + apply okf_andthen_l; [apply okf_andthen_l|]; try assumption.
        apply okf_when, okf_andthen_r; [apply untouched_set_scalar; ne|apply keeps_set_scalar|apply okf_set_scalar].
    - (* ECC: untouched everywhere *) apply untouched_okf.
      apply untouched_andthen; [apply untouched_andthen|apply untouched_andthen; [apply untouched_andthen|]]; try assumption;
        try (apply untouched_when, untouched_set_scalar; ne); apply untouched_when, untouched_andthen; apply untouched_set_scalar; ne.
    - (* country *) apply untouched_okf.
      apply untouched_andthen; [apply untouched_andthen|apply untouched_andthen; [apply untouched_andthen|]]; try assumption;
        try (apply untouched_when, untouched_set_scalar; ne); apply untouched_when, untouched_andthen; apply untouched_set_scalar; ne. }
  destruct (get_group (gb g) =? 1) eqn:G1.
  { (* type 1: PI | PTY TP | ECC country *)
    unfold group1_parse.
    set (A1 := when (ea g =? 0) (set_scalar SPi (ga g))).
    set (A2 := when (eb g =? 0) (andthen (set_scalar SPty (get_pty (gb g))) (set_scalar STp (get_tp (gb g))))).
    set (C := fun s => set_scalar SCountry (ecc_lookup lut (d_pi (used s)) (get_ecc (gc g))) s).
    assert (K1 : keeps P_set A1) by (apply keeps_when, keeps_set_scalar).
    assert (K2 : keeps P_set A2) by (apply keeps_when, keeps_andthen; apply keeps_set_scalar).
    assert (K12 : keeps P_set (andthen A1 A2)) by (apply keeps_andthen; assumption).
    assert (UC : forall f', f' <> SCountry -> untouched f' C).
    { intros f' N. split; intros s; [apply (untouched_set_scalar f' SCountry _ N)|apply (untouched_set_scalar f' SCountry _ N)]. }
    assert (OC : okf SCountry C) by (intros s; apply (okf_set_scalar SCountry _ s)).
    destruct f.
    - apply okf_andthen_l.
      + apply okf_andthen_l; [apply okf_when, okf_set_scalar|].
        apply untouched_when, untouched_andthen; apply untouched_set_scalar; ne.
      + apply untouched_when, untouched_andthen; [apply untouched_set_scalar; ne|apply UC; ne].
    - apply okf_andthen_l.
      + apply okf_andthen_r; [apply untouched_when, untouched_set_scalar; ne|exact K1|].
        apply okf_when, okf_andthen_l; [apply okf_set_scalar|apply untouched_set_scalar; ne].
      + apply untouched_when, untouched_andthen; [apply untouched_set_scalar; ne|apply UC; ne].
    - apply okf_andthen_l.
      + apply okf_andthen_r; [apply untouched_when, untouched_set_scalar; ne|exact K1|].
        apply okf_when, okf_andthen_r; [apply untouched_set_scalar; ne|apply keeps_set_scalar|apply okf_set_scalar].
      + apply untouched_when, untouched_andthen; [apply untouched_set_scalar; ne|apply UC; ne].
    - apply untouched_okf. apply untouched_andthen; [apply untouched_andthen|].
      + apply untouched_when, untouched_set_scalar; ne.
      + apply untouched_when, untouched_andthen; apply untouched_set_scalar; ne.
      + apply untouched_when, untouched_andthen; [apply untouched_set_scalar; ne|apply UC; ne].
    - apply untouched_okf. apply untouched_andthen; [apply untouched_andthen|].
      + apply untouched_when, untouched_set_scalar; ne.
      + apply untouched_when, untouched_andthen; apply untouched_set_scalar; ne.
      + apply untouched_when, untouched_andthen; [apply untouched_set_scalar; ne|apply UC; ne].
    - apply okf_andthen_r.
      + apply untouched_andthen; [apply untouched_when, untouched_set_scalar; ne|].
        apply untouched_when, untouched_andthen; apply untouched_set_scalar; ne.
      + exact K12.
      + apply okf_when, okf_andthen_l; [apply okf_set_scalar|apply UC; ne].
    - apply okf_andthen_r.
      + apply untouched_andthen; [apply untouched_when, untouched_set_scalar; ne|].
        apply untouched_when, untouched_andthen; apply untouched_set_scalar; ne.
      + exact K12.
      + apply okf_when, okf_andthen_r; [apply untouched_set_scalar; ne|apply keeps_set_scalar|exact OC]. }
  (* every other group: only PI / PTY / TP can change *)
  pose proof (untouched_dispatch_rest f g G0 G1) as UD. unfold dispatch in UD. cbv zeta in UD. rewrite G0, G1 in UD.
  set (A1 := when (ea g =? 0) (set_scalar SPi (ga g))).
  assert (K1 : keeps P_set A1) by (apply keeps_when, keeps_set_scalar).
  destruct f.
  - apply okf_andthen_l; [|exact UD].
    apply okf_andthen_l; [apply okf_when, okf_set_scalar|].
    apply untouched_when, untouched_andthen; apply untouched_set_scalar; ne.
  - apply okf_andthen_l; [|exact UD].
    apply okf_andthen_r; [apply untouched_when, untouched_set_scalar; ne|exact K1|].
    apply okf_when, okf_andthen_l; [apply okf_set_scalar|apply untouched_set_scalar; ne].
  - apply okf_andthen_l; [|exact UD].
    apply okf_andthen_r; [apply untouched_when, untouched_set_scalar; ne|exact K1|].
    apply okf_when, okf_andthen_r; [apply untouched_set_scalar; ne|apply keeps_set_scalar|apply okf_set_scalar].
  - apply untouched_okf. apply untouched_andthen; [apply untouched_andthen|exact UD];
      [apply untouched_when, untouched_set_scalar; ne|apply untouched_when, untouched_andthen; apply untouched_set_scalar; ne].
  - apply untouched_okf. apply untouched_andthen; [apply untouched_andthen|exact UD];
      [apply untouched_when, untouched_set_scalar; ne|apply untouched_when, untouched_andthen; apply untouched_set_scalar; ne].
  - apply untouched_okf. apply untouched_andthen; [apply untouched_andthen|exact UD];
      [apply untouched_when, untouched_set_scalar; ne|apply untouched_when, untouched_andthen; apply untouched_set_scalar; ne].
  - apply untouched_okf. apply untouched_andthen; [apply untouched_andthen|exact UD];
      [apply untouched_when, untouched_set_scalar; ne|apply untouched_when, untouched_andthen; apply untouched_set_scalar; ne].
Qed.

End CbScalar.
