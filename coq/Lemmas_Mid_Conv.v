(* Lemmas_Mid_Conv.v — the character table in the SOURCE (the initialiser of `charset[]` in
   rdsparser_string_convert, translated on every run into GenMid.v) is the character graph MEASURED
   on the compiled library (Gen.v, by storing every code into a text and reading it back): all
   224 codes 32..255, both build configurations (kernel evaluation). *)
Require Export Inst GenMid Lemmas_LeafBase.
Require Import ZifyBool.
Local Open Scope Z_scope.

Definition conv_src_ok (x : Z) : bool :=
  (x <? 32) || ((m_string_convert x =? conv_u x)
                && (m_string_convert_n (if 127 <=? x then to_u8 32 else x) =? conv_n x)).
Lemma conv_src_sweep : all_from (Z.to_nat 256) 0 conv_src_ok = true.
Proof. vm_compute. reflexivity. Qed.

Lemma mid_convert_u x : 32 <= x < 256 -> m_string_convert x = conv_u x.
Proof.
  intros H. pose proof (sweep8 _ conv_src_sweep x ltac:(lia)) as S. unfold conv_src_ok in S.
  destruct (x <? 32) eqn:E; [lia|]. cbn [orb] in S. apply andb_prop in S. destruct S as [S _]. lia.
Qed.
Lemma mid_convert_n_lo x : 32 <= x < 127 -> m_string_convert_n x = conv_n x.
Proof.
  intros H. pose proof (sweep8 _ conv_src_sweep x ltac:(lia)) as S. unfold conv_src_ok in S.
  destruct (x <? 32) eqn:E; [lia|]. cbn [orb] in S. apply andb_prop in S. destruct S as [_ S].
  destruct (127 <=? x) eqn:E2; [lia|]. lia.
Qed.
Lemma mid_convert_n_hi x : 127 <= x < 256 -> m_string_convert_n (to_u8 32) = conv_n x.
Proof.
  intros H. pose proof (sweep8 _ conv_src_sweep x ltac:(lia)) as S. unfold conv_src_ok in S.
  destruct (x <? 32) eqn:E; [lia|]. cbn [orb] in S. apply andb_prop in S. destruct S as [_ S].
  destruct (127 <=? x) eqn:E2; [|lia]. lia.
Qed.
