(* Lemmas_Mid_Reg.v — the twelve registration functions and rdsparser_set_user_data
   (src/rdsparser.c), translated on every run (GenMid.v): each stores its argument in its own
   member and mentions nothing else — the model's ORegister / OSetUD steps. *)
Require Export Lemmas_MidBase.
Local Open Scope Z_scope.

Definition m_register (f : field) : Z -> Z -> Z * Z :=
  match f with
  | FPI => m_register_pi | FPTY => m_register_pty | FTP => m_register_tp | FTA => m_register_ta
  | FMS => m_register_ms | FECC => m_register_ecc | FCOUNTRY => m_register_country | FAF => m_register_af
  | FPS => m_register_ps | FRT => m_register_rt | FPTYN => m_register_ptyn | FCT => m_register_ct
  end.

Theorem mid_register : forall f id s,
  m_register f (cb s f) id = (0, cb (with_cb (fupd field_eqb (cb s) f id) s) f).
Proof.
  intros f id s. cbn [cb with_cb]. unfold fupd.
  assert (E : field_eqb f f = true) by (destruct f; reflexivity). rewrite E.
  destruct f; reflexivity.
Qed.

Theorem mid_set_user_data : forall u s, m_set_user_data (ud s) u = (0, ud (with_ud u s)).
Proof. intros u s. reflexivity. Qed.
