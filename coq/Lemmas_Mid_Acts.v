(* Lemmas_Mid_Acts.v — the setters with their callbacks (src/rdsparser.c: rdsparser_set_pi ...
   rdsparser_set_country, rdsparser_add_af) and the common part of every group (src/group.c:
   rdsparser_group_parse), translated on every run (GenMid.v), against the model's actions
   set_scalar, add_af and group_parse: same buffer members afterwards, same callbacks in the same
   order with the same arguments.
   A callback invocation of the C code is the list [code; callback; arguments...; user data]
   appended to the pseudo-member `events`; the model's event carries in addition the value the
   field's getter shows at that moment (proved at the level of the model: C04). *)
Require Export Lemmas_Mid_C09 Lemmas_Mid_C10 Lemmas_Leaf_C01 Lemmas_Frame.
Require Import ZifyBool.
Local Open Scope Z_scope.

Definition arg_vals (a : arg) : list Z :=
  match a with
  | ANone => []
  | AFreq k => [k]
  | AFlag f => [f]
  | ACT y m d h mi off => [y; m; d; h; mi; off]
  end.
Definition ev_call (e : event) : list Z :=
  field_idx (ev_field e) :: ev_cb e :: arg_vals (ev_arg e) ++ [ev_ud e].

Definition m_set (f : sfield) : Z -> Z -> Z -> Z -> list (list Z) -> Z -> Z -> Z * Z * Z * list (list Z) :=
  match f with
  | SPi => m_set_pi | SPty => m_set_pty | STp => m_set_tp | STa => m_set_ta
  | SMs => m_set_ms | SEcc => m_set_ecc | SCountry => m_set_country
  end.

Lemma buffer_update_keeps f v s :
  cb (fst (buffer_update f v s)) = cb s /\ ud (fst (buffer_update f v s)) = ud s /\ ext (fst (buffer_update f v s)) = ext s.
Proof. unfold buffer_update. destruct ((getf f (used s) =? v) || _); cbn; auto. Qed.

Ltac fold_update :=
  match goal with
  | |- context [m_buffer_update_pi ?a ?b ?c ?d] => change (m_buffer_update_pi a b c d) with (m_buffer_update SPi a b c d)
  | |- context [m_buffer_update_pty ?a ?b ?c ?d] => change (m_buffer_update_pty a b c d) with (m_buffer_update SPty a b c d)
  | |- context [m_buffer_update_tp ?a ?b ?c ?d] => change (m_buffer_update_tp a b c d) with (m_buffer_update STp a b c d)
  | |- context [m_buffer_update_ta ?a ?b ?c ?d] => change (m_buffer_update_ta a b c d) with (m_buffer_update STa a b c d)
  | |- context [m_buffer_update_ms ?a ?b ?c ?d] => change (m_buffer_update_ms a b c d) with (m_buffer_update SMs a b c d)
  | |- context [m_buffer_update_ecc ?a ?b ?c ?d] => change (m_buffer_update_ecc a b c d) with (m_buffer_update SEcc a b c d)
  | |- context [m_buffer_update_country ?a ?b ?c ?d] => change (m_buffer_update_country a b c d) with (m_buffer_update SCountry a b c d)
  end.

Theorem mid_set_scalar : forall f v s evs,
  m_set f (getf f (temp s)) (getf f (used s)) (b2z (ext s)) (cb s (field_of f)) evs (ud s) v
  = let r := set_scalar f v s in
    (0, getf f (temp (fst r)), getf f (used (fst r)), evs ++ map ev_call (snd r)).
Proof.
  intros f v s evs.
  destruct f; cbn [m_set field_of];
    unfold m_set_pi, m_set_pty, m_set_tp, m_set_ta, m_set_ms, m_set_ecc, m_set_country; cbv zeta;
    fold_update; rewrite mid_buffer_update; cbv zeta; unfold set_scalar; cbn [field_of];
    match goal with |- context [buffer_update ?f v s] =>
      destruct (buffer_update_keeps f v s) as [K1 [K2 _]]; destruct (buffer_update f v s) as [s' chg] end;
    cbn [fst snd] in *; unfold emit; rewrite K1, K2;
    destruct chg; cbn [b2z]; decide_atoms; unfold ev_call; cbn [map ev_field ev_cb ev_arg ev_ud arg_vals field_idx app];
    rewrite ?app_nil_r; first [reflexivity | exfalso; lia].
Qed.

Lemma buffer_add_af_keeps v s :
  cb (fst (buffer_add_af v s)) = cb s /\ ud (fst (buffer_add_af v s)) = ud s.
Proof.
  unfold buffer_add_af.
  repeat match goal with |- context [match ?x with _ => _ end] => destruct x end; cbn; auto.
Qed.

Theorem mid_add_af : forall v s evs, bytes (d_af (used s)) -> bytes (d_af (temp s)) -> 0 <= v < 256 ->
  m_add_af (d_af (temp s)) (d_af (used s)) (b2z (ext s)) (cb s FAF) evs (ud s) v
  = let r := add_af v s in
    (0, d_af (temp (fst r)), d_af (used (fst r)), evs ++ map ev_call (snd r)).
Proof.
  intros v s evs Bu Bt Hv. unfold m_add_af. cbv zeta.
  pose proof (mid_buffer_add_af v s Bu Bt Hv) as M. unfold b2z.
  destruct (m_buffer_add_af (d_af (temp s)) (d_af (used s)) (if ext s then 1 else 0) v) as [[r t'] u'].
  injection M as M1 M2 M3. subst t' u'.
  unfold add_af. destruct (buffer_add_af_keeps v s) as [K1 K2].
  destruct (buffer_add_af v s) as [s' chg]. cbn [fst snd] in *. subst chg.
  unfold emit. rewrite K1, K2.
  assert (F : to_u32 (87500 + to_u32 (v * 100)) = 87500 + v * 100).
  { unfold to_u32. rewrite (Z.mod_small (v * 100)) by lia. apply Z.mod_small. lia. }
  change (to_u32 87500) with 87500. change (to_u32 100) with 100. rewrite F.
  decide_atoms; unfold ev_call; cbn [map ev_field ev_cb ev_arg ev_ud arg_vals field_idx app];
    rewrite ?app_nil_r; first [reflexivity | exfalso; lia].
Qed.

(* ---------- frames of the model's actions, as rewriting rules ---------- *)
Lemma fr_set_temp f f0 v s : f <> f0 -> getf f (temp (fst (set_scalar f0 v s))) = getf f (temp s).
Proof.
  intros N. unfold set_scalar, buffer_update.
  destruct ((getf f0 (used s) =? v) || _); cbn [fst temp with_temp with_used]; [|reflexivity].
  destruct f, f0; try congruence; reflexivity.
Qed.
Lemma fr_set_used f f0 v s : f <> f0 -> getf f (used (fst (set_scalar f0 v s))) = getf f (used s).
Proof.
  intros N. unfold set_scalar, buffer_update.
  destruct ((getf f0 (used s) =? v) || _); cbn [fst used with_temp with_used]; [reflexivity|].
  destruct f, f0; try congruence; reflexivity.
Qed.
Lemma fr_set_misc f0 v s :
  let s' := fst (set_scalar f0 v s) in
  ext s' = ext s /\ cb s' = cb s /\ ud s' = ud s /\ corr s' = corr s /\ prog s' = prog s
  /\ ps s' = ps s /\ rt0 s' = rt0 s /\ rt1 s' = rt1 s /\ ptyn s' = ptyn s /\ last_rt s' = last_rt s
  /\ d_af (temp s') = d_af (temp s) /\ d_af (used s') = d_af (used s).
Proof.
  unfold set_scalar, buffer_update.
  destruct ((getf f0 (used s) =? v) || _); cbn [fst]; destruct f0; cbn; repeat split; reflexivity.
Qed.
Lemma fr_set_ext f0 v s : ext (fst (set_scalar f0 v s)) = ext s.   Proof. apply (fr_set_misc f0 v s). Qed.
Lemma fr_set_cb f0 v s : cb (fst (set_scalar f0 v s)) = cb s.      Proof. apply (fr_set_misc f0 v s). Qed.
Lemma fr_set_ud f0 v s : ud (fst (set_scalar f0 v s)) = ud s.      Proof. apply (fr_set_misc f0 v s). Qed.
Lemma fr_set_corr f0 v s : corr (fst (set_scalar f0 v s)) = corr s. Proof. apply (fr_set_misc f0 v s). Qed.
Lemma fr_set_prog f0 v s : prog (fst (set_scalar f0 v s)) = prog s. Proof. apply (fr_set_misc f0 v s). Qed.
Lemma fr_set_ps f0 v s : ps (fst (set_scalar f0 v s)) = ps s.      Proof. apply (fr_set_misc f0 v s). Qed.
Lemma fr_set_ptyn f0 v s : ptyn (fst (set_scalar f0 v s)) = ptyn s. Proof. apply (fr_set_misc f0 v s). Qed.
Lemma fr_set_rt0 f0 v s : rt0 (fst (set_scalar f0 v s)) = rt0 s.   Proof. apply (fr_set_misc f0 v s). Qed.
Lemma fr_set_rt1 f0 v s : rt1 (fst (set_scalar f0 v s)) = rt1 s.   Proof. apply (fr_set_misc f0 v s). Qed.
Lemma fr_set_last f0 v s : last_rt (fst (set_scalar f0 v s)) = last_rt s. Proof. apply (fr_set_misc f0 v s). Qed.
Lemma fr_set_aft f0 v s : d_af (temp (fst (set_scalar f0 v s))) = d_af (temp s). Proof. apply (fr_set_misc f0 v s). Qed.
Lemma fr_set_afu f0 v s : d_af (used (fst (set_scalar f0 v s))) = d_af (used s). Proof. apply (fr_set_misc f0 v s). Qed.

Ltac frames_in H :=
  repeat first
    [ match type of H with context [getf ?f (temp (fst (set_scalar ?f0 ?v ?s)))] => rewrite (fr_set_temp f f0 v s) in H by discriminate end
    | match type of H with context [getf ?f (used (fst (set_scalar ?f0 ?v ?s)))] => rewrite (fr_set_used f f0 v s) in H by discriminate end
    | rewrite fr_set_ext in H | rewrite fr_set_cb in H | rewrite fr_set_ud in H | rewrite fr_set_corr in H
    | rewrite fr_set_prog in H | rewrite fr_set_ps in H | rewrite fr_set_ptyn in H | rewrite fr_set_aft in H
    | rewrite fr_set_afu in H | rewrite fr_set_rt0 in H | rewrite fr_set_rt1 in H | rewrite fr_set_last in H ].
Ltac frames :=
  repeat first
    [ match goal with |- context [getf ?f (temp (fst (set_scalar ?f0 ?v ?s)))] => rewrite (fr_set_temp f f0 v s) by discriminate end
    | match goal with |- context [getf ?f (used (fst (set_scalar ?f0 ?v ?s)))] => rewrite (fr_set_used f f0 v s) by discriminate end
    | rewrite fr_set_ext | rewrite fr_set_cb | rewrite fr_set_ud | rewrite fr_set_corr
    | rewrite fr_set_prog | rewrite fr_set_ps | rewrite fr_set_ptyn | rewrite fr_set_aft
    | rewrite fr_set_afu | rewrite fr_set_rt0 | rewrite fr_set_rt1 | rewrite fr_set_last ].

(* the translated call of a setter at a state st reached by earlier setters, whose arguments the C
   code still names by the members of the state before them *)
Ltac use_set f v st evs :=
  let H := fresh "H" in
  pose proof (mid_set_scalar f v st evs) as H; cbv zeta in H; cbn [m_set field_of] in H; frames_in H;
  rewrite H; clear H.

Lemma to_s8_small x : 0 <= x < 128 -> to_s8 x = x.
Proof. intros H. unfold to_s8. cbv zeta. rewrite Z.mod_small by lia. destruct (x <? 128) eqn:E; lia. Qed.

Theorem mid_group_parse : forall g s evs, wf_group g ->
  m_group_parse (getf SPi (temp s)) (getf SPty (temp s)) (getf STp (temp s))
                (getf SPi (used s)) (getf SPty (used s)) (getf STp (used s))
                (b2z (ext s)) (cb s FPI) (cb s FPTY) (cb s FTP) evs (ud s)
                (ga g) (gb g) (gc g) (gd g) (ea g) (eb g) (ec g) (ed g)
  = let r := group_parse g s in
    let s' := fst r in
    (0, getf SPi (temp s'), getf SPty (temp s'), getf STp (temp s'),
        getf SPi (used s'), getf SPty (used s'), getf STp (used s'), evs ++ map ev_call (snd r)).
Proof.
  intros g s evs W. destruct W as [Wa [Wb _]]. unfold blk_ok in *.
  unfold m_group_parse. cbv zeta.
  rewrite leaf_get_pi, (leaf_get_pty _ _ _ _ Wb), (leaf_get_tp _ _ _ _ Wb).
  rewrite (get_pty_spec _ Wb), (get_tp_spec _ Wb).
  assert (Rp : 0 <= b_pty (gb g) < 32) by (unfold b_pty; split; [apply Z.mod_pos_bound|apply Z.mod_pos_bound]; lia).
  assert (Rt : 0 <= b_tp (gb g) < 2) by (unfold b_tp; split; apply Z.mod_pos_bound; lia).
  rewrite !to_s8_small by lia.
  unfold group_parse. rewrite (get_pty_spec _ Wb), (get_tp_spec _ Wb).
  generalize (b_pty (gb g)) (b_tp (gb g)). intros pty tp.
  use_set SPi (ga g) s evs.
  assert (go : forall st1 e1,
    getf SPty (temp st1) = getf SPty (temp s) -> getf SPty (used st1) = getf SPty (used s) ->
    getf STp (temp st1) = getf STp (temp s) -> getf STp (used st1) = getf STp (used s) ->
    ext st1 = ext s -> cb st1 = cb s -> ud st1 = ud s ->
    m_set_pty (getf SPty (temp s)) (getf SPty (used s)) (b2z (ext s)) (cb s FPTY) e1 (ud s) pty
    = (0, getf SPty (temp (fst (set_scalar SPty pty st1))), getf SPty (used (fst (set_scalar SPty pty st1))),
       e1 ++ map ev_call (snd (set_scalar SPty pty st1)))
    /\ forall e2, m_set_tp (getf STp (temp s)) (getf STp (used s)) (b2z (ext s)) (cb s FTP) e2 (ud s) tp
    = (0, getf STp (temp (fst (set_scalar STp tp (fst (set_scalar SPty pty st1))))),
          getf STp (used (fst (set_scalar STp tp (fst (set_scalar SPty pty st1))))),
       e2 ++ map ev_call (snd (set_scalar STp tp (fst (set_scalar SPty pty st1)))))).
  { intros st1 e1 A1 A2 A3 A4 A5 A6 A7. split; [|intros e2].
    - pose proof (mid_set_scalar SPty pty st1 e1) as H. cbv zeta in H. cbn [m_set field_of] in H.
      rewrite A1, A2, A5, A6, A7 in H. exact H.
    - pose proof (mid_set_scalar STp tp (fst (set_scalar SPty pty st1)) e2) as H. cbv zeta in H.
      cbn [m_set field_of] in H. frames_in H. rewrite A3, A4, A5, A6, A7 in H. exact H. }
  destruct (ea g =? 0); cbv iota; rewrite ?when_true, ?when_false.
  - destruct (go (fst (set_scalar SPi (ga g) s)) (evs ++ map ev_call (snd (set_scalar SPi (ga g) s))))
      as [G1 G2]; frames; try reflexivity.
    rewrite G1, G2.
    destruct (eb g =? 0); cbv iota; rewrite ?when_true, ?when_false;
      rewrite ?andthen_fst, ?andthen_snd; cbn [skip fst snd app];
      frames; rewrite ?map_app, ?app_nil_r, ?app_assoc; reflexivity.
  - destruct (go s evs) as [G1 G2]; try reflexivity.
    rewrite G1, G2.
    destruct (eb g =? 0); cbv iota; rewrite ?when_true, ?when_false;
      rewrite ?andthen_fst, ?andthen_snd; cbn [skip fst snd app];
      frames; rewrite ?map_app, ?app_nil_r, ?app_assoc; reflexivity.
Qed.
