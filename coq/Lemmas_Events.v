(* Lemmas_Events.v — what the callbacks of one call look like: every event carries the
   registered function and the current user data (C15), and clock-time events come from group 4A
   only (C12). *)
Require Export Lemmas_Ct.
Local Open Scope Z_scope.

Section Events.
Variable conv : Z -> Z.
Variable lut : Z -> Z -> Z.

(* all events of an action satisfy R, for states with the given callbacks / user data *)
Definition evs_sat (c : bool * (text_id -> bool) * (text_id -> blk_type -> Z) * Z * (field -> Z))
           (R : event -> Prop) (a : act) : Prop :=
  forall s, P_set s = c -> Forall R (snd (a s)).

Lemma evs_skip c R : evs_sat c R skip.
Proof. intros s _. constructor. Qed.
Lemma evs_andthen c R a b : evs_sat c R a -> keeps P_set a -> evs_sat c R b -> evs_sat c R (andthen a b).
Proof.
  intros Ha Hk Hb s Hs. rewrite andthen_snd. apply Forall_app. split; [apply Ha; exact Hs|].
  apply Hb. rewrite Hk. exact Hs.
Qed.
Lemma evs_when c R cond a : evs_sat c R a -> evs_sat c R (when cond a).
Proof. intros Ha. destruct cond; [exact Ha|apply evs_skip]. Qed.

(* the event predicate: registered function, current user data, and not a clock-time event *)
Definition ev_good (c : bool * (text_id -> bool) * (text_id -> blk_type -> Z) * Z * (field -> Z)) (e : event) : Prop :=
  let '(_, _, _, u, cbs) := c in
  ev_ud e = u /\ ev_cb e = cbs (ev_field e) /\ ev_cb e <> 0 /\ ev_field e <> FCT.

Lemma emit_good c f a sm s : P_set s = c -> f <> FCT -> Forall (ev_good c) (emit f a sm s).
Proof.
  intros Hs Hf. unfold emit. destruct (cb s f =? 0) eqn:E; [constructor|].
  constructor; [|constructor]. unfold P_set in Hs. subst c. unfold ev_good. cbn.
  apply Z.eqb_neq in E. repeat split; auto.
Qed.

Lemma set_scalar_good c f v : evs_sat c (ev_good c) (set_scalar f v).
Proof.
  intros s Hs. unfold set_scalar. pose proof (set_scalar_keeps_txt f v) as _.
  destruct (buffer_update f v s) as [s' chg] eqn:E. cbn [snd].
  destruct chg; [|constructor]. apply emit_good; [|destruct f; discriminate].
  assert (Hk : P_set s' = P_set s).
  { unfold buffer_update in E. destruct (_ || _); inversion E; subst; reflexivity. }
  rewrite Hk. exact Hs.
Qed.

Lemma add_af_good c v : evs_sat c (ev_good c) (add_af v).
Proof.
  intros s Hs. unfold add_af. destruct (buffer_add_af v s) as [s' chg] eqn:E. cbn [snd].
  destruct chg; [|constructor]. apply emit_good; [|discriminate].
  assert (Hk : P_set s' = P_set s).
  { unfold buffer_add_af in E. repeat break_hyp; inv_pairs; try discriminate; reflexivity. }
  rewrite Hk. exact Hs.
Qed.

Lemma upd_string_P_set sl w ei ed pos s : P_set (fst (upd_string conv sl w ei ed pos s)) = P_set s.
Proof.
  unfold upd_string. destruct (_ && _); [|reflexivity].
  destruct (string_update _ _ _ _ _ _ _ _) as [[t' c]|]; [|reflexivity]. destruct sl; reflexivity.
Qed.

Lemma text_event_good c f a sl chg s : P_set s = c -> f <> FCT -> Forall (ev_good c) (text_event f a sl chg s).
Proof. intros Hs Hf. unfold text_event. destruct chg; [apply emit_good; assumption|constructor]. Qed.

Lemma ps_update_good c g : evs_sat c (ev_good c)
  (fun s => let (s', chg) := upd_string conv TPS (gd g) (eb g) (ed g) (Z.to_nat (2 * get_ps_pos (gb g))) s in
            (s', text_event FPS ANone TPS chg s')).
Proof.
  intros s Hs. pose proof (upd_string_P_set TPS (gd g) (eb g) (ed g) (Z.to_nat (2 * get_ps_pos (gb g))) s) as Hk.
  destruct (upd_string conv TPS (gd g) (eb g) (ed g) _ s) as [s' chg]. cbn [fst snd] in *.
  apply text_event_good; [rewrite Hk; exact Hs|discriminate].
Qed.

Lemma group2_good c g fl : evs_sat c (ev_good c) (group2_parse conv g fl).
Proof.
  intros s Hs. unfold group2_parse.
  set (rf := get_rt_flag (gb g)). set (sl := if rf =? 0 then TRT0 else TRT1).
  match goal with |- Forall _ (snd (let '(s1, chg0) := ?X in _)) => set (st1 := X) end.
  assert (K1 : P_set (fst st1) = P_set s).
  { unfold st1. destruct (_ && _); [|reflexivity]. destruct (_ && _); cbn [fst]; destruct sl; reflexivity. }
  destruct st1 as [s1 chg0]. cbn [fst] in K1.
  destruct (_ && _ && _); [constructor|].
  destruct (fl =? 0).
  - pose proof (upd_string_P_set sl (gc g) (eb g) (ec g) (Z.to_nat (4 * get_rt_pos (gb g))) s1) as K2.
    destruct (upd_string conv sl (gc g) (eb g) (ec g) _ s1) as [s2 c1]. cbn [fst] in K2.
    pose proof (upd_string_P_set sl (gd g) (eb g) (ed g) (Z.to_nat (4 * get_rt_pos (gb g) + 2)) s2) as K3.
    destruct (upd_string conv sl (gd g) (eb g) (ed g) _ s2) as [s3 c2]. cbn [fst snd] in *.
    apply text_event_good; [congruence|discriminate].
  - pose proof (upd_string_P_set sl (gd g) (eb g) (ed g) (Z.to_nat (2 * get_rt_pos (gb g))) s1) as K3.
    destruct (upd_string conv sl (gd g) (eb g) (ed g) _ s1) as [s3 c2]. cbn [fst snd] in *.
    apply text_event_good; [congruence|discriminate].
Qed.

Lemma group10_good c g fl : evs_sat c (ev_good c) (group10_parse conv g fl).
Proof.
  intros s Hs. unfold group10_parse. destruct (fl =? 0); [|constructor].
  pose proof (upd_string_P_set TPTYN (gc g) (eb g) (ec g) (Z.to_nat (4 * get_ptyn_pos (gb g))) s) as K2.
  destruct (upd_string conv TPTYN (gc g) (eb g) (ec g) _ s) as [s2 c1]. cbn [fst] in K2.
  pose proof (upd_string_P_set TPTYN (gd g) (eb g) (ed g) (Z.to_nat (4 * get_ptyn_pos (gb g) + 2)) s2) as K3.
  destruct (upd_string conv TPTYN (gd g) (eb g) (ed g) _ s2) as [s3 c2]. cbn [fst snd] in *.
  apply text_event_good; [congruence|discriminate].
Qed.

Lemma keeps_set_scalar f v : keeps P_set (set_scalar f v).
Proof. keeps_leaf. Qed.
Lemma keeps_add_af v : keeps P_set (add_af v).
Proof. keeps_leaf. Qed.
Lemma keeps_ps_update g : keeps P_set
  (fun s => let (s', chg) := upd_string conv TPS (gd g) (eb g) (ed g) (Z.to_nat (2 * get_ps_pos (gb g))) s in
            (s', text_event FPS ANone TPS chg s')).
Proof. keeps_leaf. Qed.
Lemma keeps_group_parse g : keeps P_set (group_parse g).
Proof. keeps_tac. Qed.

Lemma group_parse_good c g : evs_sat c (ev_good c) (group_parse g).
Proof.
  unfold group_parse.
  apply evs_andthen; [apply evs_when, set_scalar_good|apply keeps_when, keeps_set_scalar|].
  apply evs_when. apply evs_andthen; [apply set_scalar_good|apply keeps_set_scalar|apply set_scalar_good].
Qed.

(* every group other than 4 makes only well-formed, non-clock-time callbacks *)
Lemma dispatch_good c g : (get_group (gb g) =? 4) = false -> evs_sat c (ev_good c) (dispatch conv lut g).
Proof.
  intros G4. unfold dispatch. cbv zeta.
  destruct (get_group (gb g) =? 0).
  { unfold group0_parse, group0a_parse.
    apply evs_andthen.
    - apply evs_andthen; [|apply keeps_when, keeps_andthen; apply keeps_set_scalar|apply ps_update_good].
      apply evs_when. apply evs_andthen; [apply set_scalar_good|apply keeps_set_scalar|apply set_scalar_good].
    - apply keeps_andthen; [apply keeps_when, keeps_andthen; apply keeps_set_scalar|apply keeps_ps_update].
    - apply evs_when, evs_when, evs_when. apply evs_andthen; [apply add_af_good|apply keeps_add_af|apply add_af_good]. }
  destruct (get_group (gb g) =? 1).
  { unfold group1_parse. apply evs_when. apply evs_andthen; [apply set_scalar_good|apply keeps_set_scalar|].
    intros s Hs. apply (set_scalar_good c SCountry _ s Hs). }
  destruct (get_group (gb g) =? 2); [apply group2_good|].
  rewrite G4.
  destruct (get_group (gb g) =? 10); [apply group10_good|apply evs_skip].
Qed.

(* group 4: at most one event, a clock-time event with the registered function and user data *)
Lemma group4_events g fl s :
  snd (group4_parse g fl s) =
  if (fl =? 0) && (eb g =? 0) && (ec g =? 0) && (ed g =? 0) && negb (cb s FCT =? 0) then
    match ct_init (get_mjd (gb g) (gc g)) (get_hour (gc g) (gd g)) (get_minute (gd g)) (get_offset (gd g)) with
    | Some a => [mkev FCT (cb s FCT) (ud s) a SmNone]
    | None => []
    end
  else [].
Proof.
  unfold group4_parse. destruct ((fl =? 0) && (eb g =? 0) && (ec g =? 0) && (ed g =? 0)); [|reflexivity].
  cbn [andb]. destruct (cb s FCT =? 0) eqn:E; [reflexivity|]. cbn [negb].
  destruct (ct_init _ _ _ _); [|reflexivity]. cbn [snd]. unfold emit. rewrite E. reflexivity.
Qed.

End Events.

Lemma filter_none {A} (p : A -> bool) l : Forall (fun x => p x = false) l -> filter p l = [].
Proof. induction 1 as [|x r Hx Hr IH]; simpl; [reflexivity|]. rewrite Hx. exact IH. Qed.

Lemma good_not_ct c e : ev_good c e -> is_ct_event e = false.
Proof.
  destruct c as [[[[x p] co] u] cbs]. intros [_ [_ [_ Hf]]]. unfold is_ct_event.
  destruct (ev_field e); try reflexivity. contradiction.
Qed.
