(* Lemmas_ObsCb.v — the boolean observer of C04 (a callback fires exactly when its field changes
   and sees the new value) as a theorem of the model, and with it the callback-sample conjunct
   of obs_C16. *)
Require Export Lemmas_ObsAf.
Require Import ZifyBool.
Local Open Scope Z_scope.
Ltac Zify.zify_post_hook ::= Z.div_mod_to_equations.

Lemma count_field_isf F evs : count_field F evs = length (filter (isf F) evs).
Proof. reflexivity. Qed.

Lemma forallb_if_isf F (P : event -> bool) evs :
  forallb (fun e => if field_eqb (ev_field e) F then P e else true) evs = forallb P (filter (isf F) evs).
Proof.
  induction evs as [|e r IH]; [reflexivity|]. cbn [forallb filter]. unfold isf at 1.
  destruct (field_eqb (ev_field e) F); cbn [forallb]; rewrite IH; reflexivity.
Qed.

Lemma scalar_of_snap f s : scalar_of f (snap_of s) = getf f (used s).
Proof. destruct f; reflexivity. Qed.

Lemma tsnap_eqb_cells t' t : tsnap_eqb (tsnap_of t') (tsnap_of t) = cells_eqb (cells t') (cells t).
Proof.
  destruct (cells_eqb (cells t') (cells t)) eqn:E.
  - apply cells_eqb_eq in E. rewrite (tsnap_of_cells t' t E). apply tsnap_eqb_refl.
  - unfold tsnap_eqb. rewrite !tsnap_cells. fold (cells_eqb (cells t') (cells t)). rewrite E. apply andb_false_r.
Qed.

Section ObsCb.
Variable conv : Z -> Z.
Variable lut : Z -> Z -> Z.
Notation Inv := (Inv conv).
Notation reach := (reach conv lut).
Notation step := (step conv lut).
Notation process := (process conv lut).

(* one buffered scalar *)
Lemma scalar_ok h s o g f : reach h s -> op_group o = Some g ->
  scalar_events_ok (o :: h) (snap_of s) (snap_of (fst (process g s))) (snd (process g s)) f = true.
Proof.
  intros Hr Eo. destruct (reach_cb_ud conv lut h s Hr) as [Hcb _].
  unfold scalar_events_ok. rewrite !scalar_of_snap, count_field_isf, forallb_if_isf.
  rewrite (h_cb_parse o h (field_of f)) by (left; congruence). rewrite <- Hcb.
  rewrite (process_scalar_callbacks conv lut f g s). unfold formula.
  destruct (negb (getf f (used (fst (process g s))) =? getf f (used s)) && negb (cb s (field_of f) =? 0)).
  - cbn [length Nat.eqb forallb ev_sample andb]. rewrite Z.eqb_refl. reflexivity.
  - reflexivity.
Qed.

(* a text whose callbacks are given by text_formula *)
Lemma text_ok h s o g F sl : reach h s -> op_group o = Some g ->
  filter (isf F) (snd (process g s)) = text_formula F (get_text sl s) (get_text sl (fst (process g s))) s ->
  text_events_ok (o :: h) (snap_of s) (snap_of (fst (process g s))) (snd (process g s)) F sl = true.
Proof.
  intros Hr Eo Hev. destruct (reach_cb_ud conv lut h s Hr) as [Hcb _].
  unfold text_events_ok. rewrite count_field_isf, forallb_if_isf, !snap_text, tsnap_eqb_cells.
  rewrite (h_cb_parse o h F) by (left; congruence). rewrite <- Hcb.
  rewrite Hev. unfold text_formula.
  destruct (negb (cells_eqb (cells (get_text sl (fst (process g s)))) (cells (get_text sl s))) && negb (cb s F =? 0)).
  - cbn [length Nat.eqb forallb ev_sample andb]. rewrite tsnap_eqb_refl. reflexivity.
  - reflexivity.
Qed.

Lemma text_formula_same F t s : text_formula F t t s = [].
Proof. unfold text_formula. rewrite cells_eqb_refl. reflexivity. Qed.

Theorem obs_C04_holds h s o ret : reach h s -> wf_op o ->
  obs_C04 (o :: h) (snap_of s) (snap_of (fst (step s o))) (snd (step s o)) ret = true.
Proof.
  intros Hr Wo. pose proof (reach_inv conv lut h s Hr) as I.
  pose proof (reach_last_rt conv lut h s Hr) as HL.
  destruct (reach_cb_ud conv lut h s Hr) as [Hcb _].
  unfold obs_C04. destruct (op_group o) as [g|] eqn:Eo.
  2:{ rewrite (C04_only_parse conv lut o s Eo). reflexivity. }
  pose proof (af_changes_holds conv lut h s o g Hr Wo Eo) as Haf.
  destruct (parse_step conv lut o g s Eo Wo) as [Es Wg]. rewrite Es in *.
  pose proof Wg as [_ [Hb _]]. unfold blk_ok in Hb.
  apply andb_true_intro; split; [apply andb_true_intro; split; [apply andb_true_intro; split;
    [apply andb_true_intro; split; [apply andb_true_intro; split|]|]|]|].
  - (* scalars *)
    apply forallb_forall. intros f _. apply (scalar_ok h s o g f Hr Eo).
  - (* PS *)
    apply (text_ok h s o g FPS TPS Hr Eo). exact (ps_callbacks conv lut g s I Wg).
  - (* PTYN *)
    apply (text_ok h s o g FPTYN TPTYN Hr Eo). cbn [get_text].
    destruct (Z.eqb_spec (b_group (gb g)) 10) as [G|G]; [destruct (Z.eqb_spec (b_ver (gb g)) 0) as [V|V]|].
    + exact (ptyn_callbacks_10A conv lut g s I Wg G V).
    + rewrite (no_ptyn_events conv lut g s Hb) by tauto.
      destruct (group_cases conv lut (gb g) Hb) as [G0|[G2|[[_ V0]|[N0 [N2 N10]]]]]; try lia.
      destruct (no_text_step conv lut g s I Wg N0 N2 N10) as [_ [_ [_ [Hp _]]]]. rewrite Hp.
      symmetry. apply text_formula_same.
    + rewrite (no_ptyn_events conv lut g s Hb) by tauto.
      assert (Hp : ptyn (fst (process g s)) = ptyn s).
      { destruct (group_cases conv lut (gb g) Hb) as [G0|[G2|[[G10 _]|[N0 [N2 N10]]]]]; try lia.
        - destruct (ps_step conv lut g s I Wg G0) as [_ [_ [_ [P _]]]]. exact P.
        - destruct (rt_step conv lut g s I Wg G2) as [_ [P _]]. exact P.
        - destruct (no_text_step conv lut g s I Wg N0 N2 N10) as [_ [_ [_ [P _]]]]. exact P. }
      rewrite Hp. symmetry. apply text_formula_same.
  - (* RT *)
    rewrite is_rt_event_isf.
    destruct (is_type2 g) eqn:T2.
    2:{ assert (N2 : b_group (gb g) <> 2) by (unfold is_type2 in T2; lia).
        rewrite (no_rt_events conv lut g s Hb N2).
        assert (K : rt0 (fst (process g s)) = rt0 s /\ rt1 (fst (process g s)) = rt1 s).
        { destruct (group_cases conv lut (gb g) Hb) as [G|[G|[[G V]|[N0 [_ N10]]]]]; [|contradiction| |].
          - destruct (ps_step conv lut g s I Wg G) as [_ [A [B _]]]. auto.
          - destruct (ptyn_step conv lut g s I Wg G V) as [_ [_ [A [B _]]]]. auto.
          - destruct (no_text_step conv lut g s I Wg N0 N2 N10) as [_ [A [B _]]]. auto. }
        destruct K as [K2 K3]. cbn [snap_of sn_rt0 sn_rt1]. rewrite K2, K3, !tsnap_eqb_refl. reflexivity. }
    assert (G : b_group (gb g) = 2) by (unfold is_type2 in T2; lia).
    pose proof (rt_step conv lut g s I Wg G) as St. cbv zeta in St. destruct St as [_ [_ [Hother _]]].
    pose proof (rt_callbacks conv lut g s I Wg G) as Hev. cbv zeta in Hev.
    destruct (type2_forms g (last_rt s) T2) as [Fi Fs]. rewrite <- Fi in Hev. rewrite <- Fs in Hev.
    rewrite rt_switch_m, <- HL.
    set (f := b_rtflag (gb g)) in *. set (sl := rt_slot f).
    rewrite !rt_of_slot in Hev, Hother. fold sl in Hev.
    rewrite (h_cb_parse o h FRT) by (left; congruence). rewrite <- Hcb.
    rewrite snap_avail, !snap_text, tsnap_eqb_cells, Hother, tsnap_eqb_refl, andb_true_r.
    set (rte := filter (isf FRT) (snd (process g s))) in *.
    destruct (m_ignored (last_rt s) g) eqn:Ig.
    { (* ignored: nothing changes, no callback *)
      assert (Sw : m_switch (last_rt s) g = false).
      { unfold m_ignored, m_switch in *. destruct (eb g =? 0); cbn in Ig |- *; [rewrite andb_false_r in Ig; discriminate|].
        rewrite andb_false_r. reflexivity. }
      rewrite Sw. cbn [andb orb].
      rewrite (texts_step conv lut g s I Wg sl). unfold spec_cells. rewrite Ig, cells_eqb_refl.
      rewrite Hev. reflexivity. }
    rewrite Hev.
    assert (Eqv : m_switch (last_rt s) g && string_available (get_text sl s)
                  || negb (cells_eqb (cells (get_text sl (fst (process g s))))
                                     (if m_switch (last_rt s) g && string_available (get_text sl s)
                                      then cells (string_clear (get_text sl s)) else cells (get_text sl s)))
                  = negb (cells_eqb (cells (get_text sl (fst (process g s)))) (cells (get_text sl s)))
                    || m_switch (last_rt s) g && string_available (get_text sl s)).
    { destruct (m_switch (last_rt s) g && string_available (get_text sl s)); [rewrite orb_true_r|rewrite orb_false_r]; reflexivity. }
    rewrite Eqv.
    destruct ((negb (cells_eqb (cells (get_text sl (fst (process g s)))) (cells (get_text sl s)))
               || m_switch (last_rt s) g && string_available (get_text sl s)) && negb (cb s FRT =? 0)).
    + cbn [length Nat.eqb forallb ev_arg ev_sample andb]. rewrite Z.eqb_refl, tsnap_eqb_refl. reflexivity.
    + reflexivity.
  - (* AF *)
    exact Haf.
  - (* the registered function *)
    pose proof (process_args conv lut h s g Hr Wg) as Ha.
    apply forallb_forall. intros e He. rewrite forallb_forall in Ha. specialize (Ha e He).
    rewrite (h_cb_parse o h (ev_field e)) by (left; congruence).
    apply andb_true_iff in Ha. destruct Ha as [Ha1 Ha2]. apply andb_true_iff in Ha1. destruct Ha1 as [_ Ha1].
    rewrite Ha1, Ha2. reflexivity.
Qed.

End ObsCb.

(* ---------- C16: the text a callback sees is well-formed too ---------- *)
Section ObsWF.
Variable conv : Z -> Z.
Variable lut : Z -> Z -> Z.
Hypothesis conv_printable : forall b, 32 <= b < 256 -> printable (conv b) = true.
Hypothesis conv_space : conv 32 = 32.
Notation Inv := (Inv conv).
Notation reach := (reach conv lut).
Notation step := (step conv lut).
Notation process := (process conv lut).

Definition sample_ok (s' : state) (e : event) : Prop :=
  match ev_sample e with
  | SmText t => exists sl, t = tsnap_of (get_text sl s')
  | _ => True
  end.

Lemma in_filter_self F e evs : In e evs -> ev_field e = F -> In e (filter (isf F) evs).
Proof. intros H E. apply filter_In. split; [exact H|apply filter_isf_self; exact E]. Qed.

Lemma sample_cases h s g e : reach h s -> wf_group g -> In e (snd (process g s)) ->
  sample_ok (fst (process g s)) e.
Proof.
  intros Hr Wg He. pose proof (reach_inv conv lut h s Hr) as I.
  pose proof Wg as [_ [Hb _]]. unfold blk_ok in Hb.
  unfold sample_ok.
  destruct (ev_field e) eqn:F.
  1-7: (pose proof (in_filter_self _ e _ He F) as Hf;
        match type of Hf with In _ (filter (isf ?X) _) =>
          match X with
          | FPI => change X with (field_of SPi) in Hf | FPTY => change X with (field_of SPty) in Hf
          | FTP => change X with (field_of STp) in Hf | FTA => change X with (field_of STa) in Hf
          | FMS => change X with (field_of SMs) in Hf | FECC => change X with (field_of SEcc) in Hf
          | FCOUNTRY => change X with (field_of SCountry) in Hf
          end
        end;
        rewrite (process_scalar_callbacks conv lut _ g s) in Hf; unfold formula in Hf;
        match type of Hf with In _ (if ?c then _ else _) => destruct c end;
        [destruct Hf as [<-|[]]; exact Logic.I|destruct Hf]).
  - (* AF *)
    pose proof (in_filter_self _ e _ He F) as Hf.
    pose proof (af_callbacks conv lut h g s Hr Wg) as H. cbv zeta in H.
    destruct ((b_group (gb g) =? 0) && (b_ver (gb g) =? 0) && (eb g =? 0) && (ec g =? 0) && negb (w_hi (gc g) =? 250)).
    + destruct H as [a1 [Ev _]]. rewrite Ev in Hf. apply in_app_or in Hf.
      destruct Hf as [Hf|Hf]; match type of Hf with In _ (if ?c then _ else _) => destruct c end;
        try (destruct Hf; fail); destruct Hf as [<-|[]]; exact Logic.I.
    + destruct H as [Ev _]. rewrite Ev in Hf. destruct Hf.
  - (* PS *)
    pose proof (in_filter_self _ e _ He F) as Hf. rewrite (ps_callbacks conv lut g s I Wg) in Hf.
    unfold text_formula in Hf. match type of Hf with In _ (if ?c then _ else _) => destruct c end; [|destruct Hf].
    destruct Hf as [<-|[]]. cbn [ev_sample]. exists TPS. reflexivity.
  - (* RT *)
    pose proof (in_filter_self _ e _ He F) as Hf.
    destruct (Z.eq_dec (b_group (gb g)) 2) as [G|G].
    + pose proof (rt_callbacks conv lut g s I Wg G) as Hev. cbv zeta in Hev. rewrite Hev in Hf.
      match type of Hf with In _ (if ?c then _ else _) => destruct c end; [destruct Hf|].
      match type of Hf with In _ (if ?c then _ else _) => destruct c end; [|destruct Hf].
      destruct Hf as [<-|[]]. cbn [ev_sample]. exists (rt_slot (b_rtflag (gb g))). rewrite rt_of_slot. reflexivity.
    + rewrite (no_rt_events conv lut g s Hb G) in Hf. destruct Hf.
  - (* PTYN *)
    pose proof (in_filter_self _ e _ He F) as Hf.
    destruct (Z.eq_dec (b_group (gb g)) 10) as [G|G]; [destruct (Z.eq_dec (b_ver (gb g)) 0) as [V|V]|].
    + rewrite (ptyn_callbacks_10A conv lut g s I Wg G V) in Hf.
      unfold text_formula in Hf. match type of Hf with In _ (if ?c then _ else _) => destruct c end; [|destruct Hf].
      destruct Hf as [<-|[]]. cbn [ev_sample]. exists TPTYN. reflexivity.
    + rewrite (no_ptyn_events conv lut g s Hb) in Hf by tauto. destruct Hf.
    + rewrite (no_ptyn_events conv lut g s Hb) in Hf by tauto. destruct Hf.
  - (* CT *)
    destruct (get_group (gb g) =? 4) eqn:G4.
    + destruct (process_events4 conv lut g s G4) as [E Hgood]. rewrite E in He. apply in_app_or in He.
      destruct He as [He|He].
      * rewrite Forall_forall in Hgood. pose proof (good_not_ct _ e (Hgood e He)) as N.
        unfold is_ct_event in N. rewrite F in N. discriminate.
      * rewrite group4_events in He. destruct (_ && negb _); [|destruct He].
        destruct (ct_init _ _ _ _); [|destruct He]. destruct He as [<-|[]]. exact Logic.I.
    + pose proof (process_events conv lut g s G4) as Hgood. rewrite Forall_forall in Hgood.
      pose proof (good_not_ct _ e (Hgood e He)) as N. unfold is_ct_event in N. rewrite F in N. discriminate.
Qed.

Theorem obs_C16_holds h s o ret : reach h s -> wf_op o ->
  obs_C16 conv (o :: h) (snap_of s) (snap_of (fst (step s o))) (snd (step s o)) ret = true.
Proof.
  intros Hr Wo. pose proof (reach_inv conv lut h s Hr) as I.
  pose proof (step_inv conv lut s o I Wo) as I'.
  unfold obs_C16.
  pose proof (wf_always conv lut conv_printable conv_space (o :: h) (fst (step s o)) (snap_of s)
                        (reach_step conv lut h s o Hr Wo)) as Hs.
  unfold obs_C16_snap in Hs. rewrite Hs. cbn [andb].
  destruct (op_group o) as [g|] eqn:Eo.
  2:{ rewrite (C04_only_parse conv lut o s Eo). reflexivity. }
  destruct (parse_step conv lut o g s Eo Wo) as [Es Wg]. rewrite Es in *.
  apply forallb_forall. intros e He.
  pose proof (sample_cases h s g e Hr Wg He) as Hc. unfold sample_ok in Hc.
  destruct (ev_sample e) as [|v|a|t]; try reflexivity.
  destruct Hc as [sl ->]. rewrite tsnap_cells.
  rewrite (cells_length conv sl _ I').
  apply (tsnap_wf_of_text_ok conv conv_printable conv_space). apply (inv_text conv sl _ I').
Qed.

End ObsWF.
