(* Lemmas_Leaf_C10.v — the two AF codes of block C: the C functions, translated on every run (GenLeaf.v), equal the functions of
   the model for every 16-bit block value (kernel sweep over all 65536 values: any equivalent
   rewrite of the C code still passes, any other has a concrete failing value). *)
Require Export Lemmas_LeafBase.
Require Import ZifyBool.
Local Open Scope Z_scope.

Definition leaf_C10_ok (x : Z) : bool :=
  (c_get_af1 0 0 x 0 =? get_af1 x) && (c_get_af2 0 0 x 0 =? get_af2 x).
Lemma leaf_C10_sweep : all_from (Z.to_nat 65536) 0 leaf_C10_ok = true.
Proof. vm_compute. reflexivity. Qed.

Lemma leaf_get_af1 d0 d1 d2 d3 : 0 <= d2 < 65536 -> c_get_af1 d0 d1 d2 d3 = get_af1 d2.
Proof.
  intros H. pose proof (sweep16 _ leaf_C10_sweep d2 H) as S. unfold leaf_C10_ok in S. split_andb S.
  change (c_get_af1 d0 d1 d2 d3) with (c_get_af1 0 0 d2 0). lia.
Qed.
Lemma leaf_get_af2 d0 d1 d2 d3 : 0 <= d2 < 65536 -> c_get_af2 d0 d1 d2 d3 = get_af2 d2.
Proof.
  intros H. pose proof (sweep16 _ leaf_C10_sweep d2 H) as S. unfold leaf_C10_ok in S. split_andb S.
  change (c_get_af2 d0 d1 d2 d3) with (c_get_af2 0 0 d2 0). lia.
Qed.
