(* Lemmas_Leaf_C10.v — the two AF codes of block C: the C functions, translated on every run (GenLeaf.v), equal the functions of
   the model for every 16-bit block value (kernel sweep over all 65536 values: any equivalent
   rewrite of the C code still passes, any other has a concrete failing value). *)
Require Export Lemmas_LeafBase.
Require Import ZifyBool.
Local Open Scope Z_scope.

Definition leaf_C10_ok (x : Z) : bool :=
  (c_get_af1 0 0 x 0 =? get_af1 x) && (c_get_af2 0 0 x 0 =? get_af2 x).
Lemma leaf_C10_sweep : all_from (Z.to_nat 65536) 0 leaf_C10_ok = true.
Proof. vm_compute. reflexivity. Qed.

Lemma leaf_get_af1 d0 d1 d2 d3 : 0 <= d2 < 65536 -> c_get_af1 d0 d1 d2 d3 = get_af1 d2.
Proof.
  intros H. pose proof (sweep16 _ leaf_C10_sweep d2 H) as S. unfold leaf_C10_ok in S. split_andb S.
  change (c_get_af1 d0 d1 d2 d3) with (c_get_af1 0 0 d2 0). lia.
Qed.
Lemma leaf_get_af2 d0 d1 d2 d3 : 0 <= d2 < 65536 -> c_get_af2 d0 d1 d2 d3 = get_af2 d2.
Proof.
  intros H. pose proof (sweep16 _ leaf_C10_sweep d2 H) as S. unfold leaf_C10_ok in S. split_andb S.
  change (c_get_af2 d0 d1 d2 d3) with (c_get_af2 0 0 d2 0). lia.
Qed.

(* ---------- the AF bitmap: rdsparser_af_get / rdsparser_af_set (src/af.c), translated on every run
   with the bitmap as a list (p->buffer[i] is nth, p->buffer[i] |= m is upd) ---------- *)
Require Import Lemmas_Af.
Ltac Zify.zify_post_hook ::= Z.div_mod_to_equations.

(* the index and bit position of a code, in whichever of the usual forms the C code computes them *)
Lemma quot8 v : 0 <= v < 256 -> to_u8 (Z.quot v 8) = v / 8.
Proof. intros H. rewrite Z.quot_div_nonneg by lia. unfold to_u8. rewrite Z.mod_small; lia. Qed.
Lemma rem8 v : 0 <= v < 256 -> to_u8 (Z.rem v 8) = v mod 8.
Proof. intros H. rewrite Z.rem_mod_nonneg by lia. unfold to_u8. rewrite Z.mod_small; lia. Qed.
Lemma shr3 v : 0 <= v < 256 -> Z.shiftr v 3 = v / 8.
Proof. intros H. rewrite Z.shiftr_div_pow2 by lia. reflexivity. Qed.
Lemma land7 v : 0 <= v < 256 -> Z.land v 7 = v mod 8.
Proof. intros H. change 7 with (Z.ones 3). rewrite Z.land_ones by lia. reflexivity. Qed.
Lemma u8_small x : 0 <= x < 256 -> to_u8 x = x.
Proof. intros H. unfold to_u8. apply Z.mod_small. exact H. Qed.
Lemma u32_small x : 0 <= x < 4294967296 -> to_u32 x = x.
Proof. intros H. unfold to_u32. apply Z.mod_small. exact H. Qed.
Lemma div8_range v : 0 <= v < 256 -> 0 <= v / 8 < 256.
Proof. intros H. split; [apply Z.div_pos; lia|]. apply Z.div_lt_upper_bound; lia. Qed.
Lemma mod8_range v : 0 <= v mod 8 < 256.
Proof. pose proof (Z.mod_pos_bound v 8 ltac:(lia)). lia. Qed.

(* bring index and bit position to v / 8 and v mod 8 *)
Ltac norm8 H :=
  rewrite ?Z.geb_leb, ?Z.gtb_ltb;
  rewrite ?(Z.quot_div_nonneg _ 8), ?(Z.rem_mod_nonneg _ 8) by lia;
  rewrite ?(shr3 _ H), ?(land7 _ H);
  rewrite ?(u8_small _ (div8_range _ H)), ?(u8_small _ (mod8_range _)), ?(u32_small (_ / 8)), ?(u32_small (_ mod 8)) by
      (first [apply div8_range; exact H | pose proof (div8_range _ H); pose proof (mod8_range); lia]).

Theorem leaf_af_get a v : 0 <= v < 256 -> c_af_get a v = if af_get a v then 1 else 0.
Proof.
  intros H. unfold c_af_get, af_get, af_ok, af_mask. cbv zeta. norm8 H.
  destruct ((1 <=? v) && (v <=? 204)); reflexivity.
Qed.

Theorem leaf_af_set a v : length a = 26%nat -> Forall (fun x => 0 <= x < 256) a -> 0 <= v < 256 ->
  af_set a v = Some (c_af_set__buffer a v, negb (c_af_set__ret a v =? 0)).
Proof.
  intros Hl Hb H. unfold c_af_set__buffer, c_af_set__ret, c_af_set, af_set, af_ok, af_mask. cbv zeta. norm8 H.
  destruct ((1 <=? v) && (v <=? 204)) eqn:E; [|reflexivity].
  assert (Hi : (Z.to_nat (v / 8) < length a)%nat) by (rewrite Hl; lia).
  destruct (nth_error a (Z.to_nat (v / 8))) as [byte|] eqn:En; [|apply nth_error_None in En; lia].
  rewrite (nth_error_nth _ _ 0 En).
  pose proof (nth_byte a (Z.to_nat (v / 8)) Hb) as Hn. rewrite (nth_error_nth _ _ 0 En) in Hn.
  destruct (byte_facts byte (v mod 8) Hn ltac:(lia)) as [_ [R _]].
  rewrite ?(u8_small _ R). reflexivity.
Qed.
