(* Lemmas_Leaf_C10.v — the two AF codes of block C: the C functions, translated on every run (GenLeaf.v), equal the functions of
   the model for every 16-bit block value (kernel sweep over all 65536 values: any equivalent
   rewrite of the C code still passes, any other has a concrete failing value). *)
Require Export Lemmas_LeafBase.
Require Import ZifyBool.
Local Open Scope Z_scope.

Definition leaf_C10_ok (x : Z) : bool :=
  (c_get_af1 0 0 x 0 =? get_af1 x) && (c_get_af2 0 0 x 0 =? get_af2 x).
Lemma leaf_C10_sweep : all_from (Z.to_nat 65536) 0 leaf_C10_ok = true.
Proof. vm_compute. reflexivity. Qed.

Lemma leaf_get_af1 d0 d1 d2 d3 : 0 <= d2 < 65536 -> c_get_af1 d0 d1 d2 d3 = get_af1 d2.
Proof.
  intros H. pose proof (sweep16 _ leaf_C10_sweep d2 H) as S. unfold leaf_C10_ok in S. split_andb S.
  change (c_get_af1 d0 d1 d2 d3) with (c_get_af1 0 0 d2 0). lia.
Qed.
Lemma leaf_get_af2 d0 d1 d2 d3 : 0 <= d2 < 65536 -> c_get_af2 d0 d1 d2 d3 = get_af2 d2.
Proof.
  intros H. pose proof (sweep16 _ leaf_C10_sweep d2 H) as S. unfold leaf_C10_ok in S. split_andb S.
  change (c_get_af2 d0 d1 d2 d3) with (c_get_af2 0 0 d2 0). lia.
Qed.

(* ---------- the AF bitmap: rdsparser_af_get / rdsparser_af_set (src/af.c), translated on every run
   with the bitmap as a list (p->buffer[i] is nth, p->buffer[i] |= m is upd) ---------- *)
Require Import Lemmas_Af.
Ltac Zify.zify_post_hook ::= Z.div_mod_to_equations.

(* The three closed sub-terms of the C functions — range test, byte index, bit mask — are compared
   with the model's over all 256 codes by kernel evaluation, whatever form the C code computes them
   in; what remains is the same expression over the indexed byte. *)
Ltac sweep_z v H :=
  apply Z.eqb_eq; revert v H;
  match goal with |- forall v, 0 <= v < 256 -> (@?P v) = true =>
    intros v H; exact (sweep8 P ltac:(vm_compute; reflexivity) v H) end.
Ltac sweep_b v H :=
  apply Bool.eqb_prop; revert v H;
  match goal with |- forall v, 0 <= v < 256 -> (@?P v) = true =>
    intros v H; exact (sweep8 P ltac:(vm_compute; reflexivity) v H) end.

Ltac norm_index a v H :=
  repeat match goal with
         | |- context [nth (Z.to_nat ?I) a 0] =>
           lazymatch I with (v / 8) => fail | _ => idtac end;
           let E := fresh "E" in assert (E : I = v / 8) by (sweep_z v H); rewrite !E; clear E
         | |- context [upd (Z.to_nat ?I) _ a] =>
           lazymatch I with (v / 8) => fail | _ => idtac end;
           let E := fresh "E" in assert (E : I = v / 8) by (sweep_z v H); rewrite !E; clear E
         end.
Ltac norm_mask a v H :=
  repeat match goal with
         | |- context [Z.land (nth (Z.to_nat (v / 8)) a 0) ?M] =>
           lazymatch M with (Z.shiftr 128 (v mod 8)) => fail | _ => idtac end;
           let E := fresh "E" in assert (E : M = Z.shiftr 128 (v mod 8)) by (sweep_z v H); rewrite !E; clear E
         | |- context [Z.lor (nth (Z.to_nat (v / 8)) a 0) ?M] =>
           lazymatch M with (Z.shiftr 128 (v mod 8)) => fail | _ => idtac end;
           let E := fresh "E" in assert (E : M = Z.shiftr 128 (v mod 8)) by (sweep_z v H); rewrite !E; clear E
         end.
Ltac norm_cond v H :=
  match goal with
  | |- context [if ?c then _ else _] =>
    lazymatch c with context [nth] => fail | _ => idtac end;
    lazymatch c with ((1 <=? v) && (v <=? 204)) => fail | _ => idtac end;
    let E := fresh "E" in assert (E : c = ((1 <=? v) && (v <=? 204))) by (sweep_b v H); rewrite !E; clear E
  | _ => idtac
  end.

Lemma u8_small x : 0 <= x < 256 -> to_u8 x = x.
Proof. intros H. unfold to_u8. apply Z.mod_small. exact H. Qed.

Theorem leaf_af_get a v : 0 <= v < 256 -> c_af_get a v = if af_get a v then 1 else 0.
Proof.
  intros H. unfold c_af_get, af_get, af_ok, af_mask. cbv zeta.
  norm_index a v H. norm_mask a v H. norm_cond v H.
  destruct ((1 <=? v) && (v <=? 204)); cbn [andb]; first [reflexivity | destruct (negb _); reflexivity].
Qed.

Theorem leaf_af_set a v : length a = 26%nat -> Forall (fun x => 0 <= x < 256) a -> 0 <= v < 256 ->
  af_set a v = Some (c_af_set__buffer a v, negb (c_af_set__ret a v =? 0)).
Proof.
  intros Hl Hb H. unfold c_af_set__buffer, c_af_set__ret, c_af_set, af_set, af_ok, af_mask. cbv zeta.
  norm_index a v H. norm_mask a v H. norm_cond v H.
  destruct ((1 <=? v) && (v <=? 204)) eqn:E; [|reflexivity].
  assert (Hi : (Z.to_nat (v / 8) < length a)%nat) by (rewrite Hl; lia).
  destruct (nth_error a (Z.to_nat (v / 8))) as [byte|] eqn:En; [|apply nth_error_None in En; lia].
  rewrite ?(nth_error_nth _ _ 0 En).
  pose proof (nth_byte a (Z.to_nat (v / 8)) Hb) as Hn. rewrite (nth_error_nth _ _ 0 En) in Hn.
  destruct (byte_facts byte (v mod 8) Hn ltac:(lia)) as [_ [R _]].
  rewrite ?(u8_small _ R). reflexivity.
Qed.
