(* Properties_C13.v — obligations of property C13.  Contains only theorem statements closed by
   `exact <lemma>` and Print Assumptions. *)
Require Import ObsRun.
Local Open Scope Z_scope.

(* non-vacuity: the observer of C13 is evaluated (and holds) along a run of the model that
   touches every group kind *)
Example C13_scenario : check_run_u (observer_u 13) scenario = true.
Proof. vm_compute. reflexivity. Qed.
Print Assumptions C13_scenario.
