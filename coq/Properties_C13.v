(* Properties_C13.v — obligations of property C13 (reset forgets all history and keeps all
   settings). *)
Require Import ObsRun Lemmas_Step.
Local Open Scope Z_scope.

(* For every reachable state s: rdsparser_clear yields EXACTLY the freshly initialised state with
   the extended-check flag, thresholds, progressive flags, callbacks and user data of s.  The
   model state is the whole of struct librdsparser, so nothing else can carry history. *)
Theorem C13_clear_is_fresh : forall conv lut h s,
  reach conv lut h s -> clear s = with_settings_of s init_state.
Proof. exact clear_is_fresh. Qed.
Print Assumptions C13_clear_is_fresh.

(* hence, for every continuation, a cleared parser behaves like a fresh one with those settings *)
Theorem C13_same_future : forall conv lut h s ops, reach conv lut h s ->
  run_from conv lut (clear s) ops = run_from conv lut (with_settings_of s init_state) ops.
Proof. exact clear_same_future. Qed.
Print Assumptions C13_same_future.

(* every getter reports unknown / empty right after clear, the ten settings are those of s *)
Theorem C13_snapshot : forall conv lut h s, reach conv lut h s ->
  snap_of (clear s) = mksnap (-1) (-1) (-1) (-1) (-1) (-1) 0 af_empty
                             (tsnap_of (string_init 8)) (tsnap_of (string_init 64))
                             (tsnap_of (string_init 64)) (tsnap_of (string_init 8)) (cfg_of s).
Proof. intros conv lut h s H. rewrite (clear_is_fresh conv lut h s H). reflexivity. Qed.
Print Assumptions C13_snapshot.

Example C13_scenario : check_run_u (observer_u 13) scenario = true.
Proof. vm_compute. reflexivity. Qed.
Example C13_nontrivial :
  let s := run_u (firstn 22 scenario) in
  sn_pi (snap_of s) = 12801 /\ sn_pi (snap_of (clear s)) = -1 /\ cfg_of (clear s) = cfg_of s
  /\ ts_avail (sn_ps (snap_of s)) = true.
Proof. vm_compute. repeat split. Qed.
