(* Lemmas_Leaf_C06.v — rdsparser_string_calculate_error, translated on every run (GenLeaf.v), equals the
   model's calc_error for all 256 x 256 pairs of error codes (kernel sweep). *)
Require Export Lemmas_LeafBase.
Require Import ZifyBool.
Local Open Scope Z_scope.

Definition leaf_err_ok (i : Z) : bool :=
  all_from (Z.to_nat 256) 0 (fun d => c_calc_error i d =? calc_error i d).
Lemma leaf_err_sweep : all_from (Z.to_nat 256) 0 leaf_err_ok = true.
Proof. vm_compute. reflexivity. Qed.
Lemma leaf_calc_error i d : 0 <= i < 256 -> 0 <= d < 256 -> c_calc_error i d = calc_error i d.
Proof.
  intros Hi Hd. pose proof (sweep8 _ leaf_err_sweep i Hi) as S. unfold leaf_err_ok in S.
  pose proof (sweep8 _ S d Hd) as S2. cbv beta in S2. lia.
Qed.
