(* Properties_C07.v — obligations of property C07.  Contains only theorem statements closed by
   `exact <lemma>` and Print Assumptions. *)
Require Import ObsRun.
Local Open Scope Z_scope.

(* non-vacuity: the observer of C07 is evaluated (and holds) along a run of the model that
   touches every group kind *)
Example C07_scenario : check_run_u (observer_u 7) scenario = true.
Proof. vm_compute. reflexivity. Qed.
Print Assumptions C07_scenario.
