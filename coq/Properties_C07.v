(* Properties_C07.v — obligations of property C07 (progressive correction only ever improves a
   character cell). *)
Require Import ObsRun Lemmas_TextProps Lemmas_Prog Lemmas_ObsText Lemmas_Converge.
Local Open Scope Z_scope.

(* one reception under progressive correction: the level of the cell never rises, and if the cell
   is rewritten its new level is the weighted level of that reception, which is not worse than the
   level it had ("equal level replaces, worse level does not") *)
Theorem C07_reception : forall conv info data old b eb e,
  let new := cell_after conv info data true old b eb e in
  snd new <= snd old /\ (new <> old -> snd new = lvl eb e /\ lvl eb e <= snd old).
Proof. exact cell_after_progressive. Qed.
Print Assumptions C07_reception.

(* a level-0 (error-free) cell can only be changed by an error-free reception *)
Theorem C07_error_free_sticky : forall conv info data c b eb e, 0 <= eb -> 0 <= e ->
  cell_after conv info data true (c, 0) b eb e <> (c, 0) -> eb = 0 /\ e = 0.
Proof.
  intros conv info data c b eb e Hb He H.
  destruct (cell_after_progressive conv info data (c, 0) b eb e) as [_ H2]. cbv zeta in H2.
  destruct (H2 H) as [_ Hl]. cbn [snd] in Hl. unfold lvl in Hl.
  destruct ((eb =? 0) && (e =? 0)) eqn:E; lia.
Qed.
Print Assumptions C07_error_free_sticky.

(* lifted to a whole type-0 group on a progressive PS: no PS level rises.  (PTYN and each RT buffer
   between switches likewise, through C06_ptyn / C06_rt; the RT switch and clear/init reset.) *)
Theorem C07_ps_levels_never_rise : forall conv lut g s, Inv conv s -> wf_group g -> b_group (gb g) = 0 ->
  prog s PS = true ->
  forall i, snd (nth i (cells (ps (fst (process conv lut g s)))) (0, 0)) <= snd (nth i (cells (ps s)) (0, 0)).
Proof.
  intros conv lut g s I W G Hp i.
  destruct (ps_step conv lut g s I W G) as [E _]. rewrite E, Hp.
  assert (L : (S (Z.to_nat (2 * (gb g mod 4))) < length (cells (ps s)))%nat).
  { unfold cells. rewrite map_length. destruct (inv_ps conv s I) as [Hl _]. rewrite Hl.
    destruct W as [_ [Hb _]]. unfold blk_ok in Hb. lia. }
  destruct (Nat.eq_dec i (Z.to_nat (2 * (gb g mod 4)))) as [->|N1].
  - rewrite write2_first by exact L. apply cell_after_progressive.
  - destruct (Nat.eq_dec i (S (Z.to_nat (2 * (gb g mod 4))))) as [->|N2].
    + rewrite write2_second by exact L. apply cell_after_progressive.
    + rewrite write2_other by assumption. lia.
Qed.
Print Assumptions C07_ps_levels_never_rise.

(* the same for PTYN, and for each RT buffer between resets (clear / init / an A/B switch that
   empties it) *)
Theorem C07_ptyn_levels_never_rise : forall conv lut g s, Inv conv s -> wf_group g -> prog s PTYN = true ->
  forall i, snd (nth i (cells (ptyn (fst (process conv lut g s)))) (0, 0)) <= snd (nth i (cells (ptyn s)) (0, 0)).
Proof. exact ptyn_levels_never_rise. Qed.
Print Assumptions C07_ptyn_levels_never_rise.

Theorem C07_rt_levels_never_rise : forall conv lut g s, Inv conv s -> wf_group g -> b_group (gb g) = 2 -> prog s RT = true ->
  let f := b_rtflag (gb g) in
  ((eb g =? 0) && negb (f =? last_rt s) && negb (last_rt s =? -1) && string_available (rt_of f s)) = false ->
  forall i, snd (nth i (cells (rt_of f (fst (process conv lut g s)))) (0, 0)) <= snd (nth i (cells (rt_of f s)) (0, 0)).
Proof. exact rt_levels_never_rise. Qed.
Print Assumptions C07_rt_levels_never_rise.

(* CONVERGENCE.  Feed ANY stream of groups (any types, any error codes, any interleaving) to a
   parser whose PS is progressive.  If the error-free receptions are consistent with a target text
   tgt (every storable byte an error-free type-0 group delivers for cell i converts to tgt i), then
   every cell that already holds its target at level 0, or is delivered error-free at least once in
   the stream, holds (tgt i, level 0) at the end — regardless of the corrected receptions
   interleaved before or after. *)
Theorem C07_ps_converges : forall conv lut tgt gs s, Inv conv s -> prog s PS = true ->
  Forall wf_group gs -> Forall (consistent conv tgt) gs ->
  forall i, (i < 8)%nat ->
  (nth i (cells (ps s)) (0, 0) = (tgt i, 0) \/ existsb (fun g => delivers g i) gs = true) ->
  nth i (cells (ps (feed conv lut s gs))) (0, 0) = (tgt i, 0).
Proof. exact ps_converges. Qed.
Print Assumptions C07_ps_converges.

(* ... and for EVERY text (PS, PTYN, either RadioText buffer).  ef_write g sl i is the byte that an
   error-free reception of group g (error-free B and carrying block) delivers to cell i of text sl,
   read off writes_of g.  If text sl is progressive, the error-free receptions of the stream are
   consistent with tgt, and the stream never switches the A/B flag (every type-2 group with an
   error-free block B carries f0, and the flag last seen is f0 or none — irrelevant for PS / PTYN),
   then every cell that holds its target at level 0 already, or is delivered error-free at least once,
   holds (tgt i, 0) at the end, whatever else the stream contains. *)
Theorem C07_every_text_converges : forall conv lut sl tgt f0 gs s, Inv conv s -> prog s (tid_of sl) = true ->
  Forall wf_group gs -> Forall (consistent_sl conv sl tgt) gs -> Forall (one_flag f0) gs ->
  (last_rt s = -1 \/ last_rt s = f0) ->
  forall i, (i < cap sl)%nat ->
  (cell_of sl s i = (tgt i, 0) \/ existsb (fun g => delivers_sl sl g i) gs = true) ->
  cell_of sl (feed_all conv lut s gs) i = (tgt i, 0).
Proof. exact text_converges. Qed.
Print Assumptions C07_every_text_converges.
Example C07_converge_example :     (* 2A, flag A, address 1: cells 4..7 receive "abcd" error-free *)
  ef_write (mkgroup 1 8193 24930 25444 0 0 0 0) TRT0 5 = Some 98
  /\ delivers_sl TRT0 (mkgroup 1 8193 24930 25444 0 0 0 0) 7 = true
  /\ ef_write (mkgroup 1 8193 24930 25444 0 0 0 1) TRT0 7 = None.     (* corrected D: no error-free delivery *)
Proof. vm_compute. repeat split. Qed.

(* THE OBSERVER: with progressive correction on for a text, in every call that is not a reset and
   not an A/B switch of that buffer, no level rises and a cell is rewritten only by a reception
   addressed to it whose weighted level becomes the cell's level *)
Theorem C07_observer : forall conv lut h s o ret, reach conv lut h s -> wf_op o ->
  obs_C07 (o :: h) (snap_of s) (snap_of (fst (step conv lut s o))) (snd (step conv lut s o)) ret = true.
Proof. exact obs_C07_holds. Qed.
Print Assumptions C07_observer.

Example C07_scenario : check_run_u (observer_u 7) scenario = true.
Proof. vm_compute. reflexivity. Qed.
