(* Lemmas_Bits.v — the masks and shifts of the sources equal the arithmetic (div/mod) reading
   used by the observers, for every 16-bit block.  Proved by a kernel-evaluated sweep over all
   65536 values (the bound is part of the statement), lifted by all_from_spec. *)
Require Export Lemmas_Base.
Local Open Scope Z_scope.

Definition bits_B_ok (b : Z) : bool :=
  (get_pty b =? b_pty b) && (get_tp b =? b_tp b) && (get_group b =? b_group b)
  && (get_flag b =? b_ver b) && (get_ta b =? b_ta b) && (get_ms b =? b_ms b)
  && (get_ps_pos b =? b mod 4) && (get_rt_pos b =? b mod 16) && (get_rt_flag b =? b_rtflag b)
  && (get_ptyn_pos b =? b mod 2)
  && (0 <=? b_group b) && (b_group b <? 16).

Lemma bits_B_sweep : all_from (Z.to_nat 65536) 0 bits_B_ok = true.
Proof. vm_compute. reflexivity. Qed.

Lemma bits_B : forall b, 0 <= b < 65536 -> bits_B_ok b = true.
Proof. intros b Hb. apply (all_from_spec _ _ _ bits_B_sweep). rewrite Z2Nat.id; lia. Qed.

Definition bits_W_ok (w : Z) : bool :=
  (hi_byte w =? w_hi w) && (lo_byte w =? w_lo w) && (get_af1 w =? w_hi w) && (get_af2 w =? w_lo w)
  && (get_ecc w =? w_lo w) && (get_variant w =? (w / 4096) mod 8)
  && (0 <=? w_hi w) && (w_hi w <? 256) && (0 <=? w_lo w) && (w_lo w <? 256).

Lemma bits_W_sweep : all_from (Z.to_nat 65536) 0 bits_W_ok = true.
Proof. vm_compute. reflexivity. Qed.

Lemma bits_W : forall w, 0 <= w < 65536 -> bits_W_ok w = true.
Proof. intros w Hw. apply (all_from_spec _ _ _ bits_W_sweep). rewrite Z2Nat.id; lia. Qed.

(* projections in usable form *)
Ltac split_andb H :=
  repeat match type of H with
         | (_ && _) = true => let H1 := fresh H in apply andb_true_iff in H; destruct H as [H H1]
         end.

Lemma get_pty_spec b : 0 <= b < 65536 -> get_pty b = b_pty b.
Proof. intros Hb. pose proof (bits_B b Hb) as H. unfold bits_B_ok in H. split_andb H. lia. Qed.
Lemma get_tp_spec b : 0 <= b < 65536 -> get_tp b = b_tp b.
Proof. intros Hb. pose proof (bits_B b Hb) as H. unfold bits_B_ok in H. split_andb H. lia. Qed.
Lemma get_group_spec b : 0 <= b < 65536 -> get_group b = b_group b.
Proof. intros Hb. pose proof (bits_B b Hb) as H. unfold bits_B_ok in H. split_andb H. lia. Qed.
Lemma get_flag_spec b : 0 <= b < 65536 -> get_flag b = b_ver b.
Proof. intros Hb. pose proof (bits_B b Hb) as H. unfold bits_B_ok in H. split_andb H. lia. Qed.
Lemma get_ta_spec b : 0 <= b < 65536 -> get_ta b = b_ta b.
Proof. intros Hb. pose proof (bits_B b Hb) as H. unfold bits_B_ok in H. split_andb H. lia. Qed.
Lemma get_ms_spec b : 0 <= b < 65536 -> get_ms b = b_ms b.
Proof. intros Hb. pose proof (bits_B b Hb) as H. unfold bits_B_ok in H. split_andb H. lia. Qed.
Lemma get_ps_pos_spec b : 0 <= b < 65536 -> get_ps_pos b = b mod 4.
Proof. intros Hb. pose proof (bits_B b Hb) as H. unfold bits_B_ok in H. split_andb H. lia. Qed.
Lemma get_rt_pos_spec b : 0 <= b < 65536 -> get_rt_pos b = b mod 16.
Proof. intros Hb. pose proof (bits_B b Hb) as H. unfold bits_B_ok in H. split_andb H. lia. Qed.
Lemma get_rt_flag_spec b : 0 <= b < 65536 -> get_rt_flag b = b_rtflag b.
Proof. intros Hb. pose proof (bits_B b Hb) as H. unfold bits_B_ok in H. split_andb H. lia. Qed.
Lemma get_ptyn_pos_spec b : 0 <= b < 65536 -> get_ptyn_pos b = b mod 2.
Proof. intros Hb. pose proof (bits_B b Hb) as H. unfold bits_B_ok in H. split_andb H. lia. Qed.
Lemma hi_byte_spec w : 0 <= w < 65536 -> hi_byte w = w_hi w.
Proof. intros Hw. pose proof (bits_W w Hw) as H. unfold bits_W_ok in H. split_andb H. lia. Qed.
Lemma lo_byte_spec w : 0 <= w < 65536 -> lo_byte w = w_lo w.
Proof. intros Hw. pose proof (bits_W w Hw) as H. unfold bits_W_ok in H. split_andb H. lia. Qed.
Lemma get_af1_spec w : 0 <= w < 65536 -> get_af1 w = w_hi w.
Proof. intros Hw. pose proof (bits_W w Hw) as H. unfold bits_W_ok in H. split_andb H. lia. Qed.
Lemma get_af2_spec w : 0 <= w < 65536 -> get_af2 w = w_lo w.
Proof. intros Hw. pose proof (bits_W w Hw) as H. unfold bits_W_ok in H. split_andb H. lia. Qed.
Lemma get_ecc_spec w : 0 <= w < 65536 -> get_ecc w = w_lo w.
Proof. intros Hw. pose proof (bits_W w Hw) as H. unfold bits_W_ok in H. split_andb H. lia. Qed.
Lemma get_variant_spec w : 0 <= w < 65536 -> get_variant w = (w / 4096) mod 8.
Proof. intros Hw. pose proof (bits_W w Hw) as H. unfold bits_W_ok in H. split_andb H. lia. Qed.
