(* Extract.v — extraction of the executable model and observers to OCaml.
   Only ExtrOcamlBasic: bool/option/unit/list/prod/sumbool map to OCaml natives; Z, positive,
   N, nat stay the extracted inductive types.  No Extract Constant of our own. *)
Require Import Inst Reent.
Require Extraction.
Require Import ExtrOcamlBasic.
Extraction Language OCaml.
Extraction "model.ml" step_u step_n init_state snap_of parse_string_result observer_u observer_n dontcare_equiv decode hex_ok cfg_of step_reent_u step_reent_n rtab_of replay.
