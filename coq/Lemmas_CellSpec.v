(* Lemmas_CellSpec.v — one formula for what a group does to the cells of all four texts, written
   with the very functions the boolean observers use (writes_of, cell_after, rt_switch ...), so
   that the observers obs_C02 / C06 / C07 / C08 / C16 can be proved of the model. *)
Require Export Lemmas_TextProps.
Require Import ZifyBool.
Local Open Scope Z_scope.
Ltac Zify.zify_post_hook ::= Z.div_mod_to_equations.

Section ApplyWs.
Variable conv : Z -> Z.

(* the writes of a group addressed to slot sl, applied in order *)
Definition ws_step (info data : Z) (pr : bool) (e_b : Z) (sl : tslot) (cs : list (Z * Z))
           (w : tslot * nat * Z * Z) : list (Z * Z) :=
  let '(sl', p, byte, e) := w in
  if tslot_eqb sl' sl
  then upd p (cell_after conv info data pr (nth p cs (0, 0)) byte e_b e) cs
  else cs.
Definition apply_ws (info data : Z) (pr : bool) (e_b : Z) (ws : list (tslot * nat * Z * Z))
           (sl : tslot) (cs : list (Z * Z)) : list (Z * Z) :=
  fold_left (ws_step info data pr e_b sl) ws cs.
Lemma apply_ws_cons info data pr e_b w r sl cs :
  apply_ws info data pr e_b (w :: r) sl cs = apply_ws info data pr e_b r sl (ws_step info data pr e_b sl cs w).
Proof. reflexivity. Qed.
Lemma apply_ws_nil info data pr e_b sl cs : apply_ws info data pr e_b [] sl cs = cs.
Proof. reflexivity. Qed.

Lemma apply_ws_length info data pr e_b ws sl : forall cs,
  length (apply_ws info data pr e_b ws sl cs) = length cs.
Proof.
  induction ws as [|[[[sl' p] byte] e] r IH]; intros cs; [reflexivity|].
  rewrite apply_ws_cons, IH. unfold ws_step. destruct (tslot_eqb sl' sl); [apply upd_length|reflexivity].
Qed.

Lemma tslot_eqb_eq a b : tslot_eqb a b = true <-> a = b.
Proof. destruct a, b; cbn; split; intros H; try reflexivity; discriminate. Qed.
Lemma tslot_eqb_refl a : tslot_eqb a a = true.
Proof. destruct a; reflexivity. Qed.

Lemma apply_ws_unaddressed info data pr e_b ws sl i : addressed ws sl i = false ->
  forall cs, nth i (apply_ws info data pr e_b ws sl cs) (0, 0) = nth i cs (0, 0).
Proof.
  induction ws as [|[[[sl' p] byte] e] r IH]; intros A cs; [reflexivity|].
  rewrite apply_ws_cons.
  unfold addressed in A. cbn [existsb] in A. apply orb_false_iff in A. destruct A as [A1 A2].
  rewrite (IH A2). unfold ws_step. destruct (tslot_eqb sl' sl); [|reflexivity].
  cbn [andb] in A1. apply Nat.eqb_neq in A1. apply nth_upd_other. exact A1.
Qed.

(* positions of the writes that go to slot sl *)
Definition positions (ws : list (tslot * nat * Z * Z)) (sl : tslot) : list nat :=
  map (fun '(_, p, _, _) => p) (filter (fun '(sl', _, _, _) => tslot_eqb sl' sl) ws).

Lemma not_in_positions ws sl p : ~ In p (positions ws sl) -> addressed ws sl p = false.
Proof.
  induction ws as [|[[[sl' q] byte] e] r IH]; intros H; [reflexivity|].
  unfold addressed. cbn [existsb]. unfold positions in H. cbn [filter] in H.
  destruct (tslot_eqb sl' sl) eqn:E; cbn [andb].
  - cbn [map In] in H. apply orb_false_iff. split.
    + apply Nat.eqb_neq. intros ->. apply H. left. reflexivity.
    + apply IH. intros K. apply H. right. exact K.
  - apply IH. exact H.
Qed.

Lemma apply_ws_addressed info data pr e_b ws sl : NoDup (positions ws sl) ->
  forall p byte e cs, In (sl, p, byte, e) ws -> (p < length cs)%nat ->
  nth p (apply_ws info data pr e_b ws sl cs) (0, 0)
  = cell_after conv info data pr (nth p cs (0, 0)) byte e_b e.
Proof.
  induction ws as [|[[[sl' q] byte'] e'] r IH]; intros ND p byte e cs HIn Hp; [destruct HIn|].
  rewrite apply_ws_cons. unfold ws_step.
  unfold positions in ND. cbn [filter] in ND.
  destruct HIn as [E|HIn].
  - inversion E; subst sl' q byte' e'. rewrite tslot_eqb_refl in *. cbn [map] in ND.
    inversion ND as [|x l Hnot ND']; subst.
    rewrite (apply_ws_unaddressed _ _ _ _ r sl p (not_in_positions r sl p Hnot)).
    apply nth_upd_same. exact Hp.
  - destruct (tslot_eqb sl' sl) eqn:E.
    + cbn [map] in ND. inversion ND as [|x l Hnot ND']; subst.
      rewrite (IH ND' p byte e _ HIn) by (rewrite upd_length; exact Hp).
      rewrite nth_upd_other; [reflexivity|].
      intros ->. apply Hnot. unfold positions.
      apply in_map_iff. exists (sl, p, byte, e). split; [reflexivity|].
      apply filter_In. split; [exact HIn|apply tslot_eqb_refl].
    + apply (IH ND p byte e cs HIn Hp).
Qed.

End ApplyWs.

(* ---------- the writes of a group: distinct positions, inside the buffer ---------- *)
Lemma writes_slot g sl p byte e : In (sl, p, byte, e) (writes_of g) ->
  sl = (if b_group (gb g) =? 0 then TPS else if b_group (gb g) =? 2 then rt_slot (b_rtflag (gb g)) else TPTYN).
Proof.
  unfold writes_of. destruct (b_group (gb g) =? 0).
  - cbn [In]. intros [H|[H|[]]]; inversion H; reflexivity.
  - destruct (b_group (gb g) =? 2).
    + destruct (b_ver (gb g) =? 0); cbn [In]; intros H;
        repeat (destruct H as [H|H]; [inversion H; reflexivity|]); destruct H.
    + destruct ((b_group (gb g) =? 10) && (b_ver (gb g) =? 0)); cbn [In]; intros H;
        repeat (destruct H as [H|H]; [inversion H; reflexivity|]); destruct H.
Qed.

Lemma nodup2 (p : nat) : NoDup [p; S p].
Proof. repeat constructor; cbn [In]; lia. Qed.
Lemma nodup4 (p : nat) : NoDup [p; S p; S (S p); S (S (S p))].
Proof. repeat constructor; cbn [In]; lia. Qed.

Lemma writes_nodup g sl : NoDup (positions (writes_of g) sl).
Proof.
  unfold writes_of, positions.
  destruct (b_group (gb g) =? 0).
  { cbn [filter]. destruct (tslot_eqb TPS sl); cbn [map]; [apply nodup2|constructor]. }
  destruct (b_group (gb g) =? 2).
  { destruct (b_ver (gb g) =? 0); cbn [filter];
      destruct (tslot_eqb (rt_slot (b_rtflag (gb g))) sl); cbn [map];
        first [apply nodup2|apply nodup4|constructor]. }
  destruct ((b_group (gb g) =? 10) && (b_ver (gb g) =? 0)); cbn [filter]; [|constructor].
  destruct (tslot_eqb TPTYN sl); cbn [map]; [apply nodup4|constructor].
Qed.

Local Opaque Z.mul Z.modulo Z.to_nat.
Lemma writes_in_range g sl p byte e : 0 <= gb g < 65536 -> In (sl, p, byte, e) (writes_of g) -> (p < cap sl)%nat.
Proof.
  intros Hb. unfold writes_of.
  destruct (b_group (gb g) =? 0).
  { cbn [In]. intros H. repeat (destruct H as [H|H]; [injection H as ? ? ? ?; subst; cbn [cap]; lia|]). destruct H. }
  destruct (b_group (gb g) =? 2).
  { unfold rt_slot. destruct (b_ver (gb g) =? 0), (b_rtflag (gb g) =? 0); cbn [In]; intros H;
      repeat (destruct H as [H|H]; [injection H as ? ? ? ?; subst; cbn [cap]; lia|]); destruct H. }
  destruct ((b_group (gb g) =? 10) && (b_ver (gb g) =? 0)); cbn [In]; intros H;
    repeat (destruct H as [H|H]; [injection H as ? ? ? ?; subst; cbn [cap]; lia|]); destruct H.
Qed.

Local Transparent Z.mul Z.modulo Z.to_nat.

Section CellSpec.
Variable conv : Z -> Z.
Variable lut : Z -> Z -> Z.
Notation Inv := (Inv conv).

(* with L the flag last seen (a function of the history: reach_last_rt) *)
Definition m_switch (L : Z) (g : group) : bool :=
  is_type2 g && (eb g =? 0) && negb (L =? -1) && negb (L =? b_rtflag (gb g)).
Definition m_ignored (L : Z) (g : group) : bool :=
  is_type2 g && negb (eb g =? 0) && negb (L =? -1) && negb (L =? b_rtflag (gb g)).
Definition m_cleared (L : Z) (g : group) (s : state) (sl : tslot) : bool :=
  m_switch L g && tslot_eqb sl (rt_slot (b_rtflag (gb g))) && string_available (get_text sl s).

Definition spec_cells (g : group) (s : state) (sl : tslot) : list (Z * Z) :=
  if m_ignored (last_rt s) g then cells (get_text sl s)
  else apply_ws conv (corr s (tid_of sl) INFO) (corr s (tid_of sl) DATA) (prog s (tid_of sl)) (eb g)
                (writes_of g) sl
                (if m_cleared (last_rt s) g s sl then repeat empty_pair (cap sl) else cells (get_text sl s)).

Lemma cells_clear t : cells (string_clear t) = repeat empty_pair (length t).
Proof. induction t as [|c r IH]; [reflexivity|]. cbn. f_equal. exact IH. Qed.

Lemma rt_of_slot f s : rt_of f s = get_text (rt_slot f) s.
Proof. unfold rt_of, rt_slot. destruct (f =? 0); reflexivity. Qed.

Lemma to_nat_add2 x : 0 <= x -> Z.to_nat (x + 2) = S (S (Z.to_nat x)).
Proof. lia. Qed.

Theorem texts_step g s : Inv s -> wf_group g ->
  forall sl, cells (get_text sl (fst (process conv lut g s))) = spec_cells g s sl.
Proof.
  intros I W sl. pose proof W as [_ [Hb _]]. unfold blk_ok in Hb.
  unfold spec_cells, m_ignored, m_cleared, m_switch, is_type2.
  destruct (group_cases conv lut (gb g) Hb) as [G|[G|[[G V]|[N0 [N2 N10]]]]].
  - (* type 0 *)
    destruct (ps_step conv lut g s I W G) as [Hps [H0 [H1 [Hpt _]]]].
    rewrite G. cbn [Z.eqb andb]. unfold writes_of. rewrite G. cbn [Z.eqb].
    destruct sl; rewrite ?apply_ws_cons, ?apply_ws_nil; unfold ws_step; cbn [get_text tid_of tslot_eqb]; try (rewrite ?H0, ?H1, ?Hpt; reflexivity).
    rewrite Hps. reflexivity.
  - (* type 2 *)
    pose proof (rt_step conv lut g s I W G) as H. cbv zeta in H.
    destruct H as [Hps [Hpt [Hother [_ Hsel]]]].
    rewrite G. cbn [Z.eqb Pos.eqb andb].
    assert (F : b_rtflag (gb g) = 0 \/ b_rtflag (gb g) = 1) by (unfold b_rtflag; lia).
    rewrite !rt_of_slot in *.
    destruct (tslot_eqb sl (rt_slot (b_rtflag (gb g)))) eqn:Esl.
    + apply tslot_eqb_eq in Esl. subst sl. rewrite Hsel. clear Hsel.
      assert (Tid : tid_of (rt_slot (b_rtflag (gb g))) = RT) by (unfold rt_slot; destruct (_ =? 0); reflexivity).
      rewrite Tid.
      replace (negb (eb g =? 0) && negb (b_rtflag (gb g) =? last_rt s) && negb (last_rt s =? -1))
        with (negb (eb g =? 0) && negb (last_rt s =? -1) && negb (last_rt s =? b_rtflag (gb g)))
        by (rewrite (Z.eqb_sym (last_rt s) (b_rtflag (gb g))); destruct (eb g =? 0), (last_rt s =? -1), (b_rtflag (gb g) =? last_rt s); reflexivity).
      destruct (negb (eb g =? 0) && negb (last_rt s =? -1) && negb (last_rt s =? b_rtflag (gb g))); [reflexivity|].
      replace ((eb g =? 0) && negb (b_rtflag (gb g) =? last_rt s) && negb (last_rt s =? -1))
        with ((eb g =? 0) && negb (last_rt s =? -1) && negb (last_rt s =? b_rtflag (gb g)))
        by (rewrite (Z.eqb_sym (last_rt s) (b_rtflag (gb g))); destruct (eb g =? 0), (last_rt s =? -1), (b_rtflag (gb g) =? last_rt s); reflexivity).
      cbn [andb]. rewrite cells_clear, andb_true_r.
      replace (length (get_text (rt_slot (b_rtflag (gb g))) s)) with (cap (rt_slot (b_rtflag (gb g))))
        by (symmetry; apply (inv_text conv _ s I)).
      set (base := if _ && string_available _ then _ else _).
      unfold writes_of. rewrite G. cbn [Z.eqb Pos.eqb].
      destruct (b_ver (gb g) =? 0); rewrite ?apply_ws_cons, ?apply_ws_nil; unfold ws_step; rewrite !tslot_eqb_refl.
      * rewrite to_nat_add2 by lia. reflexivity.
      * reflexivity.
    + (* another slot: untouched, and no write is addressed to it *)
      rewrite andb_false_r. cbn [andb].
      assert (K : cells (get_text sl (fst (process conv lut g s))) = cells (get_text sl s)).
      { destruct sl; cbn [get_text]; try (rewrite ?Hps, ?Hpt; reflexivity).
        - destruct F as [F|F]; rewrite F in *; cbn in Esl; try discriminate.
          cbn in Hother. rewrite Hother. reflexivity.
        - destruct F as [F|F]; rewrite F in *; cbn in Esl; try discriminate.
          cbn in Hother. rewrite Hother. reflexivity. }
      rewrite K.
      assert (A : forall cs, apply_ws conv (corr s (tid_of sl) INFO) (corr s (tid_of sl) DATA) (prog s (tid_of sl)) (eb g) (writes_of g) sl cs = cs).
      { intros cs. unfold writes_of. rewrite G. cbn [Z.eqb Pos.eqb].
        assert (E' : tslot_eqb (rt_slot (b_rtflag (gb g))) sl = false).
        { destruct (tslot_eqb (rt_slot (b_rtflag (gb g))) sl) eqn:Q; [|reflexivity].
          apply tslot_eqb_eq in Q. rewrite <- Q, tslot_eqb_refl in Esl. discriminate. }
        destruct (b_ver (gb g) =? 0); rewrite ?apply_ws_cons, ?apply_ws_nil; unfold ws_step; rewrite !E'; reflexivity. }
      rewrite A. destruct (negb (eb g =? 0) && negb (last_rt s =? -1) && negb (last_rt s =? b_rtflag (gb g))); reflexivity.
  - (* 10A *)
    destruct (ptyn_step conv lut g s I W G V) as [Hpt [Hps [H0 [H1 _]]]]. cbv zeta in Hpt.
    rewrite G. cbn [Z.eqb Pos.eqb andb]. unfold writes_of. rewrite G, V. cbn [Z.eqb Pos.eqb andb].
    destruct sl; rewrite ?apply_ws_cons, ?apply_ws_nil; unfold ws_step; cbn [get_text tid_of tslot_eqb]; try (rewrite ?H0, ?H1, ?Hps; reflexivity).
    rewrite Hpt. rewrite to_nat_add2 by lia. reflexivity.
  - (* no text *)
    destruct (no_text_step conv lut g s I W N0 N2 N10) as [Hps [H0 [H1 [Hpt _]]]].
    replace (b_group (gb g) =? 2) with false by lia. cbn [andb].
    unfold writes_of. replace (b_group (gb g) =? 0) with false by lia. replace (b_group (gb g) =? 2) with false by lia.
    replace ((b_group (gb g) =? 10) && (b_ver (gb g) =? 0)) with false by lia.
    rewrite apply_ws_nil. destruct sl; cbn [get_text]; rewrite ?Hps, ?H0, ?H1, ?Hpt; reflexivity.
Qed.

(* ---------- consequences, cell by cell ---------- *)
Definition cell_of (sl : tslot) (s : state) (i : nat) : Z * Z := nth i (cells (get_text sl s)) (0, 0).
Definition base_cell (g : group) (s : state) (sl : tslot) (i : nat) : Z * Z :=
  if m_cleared (last_rt s) g s sl then empty_pair else cell_of sl s i.

Lemma nth_repeat_lt {A} (x d : A) n i : (i < n)%nat -> nth i (repeat x n) d = x.
Proof. revert i; induction n as [|n IH]; intros [|i] H; cbn; try lia; [reflexivity|apply IH; lia]. Qed.

Lemma cells_length sl s : Inv s -> length (cells (get_text sl s)) = cap sl.
Proof. intros I. unfold cells. rewrite map_length. apply (inv_text conv sl s I). Qed.

Lemma cell_ignored g s sl i : Inv s -> wf_group g -> m_ignored (last_rt s) g = true ->
  cell_of sl (fst (process conv lut g s)) i = cell_of sl s i.
Proof. intros I W H. unfold cell_of. rewrite (texts_step g s I W sl). unfold spec_cells. rewrite H. reflexivity. Qed.

Lemma cell_kept g s sl i : Inv s -> wf_group g -> m_ignored (last_rt s) g = false -> (i < cap sl)%nat ->
  addressed (writes_of g) sl i = false ->
  cell_of sl (fst (process conv lut g s)) i = base_cell g s sl i.
Proof.
  intros I W H Hi A. unfold cell_of, base_cell. rewrite (texts_step g s I W sl). unfold spec_cells. rewrite H.
  rewrite (apply_ws_unaddressed conv _ _ _ _ _ sl i A).
  destruct (m_cleared (last_rt s) g s sl); [apply nth_repeat_lt; exact Hi|reflexivity].
Qed.

Lemma cell_written g s sl p byte e : Inv s -> wf_group g -> m_ignored (last_rt s) g = false ->
  In (sl, p, byte, e) (writes_of g) ->
  cell_of sl (fst (process conv lut g s)) p
  = cell_after conv (corr s (tid_of sl) INFO) (corr s (tid_of sl) DATA) (prog s (tid_of sl))
               (base_cell g s sl p) byte (eb g) e.
Proof.
  intros I W H HIn. pose proof W as [_ [Hb _]]. unfold blk_ok in Hb.
  pose proof (writes_in_range g sl p byte e Hb HIn) as Hp.
  unfold cell_of, base_cell. rewrite (texts_step g s I W sl). unfold spec_cells. rewrite H.
  rewrite (apply_ws_addressed conv _ _ _ _ (writes_of g) sl (writes_nodup g sl) p byte e _ HIn).
  - destruct (m_cleared (last_rt s) g s sl); [rewrite (nth_repeat_lt _ _ _ _ Hp)|]; reflexivity.
  - destruct (m_cleared (last_rt s) g s sl); [rewrite repeat_length|rewrite (cells_length sl s I)]; exact Hp.
Qed.

End CellSpec.
