(* Properties_C12full.v — optional: the clock-time bridge for all values of the C parameter types
   (see Lemmas_Leaf_C12full.v).  Not an obligation of the check: when the shape of src/ct.c defeats
   this proof, the check records it in its evidence and relies on the finite bridges of
   Properties_C12.v and on the correspondence runs. *)
Require Import ObsRun Lemmas_Leaf_C12full.
Local Open Scope Z_scope.

Theorem C12_code_ct_init : forall mjd hour minute offset,
  0 <= mjd < 4294967296 -> -128 <= hour < 128 -> -128 <= minute < 128 -> -128 <= offset < 128 ->
  ct_view mjd hour minute offset = ct_init mjd hour minute offset.
Proof. exact leaf_ct_init. Qed.
Print Assumptions C12_code_ct_init.
