(* Lemmas_Af.v — the AF bitmap as a set: af_set / af_get of the model against the membership
   reading `bit`, and the bitmap as bitmap_of of its membership predicate.  Bit-level facts by
   kernel sweeps over all 256 byte values x 8 x 8 bit positions. *)
Require Export Lemmas_Buf.
Require Import ZifyBool.
Local Open Scope Z_scope.
Ltac Zify.zify_post_hook ::= Z.div_mod_to_equations.

Definition bit (a : list Z) (v : Z) : bool := Z.odd (nth (Z.to_nat (v / 8)) a 0 / 2 ^ (7 - v mod 8)).

Definition byte_bits_ok (x : Z) : bool :=
  all_from 8 0 (fun i =>
    Bool.eqb (negb (Z.land x (Z.shiftr 128 i) =? 0)) (Z.odd (x / 2 ^ (7 - i)))
    && (0 <=? Z.lor x (Z.shiftr 128 i)) && (Z.lor x (Z.shiftr 128 i) <? 256)
    && all_from 8 0 (fun j => Bool.eqb (Z.odd (Z.lor x (Z.shiftr 128 i) / 2 ^ (7 - j)))
                                       (Z.odd (x / 2 ^ (7 - j)) || (i =? j))))
  && (x =? (if Z.odd (x / 128) then 128 else 0) + (if Z.odd (x / 64) then 64 else 0)
           + (if Z.odd (x / 32) then 32 else 0) + (if Z.odd (x / 16) then 16 else 0)
           + (if Z.odd (x / 8) then 8 else 0) + (if Z.odd (x / 4) then 4 else 0)
           + (if Z.odd (x / 2) then 2 else 0) + (if Z.odd (x / 1) then 1 else 0)).
Lemma byte_bits_sweep : all_from 256 0 byte_bits_ok = true.
Proof. vm_compute. reflexivity. Qed.

Lemma byte_facts x i : 0 <= x < 256 -> 0 <= i < 8 ->
  negb (Z.land x (Z.shiftr 128 i) =? 0) = Z.odd (x / 2 ^ (7 - i))
  /\ 0 <= Z.lor x (Z.shiftr 128 i) < 256
  /\ forall j, 0 <= j < 8 -> Z.odd (Z.lor x (Z.shiftr 128 i) / 2 ^ (7 - j)) = (Z.odd (x / 2 ^ (7 - j)) || (i =? j)).
Proof.
  intros Hx Hi. pose proof (all_from_spec _ _ _ byte_bits_sweep x ltac:(lia)) as H. unfold byte_bits_ok in H.
  apply andb_true_iff in H. destruct H as [H _].
  pose proof (all_from_spec _ _ _ H i ltac:(lia)) as Hi'. cbv beta in Hi'.
  apply andb_true_iff in Hi'. destruct Hi' as [Hi' H3].
  apply andb_true_iff in Hi'. destruct Hi' as [Hi' H2b].
  apply andb_true_iff in Hi'. destruct Hi' as [H1 H2a].
  split; [apply eqb_prop; exact H1|]. split; [lia|].
  intros j Hj. pose proof (all_from_spec _ _ _ H3 j ltac:(lia)) as Hj'. cbv beta in Hj'. apply eqb_prop. exact Hj'.
Qed.

Lemma byte_ext x : 0 <= x < 256 ->
  x = (if Z.odd (x / 2 ^ 7) then 128 else 0) + (if Z.odd (x / 2 ^ 6) then 64 else 0)
      + (if Z.odd (x / 2 ^ 5) then 32 else 0) + (if Z.odd (x / 2 ^ 4) then 16 else 0)
      + (if Z.odd (x / 2 ^ 3) then 8 else 0) + (if Z.odd (x / 2 ^ 2) then 4 else 0)
      + (if Z.odd (x / 2 ^ 1) then 2 else 0) + (if Z.odd (x / 2 ^ 0) then 1 else 0).
Proof.
  intros Hx. pose proof (all_from_spec _ _ _ byte_bits_sweep x ltac:(lia)) as H. unfold byte_bits_ok in H.
  apply andb_true_iff in H. destruct H as [_ H]. apply Z.eqb_eq in H. exact H.
Qed.

(* a is a 26-byte bitmap whose bit v (0 <= v < 208) is set iff v is a valid code satisfying p *)
Definition AfInv (a : list Z) (p : Z -> bool) : Prop :=
  length a = 26%nat /\ Forall (fun x => 0 <= x < 256) a
  /\ forall v, 0 <= v < 208 -> bit a v = (af_ok v && p v).

Lemma af_empty_inv p : (forall v, p v = false) -> AfInv af_empty p.
Proof.
  intros Hp. unfold AfInv, af_empty. split; [reflexivity|]. split.
  - apply Forall_forall. intros x Hx. apply repeat_spec in Hx. lia.
  - intros v Hv. unfold bit. rewrite Hp, andb_false_r.
    assert (E : nth (Z.to_nat (v / 8)) (repeat 0 26) 0 = 0).
    { destruct (nth_in_or_default (Z.to_nat (v / 8)) (repeat 0 26) 0) as [Hin|Hd]; [apply repeat_spec in Hin; exact Hin|exact Hd]. }
    rewrite E. rewrite Z.div_0_l by (apply Z.pow_nonzero; lia). reflexivity.
Qed.

Lemma AfInv_ext a p q : AfInv a p -> (forall v, af_ok v = true -> p v = q v) -> AfInv a q.
Proof.
  intros [Hl [Hb Hv]] Hpq. split; [exact Hl|]. split; [exact Hb|].
  intros v Hr. rewrite (Hv v Hr). destruct (af_ok v) eqn:E; [|reflexivity]. cbn [andb]. apply Hpq. exact E.
Qed.

Lemma nth_byte a i : Forall (fun x => 0 <= x < 256) a -> 0 <= nth i a 0 < 256.
Proof.
  intros Hb. destruct (nth_in_or_default i a 0) as [Hin|Hd]; [|rewrite Hd; lia].
  rewrite Forall_forall in Hb. apply Hb. exact Hin.
Qed.

Lemma af_get_spec a p v : AfInv a p -> 0 <= v < 256 -> af_get a v = (af_ok v && p v).
Proof.
  intros [Hl [Hb Hv]] Hr. unfold af_get. destruct (af_ok v) eqn:E; [|reflexivity]. cbn [andb].
  assert (Hv8 : 0 <= v < 208) by (unfold af_ok in E; lia).
  rewrite <- (andb_true_l (p v)), <- E, <- (Hv v Hv8). unfold bit, af_mask.
  destruct (byte_facts (nth (Z.to_nat (v / 8)) a 0) (v mod 8) (nth_byte a _ Hb) ltac:(lia)) as [F1 _].
  exact F1.
Qed.

Lemma af_set_spec a p v : AfInv a p -> 0 <= v < 256 ->
  exists a', af_set a v = Some (a', af_ok v) /\ AfInv a' (fun w => p w || (w =? v)).
Proof.
  intros [Hl [Hb Hv]] Hr. unfold af_set. destruct (af_ok v) eqn:E.
  - assert (Hv8 : 0 <= v < 208) by (unfold af_ok in E; lia).
    assert (Hidx : (Z.to_nat (v / 8) < 26)%nat) by lia.
    destruct (nth_error a (Z.to_nat (v / 8))) as [byte|] eqn:Hn; [|apply nth_error_None in Hn; lia].
    assert (Hbyte : byte = nth (Z.to_nat (v / 8)) a 0) by (symmetry; apply nth_error_nth; exact Hn).
    destruct (byte_facts byte (v mod 8) ltac:(rewrite Hbyte; apply nth_byte; exact Hb) ltac:(lia)) as [_ [F2 F3]].
    eexists. split; [reflexivity|]. unfold af_mask. split; [rewrite upd_length; exact Hl|]. split.
    + apply Forall_upd; [exact Hb|exact F2].
    + intros w Hw. unfold bit.
      destruct (Z.eq_dec (w / 8) (v / 8)) as [Eq|Ne].
      * rewrite Eq, nth_upd_same by lia. rewrite (F3 (w mod 8) ltac:(lia)).
        rewrite Hbyte, <- Eq. fold (bit a w). rewrite (Hv w Hw).
        destruct (Z.eqb_spec (v mod 8) (w mod 8)) as [Em|Em].
        -- assert (w = v) by lia. subst w. rewrite E, Z.eqb_refl, !orb_true_r. reflexivity.
        -- replace (w =? v) with false by lia. rewrite !orb_false_r. reflexivity.
      * rewrite nth_upd_other by lia. fold (bit a w). rewrite (Hv w Hw).
        replace (w =? v) with false by lia. rewrite orb_false_r. reflexivity.
  - exists a. split; [reflexivity|]. apply (AfInv_ext a p); [split; [exact Hl|split; assumption]|].
    intros w Hw. destruct (Z.eqb_spec w v) as [->|_]; [congruence|rewrite orb_false_r; reflexivity].
Qed.

(* the bitmap is determined by its membership predicate: exactly bitmap_of *)
Lemma AfInv_bitmap a p : AfInv a p -> a = bitmap_of p.
Proof.
  intros [Hl [Hb Hv]]. apply (nth_ext a (bitmap_of p) 0 0).
  - unfold bitmap_of. rewrite map_length, seq_length. exact Hl.
  - intros n Hn. rewrite Hl in Hn. unfold bitmap_of.
    rewrite (nth_indep (map (fun i => byte_of p (Z.of_nat i)) (seq 0 26)) 0 (byte_of p (Z.of_nat 0)))
      by (rewrite map_length, seq_length; lia).
    rewrite (map_nth (fun i => byte_of p (Z.of_nat i)) (seq 0 26) 0%nat n), seq_nth by lia. cbn [plus].
    rewrite (byte_ext (nth n a 0) (nth_byte a n Hb)). unfold byte_of, bit_of.
    assert (B : forall j, 0 <= j < 8 ->
                (if Z.odd (nth n a 0 / 2 ^ (7 - j)) then 2 ^ (7 - j) else 0)
                = (if (1 <=? 8 * Z.of_nat n + j) && (8 * Z.of_nat n + j <=? 204) && p (8 * Z.of_nat n + j)
                   then 2 ^ (7 - (8 * Z.of_nat n + j) mod 8) else 0)).
    { intros j Hj. pose proof (Hv (8 * Z.of_nat n + j) ltac:(lia)) as Hbit. unfold bit in Hbit.
      replace ((8 * Z.of_nat n + j) / 8) with (Z.of_nat n) in Hbit by lia. rewrite Nat2Z.id in Hbit.
      replace ((8 * Z.of_nat n + j) mod 8) with j in * by lia.
      rewrite Hbit. unfold af_ok. reflexivity. }
    pose proof (B 0 ltac:(lia)) as B0. pose proof (B 1 ltac:(lia)) as B1. pose proof (B 2 ltac:(lia)) as B2.
    pose proof (B 3 ltac:(lia)) as B3. pose proof (B 4 ltac:(lia)) as B4. pose proof (B 5 ltac:(lia)) as B5.
    pose proof (B 6 ltac:(lia)) as B6. pose proof (B 7 ltac:(lia)) as B7.
    rewrite Z.add_0_r in B0.
    change (7 - 0) with 7 in B0. change (7 - 1) with 6 in B1. change (7 - 2) with 5 in B2. change (7 - 3) with 4 in B3.
    change (7 - 4) with 3 in B4. change (7 - 5) with 2 in B5. change (7 - 6) with 1 in B6. change (7 - 7) with 0 in B7.
    change (2 ^ 7) with 128 in *. change (2 ^ 6) with 64 in *. change (2 ^ 5) with 32 in *. change (2 ^ 4) with 16 in *.
    change (2 ^ 3) with 8 in *. change (2 ^ 2) with 4 in *. change (2 ^ 1) with 2 in *. change (2 ^ 0) with 1 in *.
    rewrite B0, B1, B2, B3, B4, B5, B6, B7. reflexivity.
Qed.
