(* Properties_Mid_C03.v — the whole path of one group at the level of the code:
   rdsparser_parser_process (src/parser.c: the common part, then the switch over the group type),
   translated on every run together with everything below it (the five group handlers, the
   setters with their callbacks, the candidate buffer, the text cell update, the ECC tables, the
   bit-field extractors), is the model's `process`: for every group and every state with
   well-formed buffers, the members the C function leaves are those of the model's next state and
   the callbacks it makes are the model's notifications, in order (a clock-time callback as seen
   through the six getters).  Every theorem about `process` — in particular C03's
   non-interference — is thereby a statement about this C function. *)
Require Import Lemmas_Mid_Process Lemmas_CbAf ObsRun.
Local Open Scope Z_scope.

Theorem C03_code_process : forall g s evs, wf_group g -> Pre s ->
  exists new,
    m_parser_process
      (d_af (temp s)) (getf SCountry (temp s)) (getf SEcc (temp s)) (getf SMs (temp s)) (getf SPi (temp s))
      (getf SPty (temp s)) (getf STa (temp s)) (getf STp (temp s))
      (d_af (used s)) (getf SCountry (used s)) (getf SEcc (used s)) (getf SMs (used s)) (getf SPi (used s))
      (getf SPty (used s)) (getf STa (used s)) (getf STp (used s))
      (b2z (ext s)) (cb s FAF) (cb s FCOUNTRY) (cb s FCT) (cb s FECC) (cb s FMS) (cb s FPI) (cb s FPS) (cb s FPTY)
      (cb s FPTYN) (cb s FRT) (cb s FTA) (cb s FTP) (corr_tab s) evs (last_rt s) (prog_tab s)
      (contents (ps s)) (levels (ps s)) (contents (ptyn s)) (levels (ptyn s))
      (contents (rt0 s)) (levels (rt0 s)) 64 (contents (rt1 s)) (levels (rt1 s)) 64 (ud s)
      (ga g) (gb g) (gc g) (gd g) (ea g) (eb g) (ec g) (ed g)
    = out_view (fst (process conv_u lut_g g s)) (evs ++ new)
    /\ map ev_view new = map ev_call (snd (process conv_u lut_g g s)).
Proof. exact mid_parser_process. Qed.
Print Assumptions C03_code_process.

(* the public entry point: rdsparser_parse (src/rdsparser.c) is that function, and the model's step
   for OParse is `process` *)
Theorem C03_code_parse : forall g s evs, wf_group g -> Pre s ->
  exists new,
    m_parse
      (d_af (temp s)) (getf SCountry (temp s)) (getf SEcc (temp s)) (getf SMs (temp s)) (getf SPi (temp s))
      (getf SPty (temp s)) (getf STa (temp s)) (getf STp (temp s))
      (d_af (used s)) (getf SCountry (used s)) (getf SEcc (used s)) (getf SMs (used s)) (getf SPi (used s))
      (getf SPty (used s)) (getf STa (used s)) (getf STp (used s))
      (b2z (ext s)) (cb s FAF) (cb s FCOUNTRY) (cb s FCT) (cb s FECC) (cb s FMS) (cb s FPI) (cb s FPS) (cb s FPTY)
      (cb s FPTYN) (cb s FRT) (cb s FTA) (cb s FTP) (corr_tab s) evs (last_rt s) (prog_tab s)
      (contents (ps s)) (levels (ps s)) (contents (ptyn s)) (levels (ptyn s))
      (contents (rt0 s)) (levels (rt0 s)) 64 (contents (rt1 s)) (levels (rt1 s)) 64 (ud s)
      (ga g) (gb g) (gc g) (gd g) (ea g) (eb g) (ec g) (ed g)
    = out_view (fst (step conv_u lut_g s (OParse g))) (evs ++ new)
    /\ map ev_view new = map ev_call (snd (step conv_u lut_g s (OParse g))).
Proof.
  intros g s evs W P. destruct (mid_parser_process g s evs W P) as [new [E V]].
  exists new. split; [|exact V]. unfold m_parse. cbv zeta. rewrite E. reflexivity.
Qed.
Print Assumptions C03_code_parse.

(* the hypothesis Pre is met by every reachable state (buffer lengths: the invariant Inv; AF
   bitmaps: reach_af_wf) whose accepted PI is a 16-bit value or "unknown" ... *)
Theorem C03_code_process_reachable : forall h s g evs, reach conv_u lut_g h s -> wf_group g ->
  -1 <= d_pi (used s) < 65536 ->
  exists new,
    m_parser_process
      (d_af (temp s)) (getf SCountry (temp s)) (getf SEcc (temp s)) (getf SMs (temp s)) (getf SPi (temp s))
      (getf SPty (temp s)) (getf STa (temp s)) (getf STp (temp s))
      (d_af (used s)) (getf SCountry (used s)) (getf SEcc (used s)) (getf SMs (used s)) (getf SPi (used s))
      (getf SPty (used s)) (getf STa (used s)) (getf STp (used s))
      (b2z (ext s)) (cb s FAF) (cb s FCOUNTRY) (cb s FCT) (cb s FECC) (cb s FMS) (cb s FPI) (cb s FPS) (cb s FPTY)
      (cb s FPTYN) (cb s FRT) (cb s FTA) (cb s FTP) (corr_tab s) evs (last_rt s) (prog_tab s)
      (contents (ps s)) (levels (ps s)) (contents (ptyn s)) (levels (ptyn s))
      (contents (rt0 s)) (levels (rt0 s)) 64 (contents (rt1 s)) (levels (rt1 s)) 64 (ud s)
      (ga g) (gb g) (gc g) (gd g) (ea g) (eb g) (ec g) (ed g)
    = out_view (fst (process conv_u lut_g g s)) (evs ++ new)
    /\ map ev_view new = map ev_call (snd (process conv_u lut_g g s)).
Proof.
  intros h s g evs Hr W Hpi. apply mid_parser_process; [exact W|].
  pose proof (reach_inv conv_u lut_g h s Hr) as I.
  destruct (reach_af_wf conv_u lut_g h s Hr) as [[pu [Lu [Fu _]]] [pt [Lt [Ft _]]]].
  destruct (inv_ps _ _ I) as [L1 _]. destruct (inv_rt0 _ _ I) as [L2 _].
  destruct (inv_rt1 _ _ I) as [L3 _]. destruct (inv_ptyn _ _ I) as [L4 _].
  unfold Pre, bytes. repeat split; assumption || lia.
Qed.
Print Assumptions C03_code_process_reachable.

(* ... and it is not vacuous: the initial state and the state after the demonstration scenario *)
Example C03_pre_init : Pre init_state.
Proof. unfold Pre, bytes. cbn. repeat split; try lia; repeat constructor; lia. Qed.
Example C03_pre_scenario : Pre (run_u scenario).
Proof.
  unfold Pre, bytes. repeat split; try (vm_compute; reflexivity); try (vm_compute; intros; discriminate).
  all: try (apply Forall_forall; intros x Hx; vm_compute in Hx; repeat (destruct Hx as [<-|Hx]; [vm_compute; split; congruence|]); contradiction).
Qed.
