(* Properties_Mid_C02.v — C02 at the level of the code: the character table written in the
   source of rdsparser_string_convert (translated on every run by tools/cmid.py) is the character
   graph the model is instantiated with; one call of rdsparser_string_update_single touches the
   addressed cell only; and the two group handlers that address 8-character texts —
   rdsparser_group0_parse (PS, with TA / MS / AF) and rdsparser_group10_parse (PTYN) — are the model's
   group0_parse and group10_parse: same cells, same levels, same buffer members, same callbacks in
   the same order. *)
Require Import Lemmas_Mid_Conv Lemmas_Mid_C07 Lemmas_Mid_Groups.
Local Open Scope Z_scope.

Theorem C02_code_charset : forall x, 32 <= x < 256 -> m_string_convert x = conv_u x.
Proof. exact mid_convert_u. Qed.
Print Assumptions C02_code_charset.

Theorem C02_code_only_the_addressed_cell : forall c e inp ei ed pos prog al,
  (pos < length e)%nat -> (pos < length c)%nat ->
  let '(r, c', e') := m_update_single c e inp ei ed (Z.of_nat pos) prog al in
  (forall j, j <> pos -> nth j e' 0 = nth j e 0 /\ nth j c' 0 = nth j c 0)
  /\ length c' = length c /\ length e' = length e.
Proof. exact mid_only_addressed. Qed.
Print Assumptions C02_code_only_the_addressed_cell.

Theorem C02_code_group0 : forall g flag s evs, wf_group g -> length (ps s) = 8%nat ->
  bytes (d_af (used s)) -> bytes (d_af (temp s)) ->
  m_group0_parse (d_af (temp s)) (getf SMs (temp s)) (getf STa (temp s))
                 (d_af (used s)) (getf SMs (used s)) (getf STa (used s)) (b2z (ext s))
                 (cb s FAF) (cb s FMS) (cb s FPS) (cb s FTA) (corr_tab s) evs (prog_tab s)
                 (contents (ps s)) (levels (ps s)) (ud s)
                 (ga g) (gb g) (gc g) (gd g) (ea g) (eb g) (ec g) (ed g) flag
  = let r := group0_parse conv_u g flag s in
    let s' := fst r in
    (0, d_af (temp s'), getf SMs (temp s'), getf STa (temp s'),
        d_af (used s'), getf SMs (used s'), getf STa (used s'),
        evs ++ map ev_call (snd r), contents (ps s'), levels (ps s')).
Proof. exact (mid_group0_parse conv_u mid_convert_u). Qed.
Print Assumptions C02_code_group0.

Theorem C02_code_group10 : forall g flag s evs, wf_group g -> length (ptyn s) = 8%nat ->
  m_group10_parse (cb s FPTYN) (corr_tab s) evs (prog_tab s) (contents (ptyn s)) (levels (ptyn s)) (ud s)
                  (ga g) (gb g) (gc g) (gd g) (ea g) (eb g) (ec g) (ed g) flag
  = let r := group10_parse conv_u g flag s in
    (0, evs ++ map ev_call (snd r), contents (ptyn (fst r)), levels (ptyn (fst r))).
Proof. exact (mid_group10_parse conv_u mid_convert_u). Qed.
Print Assumptions C02_code_group10.
