(* Properties_Mid_C02.v — C02 at the level of the code: the character table written in the
   source of rdsparser_string_convert (translated on every run by tools/cmid.py) is the character
   graph the model is instantiated with, and one call of rdsparser_string_update_single touches the
   addressed cell only. *)
Require Import Lemmas_Mid_Conv Lemmas_Mid_C07.
Local Open Scope Z_scope.

Theorem C02_code_charset : forall x, 32 <= x < 256 -> m_string_convert x = conv_u x.
Proof. exact mid_convert_u. Qed.
Print Assumptions C02_code_charset.

Theorem C02_code_only_the_addressed_cell : forall c e inp ei ed pos prog al,
  (pos < length e)%nat -> (pos < length c)%nat ->
  let '(r, c', e') := m_update_single c e inp ei ed (Z.of_nat pos) prog al in
  (forall j, j <> pos -> nth j e' 0 = nth j e 0 /\ nth j c' 0 = nth j c 0)
  /\ length c' = length c /\ length e' = length e.
Proof. exact mid_only_addressed. Qed.
Print Assumptions C02_code_only_the_addressed_cell.
