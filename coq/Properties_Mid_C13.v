(* Properties_Mid_C13.v — C13 at the level of the code: rdsparser_clear (src/rdsparser.c) with
   rdsparser_buffer_clear, rdsparser_buffer_data_clear, rdsparser_af_clear and rdsparser_string_clear below
   it, translated on every run, is the model's clear: both stages of the candidate buffer back to
   "unknown" with empty AF bitmaps, the four texts emptied, the A/B latch to -1 — and no other
   member is mentioned (settings, callbacks and user data are not touched: GenMid.v lists what
   the function writes). *)
Require Import Lemmas_Mid_Clear.
Local Open Scope Z_scope.

Theorem C13_code_clear : forall s,
  length (ps s) = 8%nat -> length (rt0 s) = 64%nat -> length (rt1 s) = 64%nat -> length (ptyn s) = 8%nat ->
  length (d_af (used s)) = 26%nat -> length (d_af (temp s)) = 26%nat ->
  m_clear (d_af (temp s)) (getf SCountry (temp s)) (getf SEcc (temp s)) (getf SMs (temp s)) (getf SPi (temp s))
          (getf SPty (temp s)) (getf STa (temp s)) (getf STp (temp s))
          (d_af (used s)) (getf SCountry (used s)) (getf SEcc (used s)) (getf SMs (used s)) (getf SPi (used s))
          (getf SPty (used s)) (getf STa (used s)) (getf STp (used s)) (last_rt s)
          (contents (ps s)) (levels (ps s)) 8 (contents (ptyn s)) (levels (ptyn s)) 8
          (contents (rt0 s)) (levels (rt0 s)) 64 (contents (rt1 s)) (levels (rt1 s)) 64
  = clear_view (clear s).
Proof. exact mid_clear. Qed.
Print Assumptions C13_code_clear.
