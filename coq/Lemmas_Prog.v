(* Lemmas_Prog.v — C07: progressive correction only ever improves a cell, for all texts, and a PS
   whose every cell is eventually received error-free converges to that text whatever corrected
   receptions are interleaved. *)
Require Export Lemmas_CbAf.
Require Import ZifyBool.
Local Open Scope Z_scope.

Section Prog.
Variable conv : Z -> Z.
Variable lut : Z -> Z -> Z.

(* a whole block under progressive correction: no level rises *)
Lemma write2_progressive info data eb e pos w cs i : (S pos < length cs)%nat ->
  snd (nth i (write2 conv info data true eb e pos w cs) (0, 0)) <= snd (nth i cs (0, 0)).
Proof.
  intros Hl. destruct (Nat.eq_dec i pos) as [->|N1]; [|destruct (Nat.eq_dec i (S pos)) as [->|N2]].
  - rewrite write2_first by exact Hl. apply cell_after_progressive.
  - rewrite write2_second by exact Hl. apply cell_after_progressive.
  - rewrite write2_other by assumption. lia.
Qed.

Theorem ptyn_levels_never_rise g s : Inv conv s -> wf_group g -> prog s PTYN = true ->
  forall i, snd (nth i (cells (ptyn (fst (process conv lut g s)))) (0, 0)) <= snd (nth i (cells (ptyn s)) (0, 0)).
Proof.
  intros I Hwf Hp i. pose proof Hwf as [_ [Hb _]]. unfold blk_ok in Hb.
  destruct (group_cases conv lut (gb g) Hb) as [G|[G|[[G V]|[N0 [N2 N10]]]]].
  - destruct (ps_step conv lut g s I Hwf G) as [_ [_ [_ [P _]]]]. rewrite P. lia.
  - destruct (rt_step conv lut g s I Hwf G) as [_ [P _]]. rewrite P. lia.
  - destruct (ptyn_step conv lut g s I Hwf G V) as [E _]. cbv zeta in E. rewrite E, Hp.
    assert (L : length (cells (ptyn s)) = 8%nat) by (unfold cells; rewrite map_length; apply (inv_ptyn conv s I)).
    assert (Hm : 0 <= gb g mod 2 <= 1) by (pose proof (Z.mod_pos_bound (gb g) 2 ltac:(lia)); lia).
    etransitivity; [apply write2_progressive; rewrite write2_length; lia|].
    apply write2_progressive. lia.
  - destruct (no_text_step conv lut g s I Hwf N0 N2 N10) as [_ [_ [_ [P _]]]]. rewrite P. lia.
Qed.

(* RT: between resets (clear/init, A/B switch) the levels of the buffer of the group's flag never rise *)
Theorem rt_levels_never_rise g s : Inv conv s -> wf_group g -> b_group (gb g) = 2 -> prog s RT = true ->
  let f := b_rtflag (gb g) in
  (* no switch in this group: block B has errors, or the flag is the one last seen, or none was seen *)
  ((eb g =? 0) && negb (f =? last_rt s) && negb (last_rt s =? -1) && string_available (rt_of f s)) = false ->
  forall i, snd (nth i (cells (rt_of f (fst (process conv lut g s)))) (0, 0)) <= snd (nth i (cells (rt_of f s)) (0, 0)).
Proof.
  intros I Hwf G Hp f Hns i. pose proof Hwf as [_ [Hb _]]. unfold blk_ok in Hb.
  destruct (rt_step conv lut g s I Hwf G) as [_ [_ [_ [_ E]]]]. cbv zeta in E. fold f in E. rewrite E, Hp.
  destruct (negb (eb g =? 0) && negb (f =? last_rt s) && negb (last_rt s =? -1)); [lia|].
  replace ((eb g =? 0) && negb (f =? last_rt s) && negb (last_rt s =? -1) && string_available (rt_of f s)) with false by (symmetry; exact Hns).
  assert (L : length (cells (rt_of f s)) = 64%nat).
  { unfold cells, rt_of. rewrite map_length. destruct (f =? 0); [apply (inv_rt0 conv s I)|apply (inv_rt1 conv s I)]. }
  assert (Hm : 0 <= gb g mod 16 <= 15) by (pose proof (Z.mod_pos_bound (gb g) 16 ltac:(lia)); lia).
  destruct (b_ver (gb g) =? 0).
  - etransitivity; [apply write2_progressive; rewrite write2_length; lia|]. apply write2_progressive. lia.
  - apply write2_progressive. lia.
Qed.

(* ---------- convergence of a progressive PS ---------- *)
(* group g delivers cell i of the target error-free: type 0, error-free B and D, addresses i, and the
   byte for i is a storable one *)
Definition ps_byte (g : group) (i : nat) : option Z :=
  if (b_group (gb g) =? 0) && (eb g =? 0) && (ed g =? 0) then
    if Nat.eqb i (Z.to_nat (2 * (gb g mod 4))) then Some (w_hi (gd g))
    else if Nat.eqb i (S (Z.to_nat (2 * (gb g mod 4)))) then Some (w_lo (gd g)) else None
  else None.
Definition storable (b : Z) : bool := (b =? 13) || (32 <=? b).

(* the error-free receptions are consistent with the target text *)
Definition consistent (tgt : nat -> Z) (g : group) : Prop :=
  forall i b, ps_byte g i = Some b -> storable b = true -> fst (cell_ef conv (0, 0) b) = tgt i.
Definition delivers (g : group) (i : nat) : bool :=
  match ps_byte g i with Some b => storable b | None => false end.

Lemma cell_ef_storable old b : storable b = true -> cell_ef conv old b = (fst (cell_ef conv (0, 0) b), 0).
Proof.
  unfold storable, cell_ef. intros H. destruct (b =? 13); [reflexivity|].
  cbn [orb] in H. replace (b <? 32) with false by lia. reflexivity.
Qed.

(* one group on a progressive PS: a cell that already holds its target at level 0 keeps it; a cell
   that is delivered error-free now holds it *)
Lemma ps_converge_step tgt g s i : Inv conv s -> wf_group g -> prog s PS = true -> consistent tgt g -> (i < 8)%nat ->
  let s' := fst (process conv lut g s) in
  (nth i (cells (ps s)) (0, 0) = (tgt i, 0) -> nth i (cells (ps s')) (0, 0) = (tgt i, 0))
  /\ (delivers g i = true -> nth i (cells (ps s')) (0, 0) = (tgt i, 0)).
Proof.
  intros I Hwf Hp Hc Hi. cbv zeta. pose proof Hwf as [_ [Hb [_ [Hd _]]]]. unfold blk_ok in *.
  assert (Linv : forall c l, nth i (cells (ps s)) (0, 0) = (c, l) -> 0 <= l).
  { intros c l E. destruct (inv_ps conv s I) as [Hl Hf].
    destruct (nth_error (ps s) i) as [x|] eqn:Hn; [|apply nth_error_None in Hn; lia].
    rewrite (nth_cells _ _ _ Hn) in E. pose proof (Forall_nth_error _ _ _ _ Hf Hn) as [Hr _].
    unfold cellp in E. inversion E; subst. lia. }
  destruct (b_group (gb g) =? 0) eqn:G0.
  2:{ assert (Hps : ps (fst (process conv lut g s)) = ps s).
      { destruct (group_cases conv lut (gb g) Hb) as [G|[G|[[G V]|[N0 [N2 N10]]]]]; [lia| | |].
        - exact (proj1 (rt_step conv lut g s I Hwf G)).
        - destruct (ptyn_step conv lut g s I Hwf G V) as [_ [P _]]. exact P.
        - exact (proj1 (no_text_step conv lut g s I Hwf N0 N2 N10)). }
      rewrite Hps. split; [auto|]. unfold delivers, ps_byte. rewrite G0. cbn [andb]. discriminate. }
  assert (G : b_group (gb g) = 0) by lia.
  destruct (ps_step conv lut g s I Hwf G) as [E _]. rewrite E, Hp.
  set (p := Z.to_nat (2 * (gb g mod 4))).
  assert (Hm : 0 <= gb g mod 4 <= 3) by (pose proof (Z.mod_pos_bound (gb g) 4 ltac:(lia)); lia).
  assert (L : (S p < length (cells (ps s)))%nat).
  { unfold cells. rewrite map_length. destruct (inv_ps conv s I) as [Hl _]. rewrite Hl. unfold p. lia. }
  pose proof (inv_corr conv s I PS INFO) as Ci. pose proof (inv_corr conv s I PS DATA) as Cd.
  (* what happens to an addressed cell holding `old` when byte b arrives *)
  assert (Key : forall b old, 0 <= snd old -> ps_byte g i = Some b ->
                  (old = (tgt i, 0) -> cell_after conv (corr s PS INFO) (corr s PS DATA) true old b (eb g) (ed g) = (tgt i, 0))
                  /\ (storable b = true -> (eb g =? 0) && (ed g =? 0) = true ->
                      cell_after conv (corr s PS INFO) (corr s PS DATA) true old b (eb g) (ed g) = (tgt i, 0))).
  { intros b old Ho Hb'. split.
    - intros ->. destruct (Z.eq_dec (eb g) 0) as [E0|N0]; [destruct (Z.eq_dec (ed g) 0) as [E1|N1]|].
      + rewrite E0, E1, cell_after_error_free by (cbn; lia).
        destruct (storable b) eqn:S.
        * rewrite (cell_ef_storable _ _ S). f_equal. apply (Hc i b Hb' S).
        * unfold storable in S. unfold cell_ef. destruct (b =? 13); [discriminate|]. cbn [orb] in S. replace (b <? 32) with true by lia. reflexivity.
      + destruct (cell_after_progressive conv (corr s PS INFO) (corr s PS DATA) (tgt i, 0) b (eb g) (ed g)) as [_ H2].
        cbv zeta in H2. destruct Hwf as [_ [_ [_ [_ [_ [He1 [_ He2]]]]]]]. unfold err_ok in *.
        destruct (pair_eqb (cell_after conv (corr s PS INFO) (corr s PS DATA) true (tgt i, 0) b (eb g) (ed g)) (tgt i, 0)) eqn:Pe.
        * apply pair_eqb_eq in Pe. exact Pe.
        * exfalso. assert (Hne : cell_after conv (corr s PS INFO) (corr s PS DATA) true (tgt i, 0) b (eb g) (ed g) <> (tgt i, 0)).
          { intros Eq. rewrite Eq, pair_eqb_refl in Pe. discriminate. }
          destruct (H2 Hne) as [_ Hl]. cbn [snd] in Hl. unfold lvl in Hl. rewrite E0 in Hl.
          replace (ed g =? 0) with false in Hl by lia. cbn [Z.eqb andb] in Hl. lia.
      + destruct (cell_after_progressive conv (corr s PS INFO) (corr s PS DATA) (tgt i, 0) b (eb g) (ed g)) as [_ H2].
        cbv zeta in H2. destruct Hwf as [_ [_ [_ [_ [_ [He1 [_ He2]]]]]]]. unfold err_ok in *.
        destruct (pair_eqb (cell_after conv (corr s PS INFO) (corr s PS DATA) true (tgt i, 0) b (eb g) (ed g)) (tgt i, 0)) eqn:Pe.
        * apply pair_eqb_eq in Pe. exact Pe.
        * exfalso. assert (Hne : cell_after conv (corr s PS INFO) (corr s PS DATA) true (tgt i, 0) b (eb g) (ed g) <> (tgt i, 0)).
          { intros Eq. rewrite Eq, pair_eqb_refl in Pe. discriminate. }
          destruct (H2 Hne) as [_ Hl]. cbn [snd] in Hl. unfold lvl in Hl.
          replace (eb g =? 0) with false in Hl by lia. cbn [andb] in Hl. lia.
    - intros S Ee. apply andb_true_iff in Ee. destruct Ee as [E0 E1]. apply Z.eqb_eq in E0, E1.
      rewrite E0, E1, cell_after_error_free by (try lia; exact Ho).
      rewrite (cell_ef_storable _ _ S). f_equal. apply (Hc i b Hb' S). }
  destruct (Nat.eq_dec i p) as [Ei|N1]; [|destruct (Nat.eq_dec i (S p)) as [Ei|N2]].
  - subst i. rewrite write2_first by exact L.
    destruct (nth p (cells (ps s)) (0, 0)) as [c l] eqn:Eo. pose proof (Linv c l eq_refl) as Hl0.
    unfold delivers. 
    destruct (ps_byte g p) as [b|] eqn:Pb.
    + assert (Eb : b = w_hi (gd g) /\ ((eb g =? 0) && (ed g =? 0) = true)).
      { unfold ps_byte in Pb. rewrite G0 in Pb. cbn [andb] in Pb. destruct ((eb g =? 0) && (ed g =? 0)); [|discriminate].
        fold p in Pb. rewrite Nat.eqb_refl in Pb. inversion Pb. split; reflexivity. }
      destruct Eb as [-> Ee]. destruct (Key (w_hi (gd g)) (c, l) Hl0 ltac:(first [exact Pb|reflexivity])) as [K1 K2]. split; [exact K1|intros S; exact (K2 S Ee)].
    + split; [|discriminate]. intros Eq. 
      (* not an error-free delivery of this cell: progressive correction cannot worsen level 0 *)
      inversion Eq; subst c l.
      destruct (cell_after_progressive conv (corr s PS INFO) (corr s PS DATA) (tgt p, 0) (w_hi (gd g)) (eb g) (ed g)) as [_ H2].
      cbv zeta in H2. destruct Hwf as [_ [_ [_ [_ [_ [He1 [_ He2]]]]]]]. unfold err_ok in *.
      destruct (pair_eqb (cell_after conv (corr s PS INFO) (corr s PS DATA) true (tgt p, 0) (w_hi (gd g)) (eb g) (ed g)) (tgt p, 0)) eqn:Pe;
        [apply pair_eqb_eq in Pe; exact Pe|].
      exfalso. assert (Hne : cell_after conv (corr s PS INFO) (corr s PS DATA) true (tgt p, 0) (w_hi (gd g)) (eb g) (ed g) <> (tgt p, 0)).
      { intros Eq'. rewrite Eq', pair_eqb_refl in Pe. discriminate. }
      destruct (H2 Hne) as [_ Hl]. cbn [snd] in Hl. unfold lvl in Hl.
      unfold ps_byte in Pb. rewrite G0 in Pb. cbn [andb] in Pb. fold p in Pb. rewrite Nat.eqb_refl in Pb.
      destruct ((eb g =? 0) && (ed g =? 0)) eqn:Ee; [discriminate|]. lia.
  - subst i. rewrite write2_second by exact L.
    destruct (nth (S p) (cells (ps s)) (0, 0)) as [c l] eqn:Eo. pose proof (Linv c l eq_refl) as Hl0.
    unfold delivers.
    destruct (ps_byte g (S p)) as [b|] eqn:Pb.
    + assert (Eb : b = w_lo (gd g) /\ ((eb g =? 0) && (ed g =? 0) = true)).
      { unfold ps_byte in Pb. rewrite G0 in Pb. cbn [andb] in Pb. destruct ((eb g =? 0) && (ed g =? 0)); [|discriminate].
        fold p in Pb. replace (Nat.eqb (S p) p) with false in Pb by (symmetry; apply Nat.eqb_neq; lia).
        rewrite Nat.eqb_refl in Pb. inversion Pb. split; reflexivity. }
      destruct Eb as [-> Ee]. destruct (Key (w_lo (gd g)) (c, l) Hl0 ltac:(first [exact Pb|reflexivity])) as [K1 K2]. split; [exact K1|intros S; exact (K2 S Ee)].
    + split; [|discriminate]. intros Eq. inversion Eq; subst c l.
      destruct (cell_after_progressive conv (corr s PS INFO) (corr s PS DATA) (tgt (S p), 0) (w_lo (gd g)) (eb g) (ed g)) as [_ H2].
      cbv zeta in H2. destruct Hwf as [_ [_ [_ [_ [_ [He1 [_ He2]]]]]]]. unfold err_ok in *.
      destruct (pair_eqb (cell_after conv (corr s PS INFO) (corr s PS DATA) true (tgt (S p), 0) (w_lo (gd g)) (eb g) (ed g)) (tgt (S p), 0)) eqn:Pe;
        [apply pair_eqb_eq in Pe; exact Pe|].
      exfalso. assert (Hne : cell_after conv (corr s PS INFO) (corr s PS DATA) true (tgt (S p), 0) (w_lo (gd g)) (eb g) (ed g) <> (tgt (S p), 0)).
      { intros Eq'. rewrite Eq', pair_eqb_refl in Pe. discriminate. }
      destruct (H2 Hne) as [_ Hl]. cbn [snd] in Hl. unfold lvl in Hl.
      unfold ps_byte in Pb. rewrite G0 in Pb. cbn [andb] in Pb. fold p in Pb.
      replace (Nat.eqb (S p) p) with false in Pb by (symmetry; apply Nat.eqb_neq; lia). rewrite Nat.eqb_refl in Pb.
      destruct ((eb g =? 0) && (ed g =? 0)) eqn:Ee; [discriminate|]. lia.
  - rewrite write2_other by assumption. split; [auto|].
    unfold delivers, ps_byte. fold p. destruct (_ && _ && _); [|discriminate].
    replace (Nat.eqb i p) with false by (symmetry; apply Nat.eqb_neq; assumption).
    replace (Nat.eqb i (S p)) with false by (symmetry; apply Nat.eqb_neq; assumption). discriminate.
Qed.

(* a stream of groups on a progressive PS *)
Fixpoint feed (s : state) (gs : list group) : state :=
  match gs with [] => s | g :: r => feed (fst (process conv lut g s)) r end.

Theorem ps_converges tgt gs : forall s, Inv conv s -> prog s PS = true ->
  Forall wf_group gs -> Forall (consistent tgt) gs ->
  forall i, (i < 8)%nat ->
  (nth i (cells (ps s)) (0, 0) = (tgt i, 0) \/ existsb (fun g => delivers g i) gs = true) ->
  nth i (cells (ps (feed s gs))) (0, 0) = (tgt i, 0).
Proof.
  induction gs as [|g r IH]; intros s I Hp Hw Hc i Hi H.
  - destruct H as [H|H]; [exact H|discriminate].
  - inversion Hw as [|? ? Hwg Hwr]; subst. inversion Hc as [|? ? Hcg Hcr]; subst.
    cbn [feed]. destruct (ps_converge_step tgt g s i I Hwg Hp Hcg Hi) as [K1 K2]. cbv zeta in K1, K2.
    apply IH; try assumption.
    + apply process_inv; assumption.
    + pose proof (process_keeps_settings conv lut g s) as K. destruct (P_set_fields _ _ K) as [Kp _]. rewrite Kp. exact Hp.
    + destruct H as [H|H]; [left; apply K1; exact H|].
      cbn [existsb] in H. apply orb_true_iff in H. destruct H as [H|H]; [left; apply K2; exact H|right; exact H].
Qed.

End Prog.
