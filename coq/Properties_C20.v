(* Properties_C20.v — obligations of property C20 (all four build configurations decode
   identically, modulo charset width).  PARTIAL: see the end of the file. *)
Require Import ObsRun Lemmas_TabConv Lemmas_Narrow Lemmas_Step Lemmas_WF.
Local Open Scope Z_scope.

(* the character graph measured on the non-unicode build: control codes not stored (0x0D = end of
   text), 0x20..0x7E stored as is, 0x7F..0xFF stored as a space *)
Theorem C20_narrow_table : conv_narrow_ok = true.
Proof. exact conv_narrow_table. Qed.
Print Assumptions C20_narrow_table.

(* the narrow character is a function of the stored unicode code point (two bytes with the same
   unicode image have the same narrow image), so "unicode trace narrowed" is well defined *)
Theorem C20_narrow_well_defined : narrow_well_defined_ok = true.
Proof. exact narrow_well_defined. Qed.
Print Assumptions C20_narrow_well_defined.

(* heap on/off: the model has no difference except that rdsparser_new / rdsparser_free exist
   (ModelMulti); unicode on/off: one model, instantiated with the two measured character graphs.
   Everything proved for an arbitrary table holds for both builds, e.g. the invariant, C05, C13,
   C17; C16 is proved for each table separately: *)
Theorem C20_narrow_build_wellformed : forall h s b,
  reach conv_n lut_g h s -> obs_C16_snap conv_n b (snap_of s) = true.
Proof.
  exact (wf_always conv_n lut_g (proj1 (conv_printable_spec conv_n conv_narrow_printable))
                   (proj2 (conv_printable_spec conv_n conv_narrow_printable))).
Qed.
Print Assumptions C20_narrow_build_wellformed.

(* KNOWN FINDING, derived in the model: after a narrow collision (stored and incoming characters
   differ in the unicode build but coincide after narrowing) levels and callbacks differ between
   the two builds.  Witness: PS data threshold 2; 0x80 'A' error-free, then 0x20 'A' with a
   corrected block D. *)
Definition collision_witness : list op :=
  [ ORegister FPS 1; OSetCorr PS DATA 2; G 4096 2048 4096 32833 0 0 0 0; G 4096 2048 4096 8257 0 0 0 1 ].
Theorem C20_collision_refuted :
  map snd (firstn 1 (ts_cells (sn_ps (snap_of (run_u collision_witness))))) = [2]
  /\ map snd (firstn 1 (ts_cells (sn_ps (snap_of (run_n collision_witness))))) = [0].
Proof. vm_compute. split; reflexivity. Qed.
Print Assumptions C20_collision_refuted.

Example C20_scenario_n : check_run_n (observer_n 16) scenario = true.
Proof. vm_compute. reflexivity. Qed.

(* PARTIAL: the simulation theorem "for collision-free histories the two instantiations of the
   model produce related states and equal events" is not proved; the check compares the four
   real builds on collision-free histories instead (testing). *)
