(* Properties_C20.v — obligations of property C20.  Contains only theorem statements closed by
   `exact <lemma>` and Print Assumptions. *)
Require Import ObsRun.
Local Open Scope Z_scope.

(* non-vacuity: the observer of C20 is evaluated (and holds) along a run of the model that
   touches every group kind *)
Example C20_scenario : check_run_u (observer_u 20) scenario = true.
Proof. vm_compute. reflexivity. Qed.
Print Assumptions C20_scenario.
