(* Properties_C20.v — obligations of property C20 (all four build configurations decode
   identically, modulo charset width).  PARTIAL: see the end of the file. *)
Require Import ObsRun Lemmas_TabConv Lemmas_Narrow Lemmas_Step Lemmas_WF Lemmas_Sim Lemmas_SimEv.
Local Open Scope Z_scope.

(* the character graph measured on the non-unicode build: control codes not stored (0x0D = end of
   text), 0x20..0x7E stored as is, 0x7F..0xFF stored as a space *)
Theorem C20_narrow_table : conv_narrow_ok = true.
Proof. exact conv_narrow_table. Qed.
Print Assumptions C20_narrow_table.

(* the narrow character is a function of the stored unicode code point (two bytes with the same
   unicode image have the same narrow image), so "unicode trace narrowed" is well defined *)
Theorem C20_narrow_well_defined : narrow_well_defined_ok = true.
Proof. exact narrow_well_defined. Qed.
Print Assumptions C20_narrow_well_defined.

(* heap on/off: the model has no difference except that rdsparser_new / rdsparser_free exist
   (ModelMulti); unicode on/off: one model, instantiated with the two measured character graphs.
   Everything proved for an arbitrary table holds for both builds, e.g. the invariant, C05, C13,
   C17; C16 is proved for each table separately: *)
Theorem C20_narrow_build_wellformed : forall h s b,
  reach conv_n lut_g h s -> obs_C16_snap conv_n b (snap_of s) = true.
Proof.
  exact (wf_always conv_n lut_g (proj1 (conv_printable_spec conv_n conv_narrow_printable))
                   (proj2 (conv_printable_spec conv_n conv_narrow_printable))).
Qed.
Print Assumptions C20_narrow_build_wellformed.

(* KNOWN FINDING, derived in the model: after a narrow collision (stored and incoming characters
   differ in the unicode build but coincide after narrowing) levels and callbacks differ between
   the two builds.  Witness: PS data threshold 2; 0x80 'A' error-free, then 0x20 'A' with a
   corrected block D. *)
Definition collision_witness : list op :=
  [ ORegister FPS 1; OSetCorr PS DATA 2; G 4096 2048 4096 32833 0 0 0 0; G 4096 2048 4096 8257 0 0 0 1 ].
Theorem C20_collision_refuted :
  map snd (firstn 1 (ts_cells (sn_ps (snap_of (run_u collision_witness))))) = [2]
  /\ map snd (firstn 1 (ts_cells (sn_ps (snap_of (run_n collision_witness))))) = [0].
Proof. vm_compute. split; reflexivity. Qed.
Print Assumptions C20_collision_refuted.

Example C20_scenario_n : check_run_n (observer_n 16) scenario = true.
Proof. vm_compute. reflexivity. Qed.

(* SIMULATION.  SR su sn: a state of the unicode model and a state of the non-unicode model agree
   on everything (both buffer stages, settings, callbacks, user data, last RT flag, every error
   level) except the stored characters, which are cell by cell images of the same byte (or both the
   end-of-text marker / both the initial blank).  For every group that causes no narrow collision
   (nocoll_group: on each cell the group addresses, the non-unicode build finds "same character as
   stored" only if the unicode build does) the relation is preserved: every getter shows the same
   value in both builds, characters narrowed.  nocoll_group is decidable; the check uses it (in the
   form "injective byte pool per script") to build the histories on which the four real builds
   must agree, and the known finding is exactly its negation. *)
Theorem C20_simulation : forall su sn g, SR conv_u conv_n su sn -> Inv conv_u su -> Inv conv_n sn -> wf_group g ->
  nocoll_group conv_u conv_n su sn g ->
  SR conv_u conv_n (fst (process conv_u lut_g g su)) (fst (process conv_n lut_g g sn)).
Proof. exact (group_simulation conv_u conv_n lut_g conv_nonzero conv_well_defined conv_space_narrow). Qed.
Print Assumptions C20_simulation.

(* the initial states are related, and clear / init / every setter preserve the relation trivially
   (they do not look at characters) *)
Lemma cellsrel_init n : cellsrel conv_u conv_n (cells (string_init n)) (cells (string_init n)).
Proof.
  unfold string_init, cells. induction n as [|n IH]; cbn; constructor; [|exact IH].
  split; [right; left; split; reflexivity|reflexivity].
Qed.
Theorem C20_initial_related : SR conv_u conv_n init_state init_state.
Proof. constructor; try reflexivity; apply cellsrel_init. Qed.
Print Assumptions C20_initial_related.

(* CALLBACKS.  From related states, on every group without narrow collision:
   - every callback other than PS / RT / PTYN is literally the same event in the two builds (same
     function, user data, argument, sampled value) — this part needs no hypothesis on characters; *)
Theorem C20_other_callbacks_identical : forall su sn g, SR conv_u conv_n su sn ->
  filter nontext (snd (process conv_u lut_g g su)) = filter nontext (snd (process conv_n lut_g g sn)).
Proof. intros su sn g R. exact (other_events_sim conv_u conv_n lut_g su sn g R). Qed.
Print Assumptions C20_other_callbacks_identical.
(* - the PS, RT and PTYN callbacks correspond one to one (evrel: same field, function, user data and
     argument; the sampled texts have the same length, availability and levels, and characters that
     are images of the same byte) *)
Theorem C20_text_callbacks_correspond : forall su sn g, SR conv_u conv_n su sn -> Inv conv_u su -> Inv conv_n sn ->
  wf_group g -> nocoll_group conv_u conv_n su sn g ->
  let eu := snd (process conv_u lut_g g su) in let en := snd (process conv_n lut_g g sn) in
  Forall2 (evrel conv_u conv_n) (filter (isf FPS) eu) (filter (isf FPS) en)
  /\ Forall2 (evrel conv_u conv_n) (filter (isf FRT) eu) (filter (isf FRT) en)
  /\ Forall2 (evrel conv_u conv_n) (filter (isf FPTYN) eu) (filter (isf FPTYN) en).
Proof.
  intros su sn g R Iu In_ W N. cbv zeta. split; [|split].
  - exact (ps_events_sim conv_u conv_n lut_g conv_nonzero conv_well_defined conv_space_narrow su sn g R Iu In_ W N).
  - exact (rt_events_sim conv_u conv_n lut_g conv_nonzero conv_well_defined conv_space_narrow su sn g R Iu In_ W N).
  - exact (ptyn_events_sim conv_u conv_n lut_g conv_nonzero conv_well_defined conv_space_narrow su sn g R Iu In_ W N).
Qed.
Print Assumptions C20_text_callbacks_correspond.

(* PARTIAL: heap on/off has no counterpart in the model beyond ModelMulti (MNew / MFree): that
   dimension of C20 is decided by running the four real builds on the same scripts. *)
