(* Properties_C15.v — obligations of property C15.  Contains only theorem statements closed by
   `exact <lemma>` and Print Assumptions. *)
Require Import ObsRun.
Local Open Scope Z_scope.

(* non-vacuity: the observer of C15 is evaluated (and holds) along a run of the model that
   touches every group kind *)
Example C15_scenario : check_run_u (observer_u 15) scenario = true.
Proof. vm_compute. reflexivity. Qed.
Print Assumptions C15_scenario.
