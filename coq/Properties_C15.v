(* Properties_C15.v — obligations of property C15 (callbacks, user data and getters are pure
   observers). *)
Require Import ObsRun Lemmas_Core.
Local Open Scope Z_scope.

(* Replacing all twelve registrations and the user data of ANY state commutes with every API
   call other than the ones that set them: the next state is the same up to the observers. *)
Theorem C15_step_commutes : forall conv lut s o c u,
  (forall f id, o <> ORegister f id) -> (forall x, o <> OSetUD x) -> o <> OInit ->
  fst (step conv lut (with_obs c u s) o) = with_obs c u (fst (step conv lut s o)).
Proof. exact step_commutes. Qed.
Print Assumptions C15_step_commutes.

(* Hence for EVERY call sequence and EVERY pattern of register / unregister / replace /
   set_user_data calls interleaved into it, the getter snapshot equals that of the run from which
   all those observer calls have been deleted.  (Getters are functions of the state in the model;
   the harness calls all of them after every call and inside every callback.) *)
Theorem C15_any_registration_pattern : forall conv lut ops s s', snap_of s = snap_of s' ->
  (exists c u, s = with_obs c u s') -> (forall o, In o ops -> o <> OInit) ->
  snap_of (run_from conv lut s ops) = snap_of (run_from conv lut s' (strip ops)).
Proof. exact run_ignores_observers. Qed.
Print Assumptions C15_any_registration_pattern.

(* every callback is the function most recently registered for its field (never NULL: a removed
   callback is skipped) and receives the user data most recently set; the two setter calls change
   nothing a getter shows and fire nothing *)
Theorem C15_observer : forall conv lut h s o, reach conv lut h s -> wf_op o ->
  obs_C15 (o :: h) (snap_of s) (snap_of (fst (step conv lut s o))) (snd (step conv lut s o)) (ret_of o) = true.
Proof. exact C15_observer_holds. Qed.
Print Assumptions C15_observer.

(* Limit: calling the API from inside a callback (re-entrancy) is not modelled. *)
Example C15_scenario : check_run_u (observer_u 15) scenario = true.
Proof. vm_compute. reflexivity. Qed.
