(* Properties_C15.v — obligations of property C15 (callbacks, user data and getters are pure
   observers). *)
Require Import ObsRun Lemmas_Core Lemmas_Reent.
Local Open Scope Z_scope.

(* Replacing all twelve registrations and the user data of ANY state commutes with every API
   call other than the ones that set them: the next state is the same up to the observers. *)
Theorem C15_step_commutes : forall conv lut s o c u,
  (forall f id, o <> ORegister f id) -> (forall x, o <> OSetUD x) -> o <> OInit ->
  fst (step conv lut (with_obs c u s) o) = with_obs c u (fst (step conv lut s o)).
Proof. exact step_commutes. Qed.
Print Assumptions C15_step_commutes.

(* Hence for EVERY call sequence and EVERY pattern of register / unregister / replace /
   set_user_data calls interleaved into it, the getter snapshot equals that of the run from which
   all those observer calls have been deleted.  (Getters are functions of the state in the model;
   the harness calls all of them after every call and inside every callback.) *)
Theorem C15_any_registration_pattern : forall conv lut ops s s', snap_of s = snap_of s' ->
  (exists c u, s = with_obs c u s') -> (forall o, In o ops -> o <> OInit) ->
  snap_of (run_from conv lut s ops) = snap_of (run_from conv lut s' (strip ops)).
Proof. exact run_ignores_observers. Qed.
Print Assumptions C15_any_registration_pattern.

(* every callback is the function most recently registered for its field (never NULL: a removed
   callback is skipped) and receives the user data most recently set; the two setter calls change
   nothing a getter shows and fire nothing *)
Theorem C15_observer : forall conv lut h s o, reach conv lut h s -> wf_op o ->
  obs_C15 (o :: h) (snap_of s) (snap_of (fst (step conv lut s o))) (snd (step conv lut s o)) (ret_of o) = true.
Proof. exact C15_observer_holds. Qed.
Print Assumptions C15_observer.

(* RE-ENTRANCY.  A callback may itself call rdsparser_register_* / rdsparser_set_user_data on its
   own parser.  step_reent (Reent.v) is the model of such a run: the notifications the call makes
   when every callback is registered are replayed, in order, through the registration table and
   user data as they evolve under the scripts of the invoked functions; a notification whose field
   is unregistered at that moment is skipped, the others go to the function registered at that
   moment with the user data set at that moment.  Three facts tie it to the base model: *)
(* (a) the notifications of any call under any registrations are the relabelled / filtered
       notifications of the same call with every callback registered *)
Theorem C15_events_relabel : forall conv lut s o, op_group o <> None ->
  snd (step conv lut s o) = relabel (cb s) (ud s) (snd (step conv lut (with_obs full_obs 0 s) o)).
Proof. exact step_events_relabel. Qed.
Print Assumptions C15_events_relabel.
(* (b) callbacks that call nothing: the re-entrant step IS the step of the base model *)
Theorem C15_reent_conservative : forall conv lut s o, step_reent conv lut (fun _ => []) s o = step conv lut s o.
Proof. exact reent_conservative. Qed.
Print Assumptions C15_reent_conservative.
(* (c) whatever the callbacks register, remove or set from inside: decoding is not altered *)
Theorem C15_reent_decoding_unaffected : forall conv lut sc s o,
  snap_of (fst (step_reent conv lut sc s o)) = snap_of (fst (step conv lut s o)).
Proof. exact reent_snapshot. Qed.
Print Assumptions C15_reent_decoding_unaffected.
(* (d) a removed callback is skipped: no notification is ever delivered to NULL *)
Theorem C15_reent_never_null : forall sc full tab u e, In e (fst (replay sc tab u full)) -> ev_cb e <> 0.
Proof. exact replay_nonnull. Qed.
(* The library is run against step_reent by the "re-entrant registration" family of the check.
   Limit: callbacks that call rdsparser_parse / clear / init from inside a callback (true
   re-entrancy into the decoder) are not modelled. *)
Example C15_reent_example :
  let sc := rtab_of [(1, [RReg FPS 0; RSetUD 9]); (2, [RReg FPS 3])] in
  let s := with_obs (fun f => if field_eqb f FPS then 2 else if field_eqb f FTA then 1 else if field_eqb f FMS then 2 else 0) 5 init_state in
  map (fun e => (field_idx (ev_field e), ev_cb e, ev_ud e))
      (snd (step_reent conv_u lut_g sc s (G 12801 1161 5264 16706 0 0 0 0)))
  = [(3, 1, 5); (4, 2, 9); (8, 3, 9)].
    (* TA -> function 1 (removes the PS callback, sets user data 9); MS -> function 2 (registers PS
       function 3); PS -> function 3, with user data 9 *)
Proof. vm_compute. reflexivity. Qed.
Example C15_scenario : check_run_u (observer_u 15) scenario = true.
Proof. vm_compute. reflexivity. Qed.
