(* Properties_Mid_C09.v — C09 at the level of the code: the seven RDSPARSER_BUFFER_UPDATE instances
   of src/buffer.c, translated on every run, are the model's buffer_update (the rule "accept a
   value that differs from the accepted one only if it equals the candidate, when the extended
   check is on"), for all values. *)
Require Import Lemmas_Mid_C09.
Local Open Scope Z_scope.

Theorem C09_code_buffer_update : forall f v s,
  m_buffer_update f (getf f (temp s)) (getf f (used s)) (b2z (ext s)) v
  = let r := buffer_update f v s in
    (b2z (snd r), getf f (temp (fst r)), getf f (used (fst r))).
Proof. exact mid_buffer_update. Qed.
Print Assumptions C09_code_buffer_update.

Theorem C09_code_buffer_update_frame : forall f f' v s, f' <> f ->
  getf f' (temp (fst (buffer_update f v s))) = getf f' (temp s) /\
  getf f' (used (fst (buffer_update f v s))) = getf f' (used s).
Proof. exact mid_buffer_update_frame. Qed.
Print Assumptions C09_code_buffer_update_frame.
