(* Properties_ObserversInst.v — Properties_Observers.v instantiated with the tables measured on the
   library (both character widths): the exact functions the driver runs, observer_u n and
   observer_n n, never alarm on the model's own run of any script. *)
Require Import ObsRun Lemmas_Base Lemmas_Reach Lemmas_TabEcc Lemmas_TabConv Lemmas_Narrow Properties_Observers.
Local Open Scope Z_scope.

Theorem observers_never_alarm_on_the_model : forall n ops, Forall wf_op ops ->
  check_run_u (observer_u n) ops = true.
Proof.
  intros n ops Hw. unfold check_run_u, observer_u, step_u. rewrite observer_is_g.
  exact (observers_never_alarm_on_the_model_gen conv_u lut_g
           (proj1 (conv_printable_spec conv_u conv_unicode_printable))
           (proj2 (conv_printable_spec conv_u conv_unicode_printable)) lut_g_range n ops Hw).
Qed.
Print Assumptions observers_never_alarm_on_the_model.

Theorem observers_never_alarm_on_the_model_narrow : forall n ops, Forall wf_op ops ->
  check_run_n (observer_n n) ops = true.
Proof.
  intros n ops Hw. unfold check_run_n, observer_n, step_n. rewrite observer_is_g.
  exact (observers_never_alarm_on_the_model_gen conv_n lut_g
           (proj1 (conv_printable_spec conv_n conv_narrow_printable))
           (proj2 (conv_printable_spec conv_n conv_narrow_printable)) lut_g_range n ops Hw).
Qed.
Print Assumptions observers_never_alarm_on_the_model_narrow.
