(* Properties_C19.v — obligations of property C19 (parser instances are isolated and
   deterministic), the part a sequential functional model can carry.  PARTIAL: that the C code
   has no mutable state outside struct librdsparser (which is what makes the table-of-instances
   model faithful), and data races below the granularity of a call, are looked for by the check
   (static scan of the objects, interleaved-vs-solo runs, ThreadSanitizer run) — not proved. *)
Require Import ObsRun ModelMulti.
Local Open Scope Z_scope.

(* a call on instance i leaves every other instance exactly as it was *)
Theorem C19_isolation : forall conv lut ms i m j, i <> j ->
  nth j (fst (mstep conv lut ms (i, m))) None = nth j ms None.
Proof. exact isolation. Qed.
Print Assumptions C19_isolation.

(* what an instance goes through depends only on the calls made on it: for EVERY schedule of calls
   on any number of instances (creations, frees and clears of the others included) the state of
   instance j equals the state reached by the calls on j alone *)
Theorem C19_projection_partial : forall conv lut cs ms ms' j,
  (j < length ms)%nat -> (j < length ms')%nat -> nth j ms None = nth j ms' None ->
  nth j (mrun conv lut ms cs) None = nth j (mrun conv lut ms' (mine j cs)) None.
Proof. exact projection. Qed.
Print Assumptions C19_projection_partial.

(* two schedules (e.g. two interleavings of per-thread call sequences) that agree on the calls
   of instance j agree on instance j *)
Theorem C19_schedules_agree_partial : forall conv lut cs cs' ms j, (j < length ms)%nat ->
  mine j cs = mine j cs' -> nth j (mrun conv lut ms cs) None = nth j (mrun conv lut ms cs') None.
Proof. exact schedules_agree. Qed.
Print Assumptions C19_schedules_agree_partial.

(* determinism: the model is a function, so repeating a call sequence on a new instance
   reproduces the same states and callbacks; stated for completeness *)
Theorem C19_deterministic : forall conv lut ops, run conv lut ops = run conv lut ops.
Proof. reflexivity. Qed.

Example C19_two_instances :
  let cs := [(0%nat, MNew true); (1%nat, MCall OInit); (0%nat, MCall (G 12801 1161 5264 16706 0 0 0 0));
             (1%nat, MCall (G 4660 1161 5264 16706 0 0 0 0)); (1%nat, MFree)] in
  option_map (fun s => d_pi (used s)) (nth 0 (mrun conv_u lut_g [None; None] cs) None) = Some 12801.
Proof. vm_compute. reflexivity. Qed.
