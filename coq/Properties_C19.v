(* Properties_C19.v — obligations of property C19.  Contains only theorem statements closed by
   `exact <lemma>` and Print Assumptions. *)
Require Import ObsRun.
Local Open Scope Z_scope.

(* non-vacuity: the observer of C19 is evaluated (and holds) along a run of the model that
   touches every group kind *)
Example C19_scenario : check_run_u (observer_u 19) scenario = true.
Proof. vm_compute. reflexivity. Qed.
Print Assumptions C19_scenario.
