(* Properties_Mid_C07.v — C07 at the level of the code: rdsparser_string_update_single as
   translated on every run (both build configurations), with the progressive flag set, never
   raises the level of the addressed cell, leaves all other cells alone, and changes nothing when
   it reports "unchanged". *)
Require Import Lemmas_Mid_C07.
Local Open Scope Z_scope.

Theorem C07_code_progressive_only_improves : improves m_update_single /\ improves m_update_single_n.
Proof. exact (conj mid_progressive_improves mid_progressive_improves_n). Qed.
Print Assumptions C07_code_progressive_only_improves.
