(* Lemmas_CbRt.v — C04 / C08 for RadioText: the RT callback of a type-2 group is made exactly when
   the selected buffer is emptied by an A/B switch or one of its cells changes; once; with the
   group's flag; and it sees the text the getter returns after the call. *)
Require Export Lemmas_CbText.
Require Import ZifyBool.
Local Open Scope Z_scope.

Section CbRt.
Variable conv : Z -> Z.
Variable lut : Z -> Z -> Z.
Notation Inv := (Inv conv).

Theorem rt_callbacks g s : Inv s -> wf_group g -> b_group (gb g) = 2 ->
  let s' := fst (process conv lut g s) in
  let f := b_rtflag (gb g) in
  let last := last_rt s in
  let clr := (eb g =? 0) && negb (f =? last) && negb (last =? -1) && string_available (rt_of f s) in
  let ignored := negb (eb g =? 0) && negb (f =? last) && negb (last =? -1) in
  let base := if clr then cells (string_clear (rt_of f s)) else cells (rt_of f s) in
  filter (isf FRT) (snd (process conv lut g s)) =
  if ignored then []
  else if (clr || negb (cells_eqb (cells (rt_of f s')) base)) && negb (cb s FRT =? 0)
       then [mkev FRT (cb s FRT) (ud s) (AFlag f) (SmText (tsnap_of (rt_of f s')))] else [].
Proof.
  intros I Hwf G2. pose proof Hwf as [Ha [Hb [Hc [Hd [Hea [Heb [Hec Hed]]]]]]]. unfold blk_ok, err_ok in *.
  cbv zeta. unfold process. rewrite andthen_snd, andthen_fst, filter_app.
  rewrite (filter_fields FRT [FPI; FPTY; FTP] (group_parse g) s (fields_group_parse g)) by (cbn; intuition discriminate).
  cbn [app].
  destruct (group_parse_frame conv g s I) as [I1 [C1 T1]]. cbv zeta in I1, C1, T1.
  set (s1 := fst (group_parse g s)) in *.
  destruct (P_txt_fields _ _ T1) as [S1 [S2 [S3 [S4 S5]]]].
  destruct (P_set_fields _ _ C1) as [V1 [V2 [V3 V4]]].
  unfold dispatch. cbv zeta. rewrite (get_group_spec _ Hb), (get_flag_spec _ Hb), G2. cbn [Z.eqb Pos.eqb].
  unfold group2_parse. rewrite (get_rt_flag_spec _ Hb), (get_rt_pos_spec _ Hb).
  set (f := b_rtflag (gb g)).
  assert (Hf : f = 0 \/ f = 1) by (unfold f, b_rtflag; pose proof (Z.mod_pos_bound (gb g / 16) 2 ltac:(lia)); lia).
  set (sl := if f =? 0 then TRT0 else TRT1).
  assert (Hcap : cap sl = 64%nat) by (unfold sl; destruct (f =? 0); reflexivity).
  assert (Hget : forall x, get_text sl x = rt_of f x) by (intros x; unfold sl, rt_of; destruct (f =? 0); reflexivity).
  assert (Htid : tid_of sl = RT) by (unfold sl; destruct (f =? 0); reflexivity).
  rewrite S5.
  set (clr := (eb g =? 0) && negb (f =? last_rt s) && negb (last_rt s =? -1) && string_available (rt_of f s)).
  set (sw := (eb g =? 0) && negb (f =? last_rt s)).
  match goal with |- context [let '(s1', chg0) := ?X in _] => set (st1 := X) end.
  set (sa := if clr then set_text sl (string_clear (rt_of f s1)) s1 else s1).
  set (sb := if sw then with_last_rt f sa else sa).
  assert (E1 : st1 = (sb, clr)).
  { assert (Hrt : rt_of f s1 = rt_of f s) by (unfold rt_of; rewrite S2, S3; reflexivity).
    unfold st1, sb, sa, clr, sw. rewrite Hget, Hrt.
    destruct ((eb g =? 0) && negb (f =? last_rt s)); cbn [andb]; [|reflexivity].
    destruct (negb (last_rt s =? -1) && string_available (rt_of f s)); reflexivity. }
  rewrite E1. clear E1 st1. cbv zeta.
  assert (Ia : Inv sa).
  { unfold sa. destruct clr; [|exact I1]. apply set_text_inv; [exact I1|].
    apply string_clear_ok. rewrite <- Hget. apply (inv_text conv sl s1 I1). }
  assert (Ib : Inv sb).
  { unfold sb. destruct sw; [|exact Ia]. apply with_last_rt_inv; [exact Ia|exact Hf]. }
  assert (Lb : last_rt sb = if sw then f else last_rt s).
  { unfold sb. destruct sw; [reflexivity|]. unfold sa. destruct clr; [destruct sl|]; cbn; exact S5. }
  assert (Tb : get_text sl sb = if clr then string_clear (rt_of f s) else rt_of f s).
  { unfold sb, sa. unfold rt_of at 1. rewrite S2, S3. fold (rt_of f s).
    destruct sw, clr; rewrite ?Hget; unfold sl, rt_of; destruct (f =? 0); cbn; try reflexivity; congruence. }
  assert (Ob : prog sb = prog s /\ corr sb = corr s /\ cb sb = cb s /\ ud sb = ud s).
  { unfold sb, sa, sl. destruct sw, clr, (f =? 0); cbn; repeat split; congruence. }
  destruct Ob as [O4 [O5 [O6 O7]]].
  rewrite Lb.
  assert (Ign : (negb (eb g =? 0) && negb (f =? (if sw then f else last_rt s)) && negb ((if sw then f else last_rt s) =? -1))
                = (negb (eb g =? 0) && negb (f =? last_rt s) && negb (last_rt s =? -1))).
  { unfold sw. destruct (eb g =? 0); cbn [negb andb]; reflexivity. }
  rewrite Ign.
  destruct (negb (eb g =? 0) && negb (f =? last_rt s) && negb (last_rt s =? -1)) eqn:Ig; [reflexivity|].
  destruct (pos_rt4_ok conv lut (gb g) Hb) as [P1 P2]. pose proof (pos_rt2_ok conv lut (gb g) Hb) as P3.
  rewrite (get_rt_pos_spec _ Hb) in P1, P2, P3.
  assert (Base : cells (get_text sl sb) = if clr then cells (string_clear (rt_of f s)) else cells (rt_of f s))
    by (rewrite Tb; destruct clr; reflexivity).
  assert (Hmod : 0 <= gb g mod 16 <= 15) by (pose proof (Z.mod_pos_bound (gb g) 16 ltac:(lia)); lia).
  destruct (b_ver (gb g) =? 0) eqn:Ver.
  - destruct (upd_string_spec conv sl (gc g) (eb g) (ec g) (Z.to_nat (4 * (gb g mod 16))) sb Ib Hc ltac:(lia) ltac:(lia)
                ltac:(rewrite Hcap; exact P1)) as [t1 [E1 Ct1]]. cbv zeta in E1, Ct1. rewrite E1.
    assert (I2 : Inv (set_text sl t1 sb)).
    { pose proof (upd_string_inv conv lut sl (gc g) (eb g) (ec g) (Z.to_nat (4 * (gb g mod 16))) sb Ib Hc ltac:(lia) ltac:(lia)
                    ltac:(rewrite Hcap; exact P1)) as H. rewrite E1 in H. exact H. }
    destruct (upd_string_spec conv sl (gd g) (eb g) (ed g) (Z.to_nat (4 * (gb g mod 16) + 2)) _ I2 Hd ltac:(lia) ltac:(lia)
                ltac:(rewrite Hcap; exact P2)) as [t2 [E2 Ct2]]. cbv zeta in E2, Ct2. rewrite E2. cbn [fst snd].
    rewrite set_text_get_same in Ct2. rewrite set_text_get_same in E2 |- *. rewrite Htid in *.
    assert (Hpr : prog (set_text sl t1 sb) = prog sb /\ corr (set_text sl t1 sb) = corr sb) by (unfold sl; destruct (f =? 0); split; reflexivity).
    destruct Hpr as [Hpr Hco]. rewrite Hpr, Hco in *.
    replace (Z.to_nat (4 * (gb g mod 16) + 2)) with (S (S (Z.to_nat (4 * (gb g mod 16))))) in * by lia.
    assert (Hlen : (S (S (S (Z.to_nat (4 * (gb g mod 16))))) < length (cells (get_text sl sb)))%nat).
    { unfold cells. rewrite map_length. destruct (inv_text conv sl sb Ib) as [Hl _]. rewrite Hl, Hcap. lia. }
    rewrite Ct1. rewrite <- orb_assoc. rewrite (two_blocks conv _ _ _ _ _ _ _ _ _ _ Hlen). cbv zeta.
    rewrite <- Ct1, <- Ct2.
    rewrite <- Hget, !set_text_get_same. rewrite Base.
    unfold text_event, emit.
    assert (Hcb : cb (set_text sl t2 (set_text sl t1 sb)) = cb s /\ ud (set_text sl t2 (set_text sl t1 sb)) = ud s).
    { unfold sl. destruct (f =? 0); cbn; split; congruence. }
    destruct Hcb as [Hcb Hud]. rewrite Hcb, Hud, set_text_get_same.
    destruct (clr || negb (cells_eqb (cells t2) (if clr then cells (string_clear (rt_of f s)) else cells (rt_of f s)))); cbn [andb]; [|reflexivity].
    destruct (cb s FRT =? 0); cbn [negb filter]; [reflexivity|].
    rewrite filter_isf_self by reflexivity. reflexivity.
  - destruct (upd_string_spec conv sl (gd g) (eb g) (ed g) (Z.to_nat (2 * (gb g mod 16))) sb Ib Hd ltac:(lia) ltac:(lia)
                ltac:(rewrite Hcap; exact P3)) as [t2 [E2 Ct2]]. cbv zeta in E2, Ct2.
    replace (get_flag (gb g) =? 0) with false in * by (rewrite (get_flag_spec _ Hb); exact (eq_sym Ver)).
    rewrite E2. cbn [fst snd]. rewrite Htid in *. rewrite orb_false_r.
    assert (Hlen : (S (Z.to_nat (2 * (gb g mod 16))) < length (cells (get_text sl sb)))%nat).
    { unfold cells. rewrite map_length. destruct (inv_text conv sl sb Ib) as [Hl _]. rewrite Hl, Hcap. lia. }
    rewrite (changed2_spec conv lut _ _ _ _ _ _ _ _ Hlen), <- Ct2.
    rewrite <- Hget, !set_text_get_same. rewrite Base.
    unfold text_event, emit.
    assert (Hcb : cb (set_text sl t2 sb) = cb s /\ ud (set_text sl t2 sb) = ud s).
    { unfold sl. destruct (f =? 0); cbn; split; congruence. }
    destruct Hcb as [Hcb Hud]. rewrite Hcb, Hud, set_text_get_same.
    destruct (clr || negb (cells_eqb (cells t2) (if clr then cells (string_clear (rt_of f s)) else cells (rt_of f s)))); cbn [andb]; [|reflexivity].
    destruct (cb s FRT =? 0); cbn [negb filter]; [reflexivity|].
    rewrite filter_isf_self by reflexivity. reflexivity.
Qed.

End CbRt.
