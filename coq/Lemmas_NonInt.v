(* Lemmas_NonInt.v — C03: a block whose error level is above what is accepted for the data it
   would carry has no influence at all: two groups that agree on the error codes and on every
   accepted block produce the same next state and the same callbacks. *)
Require Export Lemmas_TextProps.
Require Import ZifyBool.
Local Open Scope Z_scope.

Lemma cfg_corr_snap s t k : cfg_corr (snap_of s) t k = corr s t k.
Proof. destruct t, k; reflexivity. Qed.

Ltac bool_solve :=
  repeat match goal with H : _ && _ = true |- _ => apply andb_true_iff in H; destruct H end;
  repeat match goal with H : ?x = true |- _ => rewrite H end;
  cbn [andb orb]; rewrite ?orb_true_r; reflexivity.

Section NonInt.
Variable conv : Z -> Z.
Variable lut : Z -> Z -> Z.

Lemma upd_string_closed sl w ei ed pos s :
  (ei <=? corr s (tid_of sl) INFO) && (ed <=? corr s (tid_of sl) DATA) = false ->
  upd_string conv sl w ei ed pos s = (s, false).
Proof. intros H. unfold upd_string. rewrite H. reflexivity. Qed.

(* the block-D (or block-C) update of a text group does not depend on a block that is gated out *)
Lemma upd_string_indep sl w w' ei ed pos s :
  ((ei <=? corr s (tid_of sl) INFO) && (ed <=? corr s (tid_of sl) DATA) = true -> w = w') ->
  upd_string conv sl w ei ed pos s = upd_string conv sl w' ei ed pos s.
Proof.
  intros H. destruct ((ei <=? corr s (tid_of sl) INFO) && (ed <=? corr s (tid_of sl) DATA)) eqn:G.
  - rewrite (H eq_refl). reflexivity.
  - rewrite !upd_string_closed by exact G. reflexivity.
Qed.

Definition usedB (s : state) (eb b : Z) : bool :=
  (eb =? 0) || match text_of_b b with Some t => eb <=? corr s t INFO | None => false end.

Lemma used_b_snap s e b : used_b (snap_of s) e b = usedB s e b.
Proof. unfold used_b, usedB. destruct (text_of_b b) as [t|]; [rewrite cfg_corr_snap|]; reflexivity. Qed.

(* a group whose block B is not accepted for anything leaves the type-specific processing inert *)
Lemma dispatch_unused g s : wf_group g -> Inv conv s -> usedB s (eb g) (gb g) = false ->
  dispatch conv lut g s = (s, []).
Proof.
  intros Hwf I Hu. pose proof Hwf as [_ [Hb _]]. unfold usedB in Hu.
  apply orb_false_iff in Hu. destruct Hu as [Heb Ht].
  unfold dispatch, text_of_b in *. cbv zeta. rewrite (get_group_spec _ Hb), (get_flag_spec _ Hb).
  destruct (b_group (gb g) =? 0) eqn:G0.
  { unfold group0_parse, andthen, when, group0a_parse. rewrite Heb. cbn [andb]. unfold skip.
    rewrite upd_string_closed by (cbn [tid_of]; rewrite Ht; reflexivity). cbn.
    destruct (b_ver (gb g) =? 0); reflexivity. }
  destruct (b_group (gb g) =? 1) eqn:G1.
  { unfold group1_parse, when. rewrite Heb, andb_false_r. reflexivity. }
  destruct (b_group (gb g) =? 2) eqn:G2.
  { unfold group2_parse. rewrite Heb. cbn [andb negb].
    destruct (negb (get_rt_flag (gb g) =? last_rt s) && negb (last_rt s =? -1)); [reflexivity|].
    assert (Hc : forall sl, tid_of sl = RT -> forall w e p st, corr st = corr s ->
                 upd_string conv sl w (eb g) e p st = (st, false)).
    { intros sl Hsl w e p st Hst. apply upd_string_closed. rewrite Hsl, Hst, Ht. reflexivity. }
    set (sl := if get_rt_flag (gb g) =? 0 then TRT0 else TRT1).
    assert (Hsl : tid_of sl = RT) by (unfold sl; destruct (get_rt_flag (gb g) =? 0); reflexivity).
    destruct (b_ver (gb g) =? 0).
    - rewrite (Hc sl Hsl) by reflexivity. rewrite (Hc sl Hsl) by reflexivity. reflexivity.
    - rewrite (Hc sl Hsl) by reflexivity. reflexivity. }
  destruct (b_group (gb g) =? 4) eqn:G4.
  { unfold group4_parse. rewrite Heb, andb_false_r. reflexivity. }
  destruct (b_group (gb g) =? 10) eqn:G10; [|reflexivity].
  unfold group10_parse. destruct (b_ver (gb g) =? 0) eqn:V; [|reflexivity].
  cbn [andb] in Ht. cbv zeta.
  rewrite upd_string_closed by (cbn [tid_of]; rewrite Ht; reflexivity).
  rewrite upd_string_closed by (cbn [tid_of]; rewrite Ht; reflexivity). reflexivity.
Qed.

Lemma andthen_ext (a a' b b' : act) s :
  a s = a' s -> (forall s1, corr s1 = corr (fst (a s)) -> b s1 = b' s1) -> andthen a b s = andthen a' b' s.
Proof.
  intros Ha Hb. unfold andthen. rewrite <- Ha. destruct (a s) as [s1 e1]. cbn [fst] in Hb.
  rewrite (Hb s1 eq_refl). reflexivity.
Qed.

Lemma corr_of_P_set s s' : P_set s' = P_set s -> corr s' = corr s.
Proof. intros H. apply P_set_fields in H. tauto. Qed.

(* same block B: the type-specific processing only looks at the blocks C and D it accepts.
   `c` is the threshold table, which no part of the processing changes. *)
Lemma dispatch_same_b g g' c : wf_group g -> wf_group g' ->
  gb g = gb g' -> eb g = eb g' -> ec g = ec g' -> ed g = ed g' ->
  let b := gb g in
  (* block C is read only when ... *)
  (((b_ver b =? 0) && ((b_group b =? 0) || (b_group b =? 1)) && (eb g =? 0) && (ec g =? 0))
   || ((b_ver b =? 0) && (b_group b =? 4) && (eb g =? 0) && (ec g =? 0) && (ed g =? 0))
   || ((b_ver b =? 0) && (b_group b =? 2) && (eb g <=? c RT INFO) && (ec g <=? c RT DATA))
   || ((b_ver b =? 0) && (b_group b =? 10) && (eb g <=? c PTYN INFO) && (ec g <=? c PTYN DATA)) = true -> gc g = gc g') ->
  (((b_group b =? 0) && (eb g <=? c PS INFO) && (ed g <=? c PS DATA))
   || ((b_group b =? 2) && (eb g <=? c RT INFO) && (ed g <=? c RT DATA))
   || ((b_ver b =? 0) && (b_group b =? 10) && (eb g <=? c PTYN INFO) && (ed g <=? c PTYN DATA))
   || ((b_ver b =? 0) && (b_group b =? 4) && (eb g =? 0) && (ec g =? 0) && (ed g =? 0)) = true -> gd g = gd g') ->
  forall s, corr s = c -> dispatch conv lut g s = dispatch conv lut g' s.
Proof.
  intros Hwf Hwf' Eb Eeb Eec Eed b Hc Hd s Hs. pose proof Hwf as [_ [Hb _]]. subst b.
  unfold dispatch. cbv zeta. rewrite <- Eb. rewrite (get_group_spec _ Hb), (get_flag_spec _ Hb).
  destruct (b_group (gb g) =? 0) eqn:G0.
  { (* type 0 *)
    unfold group0_parse, group0a_parse. rewrite <- Eb, <- Eeb, <- Eec, <- Eed.
    apply andthen_ext.
    - apply andthen_ext; [reflexivity|]. intros s1 Hs1.
      assert (Hcs : corr s1 = c).
      { rewrite Hs1.
        pose proof (keeps_when P_set (eb g =? 0) _
                      (keeps_andthen P_set _ _ (keeps_set_scalar STa (get_ta (gb g))) (keeps_set_scalar SMs (get_ms (gb g)))) s) as K.
        rewrite (corr_of_P_set _ _ K). exact Hs. }
      rewrite (upd_string_indep TPS (gd g) (gd g') (eb g) (ed g) _ s1); [reflexivity|].
      cbn [tid_of]. rewrite Hcs. intros G. apply Hd. bool_solve.
    - intros s1 _. destruct (b_ver (gb g) =? 0) eqn:V; cbn [when]; [|reflexivity].
      destruct ((eb g =? 0) && (ec g =? 0)) eqn:E; cbn [when]; [|reflexivity].
      rewrite (Hc ltac:(bool_solve)). reflexivity. }
  destruct (b_group (gb g) =? 1) eqn:G1.
  { unfold group1_parse. rewrite <- Eeb, <- Eec.
    destruct ((b_ver (gb g) =? 0) && (eb g =? 0) && (ec g =? 0)) eqn:E; cbn [andb]; [|reflexivity].
    rewrite (Hc ltac:(bool_solve)). reflexivity. }
  destruct (b_group (gb g) =? 2) eqn:G2.
  { unfold group2_parse. rewrite <- Eb, <- Eeb, <- Eec, <- Eed.
    set (rf := get_rt_flag (gb g)). set (sl := if rf =? 0 then TRT0 else TRT1).
    assert (Hsl : tid_of sl = RT) by (unfold sl; destruct (rf =? 0); reflexivity).
    match goal with |- (let '(s1, chg0) := ?X in _) = _ => set (st1 := X) end.
    assert (K1 : corr (fst st1) = c).
    { unfold st1. destruct (_ && negb _); [|exact Hs]. destruct (_ && string_available _); cbn [fst]; destruct sl; exact Hs. }
    destruct st1 as [s1 chg0]. cbn [fst] in K1.
    destruct (negb (eb g =? 0) && negb (rf =? last_rt s1) && negb (last_rt s1 =? -1)); [reflexivity|].
    destruct (b_ver (gb g) =? 0) eqn:V.
    - rewrite (upd_string_indep sl (gc g) (gc g') (eb g) (ec g) _ s1) by (rewrite Hsl, K1; intros G; apply Hc; bool_solve).
      pose proof (upd_string_P_set conv sl (gc g') (eb g) (ec g) (Z.to_nat (4 * get_rt_pos (gb g))) s1) as K2.
      destruct (upd_string conv sl (gc g') (eb g) (ec g) _ s1) as [s2 c1]. cbn [fst] in K2.
      rewrite (upd_string_indep sl (gd g) (gd g') (eb g) (ed g) _ s2); [reflexivity|].
      rewrite Hsl, (corr_of_P_set _ _ K2), K1. intros G; apply Hd; bool_solve.
    - rewrite (upd_string_indep sl (gd g) (gd g') (eb g) (ed g) _ s1) by (rewrite Hsl, K1; intros G; apply Hd; bool_solve). reflexivity. }
  destruct (b_group (gb g) =? 4) eqn:G4.
  { unfold group4_parse. rewrite <- Eeb, <- Eec, <- Eed.
    destruct ((b_ver (gb g) =? 0) && (eb g =? 0) && (ec g =? 0) && (ed g =? 0)) eqn:E; [|reflexivity].
    rewrite <- Eb, (Hc ltac:(bool_solve)), (Hd ltac:(bool_solve)). reflexivity. }
  destruct (b_group (gb g) =? 10) eqn:G10; [|reflexivity].
  unfold group10_parse. rewrite <- Eb, <- Eeb, <- Eec, <- Eed.
  destruct (b_ver (gb g) =? 0) eqn:V; [|reflexivity]. cbv zeta.
  rewrite (upd_string_indep TPTYN (gc g) (gc g') (eb g) (ec g) _ s) by (cbn [tid_of]; rewrite Hs; intros G; apply Hc; bool_solve).
  pose proof (upd_string_P_set conv TPTYN (gc g') (eb g) (ec g) (Z.to_nat (4 * get_ptyn_pos (gb g))) s) as K2.
  destruct (upd_string conv TPTYN (gc g') (eb g) (ec g) _ s) as [s2 c1]. cbn [fst] in K2.
  rewrite (upd_string_indep TPTYN (gd g) (gd g') (eb g) (ed g) _ s2); [reflexivity|].
  cbn [tid_of]. rewrite (corr_of_P_set _ _ K2), Hs. intros G; apply Hd; bool_solve.
Qed.

(* group_parse reads block A only if it is error-free, block B only if it is error-free *)
Lemma group_parse_indep g g' s : ea g = ea g' -> eb g = eb g' ->
  (ea g = 0 -> ga g = ga g') -> (eb g = 0 -> gb g = gb g') -> group_parse g s = group_parse g' s.
Proof.
  intros Ea Eb Ha Hb. unfold group_parse. rewrite <- Ea, <- Eb.
  destruct (Z.eqb_spec (ea g) 0) as [E1|E1]; destruct (Z.eqb_spec (eb g) 0) as [E2|E2];
    rewrite <- ?(Ha E1), <- ?(Hb E2); reflexivity.
Qed.

(* a corrected block B: only its key bits matter *)
Definition set_gb (b : Z) (g : group) : group := mkgroup (ga g) b (gc g) (gd g) (ea g) (eb g) (ec g) (ed g).

Ltac Zify.zify_post_hook ::= Z.div_mod_to_equations.
Lemma b_key_facts b b' : 0 <= b < 65536 -> 0 <= b' < 65536 -> b_key b = b_key b' ->
  b_group b = b_group b' /\ b_ver b = b_ver b'
  /\ (b_group b = 0 -> b mod 4 = b' mod 4)
  /\ (b_group b = 2 -> b mod 16 = b' mod 16 /\ b_rtflag b = b_rtflag b')
  /\ (b_group b = 10 -> b_ver b = 0 -> b mod 2 = b' mod 2).
Proof.
  intros Hb Hb' K. unfold b_key in K.
  assert (T : b / 2048 = b' / 2048).
  { destruct (b_group b =? 0), (b_group b =? 2), ((b_group b =? 10) && (b_ver b =? 0)),
             (b_group b' =? 0), (b_group b' =? 2), ((b_group b' =? 10) && (b_ver b' =? 0)); lia. }
  assert (G : b_group b = b_group b') by (unfold b_group; lia).
  assert (V : b_ver b = b_ver b') by (unfold b_ver; lia).
  rewrite <- G, <- V, T in K.
  split; [exact G|]. split; [exact V|]. unfold b_rtflag.
  split; [|split].
  - intros E. rewrite E in K. cbn [Z.eqb] in K. lia.
  - intros E. rewrite E in K. cbn [Z.eqb Pos.eqb] in K. lia.
  - intros E E2. rewrite E, E2 in K. cbn [Z.eqb Pos.eqb andb] in K. lia.
Qed.

Lemma dispatch_key g b' s : wf_group g -> 0 <= b' < 65536 -> eb g <> 0 -> b_key (gb g) = b_key b' ->
  dispatch conv lut g s = dispatch conv lut (set_gb b' g) s.
Proof.
  intros Hwf Hb' He K. pose proof Hwf as [_ [Hb _]]. unfold blk_ok in Hb.
  destruct (b_key_facts (gb g) b' Hb Hb' K) as [G [V [K0 [K2 K10]]]].
  assert (E0 : (eb g =? 0) = false) by (apply Z.eqb_neq; exact He).
  unfold dispatch. cbv zeta. cbn [gb set_gb].
  rewrite (get_group_spec _ Hb), (get_flag_spec _ Hb), (get_group_spec _ Hb'), (get_flag_spec _ Hb'), <- G, <- V.
  destruct (b_group (gb g) =? 0) eqn:G0.
  { unfold group0_parse, group0a_parse. cbn [gb gc gd ea eb ec ed set_gb]. rewrite E0. cbn [andb when].
    rewrite (get_ps_pos_spec _ Hb), (get_ps_pos_spec _ Hb'), (K0 ltac:(lia)). reflexivity. }
  destruct (b_group (gb g) =? 1) eqn:G1.
  { unfold group1_parse. cbn [gb gc gd ea eb ec ed set_gb]. rewrite E0, !andb_false_r. reflexivity. }
  destruct (b_group (gb g) =? 2) eqn:G2.
  { destruct (K2 ltac:(lia)) as [P F].
    unfold group2_parse. cbn [gb gc gd ea eb ec ed set_gb].
    rewrite (get_rt_flag_spec _ Hb), (get_rt_flag_spec _ Hb'), (get_rt_pos_spec _ Hb), (get_rt_pos_spec _ Hb'), P, F. reflexivity. }
  destruct (b_group (gb g) =? 4) eqn:G4.
  { unfold group4_parse. cbn [gb gc gd ea eb ec ed set_gb]. rewrite E0, !andb_false_r. reflexivity. }
  destruct (b_group (gb g) =? 10) eqn:G10; [|reflexivity].
  unfold group10_parse. cbn [gb gc gd ea eb ec ed set_gb].
  destruct (b_ver (gb g) =? 0) eqn:V0; [|reflexivity].
  rewrite (get_ptyn_pos_spec _ Hb), (get_ptyn_pos_spec _ Hb'), (K10 ltac:(lia) ltac:(lia)). reflexivity.
Qed.

Theorem noninterference g g' s : Inv conv s -> wf_group g -> wf_group g' ->
  dontcare_equiv (snap_of s) g g' = true -> process conv lut g s = process conv lut g' s.
Proof.
  intros I Hwf Hwf' H. unfold dontcare_equiv in H.
  repeat (apply andb_true_iff in H; destruct H as [H ?]).
  repeat match goal with Hx : (_ =? _) = true |- _ => apply Z.eqb_eq in Hx end.
  rename H into Eea. 
  match goal with Hx : eb g = eb g' |- _ => rename Hx into Eeb end.
  match goal with Hx : ec g = ec g' |- _ => rename Hx into Eec end.
  match goal with Hx : ed g = ed g' |- _ => rename Hx into Eed end.
  match goal with Hx : negb (ea g =? 0) || (ga g =? ga g') = true |- _ => rename Hx into HA end.
  match goal with Hx : (if _ then _ else true) = true |- _ => rename Hx into HB end.
  unfold process.
  assert (Hgp : group_parse g s = group_parse g' s).
  { apply group_parse_indep; try assumption.
    - intros E0. rewrite E0 in HA. cbn in HA. apply Z.eqb_eq in HA. exact HA.
    - intros E0. rewrite !used_b_snap in HB. unfold usedB in HB. rewrite E0 in HB. cbn [Z.eqb orb] in HB.
      apply andb_true_iff in HB. destruct HB as [HB _]. apply andb_true_iff in HB. destruct HB as [HB _].
      unfold b_equiv in HB. cbn [Z.eqb] in HB. apply Z.eqb_eq in HB. exact HB. }
  unfold andthen. rewrite <- Hgp.
  pose proof (keeps_group_parse g s) as K. pose proof (corr_of_P_set _ _ K) as Kc.
  destruct (group_parse_frame conv g s I) as [I1 _].
  destruct (group_parse g s) as [s1 e1]. cbn [fst] in Kc, I1.
  assert (Hd : dispatch conv lut g s1 = dispatch conv lut g' s1).
  { rewrite !used_b_snap in HB.
    destruct (usedB s (eb g) (gb g) || usedB s (eb g) (gb g')) eqn:U.
    - apply andb_true_iff in HB. destruct HB as [HB HD]. apply andb_true_iff in HB. destruct HB as [HB HC].
      unfold b_equiv in HB.
      (* first replace block B of g by that of g' (only its key bits matter when it is corrected) *)
      assert (Hk : dispatch conv lut g s1 = dispatch conv lut (set_gb (gb g') g) s1
                   /\ (eb g <> 0 -> b_key (gb g) = b_key (gb g'))).
      { destruct (Z.eqb_spec (eb g) 0) as [E0|E0].
        - apply Z.eqb_eq in HB. split; [|contradiction]. unfold set_gb. rewrite <- HB. destruct g; reflexivity.
        - apply Z.eqb_eq in HB. split; [|intros _; exact HB].
          apply dispatch_key; [exact Hwf|destruct Hwf' as [_ [Hb' _]]; exact Hb'|exact E0|exact HB]. }
      destruct Hk as [Hk Hkey]. rewrite Hk.
      assert (Wg : wf_group (set_gb (gb g') g)).
      { destruct Hwf as [A [B [C [D [E [F [G H']]]]]]]. destruct Hwf' as [_ [B' _]]. unfold set_gb, wf_group. cbn. tauto. }
      (* the conditions "block C / D is read" are the same for both blocks B *)
      assert (Same : b_group (gb g) = b_group (gb g') /\ b_ver (gb g) = b_ver (gb g')).
      { destruct (Z.eqb_spec (eb g) 0) as [E0|E0].
        - apply Z.eqb_eq in HB. rewrite HB. split; reflexivity.
        - destruct Hwf as [_ [Hb _]]. destruct Hwf' as [_ [Hb' _]].
          destruct (b_key_facts (gb g) (gb g') Hb Hb' (Hkey E0)) as [G [V _]]. split; assumption. }
      destruct Same as [SG SV].
      apply (dispatch_same_b (set_gb (gb g') g) g' (corr s) Wg Hwf' eq_refl Eeb Eec Eed); [| |exact Kc].
      + intros Hu. unfold used_c in HC. rewrite !cfg_corr_snap in HC. cbv zeta in Hu. cbn [gb gc gd ea eb ec ed set_gb] in Hu.
        rewrite <- SG, <- SV in Hu. rewrite Hu in HC. cbn [negb orb] in HC. apply Z.eqb_eq in HC. exact HC.
      + intros Hu. unfold used_d in HD. rewrite !cfg_corr_snap in HD. cbv zeta in Hu. cbn [gb gc gd ea eb ec ed set_gb] in Hu.
        rewrite <- SG, <- SV in Hu. rewrite Hu in HD. cbn [negb orb] in HD. apply Z.eqb_eq in HD. exact HD.
    - apply orb_false_iff in U. destruct U as [U1 U2].
      rewrite (dispatch_unused g s1 Hwf I1) by (unfold usedB in *; rewrite Kc; exact U1).
      rewrite (dispatch_unused g' s1 Hwf' I1) by (unfold usedB in *; rewrite Kc, <- Eeb; exact U2). reflexivity. }
  rewrite Hd. reflexivity.
Qed.

End NonInt.
