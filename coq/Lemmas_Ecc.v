(* Lemmas_Ecc.v — C11: ECC and country follow group 1A variant 0 and the ECC table. *)
Require Export Lemmas_Tuning.
Require Import ZifyBool.
Local Open Scope Z_scope.

Definition nibble_ok (p : Z) : bool := Z.land (Z.shiftr p 12) 15 =? (p / 4096) mod 16.
Lemma nibble_sweep : all_from (Z.to_nat 65536) 0 nibble_ok = true.
Proof. vm_compute. reflexivity. Qed.
Lemma nibble_spec p : 0 <= p < 65536 -> Z.land (Z.shiftr p 12) 15 = (p / 4096) mod 16.
Proof. intros Hp. apply Z.eqb_eq. apply (all_from_spec _ _ _ nibble_sweep). rewrite Z2Nat.id; lia. Qed.

Section Ecc.
Variable lut : Z -> Z -> Z.
Hypothesis lut_range : forall n e, 0 <= lut n e < 221.

Definition cond_1A0 (g : group) : bool :=
  (get_group (gb g) =? 1) && (get_flag (gb g) =? 0) && (eb g =? 0) && (ec g =? 0) && (get_variant (gc g) =? 0).

Lemma cond_1A0_spec g : wf_group g -> cond_1A0 g = is_1A0 g.
Proof.
  intros [_ [Hb [Hc _]]]. unfold cond_1A0, is_1A0.
  rewrite (get_group_spec _ Hb), (get_flag_spec _ Hb), (get_variant_spec _ Hc). reflexivity.
Qed.

(* ranges kept by the buffer: PI is unknown or a 16-bit value, the country a valid enumerator *)
Definition b_ranges (b : bst) : Prop :=
  (d_pi (b_used b) = -1 \/ 0 <= d_pi (b_used b) < 65536) /\ (d_pi (b_temp b) = -1 \/ 0 <= d_pi (b_temp b) < 65536)
  /\ 0 <= d_country (b_used b) < 221 /\ 0 <= d_country (b_temp b) < 221.

Lemma ecc_lookup_range p e : 0 <= ecc_lookup lut p e < 221.
Proof. unfold ecc_lookup. destruct (p =? -1); [lia|apply lut_range]. Qed.

Lemma b_set_ranges f v b : b_ranges b ->
  (f = SPi -> 0 <= v < 65536) -> (f = SCountry -> 0 <= v < 221) -> b_ranges (b_set f v b).
Proof.
  destruct b as [[u t] x]. unfold b_ranges, b_set, b_used, b_temp. cbn [fst snd].
  intros [H1 [H2 [H3 H4]]] Hp Hc.
  destruct (_ || _); cbn [fst snd]; destruct f; cbn [setf d_pi d_country];
    repeat split; auto; try (right; apply Hp; reflexivity); try (apply Hc; reflexivity);
    try (apply H3); try (apply H4); try (specialize (Hc eq_refl); lia).
Qed.
Lemma b_af_ranges v b : b_ranges b -> b_ranges (b_af v b).
Proof.
  destruct b as [[u t] x]. unfold b_ranges, b_af, b_used, b_temp. cbn [fst snd]. intros H.
  destruct (negb _); [|exact H]. destruct (x && _).
  - destruct (af_set (d_af t) v) as [[a r]|]; exact H.
  - destruct (af_set (d_af u) v) as [[a r]|]; exact H.
Qed.

Lemma b_process_ranges g b : wf_group g -> b_ranges b -> b_ranges (b_process lut g b).
Proof.
  intros [Ha _] H. unfold blk_ok in Ha.
  unfold b_process, b_dispatch, b_group0, b_group1, b_group_parse. cbv zeta.
  repeat match goal with |- context [if ?c then _ else _] => destruct c end;
    repeat first [ apply b_af_ranges
                 | apply b_set_ranges; [| intros; try discriminate; try exact Ha; try apply ecc_lookup_range
                                         | intros; try discriminate; try apply ecc_lookup_range ] ];
    exact H.
Qed.

Lemma b_hist_ranges h : wf_hist h -> b_ranges (b_hist lut h).
Proof.
  induction h as [|o r IH]; intros Hw.
  - unfold b_ranges; cbn. repeat split; auto; lia.
  - inversion Hw as [|? ? Hwo Hwr]; subst. specialize (IH Hwr).
    destruct o as [| |g|str|v|t k e|t v|u|fd id]; cbn [b_hist b_step]; try exact IH.
    + unfold b_ranges; cbn. repeat split; auto; lia.
    + unfold b_ranges; cbn. repeat split; auto; lia.
    + apply b_process_ranges; assumption.
    + destruct str as [l|]; [|exact IH]. destruct (utils_convert l) as [g|] eqn:E; [|exact IH].
      apply b_process_ranges; [eapply utils_convert_wf; exact E|exact IH].
Qed.

(* one group in normal mode: ECC and country *)
Lemma b_process_ecc g b : b_ext b = false ->
  let b' := b_process lut g b in
  (d_ecc (b_used b') = if cond_1A0 g then get_ecc (gc g) else d_ecc (b_used b))
  /\ (d_country (b_used b') = if cond_1A0 g then ecc_lookup lut (d_pi (b_used b')) (get_ecc (gc g))
                                else d_country (b_used b)).
Proof.
  intros Hx. unfold b_process, b_dispatch, b_group0, b_group1, b_group_parse, cond_1A0. cbv zeta.
  change (d_ecc (b_used ?x)) with (getf SEcc (b_used x)).
  change (d_country (b_used ?x)) with (getf SCountry (b_used x)).
  change (d_pi (b_used ?x)) with (getf SPi (b_used x)).
  destruct (ea g =? 0), (eb g =? 0), (get_group (gb g) =? 0) eqn:G0, (get_group (gb g) =? 1) eqn:G1; cbn [andb];
    try (apply Z.eqb_eq in G0; apply Z.eqb_eq in G1; lia);
    repeat match goal with |- context [if ?c then _ else _] => destruct c end;
    cbn [andb];
    repeat (first [ rewrite b_af_used
                  | rewrite b_set_used_normal by (rewrite ?b_af_ext, ?b_set_ext; exact Hx) ];
            cbn [sfield_eqb]);
    split; reflexivity.
Qed.

End Ecc.

Section EccObs.
Variable conv : Z -> Z.
Variable lut : Z -> Z -> Z.
Hypothesis lut_range : forall n e, 0 <= lut n e < 221.

Lemma spec_country_lookup p e : (p = -1 \/ 0 <= p < 65536) -> ecc_lookup lut p e = spec_country lut p e.
Proof.
  intros Hp. unfold ecc_lookup, spec_country. destruct (p =? -1) eqn:E; [reflexivity|].
  apply Z.eqb_neq in E. rewrite nibble_spec by lia. reflexivity.
Qed.

Theorem C11_observer_holds h s o : reach conv lut h s -> wf_op o ->
  obs_C11 lut (o :: h) (snap_of s) (snap_of (fst (step conv lut s o))) (snd (step conv lut s o)) (ret_of o) = true.
Proof.
  intros Hr Hwf. pose proof (reach_step conv lut h s o Hr Hwf) as Hr'.
  pose proof (reach_bproj conv lut _ _ Hr') as Hb'. pose proof (reach_bproj conv lut _ _ Hr) as Hb.
  pose proof (reach_wf_hist _ _ _ _ Hr') as Hw'. pose proof (reach_wf_hist _ _ _ _ Hr) as Hw.
  pose proof (b_hist_ranges lut lut_range _ Hw') as [Rp [_ [Rc _]]].
  set (s' := fst (step conv lut s o)) in *.
  assert (Eu' : used s' = b_used (b_hist lut (o :: h))) by (rewrite <- Hb'; reflexivity).
  assert (Eu : used s = b_used (b_hist lut h)) by (rewrite <- Hb; reflexivity).
  unfold obs_C11, snap_of. cbn [sn_country sn_ecc sn_pi].
  rewrite Eu', Eu.
  apply andb_true_iff. split; [apply andb_true_iff; split; lia|].
  destruct (no_ext (o :: h)) eqn:Hn; [|reflexivity].
  assert (Hnh : no_ext h = true \/ o = OInit).
  { destruct o as [| |g|str|v|t k e|t v|u|fd id]; cbn [no_ext] in Hn; auto. destruct v; [discriminate|auto]. }
  destruct o as [| |g|str|v|t k e|t v|u|fd id]; cbn [cur_group op_group is_reset b_hist b_step];
    try (rewrite !Z.eqb_refl; reflexivity).
  - (* parse *)
    destruct Hnh as [Hnh|Hq]; [|discriminate].
    destruct (tuning_last_rx lut SPi eq_refl h Hw Hnh) as [Hx _].
    destruct (b_process_ecc lut g (b_hist lut h) Hx) as [E1 E2]. cbv zeta in E1, E2.
    rewrite <- (cond_1A0_spec g Hwf). rewrite E1, E2.
    destruct (cond_1A0 g).
    + destruct Hwf as [_ [_ [Hc _]]]. rewrite (get_ecc_spec _ Hc).
      rewrite spec_country_lookup by exact Rp. rewrite !Z.eqb_refl. reflexivity.
    + rewrite !Z.eqb_refl. reflexivity.
  - (* parse_string *)
    destruct Hnh as [Hnh|Hq]; [|discriminate].
    destruct str as [l|]; [|rewrite !Z.eqb_refl; reflexivity].
    destruct (utils_convert l) as [g|] eqn:E; [|rewrite !Z.eqb_refl; reflexivity].
    pose proof (utils_convert_wf l g E) as Hg.
    cbn [b_hist b_step] in Rp. rewrite E in Rp.
    destruct (tuning_last_rx lut SPi eq_refl h Hw Hnh) as [Hx _].
    destruct (b_process_ecc lut g (b_hist lut h) Hx) as [E1 E2]. cbv zeta in E1, E2.
    rewrite <- (cond_1A0_spec g Hg). rewrite E1, E2.
    destruct (cond_1A0 g).
    + destruct Hg as [_ [_ [Hc _]]]. rewrite (get_ecc_spec _ Hc).
      rewrite spec_country_lookup by exact Rp. rewrite !Z.eqb_refl. reflexivity.
    + rewrite !Z.eqb_refl. reflexivity.
Qed.

End EccObs.
