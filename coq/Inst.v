(* Inst.v — the model instantiated with the tables measured on the current sources (Gen.v is
   regenerated on every run). *)
Require Export Observers.
Require Gen.
Local Open Scope Z_scope.

Definition tbl (l : list Z) (b : Z) : Z := nth (Z.to_nat b) l 32.
Definition conv_u : Z -> Z := tbl Gen.conv_unicode.
Definition conv_n : Z -> Z := tbl Gen.conv_narrow.
Definition lut_g (nib ecc : Z) : Z := nth (Z.to_nat ecc) (nth (Z.to_nat nib) Gen.ecc_lut []) 0.

Definition step_u := step conv_u lut_g.
Definition step_n := step conv_n lut_g.
Definition run_u := run conv_u lut_g.
Definition run_n := run conv_n lut_g.

(* the observer of property C<n>, instantiated with the measured tables *)
Definition observer (conv : Z -> Z) (n : Z)
  : list op -> snapshot -> snapshot -> list event -> Z -> bool :=
  if n =? 1 then obs_C01
  else if n =? 2 then obs_C02 conv
  else if n =? 4 then obs_C04
  else if n =? 6 then obs_C06 conv
  else if n =? 7 then obs_C07
  else if n =? 8 then obs_C08 conv
  else if n =? 9 then obs_C09 lut_g
  else if n =? 10 then obs_C10
  else if n =? 11 then obs_C11 lut_g
  else if n =? 12 then obs_C12
  else if n =? 14 then obs_C14
  else if n =? 15 then obs_C15
  else if n =? 16 then obs_C16 conv
  else if n =? 17 then obs_C17
  else fun _ _ _ _ _ => true.
Definition observer_u := observer conv_u.
Definition observer_n := observer conv_n.
