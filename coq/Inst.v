(* Inst.v — the model instantiated with the tables measured on the current sources (Gen.v is
   regenerated on every run). *)
Require Export Obs.
Require Gen.
Local Open Scope Z_scope.

Definition tbl (l : list Z) (b : Z) : Z := nth (Z.to_nat b) l 32.
Definition conv_u : Z -> Z := tbl Gen.conv_unicode.
Definition conv_n : Z -> Z := tbl Gen.conv_narrow.
Definition lut_g (nib ecc : Z) : Z := nth (Z.to_nat ecc) (nth (Z.to_nat nib) Gen.ecc_lut []) 0.

Definition step_u := step conv_u lut_g.
Definition step_n := step conv_n lut_g.
Definition run_u := run conv_u lut_g.
Definition run_n := run conv_n lut_g.
