(* Lemmas_Mid_C09.v — the candidate buffer of the extended check (src/buffer.c): the seven
   instances of RDSPARSER_BUFFER_UPDATE, translated on every run (GenMid.v), are the model's
   buffer_update: same return value, same new accepted value, same new candidate, for ALL values
   (no range restriction: the decision is made of equality tests only). *)
Require Export Lemmas_MidBase.
Require Import ZifyBool.
Local Open Scope Z_scope.


(* the C function of each buffered scalar, as (return value, new candidate, new accepted value) *)
Definition m_buffer_update (f : sfield) : Z -> Z -> Z -> Z -> Z * Z * Z :=
  match f with
  | SPi => m_buffer_update_pi | SPty => m_buffer_update_pty | STp => m_buffer_update_tp
  | STa => m_buffer_update_ta | SMs => m_buffer_update_ms | SEcc => m_buffer_update_ecc
  | SCountry => m_buffer_update_country
  end.


Theorem mid_buffer_update : forall f v s,
  m_buffer_update f (getf f (temp s)) (getf f (used s)) (b2z (ext s)) v
  = let r := buffer_update f v s in
    (b2z (snd r), getf f (temp (fst r)), getf f (used (fst r))).
Proof.
  intros f v s. unfold buffer_update.
  destruct f; cbn [m_buffer_update];
    unfold m_buffer_update_pi, m_buffer_update_pty, m_buffer_update_tp, m_buffer_update_ta,
           m_buffer_update_ms, m_buffer_update_ecc, m_buffer_update_country, b2z;
    cbv zeta; destruct (ext s); cbn [getf];
    decide_atoms; cbn [negb andb orb fst snd temp used with_temp with_used setf getf d_pi d_pty d_tp d_ta d_ms d_ecc d_country];
    first [reflexivity | exfalso; lia].
Qed.

(* and nothing else of the buffer moves: the C function mentions no other member (GenMid.v lists
   what each function reads and writes), the model's buffer_update keeps every other field *)
Theorem mid_buffer_update_frame : forall f f' v s, f' <> f ->
  getf f' (temp (fst (buffer_update f v s))) = getf f' (temp s) /\
  getf f' (used (fst (buffer_update f v s))) = getf f' (used s).
Proof.
  intros f f' v s Hn. unfold buffer_update.
  destruct ((getf f (used s) =? v) || (ext s && negb (getf f (temp s) =? v)));
    cbn [fst temp used with_temp with_used]; destruct f, f'; try congruence; cbn; split; reflexivity.
Qed.
