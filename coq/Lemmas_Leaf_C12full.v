(* Lemmas_Leaf_C12full.v — OPTIONAL strengthening of the clock-time bridge: for ALL parameter values of
   the C types (any uint32_t day number, any int8_t hour / minute / offset), not only the ones a 4A
   group can carry.  The proof follows the shape of the C function (case analysis on its conditions),
   so a restructuring of src/ct.c can defeat it although the function is unchanged; the check then
   records that only the finite bridges of Lemmas_Leaf_C12.v hold, and does not report a violation. *)
Require Export Lemmas_Leaf_C12.
Require Import ZifyBool.
Local Open Scope Z_scope.
Ltac Zify.zify_post_hook ::= Z.div_mod_to_equations.

(* equal up to arithmetic inside the conversions *)
Ltac eq_arith := repeat first [reflexivity | lia | progress f_equal].
(* case analysis on every remaining condition, innermost first (syntactic: no arithmetic) *)
Ltac split_ifs :=
  repeat match goal with
         | |- context [if ?c then _ else _] =>
           lazymatch c with context [if _ then _ else _] => fail | _ => idtac end;
           destruct c eqn:?; cbv beta iota
         end.

(* For ALL parameter values of the C types: the translated rdsparser_ct_init (seen through its return
   value and the six translated getters) is the model's ct_init.  The proof follows the conditions of
   the function (range test, minute carry, hour carry); within each case the two sides are the same
   term up to the conversions that are the identity on the parameter ranges. *)
Theorem leaf_ct_init mjd hour minute offset :
  0 <= mjd < 4294967296 -> -128 <= hour < 128 -> -128 <= minute < 128 -> -128 <= offset < 128 ->
  ct_view mjd hour minute offset = ct_init mjd hour minute offset.
Proof.
  intros Hm Hh Hmi Ho.
  unfold ct_view, c_ct_init__ret, c_ct_init__year, c_ct_init__month, c_ct_init__day, c_ct_init__hour,
         c_ct_init__minute, c_ct_init__offset, c_ct_get_year, c_ct_get_month, c_ct_get_day, c_ct_get_hour,
         c_ct_get_minute, c_ct_get_offset, c_ct_init, ct_init.
  cbv zeta. rewrite ?Z.geb_leb, ?Z.gtb_ltb.
  assert (S16 : to_s16 (offset * 30) = offset * 30) by (apply to_s16_small; lia).
  rewrite ?S16.
  destruct (24 <=? hour) eqn:R1; [reflexivity|]. destruct (60 <=? minute) eqn:R2; [reflexivity|].
  cbn [orb]. cbv beta iota.
  set (m1 := to_s8 (minute + Z.rem offset 2 * 30)).
  destruct (60 <=? m1) eqn:C1; [|destruct (m1 <? 0) eqn:C2].
  all: cbv beta iota.
  all: match goal with |- context [to_s8 (?h + Z.quot ?o 2)] => set (h2 := to_s8 (h + Z.quot o 2)) end.
  all: destruct (24 <=? h2) eqn:C3; [|destruct (h2 <? 0) eqn:C4].
  all: cbv beta iota.
  all: rewrite ?to_s32w_eq by (first [apply to_u32_range | exact Hm]).
  all: cbn [Z.eqb]; first [reflexivity | timeout 120 (split_ifs; cbn [Z.eqb]; eq_arith)].
Qed.
