(* Lemmas_Narrow.v — facts about the character graph of the non-unicode build (C20). *)
Require Import Observers Inst Lemmas_TabConv Lemmas_Base.
Require Gen.
Local Open Scope Z_scope.
Lemma conv_narrow_table : conv_narrow_ok = true.
Proof. vm_compute. reflexivity. Qed.
Lemma narrow_well_defined : narrow_well_defined_ok = true.
Proof. vm_compute. reflexivity. Qed.
Lemma conv_narrow_printable : conv_printable_ok conv_n = true.
Proof. vm_compute. reflexivity. Qed.

(* the three facts about the two character graphs that the simulation theorem (Lemmas_Sim) needs *)
Require Import Lia.
Definition sim_facts_ok : bool :=
  all_from 224 32 (fun b => negb (conv_u b =? 0) && negb (conv_n b =? 0)
                            && (negb (conv_u b =? 32) || (conv_n b =? 32))).
Lemma sim_facts : sim_facts_ok = true.
Proof. vm_compute. reflexivity. Qed.

Lemma conv_nonzero : forall b, 32 <= b < 256 -> conv_u b <> 0 /\ conv_n b <> 0.
Proof.
  intros b Hb. pose proof (all_from_spec _ _ _ sim_facts b ltac:(simpl; lia)) as H. cbv beta in H.
  apply andb_true_iff in H. destruct H as [H _]. apply andb_true_iff in H. destruct H as [H1 H2].
  apply negb_true_iff in H1, H2. apply Z.eqb_neq in H1, H2. split; assumption.
Qed.
Lemma conv_space_narrow : forall b, 32 <= b < 256 -> conv_u b = 32 -> conv_n b = 32.
Proof.
  intros b Hb E. pose proof (all_from_spec _ _ _ sim_facts b ltac:(simpl; lia)) as H. cbv beta in H.
  apply andb_true_iff in H. destruct H as [_ H]. rewrite E in H. cbn in H. apply Z.eqb_eq in H. exact H.
Qed.
Lemma conv_well_defined : forall i j, 32 <= i < 256 -> 32 <= j < 256 -> conv_u i = conv_u j -> conv_n i = conv_n j.
Proof.
  intros i j Hi Hj E. pose proof narrow_well_defined as W. unfold narrow_well_defined_ok in W.
  pose proof (all_from_spec _ _ _ W i ltac:(simpl; lia)) as H1. cbv beta in H1.
  pose proof (all_from_spec _ _ _ H1 j ltac:(simpl; lia)) as H2. cbv beta in H2.
  rewrite E, Z.eqb_refl in H2. cbn in H2. apply Z.eqb_eq in H2. exact H2.
Qed.
