(* Lemmas_Narrow.v — facts about the character graph of the non-unicode build (C20). *)
Require Import Observers Inst Lemmas_TabConv.
Require Gen.
Local Open Scope Z_scope.
Lemma conv_narrow_table : conv_narrow_ok = true.
Proof. vm_compute. reflexivity. Qed.
Lemma narrow_well_defined : narrow_well_defined_ok = true.
Proof. vm_compute. reflexivity. Qed.
Lemma conv_narrow_printable : conv_printable_ok conv_n = true.
Proof. vm_compute. reflexivity. Qed.
