(* Lemmas_Tables.v — kernel-evaluated facts about the tables measured on the compiled library
   (Gen.v, regenerated on every run): they equal the committed reference tables, and have the
   shapes the properties demand.  Every domain here is finite and complete (all 256 argument
   values of each lookup, all 16 x 256 ECC cells, all 256 bytes). *)
Require Import Observers Inst Ref_Tables Lemmas_Base.
Require Gen.
From Coq Require Import String.
Local Open Scope Z_scope.

Definition bytes_eqb (a b : list Z) : bool := list_eqb Z.eqb a b.
Definition unknown_name : list Z := bytes_of_string "Unknown".
Definition unknown_iso : list Z := bytes_of_string "??".
Definition no_nul (e : list Z) : bool := forallb (fun c => (1 <=? c) && (c <? 256)) e.

(* ---------- PTY ---------- *)
(* index i of a dumped PTY table stands for the argument (int8_t)i: 0..127 as is, 128..255 negative *)
Definition pty_table_ok (tbl : list (list Z)) (ref : list string) : bool :=
  Nat.eqb (List.length tbl) 256 && Nat.eqb (List.length ref) 32
  && list_eqb bytes_eqb (firstn 32 tbl) (map bytes_of_string ref)
  && forallb (fun e => bytes_eqb e unknown_name) (skipn 32 tbl)
  && forallb no_nul tbl.
Definition width_ok (w : nat) (tbl : list (list Z)) : bool :=
  forallb (fun e => Nat.leb (List.length e) w) tbl.

Definition pty_all_ok : bool :=
  pty_table_ok Gen.pty_rds_name ref_pty_rds_name && pty_table_ok Gen.pty_rbds_name ref_pty_rbds_name
  && pty_table_ok Gen.pty_rds_short ref_pty_rds_short && pty_table_ok Gen.pty_rbds_short ref_pty_rbds_short
  && pty_table_ok Gen.pty_rds_long ref_pty_rds_long && pty_table_ok Gen.pty_rbds_long ref_pty_rbds_long.
Definition pty_widths_ok : bool :=
  width_ok 8 (firstn 32 Gen.pty_rds_short) && width_ok 8 (firstn 32 Gen.pty_rbds_short)
  && width_ok 16 (firstn 32 Gen.pty_rds_long) && width_ok 16 (firstn 32 Gen.pty_rbds_long).

(* ---------- countries ---------- *)
Fixpoint ref_lookup (e : string) (l : list (string * string * string)) : option (string * string) :=
  match l with
  | [] => None
  | (e', n, i) :: r => if String.eqb e e' then Some (n, i) else ref_lookup e r
  end.
(* the enumerators are numbered 0 (UNKNOWN), 1, 2, ... and the last one is COUNT *)
Fixpoint enum_consecutive (l : list (string * Z)) (from : Z) : bool :=
  match l with
  | [] => true
  | (_, v) :: r => (v =? from) && enum_consecutive r (from + 1)
  end.
Definition entry (tbl : list (list Z)) (v : Z) : list Z := nth (Z.to_nat v) tbl [-1].
Definition country_entries_ok : bool :=
  forallb (fun '(e, v) =>
             if (1 <=? v) && (v <? Gen.c_RDSPARSER_COUNTRY_COUNT) then
               match ref_lookup e ref_country with
               | Some (n, i) => bytes_eqb (entry Gen.country_name v) (bytes_of_string n)
                                && bytes_eqb (entry Gen.country_iso v) (bytes_of_string i)
               | None => false
               end
             else true) Gen.country_enum.
Definition country_shape_ok : bool :=
  Nat.eqb (List.length Gen.country_name) 256 && Nat.eqb (List.length Gen.country_iso) 256
  && (Gen.c_RDSPARSER_COUNTRY_COUNT =? 221) && (Gen.c_RDSPARSER_COUNTRY_UNKNOWN =? 0)
  && enum_consecutive Gen.country_enum 0
  && Nat.eqb (List.length Gen.country_enum) 222 && Nat.eqb (List.length ref_country) 220
  && forallb no_nul Gen.country_name && forallb no_nul Gen.country_iso
  && all_from 256 0 (fun v => if (1 <=? v) && (v <? 221) then true
                              else bytes_eqb (entry Gen.country_name v) unknown_name
                                   && bytes_eqb (entry Gen.country_iso v) unknown_iso).
Definition is_upper (c : Z) : bool := (65 <=? c) && (c <=? 90).
Definition iso_format_ok (e : list Z) : bool :=
  match e with
  | [a; b] => (is_upper a && is_upper b) || ((a =? 45) && (b =? 45))
  | _ => false
  end.
Definition dashes : list Z := [45; 45].
Definition australia : list Z := bytes_of_string "Australia".
Definition starts_with (p l : list Z) : bool := bytes_eqb (firstn (List.length p) l) p.
(* distinct countries never share a code (composite areas carry "--"; the eight Australian
   states and territories all carry the code of Australia) *)
Definition iso_unique_ok : bool :=
  all_from 220 1 (fun i =>
    all_from 220 1 (fun j =>
      (i =? j) || negb (bytes_eqb (entry Gen.country_iso i) (entry Gen.country_iso j))
      || bytes_eqb (entry Gen.country_iso i) dashes
      || (starts_with australia (entry Gen.country_name i) && starts_with australia (entry Gen.country_name j)))).
Definition iso_all_format_ok : bool := all_from 220 1 (fun i => iso_format_ok (entry Gen.country_iso i)).

Lemma pty_tables_are_reference : pty_all_ok = true.
Proof. vm_compute. reflexivity. Qed.
Lemma pty_widths : pty_widths_ok = true.
Proof. vm_compute. reflexivity. Qed.
Lemma country_tables_are_reference : country_entries_ok = true.
Proof. vm_compute. reflexivity. Qed.
Lemma country_shape : country_shape_ok = true.
Proof. vm_compute. reflexivity. Qed.
Lemma iso_format : iso_all_format_ok = true.
Proof. vm_compute. reflexivity. Qed.
Lemma iso_unique : iso_unique_ok = true.
Proof. vm_compute. reflexivity. Qed.

(* ---------- charset ---------- *)
Definition conv_unicode_ok : bool :=
  Nat.eqb (List.length Gen.conv_unicode) 256
  && list_eqb Z.eqb (skipn 32 Gen.conv_unicode) ref_g0
  (* control codes are not stored, except 0x0D which is the end-of-text marker *)
  && all_from 32 0 (fun b => nth (Z.to_nat b) Gen.conv_unicode 99 =? (if b =? 13 then 0 else -1)).
Definition conv_narrow_ok : bool :=
  Nat.eqb (List.length Gen.conv_narrow) 256
  && all_from 256 0 (fun b => nth (Z.to_nat b) Gen.conv_narrow 99 =?
                                (if b =? 13 then 0 else if b <? 32 then -1 else if b <? 127 then b else 32)).
(* every stored character is printable: >= 0x20, not a C1 control, not NUL *)
Definition conv_printable_ok (conv : Z -> Z) : bool :=
  all_from 224 32 (fun b => printable (conv b)) && (conv 32 =? 32).
(* two bytes with the same unicode image have the same narrow image *)
Definition narrow_well_defined_ok : bool :=
  all_from 224 32 (fun i => all_from 224 32 (fun j =>
    negb (conv_u i =? conv_u j) || (conv_n i =? conv_n j))).

Lemma conv_unicode_is_G0 : conv_unicode_ok = true.
Proof. vm_compute. reflexivity. Qed.
Lemma conv_unicode_printable : conv_printable_ok conv_u = true.
Proof. vm_compute. reflexivity. Qed.
Lemma conv_printable_spec conv : conv_printable_ok conv = true ->
  (forall b, 32 <= b < 256 -> printable (conv b) = true) /\ conv 32 = 32.
Proof.
  unfold conv_printable_ok. intros H. apply andb_true_iff in H. destruct H as [H1 H2]. split.
  - intros b Hb. apply (all_from_spec _ _ _ H1). simpl. lia.
  - apply Z.eqb_eq. exact H2.
Qed.

(* ---------- ECC ---------- *)
Fixpoint enum_value (e : string) (l : list (string * Z)) : Z :=
  match l with
  | [] => -1
  | (e', v) :: r => if String.eqb e e' then v else enum_value e r
  end.
Fixpoint ref_ecc_cell (nib ecc : Z) (l : list (Z * Z * string)) : Z :=
  match l with
  | [] => 0
  | (n, e, c) :: r => if (n =? nib) && (e =? ecc) then enum_value c Gen.country_enum else ref_ecc_cell nib ecc r
  end.
Definition in_ecc_ranges (ecc : Z) : bool :=
  ((160 <=? ecc) && (ecc <=? 166)) || ((208 <=? ecc) && (ecc <=? 212))
  || ((224 <=? ecc) && (ecc <=? 229)) || ((240 <=? ecc) && (ecc <=? 244)).
Definition ecc_ok : bool :=
  Nat.eqb (List.length Gen.ecc_lut) 16
  && forallb (fun r => Nat.eqb (List.length r) 256) Gen.ecc_lut
  && (Gen.ecc_graph_bad_pi =? -2)
  && all_from 16 0 (fun nib => all_from 256 0 (fun ecc =>
       let v := lut_g nib ecc in
       (v =? ref_ecc_cell nib ecc ref_ecc) && (0 <=? v) && (v <? 221)
       && (if (nib =? 0) || negb (in_ecc_ranges ecc) then v =? 0 else true))).
Lemma ecc_table_is_reference : ecc_ok = true.
Proof. vm_compute. reflexivity. Qed.

(* every value the lookup can return is a valid country enumerator, for ANY arguments *)
Lemma lut_g_range : forall n e, 0 <= lut_g n e < 221.
Proof.
  intros n e. pose proof ecc_table_is_reference as H. unfold ecc_ok in H.
  apply andb_true_iff in H. destruct H as [H Hsw].
  apply andb_true_iff in H. destruct H as [H _].
  apply andb_true_iff in H. destruct H as [Hlen Hrows].
  apply Nat.eqb_eq in Hlen.
  unfold lut_g.
  destruct (Nat.lt_ge_cases (Z.to_nat n) 16) as [Hn|Hn].
  2:{ rewrite (nth_overflow Gen.ecc_lut []) by lia. destruct (Z.to_nat e); simpl; lia. }
  assert (Hr : List.length (nth (Z.to_nat n) Gen.ecc_lut []) = 256%nat).
  { rewrite forallb_forall in Hrows. apply Nat.eqb_eq. apply Hrows. apply nth_In. lia. }
  destruct (Nat.lt_ge_cases (Z.to_nat e) 256) as [He|He].
  2:{ rewrite nth_overflow by lia. lia. }
  pose proof (all_from_spec _ _ _ Hsw (Z.of_nat (Z.to_nat n)) ltac:(simpl; lia)) as H1. cbv beta in H1.
  pose proof (all_from_spec _ _ _ H1 (Z.of_nat (Z.to_nat e)) ltac:(simpl; lia)) as H2. cbv beta zeta in H2.
  unfold lut_g in H2. rewrite !Nat2Z.id in H2.
  apply andb_true_iff in H2. destruct H2 as [H2 _].
  apply andb_true_iff in H2. destruct H2 as [H2 H3].
  apply andb_true_iff in H2. destruct H2 as [_ H2].
  apply Z.leb_le in H2. apply Z.ltb_lt in H3. lia.
Qed.
