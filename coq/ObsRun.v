(* ObsRun.v — evaluating an observer along a model run (used by the non-vacuity Examples and by
   the statements of the property theorems). *)
Require Export Inst.
Local Open Scope Z_scope.

Definition ret_of (o : op) : Z :=
  match o with OParseString str => b2z (parse_string_result str) | _ => 0 end.

Definition observer_t := list op -> snapshot -> snapshot -> list event -> Z -> bool.

Section Run.
Variable stepf : state -> op -> state * list event.

(* the observer holds at every step of the run of `ops` from state s with history hist *)
Fixpoint obs_along (obs : observer_t) (hist : list op) (s : state) (ops : list op) : bool :=
  match ops with
  | [] => true
  | o :: r =>
    let '(s', evs) := stepf s o in
    obs (o :: hist) (snap_of s) (snap_of s') evs (ret_of o) && obs_along obs (o :: hist) s' r
  end.
End Run.

(* every script starts with an initialisation (rdsparser_init / rdsparser_new) *)
Definition check_run_u (obs : observer_t) (ops : list op) : bool :=
  obs_along step_u obs [OInit] init_state ops.
Definition check_run_n (obs : observer_t) (ops : list op) : bool :=
  obs_along step_n obs [OInit] init_state ops.

(* a small scenario touching every group kind, used by the non-vacuity Examples *)
Definition G (a b c d e0 e1 e2 e3 : Z) : op := OParse (mkgroup a b c d e0 e1 e2 e3).
Definition scenario : list op :=
  [ ORegister FPI 1; ORegister FPS 1; ORegister FRT 2; ORegister FAF 1; ORegister FCT 3;
    ORegister FPTYN 1; ORegister FECC 1; ORegister FCOUNTRY 1; OSetUD 77;
    OSetCorr PS DATA 2; OSetCorr RT INFO 1; OSetProg PS true;
    G 12801 1161 5264 16706 0 0 0 0;          (* 0A: PI 3201, AF pair, PS "AB" at 2 *)
    G 12801 1161 5264 16706 0 0 0 1;          (* same data, corrected D *)
    G 12801 3210 12801 17220 0 0 0 0;         (* 0B *)
    G 12801 4192 226 0 0 0 0 0;               (* 1A variant 0: ECC E2 *)
    G 12801 8273 24930 25444 0 0 0 0;         (* 2A flag B, address 1 *)
    G 12801 8192 20818 21332 0 0 0 0;         (* 2A flag A: switch *)
    G 12801 8209 24930 25444 0 1 0 0;         (* corrected B with the other flag: ignored *)
    G 12801 10249 12801 31355 0 0 0 0;        (* 2B *)
    G 12801 16385 58096 2 0 0 0 0;            (* 4A clock time *)
    G 12801 40961 20037 22355 0 0 0 0;        (* 10A *)
    OParseString (Some [49;50;51;52;48;52;48;56;57;48;48;49;52;49;52;50;48;48]);
    OParseString (Some [32;50;51;52;48;52;48;56;57;48;48;49;52;49;52;50]);
    OParseString None;
    OSetExt true; OClear;
    G 4660 1161 5264 16706 0 0 0 0; G 4660 1161 5264 16706 0 0 0 0;
    G 22136 1161 5264 16706 3 0 0 0; OClear; OInit ].
