(* Lemmas_Mid_C07.v — progressive correction, read directly off the translated C function
   rdsparser_string_update_single (GenMid.v), without the model: with the progressive flag set, the
   call leaves every cell other than the addressed one alone and never raises the level of the
   addressed cell; whatever the arguments (no range restriction). *)
Require Export Lemmas_MidBase.
Require Import ZifyBool.
Local Open Scope Z_scope.


Definition improves (single : list Z -> list Z -> Z -> Z -> Z -> Z -> Z -> Z -> Z * list Z * list Z) : Prop :=
  forall c e inp ei ed pos prog al, prog <> 0 -> (pos < length e)%nat -> (pos < length c)%nat ->
  let '(r, c', e') := single c e inp ei ed (Z.of_nat pos) prog al in
  nth pos e' 0 <= nth pos e 0
  /\ (forall j, j <> pos -> nth j e' 0 = nth j e 0 /\ nth j c' 0 = nth j c 0)
  /\ length c' = length c /\ length e' = length e
  /\ (r = 0 -> c' = c /\ e' = e).

Ltac close_improves :=
  repeat split; intros;
  rewrite ?upd_length, ?nth_upd_same, ?nth_upd_other by (assumption || congruence || lia);
  first [reflexivity | lia | discriminate | congruence].

Theorem mid_progressive_improves : improves m_update_single.
Proof.
  intros c e inp ei ed pos prog al Hp He Hc. unfold m_update_single. cbv zeta.
  rewrite Nat2Z.id. generalize (c_calc_error ei ed) (m_string_convert inp). intros err cv.
  decide_atoms; close_improves.
Qed.

Theorem mid_progressive_improves_n : improves m_update_single_n.
Proof.
  intros c e inp ei ed pos prog al Hp He Hc. unfold m_update_single_n. cbv zeta.
  rewrite Nat2Z.id.
  generalize (c_calc_error ei ed) (m_string_convert_n inp) (m_string_convert_n (to_u8 32)). intros err cv sp.
  decide_atoms; close_improves.
Qed.

(* whatever the flags: only the addressed cell can change (C02) *)
Theorem mid_only_addressed : forall c e inp ei ed pos prog al,
  (pos < length e)%nat -> (pos < length c)%nat ->
  let '(r, c', e') := m_update_single c e inp ei ed (Z.of_nat pos) prog al in
  (forall j, j <> pos -> nth j e' 0 = nth j e 0 /\ nth j c' 0 = nth j c 0)
  /\ length c' = length c /\ length e' = length e.
Proof.
  intros c e inp ei ed pos prog al He Hc. unfold m_update_single. cbv zeta.
  rewrite Nat2Z.id. generalize (c_calc_error ei ed) (m_string_convert inp). intros err cv.
  decide_atoms; close_improves.
Qed.
