(* Lemmas_ModeInd.v — C09, second half: texts and clock time are not subject to the extended check.
   Two states that agree on the four texts, the A/B register, the text settings, the callbacks and
   the user data — and differ ARBITRARILY in the mode flag and in both stages of the scalar / AF
   buffer — stay that way under every group, and make the same PS, RT, PTYN and clock-time
   callbacks. *)
Require Export Lemmas_ObsCb.
Local Open Scope Z_scope.

Section ModeInd.
Variable conv : Z -> Z.
Variable lut : Z -> Z -> Z.
Notation Inv := (Inv conv).
Notation process := (process conv lut).

Definition txt_eq (s1 s2 : state) : Prop :=
  (forall sl, cells (get_text sl s1) = cells (get_text sl s2))
  /\ last_rt s1 = last_rt s2 /\ corr s1 = corr s2 /\ prog s1 = prog s2.

Lemma avail_of_cells t : string_available t = existsb (fun p => negb (snd p =? 10)) (cells t).
Proof. unfold string_available, cells. rewrite existsb_map. reflexivity. Qed.

Lemma spec_cells_ext g s1 s2 sl : txt_eq s1 s2 -> spec_cells conv g s1 sl = spec_cells conv g s2 sl.
Proof.
  intros [Hc [Hl [Hco Hp]]]. unfold spec_cells, m_cleared. rewrite Hl, Hco, Hp, (Hc sl), !avail_of_cells, (Hc sl).
  reflexivity.
Qed.

Theorem texts_ignore_mode g s1 s2 : Inv s1 -> Inv s2 -> wf_group g -> txt_eq s1 s2 ->
  txt_eq (fst (process g s1)) (fst (process g s2)).
Proof.
  intros I1 I2 W E. pose proof E as [Hc [Hl [Hco Hp]]]. split; [|split; [|split]].
  - intros sl. rewrite (texts_step conv lut g s1 I1 W sl), (texts_step conv lut g s2 I2 W sl). apply spec_cells_ext. exact E.
  - rewrite (process_last_rt conv lut g s1 I1 W), (process_last_rt conv lut g s2 I2 W), Hl. reflexivity.
  - pose proof (process_keeps_settings conv lut g s1) as K1. pose proof (process_keeps_settings conv lut g s2) as K2.
    destruct (P_set_fields _ _ K1) as [_ [A _]]. destruct (P_set_fields _ _ K2) as [_ [B _]]. congruence.
  - pose proof (process_keeps_settings conv lut g s1) as K1. pose proof (process_keeps_settings conv lut g s2) as K2.
    destruct (P_set_fields _ _ K1) as [A _]. destruct (P_set_fields _ _ K2) as [B _]. congruence.
Qed.

Lemma text_formula_ext F t1 t1' t2 t2' s1 s2 : cells t1 = cells t2 -> cells t1' = cells t2' ->
  cb s1 = cb s2 -> ud s1 = ud s2 -> text_formula F t1 t1' s1 = text_formula F t2 t2' s2.
Proof. intros A B C D. unfold text_formula. rewrite A, B, C, D, (tsnap_of_cells t1' t2' B). reflexivity. Qed.

Theorem text_and_clock_callbacks_ignore_mode g s1 s2 : Inv s1 -> Inv s2 -> wf_group g -> txt_eq s1 s2 ->
  cb s1 = cb s2 -> ud s1 = ud s2 ->
  forall F, In F [FPS; FRT; FPTYN; FCT] ->
  filter (isf F) (snd (process g s1)) = filter (isf F) (snd (process g s2)).
Proof.
  intros I1 I2 W E Hcb Hud F HF.
  pose proof (texts_ignore_mode g s1 s2 I1 I2 W E) as E'.
  pose proof E as [Hc [Hl _]]. pose proof E' as [Hc' _].
  pose proof W as [_ [Hb _]]. unfold blk_ok in Hb.
  destruct HF as [<-|[<-|[<-|[<-|[]]]]].
  - rewrite (ps_callbacks conv lut g s1 I1 W), (ps_callbacks conv lut g s2 I2 W).
    apply text_formula_ext; [apply (Hc TPS)|apply (Hc' TPS)|exact Hcb|exact Hud].
  - destruct (Z.eq_dec (b_group (gb g)) 2) as [G|G].
    + pose proof (rt_callbacks conv lut g s1 I1 W G) as A. pose proof (rt_callbacks conv lut g s2 I2 W G) as B.
      cbv zeta in A, B. rewrite A, B. rewrite !rt_of_slot.
      set (sl := rt_slot (b_rtflag (gb g))).
      rewrite Hl, Hcb, Hud, !avail_of_cells, !cells_clear, (Hc sl), (Hc' sl).
      rewrite (tsnap_of_cells _ _ (Hc' sl)).
      replace (length (get_text sl s1)) with (length (get_text sl s2)); [reflexivity|].
      destruct (inv_text conv sl s1 I1) as [L1 _], (inv_text conv sl s2 I2) as [L2 _]. congruence.
    + rewrite (no_rt_events conv lut g s1 Hb G), (no_rt_events conv lut g s2 Hb G). reflexivity.
  - destruct (Z.eq_dec (b_group (gb g)) 10) as [G|G]; [destruct (Z.eq_dec (b_ver (gb g)) 0) as [V|V]|].
    + rewrite (ptyn_callbacks_10A conv lut g s1 I1 W G V), (ptyn_callbacks_10A conv lut g s2 I2 W G V).
      apply text_formula_ext; [apply (Hc TPTYN)|apply (Hc' TPTYN)|exact Hcb|exact Hud].
    + rewrite (no_ptyn_events conv lut g s1 Hb), (no_ptyn_events conv lut g s2 Hb) by tauto. reflexivity.
    + rewrite (no_ptyn_events conv lut g s1 Hb), (no_ptyn_events conv lut g s2 Hb) by tauto. reflexivity.
  - (* clock time *)
    assert (K : forall s, filter (isf FCT) (snd (process g s)) =
                          if get_group (gb g) =? 4
                          then snd (group4_parse g (get_flag (gb g)) (fst (group_parse g s))) else []).
    { intros s. destruct (get_group (gb g) =? 4) eqn:G4.
      - destruct (process_events4 conv lut g s G4) as [Ev Hgood]. rewrite Ev, filter_app.
        rewrite (filter_none (isf FCT) (snd (group_parse g s))).
        2:{ eapply Forall_impl; [|exact Hgood]. intros e He. apply (good_not_ct _ e He). }
        cbn [app]. rewrite group4_events.
        destruct (_ && negb _); [|reflexivity]. destruct (ct_init _ _ _ _); [|reflexivity].
        cbn [filter]. rewrite filter_isf_self by reflexivity. reflexivity.
      - pose proof (process_events conv lut g s G4) as Hgood. apply filter_none.
        eapply Forall_impl; [|exact Hgood]. intros e He. apply (good_not_ct _ e He). }
    rewrite !K. destruct (get_group (gb g) =? 4); [|reflexivity].
    rewrite !group4_events.
    pose proof (keeps_group_parse g s1) as K1. pose proof (keeps_group_parse g s2) as K2.
    destruct (P_set_fields _ _ K1) as [_ [_ [A1 A2]]]. destruct (P_set_fields _ _ K2) as [_ [_ [B1 B2]]].
    rewrite A1, A2, B1, B2, Hcb, Hud. reflexivity.
Qed.

End ModeInd.
