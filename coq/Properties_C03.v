(* Properties_C03.v — obligations of property C03.  Contains only theorem statements closed by
   `exact <lemma>` and Print Assumptions. *)
Require Import ObsRun.
Local Open Scope Z_scope.

(* non-vacuity: the observer of C03 is evaluated (and holds) along a run of the model that
   touches every group kind *)
Example C03_scenario : check_run_u (observer_u 3) scenario = true.
Proof. vm_compute. reflexivity. Qed.
Print Assumptions C03_scenario.
