(* Properties_C03.v — obligations of property C03 (blocks flagged above the accepted error level
   never influence anything): a 2-safety / non-interference property over pairs of runs. *)
Require Import ObsRun Lemmas_NonInt.
Require Import ZifyBool.
Local Open Scope Z_scope.

(* dontcare_equiv cfg g g' (Observers.v): same four error codes; block A equal if ea = 0; block B,
   if it is accepted for anything in g or in g': equal when error-free; when corrected (accepted only
   as the address of text characters, within the info threshold of the text its group type carries)
   equal on group type, version and cell address (b_key) — its PTY, TP, TA, MS and remaining bits
   are don't-cares like a rejected block; block C / D equal if B is accepted and C / D is accepted for
   what this group type reads from it (error-free for AF, ECC, clock time; within the data threshold
   of the text for characters).
   For every reachable state and every such pair of groups the WHOLE result of the call is equal:
   next state (hence every getter) and the list of callbacks with their arguments. *)
Theorem C03_noninterference : forall conv lut h s g g', reach conv lut h s -> wf_group g -> wf_group g' ->
  dontcare_equiv (snap_of s) g g' = true ->
  step conv lut s (OParse g) = step conv lut s (OParse g').
Proof.
  intros conv lut h s g g' Hr W W' H. cbn [step].
  exact (noninterference conv lut g g' s (reach_inv conv lut h s Hr) W W' H).
Qed.
Print Assumptions C03_noninterference.

(* ... now and for every later input *)
Theorem C03_forever : forall conv lut h s g g' ops, reach conv lut h s -> wf_group g -> wf_group g' ->
  dontcare_equiv (snap_of s) g g' = true ->
  run_from conv lut s (OParse g :: ops) = run_from conv lut s (OParse g' :: ops).
Proof.
  intros conv lut h s g g' ops Hr W W' H. cbn [run_from].
  rewrite (C03_noninterference conv lut h s g g' Hr W W' H). reflexivity.
Qed.
Print Assumptions C03_forever.

(* in particular a block D flagged uncorrectable (or with any code above 2, since thresholds never
   exceed 'large') can be replaced by any other value *)
Theorem C03_uncorrectable_D_ignored : forall conv lut h s g d', reach conv lut h s -> wf_group g ->
  0 <= d' < 65536 -> 3 <= ed g ->
  step conv lut s (OParse g)
  = step conv lut s (OParse (mkgroup (ga g) (gb g) (gc g) d' (ea g) (eb g) (ec g) (ed g))).
Proof.
  intros conv lut h s g d' Hr W Hd He.
  apply (C03_noninterference conv lut h s _ _ Hr W).
  - destruct W as [A [B [C [D [E1 [E2 [E3 E4]]]]]]]. unfold wf_group, blk_ok, err_ok in *. cbn [ga gb gc gd ea eb ec ed]. repeat split; lia.
  - pose proof (reach_inv conv lut h s Hr) as I.
    unfold dontcare_equiv. cbn [ga gb gc gd ea eb ec ed]. rewrite !Z.eqb_refl. cbn [andb].
    rewrite orb_true_r. cbn [andb].
    assert (Hud : used_d (snap_of s) g = false).
    { unfold used_d. rewrite !cfg_corr_snap.
      pose proof (inv_corr conv s I PS DATA). pose proof (inv_corr conv s I RT DATA). pose proof (inv_corr conv s I PTYN DATA).
      replace (ed g <=? corr s PS DATA) with false by lia. replace (ed g <=? corr s RT DATA) with false by lia.
      replace (ed g <=? corr s PTYN DATA) with false by lia. replace (ed g =? 0) with false by lia.
      rewrite !andb_false_r. reflexivity. }
    rewrite Hud. cbn [negb orb]. rewrite orb_diag.
    destruct (used_b (snap_of s) (eb g) (gb g)); [|reflexivity].
    rewrite orb_true_r, andb_true_r. unfold b_equiv. destruct (eb g =? 0); rewrite Z.eqb_refl; reflexivity.
Qed.
Print Assumptions C03_uncorrectable_D_ignored.

(* the bits of a corrected block B that are accepted error-free only: a type-0 group whose block B
   carries a corrected error within the PS threshold may have its PTY, TP, TA, MS and DI bits
   replaced by anything (only the group type, the version and the 2-bit PS address count) *)
Example C03_corrected_B_bits :
  let s := run_u (firstn 12 scenario) in        (* PS info threshold 0 there: raise it *)
  let s1 := fst (step_u s (OSetCorr PS INFO 1)) in
  dontcare_equiv (snap_of s1) (mkgroup 1 (0 * 4096 + 1024 + 31 * 32 + 16 + 8 + 2) 2 16706 0 1 0 0)
                              (mkgroup 1 (0 * 4096 + 2) 9 16706 0 1 3 0) = false      (* C differs with ec differing: not a pair *)
  /\ dontcare_equiv (snap_of s1) (mkgroup 1 (0 * 4096 + 1024 + 31 * 32 + 16 + 8 + 2) 2 16706 0 1 1 0)
                                 (mkgroup 1 (0 * 4096 + 2) 9 16706 0 1 1 0) = true.
Proof. vm_compute. split; reflexivity. Qed.

(* clock time needs all three blocks error-free: with any error on D, block D is irrelevant even
   in a 4A group — an instance of the above for codes 1 and 2 is covered by dontcare_equiv itself *)
Example C03_scenario : check_run_u (observer_u 3) scenario = true.
Proof. vm_compute. reflexivity. Qed.
Example C03_pair_example :
  let s := run_u (firstn 12 scenario) in
  dontcare_equiv (snap_of s) (mkgroup 1 8192 2 3 0 3 0 0) (mkgroup 1 16385 7 9 0 3 0 0) = true
  /\ dontcare_equiv (snap_of s) (mkgroup 1 8192 2 3 0 1 0 0) (mkgroup 1 8193 2 3 0 1 0 0) = false.
Proof. vm_compute. split; reflexivity. Qed.
