(* Lemmas_WF.v — C16: every snapshot of every reachable state shows well-formed text buffers. *)
Require Export Lemmas_Step.
Require Import ZifyBool.
Local Open Scope Z_scope.

Lemma existsb_map {A B} (f : A -> B) p l : existsb p (map f l) = existsb (fun x => p (f x)) l.
Proof. induction l as [|x r IH]; simpl; [reflexivity|]. rewrite IH. reflexivity. Qed.

Lemma first_zero_length t : first_zero (map (fun c => (ch c, lv c)) t) = string_length t.
Proof. induction t as [|c r IH]; simpl; [reflexivity|]. destruct (ch c =? 0); [reflexivity|]. rewrite IH. reflexivity. Qed.

Section WF.
Variable conv : Z -> Z.
Variable lut : Z -> Z -> Z.
(* the two facts about the character table that C16 needs (kernel-checked on Gen.v for the
   unicode and the narrow table in Lemmas_Tables / Lemmas_Narrow) *)
Hypothesis conv_printable : forall b, 32 <= b < 256 -> printable (conv b) = true.
Hypothesis conv_space : conv 32 = 32.

Lemma in_table_of_image c b : 32 <= b < 256 -> conv b = c -> in_table conv c = true.
Proof.
  intros Hb Hc. unfold in_table. apply existsb_exists. exists (Z.to_nat (b - 32)). split.
  - apply in_seq. lia.
  - rewrite Z2Nat.id by lia. replace (b - 32 + 32) with b by lia. rewrite Hc. apply Z.eqb_refl.
Qed.

Lemma cell_char_ok c : cell_ok conv c ->
  ((ch c =? 0) || printable (ch c)) = true /\ ((ch c =? 0) || in_table conv (ch c)) = true.
Proof.
  intros [_ [_ [_ [H|[H|[b [Hb H]]]]]]].
  - rewrite H. split; reflexivity.
  - rewrite H. split; [reflexivity|]. rewrite (in_table_of_image 32 32 ltac:(lia) conv_space). apply orb_true_r.
  - rewrite <- H. rewrite (conv_printable b Hb), (in_table_of_image _ b Hb eq_refl). split; apply orb_true_r.
Qed.

Lemma tsnap_wf_of_text_ok n tb t : text_ok conv n t -> tsnap_wf conv n tb (tsnap_of t) = true.
Proof.
  intros [Hl Hf]. unfold tsnap_wf, tsnap_of. cbn [ts_cells ts_term ts_avail ts_len].
  rewrite map_length, Hl, Nat.eqb_refl, Z.eqb_refl. cbn [andb].
  repeat (apply andb_true_iff; split).
  - apply forallb_forall. intros [c l] Hin. apply in_map_iff in Hin. destruct Hin as [x [Hx Hin]].
    inversion Hx; subst; clear Hx. rewrite Forall_forall in Hf. pose proof (Hf x Hin) as Hc.
    destruct (cell_char_ok x Hc) as [Hp _]. destruct Hc as [Hr [H10 _]].
    rewrite Hp. destruct (lv x =? 10) eqn:E.
    + apply Z.eqb_eq in E. destruct (H10 E) as [Hs _]. rewrite Hs. lia.
    + lia.
  - unfold string_available. rewrite existsb_map. cbn. apply Bool.eqb_reflx.
  - rewrite first_zero_length. apply Z.eqb_refl.
  - unfold all_cells. apply forallb_forall. intros i Hi. apply in_seq in Hi.
    unfold tcell. cbn [ts_cells].
    destruct (nth_error t i) as [x|] eqn:Hn.
    + assert (Hx : nth i (map (fun c => (ch c, lv c)) t) (0, 0) = (ch x, lv x)).
      { erewrite nth_indep by (rewrite map_length; lia).
        rewrite (map_nth (fun c => (ch c, lv c)) t x). f_equal; f_equal; apply nth_error_nth; exact Hn. }
      rewrite Hx. cbn [fst]. pose proof (Forall_nth_error _ _ _ _ Hf Hn) as Hc.
      destruct (cell_char_ok x Hc) as [_ Hp]. apply orb_true_iff in Hp. destruct Hp as [Hp|Hp]; rewrite Hp;
        rewrite ?orb_true_r; reflexivity.
    + apply nth_error_None in Hn. lia.
Qed.

(* the snapshot part of the C16 observer *)
Definition obs_C16_snap (b a : snapshot) : bool :=
  tsnap_wf conv 8 (sn_ps b) (sn_ps a) && tsnap_wf conv 64 (sn_rt0 b) (sn_rt0 a)
  && tsnap_wf conv 64 (sn_rt1 b) (sn_rt1 a) && tsnap_wf conv 8 (sn_ptyn b) (sn_ptyn a).

Theorem wf_always h s b : reach conv lut h s -> obs_C16_snap b (snap_of s) = true.
Proof.
  intros H. pose proof (reach_inv conv lut h s H) as I. unfold obs_C16_snap, snap_of.
  cbn [sn_ps sn_rt0 sn_rt1 sn_ptyn].
  rewrite (tsnap_wf_of_text_ok 8 _ _ (inv_ps conv s I)), (tsnap_wf_of_text_ok 64 _ _ (inv_rt0 conv s I)),
          (tsnap_wf_of_text_ok 64 _ _ (inv_rt1 conv s I)), (tsnap_wf_of_text_ok 8 _ _ (inv_ptyn conv s I)).
  reflexivity.
Qed.

(* "availability is true exactly when some cell has been received": the ghost reception flag of
   the model coincides with level <> uncorrectable in every reachable state *)
Theorem received_iff_level h s sl c : reach conv lut h s -> In c (get_text sl s) ->
  (rx c = true <-> lv c <> 10).
Proof.
  intros H Hin. pose proof (reach_inv conv lut h s H) as I.
  destruct (inv_text conv sl s I) as [_ Hf]. rewrite Forall_forall in Hf.
  destruct (Hf c Hin) as [_ [H10 [Hn10 _]]]. split.
  - intros Hr E. destruct (H10 E) as [_ Hf']. congruence.
  - exact Hn10.
Qed.

End WF.
