(* Properties_C14.v — obligations of property C14 (hex-string input is strictly validated and
   equivalent to binary input). *)
Require Import ObsRun Lemmas_Hex Lemmas_Settings.
Local Open Scope Z_scope.

(* for EVERY byte string (any length, any bytes): accepted iff 16 or 18 hexadecimal digits *)
Theorem C14_accept_iff : forall l, parse_string_result (Some l) = hex_ok l.
Proof. intros l. unfold parse_string_result. apply utils_convert_accepts. Qed.
Print Assumptions C14_accept_iff.

(* an accepted string has exactly the effect (state and callbacks) of rdsparser_parse with the
   four big-endian blocks and the error byte split 7-6 / 5-4 / 3-2 / 1-0 (zero when absent) *)
Theorem C14_equivalent_to_binary : forall conv lut s l, hex_ok l = true ->
  step conv lut s (OParseString (Some l)) = step conv lut s (OParse (decode l)).
Proof. intros conv lut s l H. cbn [step]. rewrite (utils_convert_spec l H). reflexivity. Qed.
Print Assumptions C14_equivalent_to_binary.

(* every other input, NULL included, returns false, fires nothing, changes nothing *)
Theorem C14_reject_inert : forall conv lut s str,
  parse_string_result str = false -> step conv lut s (OParseString str) = (s, []).
Proof.
  intros conv lut s [l|] H; [|reflexivity]. cbn [step]. unfold parse_string_result in H.
  destruct (utils_convert l); [discriminate|reflexivity].
Qed.
Print Assumptions C14_reject_inert.

Theorem C14_observer : forall conv lut s o h,
  obs_C14 (o :: h) (snap_of s) (snap_of (fst (step conv lut s o))) (snd (step conv lut s o)) (ret_of o) = true.
Proof.
  intros conv lut s o h. unfold obs_C14. destruct o; try reflexivity.
  unfold ret_of. destruct str as [l|].
  - rewrite C14_accept_iff, Z.eqb_refl. cbn [andb]. destruct (hex_ok l) eqn:H; [reflexivity|].
    rewrite C14_reject_inert by (rewrite C14_accept_iff; exact H). cbn [fst snd].
    rewrite snapshot_eqb_refl. reflexivity.
  - cbn [parse_string_result step fst snd b2z]. rewrite snapshot_eqb_refl. reflexivity.
Qed.
Print Assumptions C14_observer.

Example C14_scenario : check_run_u (observer_u 14) scenario = true.
Proof. vm_compute. reflexivity. Qed.
Example C14_decode_example :
  decode [49;50;51;52;65;66;67;68;53;54;55;56;101;102;57;48;49;66] = mkgroup 4660 43981 22136 61328 0 1 2 3.
Proof. vm_compute. reflexivity. Qed.
