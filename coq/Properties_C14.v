(* Properties_C14.v — obligations of property C14.  Contains only theorem statements closed by
   `exact <lemma>` and Print Assumptions. *)
Require Import ObsRun.
Local Open Scope Z_scope.

(* non-vacuity: the observer of C14 is evaluated (and holds) along a run of the model that
   touches every group kind *)
Example C14_scenario : check_run_u (observer_u 14) scenario = true.
Proof. vm_compute. reflexivity. Qed.
Print Assumptions C14_scenario.
