(* Lemmas_Redeliver.v — C04, last clause: in normal mode, re-delivering the same group immediately
   changes nothing a getter shows and produces no notification other than clock time. *)
Require Export Lemmas_ObsCb Lemmas_Ecc.
Require Import ZifyBool.
Local Open Scope Z_scope.
Ltac Zify.zify_post_hook ::= Z.div_mod_to_equations.

(* ---------- a reception applied twice is the reception applied once ---------- *)
Lemma cell_after_idem conv info data pr old b eb e :
  cell_after conv info data pr (cell_after conv info data pr old b eb e) b eb e
  = cell_after conv info data pr old b eb e.
Proof.
  unfold cell_after at 2.
  destruct ((info <? eb) || (data <? e)) eqn:G; [reflexivity|].
  destruct (pr && (snd old <? lvl eb e)) eqn:P; [reflexivity|].
  destruct ((b =? 13) && negb (lvl eb e =? 0)) eqn:E13; [reflexivity|].
  destruct (negb (b =? 13) && (b <? 32)) eqn:Ctl; [reflexivity|].
  destruct ((127 <=? b) && negb (lvl eb e =? 0)) eqn:Sp; [reflexivity|].
  destruct ((fst old =? (if b =? 13 then 0 else conv b)) && (snd old <=? lvl eb e)) eqn:Same; [reflexivity|].
  unfold cell_after. rewrite G, E13, Ctl, Sp, P, Same. cbn [fst snd].
  rewrite Z.ltb_irrefl, andb_false_r, Z.eqb_refl, Z.leb_refl. reflexivity.
Qed.

Lemma apply_ws_idem conv info data pr e_b ws sl cs : NoDup (positions ws sl) ->
  (forall sl' p byte e, In (sl', p, byte, e) ws -> sl' = sl -> (p < length cs)%nat) ->
  apply_ws conv info data pr e_b ws sl (apply_ws conv info data pr e_b ws sl cs)
  = apply_ws conv info data pr e_b ws sl cs.
Proof.
  intros ND Hr. apply (nth_ext _ _ (0, 0) (0, 0)); [rewrite !apply_ws_length; reflexivity|].
  intros i Hi. rewrite !apply_ws_length in Hi.
  destruct (addressed ws sl i) eqn:A.
  - unfold addressed in A. apply existsb_exists in A. destruct A as [[[[sl' p] byte] e] [HIn Hm]].
    apply andb_true_iff in Hm. destruct Hm as [Hs Hp]. apply tslot_eqb_eq in Hs. apply Nat.eqb_eq in Hp. subst sl' p.
    rewrite (apply_ws_addressed conv _ _ _ _ ws sl ND i byte e _ HIn) by (rewrite apply_ws_length; exact Hi).
    rewrite (apply_ws_addressed conv _ _ _ _ ws sl ND i byte e cs HIn Hi).
    apply cell_after_idem.
  - rewrite (apply_ws_unaddressed conv _ _ _ _ ws sl i A). reflexivity.
Qed.

Section Redeliver.
Variable conv : Z -> Z.
Variable lut : Z -> Z -> Z.
Hypothesis lut_range : forall n e, 0 <= lut n e < 221.
Notation Inv := (Inv conv).
Notation reach := (reach conv lut).
Notation process := (process conv lut).

(* ---------- the texts ---------- *)
Lemma spec_cells_length g s sl : Inv s -> 0 <= gb g < 65536 -> length (spec_cells conv g s sl) = cap sl.
Proof.
  intros I Hb. unfold spec_cells. destruct (m_ignored (last_rt s) g); [apply (cells_length conv sl s I)|].
  rewrite apply_ws_length. destruct (m_cleared (last_rt s) g s sl); [apply repeat_length|apply (cells_length conv sl s I)].
Qed.

Theorem texts_redelivery g s : Inv s -> wf_group g ->
  let s1 := fst (process g s) in let s2 := fst (process g s1) in
  (forall sl, cells (get_text sl s2) = cells (get_text sl s1)) /\ last_rt s2 = last_rt s1.
Proof.
  intros I W. cbv zeta. pose proof W as [_ [Hb _]]. unfold blk_ok in Hb.
  set (s1 := fst (process g s)).
  assert (I1 : Inv s1) by (apply process_inv; assumption).
  assert (L1 : last_rt s1 = if (b_group (gb g) =? 2) && (eb g =? 0) then b_rtflag (gb g) else last_rt s)
    by (apply (process_last_rt conv lut g s I W)).
  assert (L2 : last_rt (fst (process g s1)) = last_rt s1).
  { rewrite (process_last_rt conv lut g s1 I1 W), L1. destruct ((b_group (gb g) =? 2) && (eb g =? 0)); reflexivity. }
  split; [|exact L2].
  intros sl. rewrite (texts_step conv lut g s1 I1 W sl).
  assert (C1 : cells (get_text sl s1) = spec_cells conv g s sl) by (apply (texts_step conv lut g s I W sl)).
  pose proof (process_keeps_settings conv lut g s) as K. destruct (P_set_fields _ _ K) as [Kp [Kc _]]. fold s1 in Kp, Kc.
  (* the second delivery never switches: the flag was just seen *)
  assert (Sw : m_switch (last_rt s1) g = false).
  { unfold m_switch, is_type2. rewrite L1. destruct (b_group (gb g) =? 2); [|reflexivity].
    destruct (eb g =? 0); cbn [andb]; [|reflexivity]. rewrite Z.eqb_refl. cbn [negb]. apply andb_false_r. }
  assert (Cl : m_cleared (last_rt s1) g s1 sl = false) by (unfold m_cleared; rewrite Sw; reflexivity).
  unfold spec_cells at 1. rewrite Cl, Kp, Kc.
  destruct (m_ignored (last_rt s1) g) eqn:Ig1; [reflexivity|].
  rewrite C1. unfold spec_cells.
  (* ignored the first time means ignored the second time: an errored block B leaves the register alone *)
  assert (Ig : m_ignored (last_rt s) g = false).
  { unfold m_ignored, is_type2 in *. rewrite L1 in Ig1. destruct (b_group (gb g) =? 2); [|reflexivity].
    destruct (eb g =? 0); cbn [andb negb] in *; [reflexivity|exact Ig1]. }
  rewrite Ig. apply apply_ws_idem; [apply writes_nodup|].
  intros sl' p byte e HIn ->.
  pose proof (writes_in_range g sl p byte e Hb HIn) as Hp.
  destruct (m_cleared (last_rt s) g s sl); [rewrite repeat_length|rewrite (cells_length conv sl s I)]; exact Hp.
Qed.

(* ---------- history functions on a repeated call ---------- *)
Lemma last_rx_dup sel o h : last_rx sel (o :: o :: h) = last_rx sel (o :: h).
Proof. cbn [last_rx]. destruct (is_reset o); [reflexivity|]. destruct (op_group o) as [g|]; [|reflexivity]. destruct (sel g); reflexivity. Qed.

Lemma count_z_app v l r : count_z v (l ++ r) = count_z v l + count_z v r.
Proof. unfold count_z. rewrite filter_app, app_length. lia. Qed.

Lemma bitmap_of_ext p q : (forall v, p v = q v) -> bitmap_of p = bitmap_of q.
Proof.
  intros H. unfold bitmap_of. apply map_ext. intros i. unfold byte_of, bit_of. rewrite !H. reflexivity.
Qed.

Theorem redelivery_state h s g : reach h s -> no_ext h = true -> wf_group g ->
  let s1 := fst (process g s) in let s2 := fst (process g s1) in
  used s2 = used s1.
Proof.
  intros Hr Hn W. cbv zeta.
  pose proof (reach_step conv lut h s (OParse g) Hr W) as R1. cbn [step] in R1.
  set (s1 := fst (process g s)) in *.
  pose proof (reach_step conv lut (OParse g :: h) s1 (OParse g) R1 W) as R2. cbn [step] in R2.
  set (s2 := fst (process g s1)) in *.
  assert (N1 : no_ext (OParse g :: h) = true) by exact Hn.
  assert (N2 : no_ext (OParse g :: OParse g :: h) = true) by exact Hn.
  (* the five tuning fields *)
  pose proof (reach_bproj conv lut _ _ R1) as B1. pose proof (reach_bproj conv lut _ _ R2) as B2.
  pose proof (reach_wf_hist conv lut _ _ R1) as W1. pose proof (reach_wf_hist conv lut _ _ R2) as W2.
  assert (T : forall f, tuning f = true -> getf f (used s2) = getf f (used s1)).
  { intros f Hf. destruct (tuning_last_rx lut f Hf _ W1 N1) as [_ V1]. destruct (tuning_last_rx lut f Hf _ W2 N2) as [_ V2].
    replace (used s1) with (b_used (b_hist lut (OParse g :: h))) by (rewrite <- B1; reflexivity).
    replace (used s2) with (b_used (b_hist lut (OParse g :: OParse g :: h))) by (rewrite <- B2; reflexivity).
    rewrite V1, V2. apply last_rx_dup. }
  (* ECC and country: the per-step rule of C11, twice *)
  pose proof (C11_observer_holds conv lut lut_range h s (OParse g) Hr W) as O1.
  pose proof (C11_observer_holds conv lut lut_range _ s1 (OParse g) R1 W) as O2.
  cbn [step] in O1, O2. fold s1 in O1, O2. fold s2 in O2.
  unfold obs_C11 in O1, O2. rewrite N1 in O1. rewrite N2 in O2. cbn [cur_group op_group] in O1, O2.
  apply andb_true_iff in O1. destruct O1 as [_ O1]. apply andb_true_iff in O2. destruct O2 as [_ O2].
  cbn [snap_of sn_ecc sn_country sn_pi] in O1, O2.
  assert (Epi : d_pi (used s2) = d_pi (used s1)) by (apply (T SPi eq_refl)).
  assert (EC : d_ecc (used s2) = d_ecc (used s1) /\ d_country (used s2) = d_country (used s1)).
  { destruct (is_1A0 g).
    - rewrite Epi in O2. lia.
    - lia. }
  (* AF: the set of codes received at least once *)
  destruct (C10_af_set_holds conv lut _ _ R1) as [A1 _]. destruct (C10_af_set_holds conv lut _ _ R2) as [A2 _].
  specialize (A1 N1). specialize (A2 N2).
  assert (EA : d_af (used s2) = d_af (used s1)).
  { rewrite A1, A2. apply bitmap_of_ext. intros v. cbn [af_rx is_reset op_group]. rewrite !count_z_app.
    pose proof (count_z_nonneg v (rx_af g)). pose proof (count_z_nonneg v (af_rx h)). lia. }
  destruct EC as [E1 E2].
  pose proof (T SPi eq_refl) as P1. pose proof (T SPty eq_refl) as P2. pose proof (T STp eq_refl) as P3.
  pose proof (T STa eq_refl) as P4. pose proof (T SMs eq_refl) as P5. cbn [getf] in P1, P2, P3, P4, P5.
  destruct (used s2), (used s1). cbn in *. congruence.
Qed.

(* ---------- no notification other than clock time ---------- *)
Theorem redelivery_silent h s g : reach h s -> no_ext h = true -> wf_group g ->
  let s1 := fst (process g s) in
  forall e, In e (snd (process g s1)) -> ev_field e = FCT.
Proof.
  intros Hr Hn W. cbv zeta. intros e He.
  pose proof (reach_inv conv lut h s Hr) as I.
  pose proof (reach_step conv lut h s (OParse g) Hr W) as R1. cbn [step] in R1.
  set (s1 := fst (process g s)) in *.
  pose proof (reach_inv conv lut _ _ R1) as I1.
  pose proof (redelivery_state h s g Hr Hn W) as EU. cbv zeta in EU. fold s1 in EU.
  pose proof (texts_redelivery g s I W) as [ET EL]. fold s1 in ET, EL.
  set (s2 := fst (process g s1)) in *.
  pose proof W as [_ [Hb _]]. unfold blk_ok in Hb.
  destruct (field_eqb (ev_field e) FCT) eqn:Fct.
  { destruct (ev_field e); cbn in Fct; try discriminate. reflexivity. }
  exfalso.
  pose proof (in_filter_self (ev_field e) e _ He eq_refl) as Hf.
  destruct (ev_field e) eqn:F.
  1-7: (match type of Hf with In _ (filter (isf ?X) _) =>
          match X with
          | FPI => change X with (field_of SPi) in Hf | FPTY => change X with (field_of SPty) in Hf
          | FTP => change X with (field_of STp) in Hf | FTA => change X with (field_of STa) in Hf
          | FMS => change X with (field_of SMs) in Hf | FECC => change X with (field_of SEcc) in Hf
          | FCOUNTRY => change X with (field_of SCountry) in Hf
          end
        end;
        rewrite (process_scalar_callbacks conv lut _ g s1) in Hf; rewrite formula_same in Hf;
        [destruct Hf|fold s2; rewrite EU; reflexivity]).
  - (* AF *)
    pose proof (af_changes_holds conv lut _ s1 (OParse g) g R1 W eq_refl) as A. cbn [step] in A. fold s2 in A.
    unfold af_changes_ok in A. cbn [snap_of sn_af] in A. rewrite EU, list_eqb_Z_refl in A.
    rewrite is_af_event_isf in A. destruct (filter (isf FAF) (snd (process g s1))); [destruct Hf|discriminate].
  - (* PS *)
    rewrite (ps_callbacks conv lut g s1 I1 W) in Hf. fold s2 in Hf. unfold text_formula in Hf.
    pose proof (ET TPS) as E. cbn [get_text] in E. rewrite E, cells_eqb_refl in Hf. destruct Hf.
  - (* RT *)
    destruct (Z.eq_dec (b_group (gb g)) 2) as [G|G].
    + pose proof (rt_callbacks conv lut g s1 I1 W G) as Ev. cbv zeta in Ev. fold s2 in Ev. rewrite Ev in Hf.
      destruct (negb (eb g =? 0) && negb (b_rtflag (gb g) =? last_rt s1) && negb (last_rt s1 =? -1)); [destruct Hf|].
      (* no switch on the second delivery *)
      assert (L1 : last_rt s1 = if (b_group (gb g) =? 2) && (eb g =? 0) then b_rtflag (gb g) else last_rt s)
        by (apply (process_last_rt conv lut g s I W)).
      assert (Cl : (eb g =? 0) && negb (b_rtflag (gb g) =? last_rt s1) && negb (last_rt s1 =? -1)
                   && string_available (rt_of (b_rtflag (gb g)) s1) = false).
      { rewrite L1. replace (b_group (gb g) =? 2) with true by lia. destruct (eb g =? 0); cbn [andb]; [|reflexivity].
        rewrite Z.eqb_refl. reflexivity. }
      rewrite Cl in Hf. cbn [orb] in Hf. rewrite !rt_of_slot in Hf. rewrite (ET (rt_slot (b_rtflag (gb g)))), cells_eqb_refl in Hf.
      destruct Hf.
    + rewrite (no_rt_events conv lut g s1 Hb G) in Hf. destruct Hf.
  - (* PTYN *)
    destruct (Z.eq_dec (b_group (gb g)) 10) as [G|G]; [destruct (Z.eq_dec (b_ver (gb g)) 0) as [V|V]|].
    + rewrite (ptyn_callbacks_10A conv lut g s1 I1 W G V) in Hf. fold s2 in Hf. unfold text_formula in Hf.
      pose proof (ET TPTYN) as E. cbn [get_text] in E. rewrite E, cells_eqb_refl in Hf. destruct Hf.
    + rewrite (no_ptyn_events conv lut g s1 Hb) in Hf by tauto. destruct Hf.
    + rewrite (no_ptyn_events conv lut g s1 Hb) in Hf by tauto. destruct Hf.
  - cbn in Fct. discriminate.
Qed.

End Redeliver.
