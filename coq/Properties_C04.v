(* Properties_C04.v — obligations of property C04.  Contains only theorem statements closed by
   `exact <lemma>` and Print Assumptions. *)
Require Import ObsRun.
Local Open Scope Z_scope.

(* non-vacuity: the observer of C04 is evaluated (and holds) along a run of the model that
   touches every group kind *)
Example C04_scenario : check_run_u (observer_u 4) scenario = true.
Proof. vm_compute. reflexivity. Qed.
Print Assumptions C04_scenario.
