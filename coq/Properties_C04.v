(* Properties_C04.v — obligations of property C04 (a callback fires exactly when its field changes,
   and sees the new value). *)
Require Import ObsRun Lemmas_Cb Lemmas_CbText Lemmas_CbRt Lemmas_CbAf Lemmas_ObsCb Lemmas_Redeliver.
Local Open Scope Z_scope.

(* For EVERY state, every group and each of PI, PTY, TP, TA, MS, ECC, country: the callbacks of that
   field made during the call are exactly
     [one callback, carrying the registered function, the current user data and — sampled at the
      moment of the call — the value the getter returns after the call]
        if the getter result after the call differs from before it and a callback is registered,
     []  otherwise
   (so: exactly when the value changes, at most once per call, never silently, never spuriously,
   and the callback already sees the new value). *)
Theorem C04_scalar_callbacks : forall conv lut f g s,
  filter (isf (field_of f)) (snd (process conv lut g s)) =
  if negb (getf f (used (fst (process conv lut g s))) =? getf f (used s)) && negb (cb s (field_of f) =? 0)
  then [mkev (field_of f) (cb s (field_of f)) (ud s) ANone (SmZ (getf f (used (fst (process conv lut g s)))))]
  else [].
Proof. intros conv lut f g s. exact (process_scalar_callbacks conv lut f g s). Qed.
Print Assumptions C04_scalar_callbacks.

(* re-delivering the same group immediately (normal mode) notifies no scalar field: the accepted
   value already equals the received one *)
Theorem C04_scalar_redelivery_silent : forall conv lut f g s,
  getf f (used (fst (process conv lut g (fst (process conv lut g s)))))
  = getf f (used (fst (process conv lut g s))) ->
  filter (isf (field_of f)) (snd (process conv lut g (fst (process conv lut g s)))) = [].
Proof.
  intros conv lut f g s H. rewrite process_scalar_callbacks. apply formula_same. exact H.
Qed.
Print Assumptions C04_scalar_redelivery_silent.

(* Programme Service name: the PS callback is made exactly when some PS cell (character or level)
   differs after the call, once, with the text the getter returns after the call *)
Theorem C04_ps_callbacks : forall conv lut g s, Inv conv s -> wf_group g ->
  filter (isf FPS) (snd (process conv lut g s)) =
  if negb (cells_eqb (cells (ps (fst (process conv lut g s)))) (cells (ps s))) && negb (cb s FPS =? 0)
  then [mkev FPS (cb s FPS) (ud s) ANone (SmText (tsnap_of (ps (fst (process conv lut g s)))))] else [].
Proof. intros conv lut g s I W. exact (ps_callbacks conv lut g s I W). Qed.
Print Assumptions C04_ps_callbacks.

(* Programme Type Name (group 10A): likewise *)
Theorem C04_ptyn_callbacks : forall conv lut g s, Inv conv s -> wf_group g -> b_group (gb g) = 10 -> b_ver (gb g) = 0 ->
  filter (isf FPTYN) (snd (process conv lut g s)) =
  if negb (cells_eqb (cells (ptyn (fst (process conv lut g s)))) (cells (ptyn s))) && negb (cb s FPTYN =? 0)
  then [mkev FPTYN (cb s FPTYN) (ud s) ANone (SmText (tsnap_of (ptyn (fst (process conv lut g s)))))] else [].
Proof. intros conv lut g s I W G V. exact (ptyn_callbacks_10A conv lut g s I W G V). Qed.
Print Assumptions C04_ptyn_callbacks.

(* RadioText (type-2 group with flag f): no callback when the group is ignored as a possible
   bit-flip; otherwise exactly one callback — with flag f and the text the getter of that flag
   returns after the call — iff the buffer of f was emptied by the A/B switch (it held something)
   or one of its cells differs from what it held (after that emptying); none otherwise *)
Theorem C04_rt_callbacks : forall conv lut g s, Inv conv s -> wf_group g -> b_group (gb g) = 2 ->
  let s' := fst (process conv lut g s) in
  let f := b_rtflag (gb g) in
  let last := last_rt s in
  let clr := (eb g =? 0) && negb (f =? last) && negb (last =? -1) && string_available (rt_of f s) in
  let ignored := negb (eb g =? 0) && negb (f =? last) && negb (last =? -1) in
  let base := if clr then cells (string_clear (rt_of f s)) else cells (rt_of f s) in
  filter (isf FRT) (snd (process conv lut g s)) =
  if ignored then []
  else if (clr || negb (cells_eqb (cells (rt_of f s')) base)) && negb (cb s FRT =? 0)
       then [mkev FRT (cb s FRT) (ud s) (AFlag f) (SmText (tsnap_of (rt_of f s')))] else [].
Proof. exact rt_callbacks. Qed.
Print Assumptions C04_rt_callbacks.

(* Alternative frequencies: no AF callback unless the group is 0A with error-free B and C and a
   first code other than 250; then, for each of the two codes of block C in order, exactly one
   callback iff that code became listed at that moment (so at most two per call, none for a code
   already listed or not yet confirmed), passing 87500 + 100 * code kHz and a list that already
   contains it; no other code changes its listing *)
Theorem C04_af_callbacks : forall conv lut h g s, reach conv lut h s -> wf_group g ->
  let evs := filter (isf FAF) (snd (process conv lut g s)) in
  let a0 := d_af (used s) in
  let a2 := d_af (used (fst (process conv lut g s))) in
  let v1 := w_hi (gc g) in let v2 := w_lo (gc g) in
  if (b_group (gb g) =? 0) && (b_ver (gb g) =? 0) && (eb g =? 0) && (ec g =? 0) && negb (v1 =? 250) then
    exists a1,
      evs = (if newly a0 a1 v1 && negb (cb s FAF =? 0) then [af_event s v1 a1] else [])
            ++ (if newly a1 a2 v2 && negb (cb s FAF =? 0) then [af_event s v2 a2] else [])
      /\ (forall w, 0 <= w < 256 -> w <> v1 -> af_get a1 w = af_get a0 w)
      /\ (forall w, 0 <= w < 256 -> w <> v2 -> af_get a2 w = af_get a1 w)
      /\ (af_get a0 v1 = true -> af_get a1 v1 = true) /\ (af_get a1 v2 = true -> af_get a2 v2 = true)
  else evs = [] /\ a2 = a0.
Proof. exact af_callbacks. Qed.
Print Assumptions C04_af_callbacks.

(* RE-DELIVERY (the last clause of the property, for every field): in normal mode, delivering the
   same group again immediately after it changes nothing the getters show — all seven scalars, the
   AF list, every cell and level of every text, the A/B register — and the only callback it can
   make is clock time.  For every reachable state and every group (and any ECC table whose entries
   are country enumerators — checked for the measured table in C11). *)
Theorem C04_redelivery_changes_nothing : forall conv lut, (forall n e, 0 <= lut n e < 221) ->
  forall h s g, reach conv lut h s -> no_ext h = true -> wf_group g ->
  let s1 := fst (process conv lut g s) in let s2 := fst (process conv lut g s1) in
  used s2 = used s1 /\ (forall sl, cells (get_text sl s2) = cells (get_text sl s1)) /\ last_rt s2 = last_rt s1.
Proof.
  intros conv lut Hl h s g Hr Hn W. cbv zeta. split.
  - exact (redelivery_state conv lut Hl h s g Hr Hn W).
  - exact (texts_redelivery conv lut g s (reach_inv conv lut h s Hr) W).
Qed.
Print Assumptions C04_redelivery_changes_nothing.
Theorem C04_redelivery_silent : forall conv lut, (forall n e, 0 <= lut n e < 221) ->
  forall h s g, reach conv lut h s -> no_ext h = true -> wf_group g ->
  forall e, In e (snd (process conv lut g (fst (process conv lut g s)))) -> ev_field e = FCT.
Proof. exact redelivery_silent. Qed.
Print Assumptions C04_redelivery_silent.

(* no callback at all outside a successful parse call *)
Theorem C04_only_parse_calls_notify : forall conv lut s o,
  op_group o = None -> snd (step conv lut s o) = [].
Proof.
  intros conv lut s o H. destruct o; try reflexivity; cbn in H; try discriminate.
  destruct str as [l|]; [|reflexivity]. cbn [step]. cbn in H. rewrite H. reflexivity.
Qed.
Print Assumptions C04_only_parse_calls_notify.

(* THE OBSERVER: all of the above in the one boolean function the check evaluates on the library —
   per scalar field and per text: number of callbacks = 1 if the getter result differs and a
   callback is registered, else 0, each sampling the new value; RT: the buffer of the group's flag,
   additionally when a switch discards the old text, flag passed, other buffer untouched; AF: one
   callback per code listed afterwards and not before, at most two, distinct, each already listed
   in the sample; every callback is the registered non-NULL function; no callback outside a
   successful parse call — at every step from every reachable state *)
Theorem C04_observer : forall conv lut h s o ret, reach conv lut h s -> wf_op o ->
  obs_C04 (o :: h) (snap_of s) (snap_of (fst (step conv lut s o))) (snd (step conv lut s o)) ret = true.
Proof. exact obs_C04_holds. Qed.
Print Assumptions C04_observer.

(* Together: every field's callbacks are characterised (seven scalars, PS, PTYN, RT, AF); clock
   time is C12.  The boolean observer obs_C04 (the same statements in one function over a
   snapshot pair) is additionally evaluated on the model (Example) and on the library (check). *)
Example C04_scenario : check_run_u (observer_u 4) scenario = true.
Proof. vm_compute. reflexivity. Qed.
