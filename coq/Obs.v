(* Obs.v — what can be observed of a parser through its getters (the snapshot), as a function
   of the model state.  The same record is built by the OCaml driver from the implementation's
   trace, so that the observers of the property theorems run unchanged on the real library. *)
Require Export Model.
Local Open Scope Z_scope.

Record snapshot := mksnap {
  sn_pi : Z; sn_pty : Z; sn_tp : Z; sn_ta : Z; sn_ms : Z; sn_ecc : Z; sn_country : Z;
  sn_af : list Z;
  sn_ps : tsnap; sn_rt0 : tsnap; sn_rt1 : tsnap; sn_ptyn : tsnap;
  sn_cfg : list Z   (* ext, prog PS/RT/PTYN, corr PS info/data, RT info/data, PTYN info/data *)
}.

Definition b2z (b : bool) : Z := if b then 1 else 0.

Definition cfg_of (s : state) : list Z :=
  [ b2z (ext s); b2z (prog s PS); b2z (prog s RT); b2z (prog s PTYN);
    corr s PS INFO; corr s PS DATA; corr s RT INFO; corr s RT DATA; corr s PTYN INFO; corr s PTYN DATA ].

Definition snap_of (s : state) : snapshot :=
  mksnap (d_pi (used s)) (d_pty (used s)) (d_tp (used s)) (d_ta (used s)) (d_ms (used s))
         (d_ecc (used s)) (d_country (used s)) (d_af (used s))
         (tsnap_of (ps s)) (tsnap_of (rt0 s)) (tsnap_of (rt1 s)) (tsnap_of (ptyn s))
         (cfg_of s).
