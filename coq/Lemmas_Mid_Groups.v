(* Lemmas_Mid_Groups.v — the group handlers for PTYN (src/group10.c: rdsparser_group10_parse) and
   for PS / TA / MS / AF (src/group0.c: rdsparser_group0_parse with rdsparser_group0a_parse),
   translated on every run (GenMid.v), against the model's group10_parse and group0_parse. *)
Require Export Lemmas_Mid_Acts Lemmas_Mid_Text Lemmas_Leaf_C02 Lemmas_Leaf_C10 Lemmas_Inv Lemmas_Af.
Require Import ZifyBool.
Local Open Scope Z_scope.

Section Conv.
Variable conv : Z -> Z.
Hypothesis conv_code : forall x, 32 <= x < 256 -> m_string_convert x = conv x.

Lemma string_update_length t b0 b1 ei ed pos pr t' chg :
  string_update conv t b0 b1 ei ed pos pr = Some (t', chg) -> length t' = length t.
Proof.
  unfold string_update.
  destruct (update_single conv t b0 ei ed pos pr) as [[t1 c1]|] eqn:E1; [|discriminate].
  destruct (update_single conv t1 b1 ei ed (S pos) pr) as [[t2 c2]|] eqn:E2; [|discriminate].
  intros H. injection H as <- _.
  rewrite (update_single_length _ _ _ _ _ _ _ _ _ E2), (update_single_length _ _ _ _ _ _ _ _ _ E1). reflexivity.
Qed.

Lemma upd_string_frame sl w ei ed pos s :
  let s' := fst (upd_string conv sl w ei ed pos s) in
  corr s' = corr s /\ prog s' = prog s /\ cb s' = cb s /\ ud s' = ud s /\ ext s' = ext s
  /\ used s' = used s /\ temp s' = temp s
  /\ (forall sl', sl' <> sl -> get_text sl' s' = get_text sl' s)
  /\ length (get_text sl s') = length (get_text sl s).
Proof.
  unfold upd_string.
  destruct ((ei <=? corr s (tid_of sl) INFO) && (ed <=? corr s (tid_of sl) DATA)).
  2:{ cbn [fst]. repeat split; reflexivity. }
  destruct (string_update conv (get_text sl s) (hi_byte w) (lo_byte w) ei ed pos (prog s (tid_of sl))) as [[t' chg]|] eqn:E.
  - cbn [fst]. pose proof (string_update_length _ _ _ _ _ _ _ _ _ E) as L.
    destruct sl; cbn; repeat split; try reflexivity; try exact L;
      intros sl' N; destruct sl'; try congruence; reflexivity.
  - cbn [fst]. destruct sl; cbn; repeat split; try reflexivity; intros sl' N; destruct sl'; reflexivity.
Qed.

Lemma corr_tab_ext s s' : corr s' = corr s -> corr_tab s' = corr_tab s.
Proof. intros H. unfold corr_tab. rewrite H. reflexivity. Qed.
Lemma prog_tab_ext s s' : prog s' = prog s -> prog_tab s' = prog_tab s.
Proof. intros H. unfold prog_tab. rewrite H. reflexivity. Qed.

Lemma to_u8_small x : 0 <= x < 256 -> to_u8 x = x.
Proof. intros H. unfold to_u8. apply Z.mod_small. exact H. Qed.

(* one call of the translated rdsparser_parser_update_string on text slot sl at a state st whose
   settings the C code names by those of an earlier state s *)
Lemma use_upd sl ti blk g st pos : ti = text_index (tid_of sl) ->
  wf_group g -> (blk = 2 \/ blk = 3) -> (S pos < length (get_text sl st))%nat -> (S pos < 256)%nat ->
  m_parser_update_string (corr_tab st) (prog_tab st) (contents (get_text sl st)) (levels (get_text sl st))
                         ti blk (ga g) (gb g) (gc g) (gd g) (ea g) (eb g) (ec g) (ed g) (Z.of_nat pos)
  = let w := if blk =? 2 then gc g else gd g in
    let e := if blk =? 2 then ec g else ed g in
    let r := upd_string conv sl w (eb g) e pos st in
    (b2z (snd r), contents (get_text sl (fst r)), levels (get_text sl (fst r))).
Proof.
  intros -> W Hb Hp Hq. destruct W as [Wa [Wb [Wc [Wd [Ea [Eb [Ec Ed]]]]]]]. unfold blk_ok, err_ok in *.
  destruct Hb as [-> | ->]; cbn [Z.eqb Pos.eqb]; cbv zeta.
  - exact (mid_parser_update_string conv conv_code sl st 2 (ga g) (gb g) (gc g) (gd g) (ea g) (eb g) (ec g) (ed g) pos
             (or_introl eq_refl) Wc Eb Ec Hp Hq).
  - exact (mid_parser_update_string conv conv_code sl st 3 (ga g) (gb g) (gc g) (gd g) (ea g) (eb g) (ec g) (ed g) pos
             (or_intror eq_refl) Wd Eb Ed Hp Hq).
Qed.

Theorem mid_group10_parse : forall g flag s evs, wf_group g -> length (ptyn s) = 8%nat ->
  m_group10_parse (cb s FPTYN) (corr_tab s) evs (prog_tab s) (contents (ptyn s)) (levels (ptyn s)) (ud s)
                  (ga g) (gb g) (gc g) (gd g) (ea g) (eb g) (ec g) (ed g) flag
  = let r := group10_parse conv g flag s in
    (0, evs ++ map ev_call (snd r), contents (ptyn (fst r)), levels (ptyn (fst r))).
Proof.
  intros g flag s evs W L. pose proof W as W0. destruct W as [Wa [Wb _]]. unfold blk_ok in *.
  unfold m_group10_parse, group10_parse. cbv zeta.
  rewrite (leaf_get_ptyn_pos _ _ _ _ Wb), (get_ptyn_pos_spec _ Wb).
  change (to_u8 2) with 2. change (to_u8 3) with 3. change (to_u32 0) with 0.
  assert (P : gb g mod 2 = 0 \/ gb g mod 2 = 1) by (pose proof (Z.mod_pos_bound (gb g) 2); lia).
  set (p := gb g mod 2) in *.
  assert (E1 : to_u8 (4 * p) = Z.of_nat (Z.to_nat (4 * p))) by (rewrite Z2Nat.id by lia; apply to_u8_small; lia).
  assert (E2 : to_u8 (to_u8 (4 * p) + 2) = Z.of_nat (Z.to_nat (4 * p + 2)))
    by (rewrite Z2Nat.id by lia; rewrite (to_u8_small (4 * p)) by lia; apply to_u8_small; lia).
  rewrite E2, E1.
  change (ptyn s) with (get_text TPTYN s).
  rewrite (use_upd TPTYN 2 2 g s (Z.to_nat (4 * p)) eq_refl W0 (or_introl eq_refl)) by (change (get_text TPTYN s) with (ptyn s); lia).
  cbn [Z.eqb Pos.eqb]. cbv zeta.
  destruct (upd_string_frame TPTYN (gc g) (eb g) (ec g) (Z.to_nat (4 * p)) s) as [F1 [F2 [F3 [F4 [_ [_ [_ [_ F9]]]]]]]].
  destruct (upd_string conv TPTYN (gc g) (eb g) (ec g) (Z.to_nat (4 * p)) s) as [s1 c1] eqn:U1. cbn [fst snd] in *.
  rewrite <- (corr_tab_ext _ _ F1), <- (prog_tab_ext _ _ F2).
  rewrite (use_upd TPTYN 2 3 g s1 (Z.to_nat (4 * p + 2)) eq_refl W0 (or_intror eq_refl)) by (try rewrite F9; change (get_text TPTYN s) with (ptyn s); lia).
  cbn [Z.eqb Pos.eqb]. cbv zeta.
  destruct (upd_string_frame TPTYN (gd g) (eb g) (ed g) (Z.to_nat (4 * p + 2)) s1) as [_ [_ [G3 [G4 _]]]].
  destruct (upd_string conv TPTYN (gd g) (eb g) (ed g) (Z.to_nat (4 * p + 2)) s1) as [s2 c2] eqn:U2. cbn [fst snd] in *.
  unfold text_event, emit. rewrite G3, F3, G4, F4.
  change (get_text TPTYN s2) with (ptyn s2). change (get_text TPTYN s) with (ptyn s).
  destruct c1, c2; cbn [b2z orb Z.lor]; decide_atoms; unfold ev_call;
    cbn [fst snd map ev_field ev_cb ev_arg ev_ud arg_vals field_idx app]; rewrite ?app_nil_r;
    first [reflexivity | exfalso; lia].
Qed.

(* ---------- group 0 ---------- *)
Lemma af_set_bytes a v a' r : bytes a -> 0 <= v < 256 -> af_set a v = Some (a', r) -> bytes a'.
Proof.
  intros [L B] Hv. unfold af_set. destruct (af_ok v); [|intros H; injection H as <- _; split; assumption].
  destruct (nth_error a (Z.to_nat (v / 8))) as [byte|] eqn:En; [|discriminate].
  intros H. injection H as <- _. split; [rewrite upd_length; exact L|].
  apply Forall_upd; [exact B|].
  pose proof (Forall_nth_error _ _ _ _ B En) as Hb. cbv beta in Hb.
  destruct (byte_facts byte (v mod 8) Hb ltac:(pose proof (Z.mod_pos_bound v 8); lia)) as [_ [R _]]. exact R.
Qed.

Lemma add_af_frame v s : bytes (d_af (used s)) -> bytes (d_af (temp s)) -> 0 <= v < 256 ->
  let s' := fst (add_af v s) in
  bytes (d_af (used s')) /\ bytes (d_af (temp s')) /\ ext s' = ext s /\ cb s' = cb s /\ ud s' = ud s
  /\ (forall f, getf f (temp s') = getf f (temp s) /\ getf f (used s') = getf f (used s))
  /\ ps s' = ps s.
Proof.
  intros Bu Bt Hv. unfold add_af, buffer_add_af.
  assert (K : forall s0 : state, d_af (used s0) = d_af (used s) \/ bytes (d_af (used s0)) ->
                         d_af (temp s0) = d_af (temp s) \/ bytes (d_af (temp s0)) ->
                         bytes (d_af (used s0)) /\ bytes (d_af (temp s0))).
  { intros s0 [->|H1] [->|H2]; split; assumption. }
  destruct (negb (af_get (d_af (used s)) v)).
  2:{ cbn [fst snd]. destruct (K s (or_introl eq_refl) (or_introl eq_refl)) as [K1 K2].
      split; [exact K1|]. split; [exact K2|]. repeat split; reflexivity. }
  destruct (ext s && negb (af_get (d_af (temp s)) v)).
  - destruct (af_set (d_af (temp s)) v) as [[a r]|] eqn:E; cbn [fst].
    + pose proof (af_set_bytes _ _ _ _ Bt Hv E) as B'.
      split; [exact Bu|]. split; [exact B'|]. repeat split; try reflexivity; destruct f; reflexivity.
    + split; [exact Bu|]. split; [exact Bt|]. repeat split; reflexivity.
  - destruct (af_set (d_af (used s)) v) as [[a r]|] eqn:E.
    + pose proof (af_set_bytes _ _ _ _ Bu Hv E) as B'. destruct r; cbn [fst];
        (split; [exact B'|]; split; [exact Bt|]; repeat split; try reflexivity; destruct f; reflexivity).
    + cbn [fst]. split; [exact Bu|]. split; [exact Bt|]. repeat split; reflexivity.
Qed.

Theorem mid_group0_parse : forall g flag s evs, wf_group g -> length (ps s) = 8%nat ->
  bytes (d_af (used s)) -> bytes (d_af (temp s)) ->
  m_group0_parse (d_af (temp s)) (getf SMs (temp s)) (getf STa (temp s))
                 (d_af (used s)) (getf SMs (used s)) (getf STa (used s)) (b2z (ext s))
                 (cb s FAF) (cb s FMS) (cb s FPS) (cb s FTA) (corr_tab s) evs (prog_tab s)
                 (contents (ps s)) (levels (ps s)) (ud s)
                 (ga g) (gb g) (gc g) (gd g) (ea g) (eb g) (ec g) (ed g) flag
  = let r := group0_parse conv g flag s in
    let s' := fst r in
    (0, d_af (temp s'), getf SMs (temp s'), getf STa (temp s'),
        d_af (used s'), getf SMs (used s'), getf STa (used s'),
        evs ++ map ev_call (snd r), contents (ps s'), levels (ps s')).
Proof.
  intros g flag s evs W L Bu Bt. pose proof W as W0.
  destruct W as [Wa [Wb [Wc [Wd [Ea [Eb [Ec Ed]]]]]]]. unfold blk_ok, err_ok in *.
  unfold m_group0_parse. cbv zeta.
  rewrite (leaf_get_ta _ _ _ _ Wb), (leaf_get_ms _ _ _ _ Wb), (leaf_get_ps_pos _ _ _ _ Wb),
          (leaf_get_af1 _ _ _ _ Wc), (leaf_get_af2 _ _ _ _ Wc), (get_ps_pos_spec _ Wb).
  change (to_u8 0) with 0. change (to_u8 3) with 3. change (to_u32 0) with 0.
  unfold group0_parse. rewrite (get_ps_pos_spec _ Wb).
  set (ta := get_ta (gb g)). set (ms := get_ms (gb g)).
  set (p := gb g mod 4). assert (P : 0 <= p < 4) by (apply Z.mod_pos_bound; lia).
  assert (E1 : to_u8 (2 * p) = Z.of_nat (Z.to_nat (2 * p))) by (rewrite Z2Nat.id by lia; apply to_u8_small; lia).
  rewrite E1.
  (* the state after the TA / MS part *)
  set (A := when (eb g =? 0) (andthen (set_scalar STa ta) (set_scalar SMs ms))).
  set (s2 := fst (A s)).
  assert (S2 : getf STa (temp s2) = (if eb g =? 0 then getf STa (temp (fst (set_scalar STa ta s))) else getf STa (temp s))
            /\ getf STa (used s2) = (if eb g =? 0 then getf STa (used (fst (set_scalar STa ta s))) else getf STa (used s))
            /\ getf SMs (temp s2) = (if eb g =? 0 then getf SMs (temp (fst (set_scalar SMs ms (fst (set_scalar STa ta s))))) else getf SMs (temp s))
            /\ getf SMs (used s2) = (if eb g =? 0 then getf SMs (used (fst (set_scalar SMs ms (fst (set_scalar STa ta s))))) else getf SMs (used s))
            /\ snd (A s) = (if eb g =? 0 then snd (set_scalar STa ta s) ++ snd (set_scalar SMs ms (fst (set_scalar STa ta s))) else [])
            /\ ext s2 = ext s /\ cb s2 = cb s /\ ud s2 = ud s /\ corr s2 = corr s /\ prog s2 = prog s /\ ps s2 = ps s
            /\ d_af (temp s2) = d_af (temp s) /\ d_af (used s2) = d_af (used s)).
  { unfold s2, A. destruct (eb g =? 0); rewrite ?when_true, ?when_false; rewrite ?andthen_fst, ?andthen_snd;
      cbn [skip fst snd]; frames; repeat split; reflexivity. }
  destruct S2 as [T1 [T2 [T3 [T4 [T5 [X1 [X2 [X3 [X4 [X5 [X6 [X7 X8]]]]]]]]]]]].
  (* the two setters *)
  pose proof (mid_set_scalar STa ta s evs) as H1. cbv zeta in H1. cbn [m_set field_of] in H1. rewrite H1. clear H1.
  pose proof (mid_set_scalar SMs ms (fst (set_scalar STa ta s)) (evs ++ map ev_call (snd (set_scalar STa ta s)))) as H2.
  cbv zeta in H2. cbn [m_set field_of] in H2. frames_in H2. rewrite H2. clear H2.
  (* the PS cells *)
  rewrite <- (corr_tab_ext _ _ X4), <- (prog_tab_ext _ _ X5), <- X6.
  change (ps s2) with (get_text TPS s2).
  rewrite (use_upd TPS 0 3 g s2 (Z.to_nat (2 * p)) eq_refl W0 (or_intror eq_refl))
    by (change (get_text TPS s2) with (ps s2); rewrite ?X6; lia).
  cbn [Z.eqb Pos.eqb]. cbv zeta.
  destruct (upd_string_frame TPS (gd g) (eb g) (ed g) (Z.to_nat (2 * p)) s2) as [_ [_ [F3 [F4 [F5 [F6 [F7 _]]]]]]].
  set (B := fun s0 : state => let (s', chg) := upd_string conv TPS (gd g) (eb g) (ed g) (Z.to_nat (2 * p)) s0 in
                               (s', text_event FPS ANone TPS chg s')).
  assert (S3 : fst (B s2) = fst (upd_string conv TPS (gd g) (eb g) (ed g) (Z.to_nat (2 * p)) s2)
            /\ snd (B s2) = text_event FPS ANone TPS (snd (upd_string conv TPS (gd g) (eb g) (ed g) (Z.to_nat (2 * p)) s2))
                                      (fst (upd_string conv TPS (gd g) (eb g) (ed g) (Z.to_nat (2 * p)) s2))).
  { unfold B. destruct (upd_string conv TPS (gd g) (eb g) (ed g) (Z.to_nat (2 * p)) s2); split; reflexivity. }
  destruct S3 as [S3a S3b].
  destruct (upd_string conv TPS (gd g) (eb g) (ed g) (Z.to_nat (2 * p)) s2) as [s3 chg] eqn:U. cbn [fst snd] in *.
  (* the AF part, at s3 *)
  assert (Bu3 : bytes (d_af (used s3))) by (rewrite F6, X8; exact Bu).
  assert (Bt3 : bytes (d_af (temp s3))) by (rewrite F7, X7; exact Bt).
  assert (R1 : 0 <= get_af1 (gc g) < 256).
  { unfold get_af1. rewrite Z.shiftr_div_pow2 by lia. change (2 ^ 8) with 256. split; [apply Z.div_pos; lia|apply Z.div_lt_upper_bound; lia]. }
  assert (R2 : 0 <= get_af2 (gc g) < 256).
  { unfold get_af2. change 255 with (Z.ones 8). rewrite Z.land_ones by lia. apply Z.mod_pos_bound. lia. }
  set (a1 := get_af1 (gc g)) in *. set (a2 := get_af2 (gc g)) in *.
  destruct (add_af_frame a1 s3 Bu3 Bt3 R1) as [Bu4 [Bt4 [Y1 [Y2 [Y3 [Y4 Y5]]]]]].
  destruct (add_af_frame a2 (fst (add_af a1 s3)) Bu4 Bt4 R2) as [_ [_ [Z1 [Z2 [Z3 [Z4 Z5]]]]]].
  assert (M1 : forall e, m_add_af (d_af (temp s)) (d_af (used s)) (b2z (ext s)) (cb s FAF) e (ud s) a1
               = (0, d_af (temp (fst (add_af a1 s3))), d_af (used (fst (add_af a1 s3))), e ++ map ev_call (snd (add_af a1 s3)))).
  { intros e. pose proof (mid_add_af a1 s3 e Bu3 Bt3 R1) as H. cbv zeta in H.
    rewrite F7, X7, F6, X8, F5, X1, F3, X2, F4, X3 in H. exact H. }
  assert (M2 : forall e, m_add_af (d_af (temp (fst (add_af a1 s3)))) (d_af (used (fst (add_af a1 s3)))) (b2z (ext s)) (cb s FAF) e (ud s) a2
               = (0, d_af (temp (fst (add_af a2 (fst (add_af a1 s3))))), d_af (used (fst (add_af a2 (fst (add_af a1 s3))))),
                  e ++ map ev_call (snd (add_af a2 (fst (add_af a1 s3)))))).
  { intros e. pose proof (mid_add_af a2 (fst (add_af a1 s3)) e Bu4 Bt4 R2) as H. cbv zeta in H.
    rewrite Y1, F5, X1, Y2, F3, X2, Y3, F4, X3 in H. exact H. }
  rewrite M1. rewrite M2.
  (* put the model side in the same shape *)
  rewrite !andthen_fst, !andthen_snd. fold s2. rewrite S3a, S3b. rewrite T5.
  unfold group0a_parse, text_event, emit. rewrite F3, X2, F4, X3.
  change (get_text TPS s3) with (ps s3).
  assert (Q : forall f, getf f (temp s3) = getf f (temp s2) /\ getf f (used s3) = getf f (used s2))
    by (intros f; rewrite F6, F7; split; reflexivity).
  destruct (Q STa) as [Q1 Q2]. destruct (Q SMs) as [Q3 Q4].
  destruct (Y4 STa) as [Y41 Y42]. destruct (Y4 SMs) as [Y43 Y44].
  destruct (Z4 STa) as [Z41 Z42]. destruct (Z4 SMs) as [Z43 Z44].
  subst a1 a2.
  destruct (eb g =? 0) eqn:Eb0; destruct (flag =? 0) eqn:Fl; destruct (ec g =? 0) eqn:Ec0;
    destruct (get_af1 (gc g) =? 250) eqn:A250; destruct chg; cbn [b2z andb negb]; cbv iota;
    repeat (progress (cbn [andb negb skip fst snd app map]; rewrite ?when_true, ?when_false, ?andthen_fst, ?andthen_snd));
    fold s2; rewrite ?S3a;
    rewrite ?Z41, ?Z42, ?Z43, ?Z44, ?Z5, ?Y41, ?Y42, ?Y43, ?Y44, ?Y5, ?Q1, ?Q2, ?Q3, ?Q4, ?T1, ?T2, ?T3, ?T4, ?F6, ?F7, ?X7, ?X8;
    decide_atoms; unfold ev_call; cbn [map ev_field ev_cb ev_arg ev_ud arg_vals field_idx app];
    rewrite ?map_app, ?app_nil_r, <- ?app_assoc; cbn [app];
    first [reflexivity | exfalso; lia].
Qed.
End Conv.
