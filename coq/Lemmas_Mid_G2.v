(* Lemmas_Mid_G2.v — RadioText (src/group2.c: rdsparser_group2_parse; src/string.c:
   rdsparser_string_get_available, rdsparser_string_clear — loops over the buffer, translated as
   folds over the index range), translated on every run (GenMid.v), against the model's
   group2_parse, string_available and string_clear. *)
Require Export Lemmas_Mid_Groups Lemmas_Leaf_C08.
Require Import ZifyBool.
Local Open Scope Z_scope.

Lemma seq_snoc k : seq 0 (S k) = seq 0 k ++ [k].
Proof. rewrite seq_S. reflexivity. Qed.

Lemma nth_levels t k c : nth_error t k = Some c -> nth k (levels t) 0 = lv c.
Proof. intros H. unfold levels. apply nth_error_nth. rewrite nth_error_map, H. reflexivity. Qed.

Lemma existsb_firstn_snoc {A} (p : A -> bool) l k x : nth_error l k = Some x ->
  existsb p (firstn (S k) l) = existsb p (firstn k l) || p x.
Proof.
  revert k; induction l as [|h r IH]; intros [|k] H; cbn in *; try discriminate.
  - injection H as ->. destruct (p x); reflexivity.
  - rewrite (IH k H). destruct (p h); reflexivity.
Qed.

Theorem mid_get_available : forall t, (length t < 256)%nat ->
  m_string_get_available (levels t) (Z.of_nat (length t)) = b2z (string_available t).
Proof.
  intros t L. unfold m_string_get_available, string_available. cbv zeta.
  change (to_u8 0) with 0. rewrite Z.sub_0_r.
  assert (U : to_u8 (Z.of_nat (length t)) = Z.of_nat (length t)) by (unfold to_u8; apply Z.mod_small; lia).
  rewrite U, Nat2Z.id.
  match goal with |- context [fold_left ?F _ ?I] => set (F0 := F) end.
  assert (G : forall k, (k <= length t)%nat ->
            fold_left F0 (map (fun k_ => 0 + Z.of_nat k_) (seq 0 k)) (0, 0)
            = if existsb (fun c => negb (lv c =? 10)) (firstn k t) then (1, 1) else (0, 0)).
  { induction k as [|k IH]; intros Hk; [reflexivity|].
    rewrite seq_snoc, map_app, fold_left_app, IH by lia. cbn [map fold_left].
    destruct (nth_error t k) as [c|] eqn:En; [|apply nth_error_None in En; lia].
    rewrite (existsb_firstn_snoc _ _ _ _ En).
    destruct (existsb (fun c0 => negb (lv c0 =? 10)) (firstn k t)); unfold F0; cbn [orb]; [reflexivity|].
    cbn [Z.eqb]. rewrite Z.add_0_l, Nat2Z.id, (nth_levels t k c En).
    destruct (lv c =? 10); reflexivity. }
  rewrite (G (length t) (le_n _)), firstn_all.
  destruct (existsb (fun c => negb (lv c =? 10)) t); reflexivity.
Qed.

Lemma upd_fill {A} (a : A) (l : list A) k : (k < length l)%nat ->
  upd k a (repeat a k ++ skipn k l) = repeat a (S k) ++ skipn (S k) l.
Proof.
  revert l; induction k as [|k IH]; intros l H; destruct l as [|h r]; cbn in *; try lia; [reflexivity|].
  rewrite (IH r) by lia. reflexivity.
Qed.
Lemma map_const_repeat {A B} (b : B) (l : list A) : map (fun _ => b) l = repeat b (length l).
Proof. induction l as [|h r IH]; cbn; [reflexivity|rewrite IH; reflexivity]. Qed.

Theorem mid_string_clear : forall t, (length t < 256)%nat ->
  m_string_clear (contents t) (levels t) (Z.of_nat (length t))
  = (0, contents (string_clear t), levels (string_clear t)).
Proof.
  intros t L. unfold m_string_clear. cbv zeta.
  change (to_u8 0) with 0. change (to_u8 10) with 10. rewrite Z.sub_0_r.
  assert (U : to_u8 (Z.of_nat (length t)) = Z.of_nat (length t)) by (unfold to_u8; apply Z.mod_small; lia).
  rewrite U, Nat2Z.id.
  match goal with |- context [fold_left ?F _ ?I] => set (F0 := F) end.
  assert (Lc : length (contents t) = length t) by (unfold contents; apply map_length).
  assert (Le : length (levels t) = length t) by (unfold levels; apply map_length).
  assert (G : forall k, (k <= length t)%nat ->
            fold_left F0 (map (fun k_ => 0 + Z.of_nat k_) (seq 0 k)) (0, 0, contents t, levels t)
            = (0, 0, repeat 32 k ++ skipn k (contents t), repeat 10 k ++ skipn k (levels t))).
  { induction k as [|k IH]; intros Hk; [reflexivity|].
    rewrite seq_snoc, map_app, fold_left_app, IH by lia. cbn [map fold_left].
    unfold F0. cbn [Z.eqb]. rewrite Z.add_0_l, Nat2Z.id.
    rewrite !upd_fill by lia. reflexivity. }
  rewrite (G (length t) (le_n _)).
  rewrite <- Lc at 2. rewrite <- Le at 3. rewrite !skipn_all, !app_nil_r.
  unfold string_clear, contents, levels. rewrite !map_map. cbn [ch lv empty_cell].
  rewrite !map_const_repeat. reflexivity.
Qed.

(* normalise a hypothesis about a concrete state built from s by with_last_rt / set_text *)
Ltac norm_state H :=
  cbn [get_text set_text with_last_rt with_rt0 with_rt1 rt0 rt1 last_rt cb ud] in H.

Section Conv.
Variable conv : Z -> Z.
Hypothesis conv_code : forall x, 32 <= x < 256 -> m_string_convert x = conv x.

Lemma upd_string_last sl w ei ed pos s : last_rt (fst (upd_string conv sl w ei ed pos s)) = last_rt s.
Proof.
  unfold upd_string. destruct ((ei <=? _) && _); [|reflexivity].
  destruct (string_update conv _ _ _ _ _ _ _) as [[t' chg]|]; destruct sl; reflexivity.
Qed.

(* the second half of the group — one or two cell pairs of the chosen buffer, then the callback —
   at the model's state s1 after the A/B decision *)
Ltac g2_tail s0 sl s1 g flag p W0 P :=
  let LEN := fresh "LEN" in
  assert (LEN : length (get_text sl s1) = 64%nat)
    by (cbn [get_text set_text with_last_rt with_rt0 with_rt1 rt0 rt1]; unfold string_clear; rewrite ?map_length; assumption);
  destruct (flag =? 0);
  [ (* version A: block C, then block D two cells further *)
    let H1 := fresh "H" in
    pose proof (use_upd conv conv_code sl 1 2 g s1 (Z.to_nat (4 * p)) eq_refl W0 (or_introl eq_refl)
                        ltac:(rewrite LEN; lia) ltac:(lia)) as H1;
    cbn [Z.eqb Pos.eqb] in H1; cbv zeta in H1;
    try rewrite (corr_tab_ext s0 s1 eq_refl) in H1; try rewrite (prog_tab_ext s0 s1 eq_refl) in H1; norm_state H1; rewrite H1; clear H1;
    let F := fresh "F" in
    pose proof (upd_string_frame conv sl (gc g) (eb g) (ec g) (Z.to_nat (4 * p)) s1) as F; cbv zeta in F;
    destruct F as [F1 [F2 [F3 [F4 [_ [_ [_ [F8 F9]]]]]]]];
    let FL := fresh "FL" in
    pose proof (upd_string_last sl (gc g) (eb g) (ec g) (Z.to_nat (4 * p)) s1) as FL;
    destruct (upd_string conv sl (gc g) (eb g) (ec g) (Z.to_nat (4 * p)) s1) as [s2 c1]; cbn [fst snd] in *;
    let H2 := fresh "H" in
    pose proof (use_upd conv conv_code sl 1 3 g s2 (Z.to_nat (4 * p + 2)) eq_refl W0 (or_intror eq_refl)
                        ltac:(rewrite F9, LEN; lia) ltac:(lia)) as H2;
    cbn [Z.eqb Pos.eqb] in H2; cbv zeta in H2;
    rewrite (corr_tab_ext _ _ F1), (prog_tab_ext _ _ F2) in H2;
    try rewrite (corr_tab_ext s0 s1 eq_refl) in H2; try rewrite (prog_tab_ext s0 s1 eq_refl) in H2; norm_state H2;
    try (change (get_text sl s2) with (rt0 s2) in H2); try (change (get_text sl s2) with (rt1 s2) in H2);
    rewrite H2; clear H2;
    let G := fresh "G" in
    pose proof (upd_string_frame conv sl (gd g) (eb g) (ed g) (Z.to_nat (4 * p + 2)) s2) as G; cbv zeta in G;
    destruct G as [_ [_ [G3 [G4 [_ [_ [_ [G8 _]]]]]]]];
    let GL := fresh "GL" in
    pose proof (upd_string_last sl (gd g) (eb g) (ed g) (Z.to_nat (4 * p + 2)) s2) as GL;
    destruct (upd_string conv sl (gd g) (eb g) (ed g) (Z.to_nat (4 * p + 2)) s2) as [s3 c2]; cbn [fst snd] in *;
    unfold text_event, emit; rewrite G3, F3, G4, F4, GL, FL;
    first [ assert (O2 : rt1 s3 = rt1 s2) by (apply (G8 TRT1); discriminate);
            assert (O1 : rt1 s2 = rt1 s1) by (apply (F8 TRT1); discriminate); rewrite O2, O1
          | assert (O2 : rt0 s3 = rt0 s2) by (apply (G8 TRT0); discriminate);
            assert (O1 : rt0 s2 = rt0 s1) by (apply (F8 TRT0); discriminate); rewrite O2, O1 ]
  | (* version B: block D only *)
    let H2 := fresh "H" in
    pose proof (use_upd conv conv_code sl 1 3 g s1 (Z.to_nat (2 * p)) eq_refl W0 (or_intror eq_refl)
                        ltac:(rewrite LEN; lia) ltac:(lia)) as H2;
    cbn [Z.eqb Pos.eqb] in H2; cbv zeta in H2;
    try rewrite (corr_tab_ext s0 s1 eq_refl) in H2; try rewrite (prog_tab_ext s0 s1 eq_refl) in H2; norm_state H2; rewrite H2; clear H2;
    let G := fresh "G" in
    pose proof (upd_string_frame conv sl (gd g) (eb g) (ed g) (Z.to_nat (2 * p)) s1) as G; cbv zeta in G;
    destruct G as [_ [_ [G3 [G4 [_ [_ [_ [G8 _]]]]]]]];
    let GL := fresh "GL" in
    pose proof (upd_string_last sl (gd g) (eb g) (ed g) (Z.to_nat (2 * p)) s1) as GL;
    destruct (upd_string conv sl (gd g) (eb g) (ed g) (Z.to_nat (2 * p)) s1) as [s3 c2]; cbn [fst snd] in *;
    unfold text_event, emit; rewrite G3, G4, GL;
    first [ assert (O2 : rt1 s3 = rt1 s1) by (apply (G8 TRT1); discriminate); rewrite O2
          | assert (O2 : rt0 s3 = rt0 s1) by (apply (G8 TRT0); discriminate); rewrite O2 ];
    match goal with |- context [m_parser_update_string ?a ?b ?c ?d ?e ?f ?g0 ?h ?i ?j ?k ?l ?m ?n ?o] =>
      destruct (m_parser_update_string a b c d e f g0 h i j k l m n o) as [[? ?] ?] end ];
  cbn [get_text set_text with_last_rt with_rt0 with_rt1 rt0 rt1 last_rt cb ud];
  repeat match goal with c : bool |- _ => destruct c end;
  cbn [b2z orb Z.lor]; decide_atoms; unfold ev_call;
  cbn [fst snd map ev_field ev_cb ev_arg ev_ud arg_vals field_idx app]; rewrite ?app_nil_r;
  first [reflexivity | exfalso; lia].

Theorem mid_group2_parse : forall g flag s evs, wf_group g ->
  length (rt0 s) = 64%nat -> length (rt1 s) = 64%nat ->
  m_group2_parse (cb s FRT) (corr_tab s) evs (last_rt s) (prog_tab s)
                 (contents (rt0 s)) (levels (rt0 s)) 64 (contents (rt1 s)) (levels (rt1 s)) 64 (ud s)
                 (ga g) (gb g) (gc g) (gd g) (ea g) (eb g) (ec g) (ed g) flag
  = let r := group2_parse conv g flag s in
    let s' := fst r in
    (0, evs ++ map ev_call (snd r), last_rt s', contents (rt0 s'), levels (rt0 s'), contents (rt1 s'), levels (rt1 s')).
Proof.
  intros g flag s evs W L0 L1. pose proof W as W0.
  destruct W as [Wa [Wb [Wc [Wd [Ea [Eb [Ec Ed]]]]]]]. unfold blk_ok, err_ok in *.
  unfold m_group2_parse, group2_parse. cbv zeta.
  rewrite (leaf_get_rt_flag _ _ _ _ Wb), (leaf_get_rt_pos _ _ _ _ Wb), (get_rt_pos_spec _ Wb).
  change (to_u8 1) with 1. change (to_u8 2) with 2. change (to_u8 3) with 3. change (to_u32 0) with 0.
  assert (Rf : get_rt_flag (gb g) = 0 \/ get_rt_flag (gb g) = 1).
  { rewrite (get_rt_flag_spec _ Wb). unfold b_rtflag. pose proof (Z.mod_pos_bound (gb g / 16) 2). lia. }
  set (p := gb g mod 16). assert (P : 0 <= p < 16) by (apply Z.mod_pos_bound; lia).
  pose proof (mid_get_available (rt0 s) ltac:(lia)) as A0. rewrite L0 in A0. change (Z.of_nat 64) with 64 in A0.
  pose proof (mid_get_available (rt1 s) ltac:(lia)) as A1. rewrite L1 in A1. change (Z.of_nat 64) with 64 in A1.
  pose proof (mid_string_clear (rt0 s) ltac:(lia)) as C0. rewrite L0 in C0. change (Z.of_nat 64) with 64 in C0.
  pose proof (mid_string_clear (rt1 s) ltac:(lia)) as C1. rewrite L1 in C1. change (Z.of_nat 64) with 64 in C1.
  assert (E1 : to_u8 (4 * p) = Z.of_nat (Z.to_nat (4 * p))) by (rewrite Z2Nat.id by lia; apply to_u8_small; lia).
  assert (E2 : to_u8 (to_u8 (4 * p) + 2) = Z.of_nat (Z.to_nat (4 * p + 2)))
    by (rewrite Z2Nat.id by lia; rewrite (to_u8_small (4 * p)) by lia; apply to_u8_small; lia).
  assert (E3 : to_u8 (2 * p) = Z.of_nat (Z.to_nat (2 * p))) by (rewrite Z2Nat.id by lia; apply to_u8_small; lia).
  rewrite E2, E1, E3.
  assert (S80 : to_s8 0 = 0) by reflexivity. assert (S81 : to_s8 1 = 1) by reflexivity.
  destruct Rf as [Rf|Rf]; rewrite Rf; change (0 =? 0) with true; change (1 =? 0) with false; cbv iota;
    rewrite ?A0, ?A1, ?C0, ?C1, ?S80, ?S81.
  - (* text A *)
    destruct (eb g =? 0) eqn:Eb0; destruct (0 =? last_rt s) eqn:Lr; destruct (last_rt s =? -1) eqn:Lu;
      destruct (string_available (rt0 s)) eqn:Av; cbn [negb andb b2z]; cbv iota;
      change (get_text TRT0 s) with (rt0 s); rewrite ?Av; cbn [negb andb b2z]; change (1 =? 0) with false; change (0 =? 0) with true; cbn [negb andb]; cbv iota;
      cbn [last_rt with_last_rt set_text with_rt0]; rewrite ?Lr, ?Lu; change (0 =? 0) with true; change (0 =? -1) with false;
      cbn [negb andb]; cbv iota;
      try (cbn [fst snd map app last_rt rt0 rt1 with_last_rt set_text with_rt0 with_rt1]; rewrite ?app_nil_r; reflexivity).
    all: match goal with
         | W1 : wf_group ?gg, Pp : 0 <= ?pp < 16 |- context [upd_string _ TRT0 (gc ?gg) _ _ _ ?s1] =>
           match goal with |- context [?fl =? 0] => is_var fl; match goal with |- context [corr_tab ?s0] => is_var s0; g2_tail s0 TRT0 s1 gg fl pp W1 Pp end end
         end.
  - (* text B *)
    destruct (eb g =? 0) eqn:Eb0; destruct (1 =? last_rt s) eqn:Lr; destruct (last_rt s =? -1) eqn:Lu;
      destruct (string_available (rt1 s)) eqn:Av; cbn [negb andb b2z]; cbv iota;
      change (get_text TRT1 s) with (rt1 s); rewrite ?Av; cbn [negb andb b2z]; change (1 =? 0) with false; change (0 =? 0) with true; cbn [negb andb]; cbv iota;
      cbn [last_rt with_last_rt set_text with_rt1]; rewrite ?Lr, ?Lu; change (1 =? 1) with true; change (1 =? -1) with false;
      cbn [negb andb]; cbv iota;
      try (cbn [fst snd map app last_rt rt0 rt1 with_last_rt set_text with_rt0 with_rt1]; rewrite ?app_nil_r; reflexivity).
    all: match goal with
         | W1 : wf_group ?gg, Pp : 0 <= ?pp < 16 |- context [upd_string _ TRT1 (gc ?gg) _ _ _ ?s1] =>
           match goal with |- context [?fl =? 0] => is_var fl; match goal with |- context [corr_tab ?s0] => is_var s0; g2_tail s0 TRT1 s1 gg fl pp W1 Pp end end
         end.
Qed.
End Conv.
