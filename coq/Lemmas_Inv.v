(* Lemmas_Inv.v — the global invariant of reachable states: buffer shapes, no fault (no index
   ever leaves its array), thresholds clamped, well-formed cells.  Basis of C05, C13, C16. *)
Require Export Lemmas_Reach.
Require Import ZifyBool.
Local Open Scope Z_scope.
Ltac Zify.zify_post_hook ::= Z.div_mod_to_equations.

Lemma Forall_upd {A} (P : A -> Prop) l i x : Forall P l -> P x -> Forall P (upd i x l).
Proof.
  revert i; induction l as [|h t IH]; intros [|i] Hl Hx; simpl; auto;
    inversion Hl; subst; constructor; auto.
Qed.
Lemma Forall_nth_error {A} (P : A -> Prop) l i x : Forall P l -> nth_error l i = Some x -> P x.
Proof. intros Hl Hn. rewrite Forall_forall in Hl. apply Hl. eapply nth_error_In; eauto. Qed.

Lemma calc_error_range ei ed : 0 <= ei <= 2 -> 0 <= ed <= 2 -> 0 <= calc_error ei ed <= 9.
Proof. intros H1 H2. unfold calc_error, to_u8. destruct (_ =? 0) eqn:E; lia. Qed.

Section Inv.
Variable conv : Z -> Z.
Variable lut : Z -> Z -> Z.

Definition cell_ok (c : cell) : Prop :=
  0 <= lv c <= 10 /\ (lv c = 10 -> ch c = 32 /\ rx c = false) /\ (lv c <> 10 -> rx c = true)
  /\ (ch c = 0 \/ ch c = 32 \/ exists b, 32 <= b < 256 /\ conv b = ch c).
Definition text_ok (n : nat) (t : text) : Prop := length t = n /\ Forall cell_ok t.

Record Inv (s : state) : Prop := mkInv {
  inv_ps : text_ok 8 (ps s); inv_rt0 : text_ok 64 (rt0 s);
  inv_rt1 : text_ok 64 (rt1 s); inv_ptyn : text_ok 8 (ptyn s);
  inv_afu : length (d_af (used s)) = 26%nat; inv_aft : length (d_af (temp s)) = 26%nat;
  inv_fault : fault s = false;
  inv_corr : forall t k, 0 <= corr s t k <= 2;
  inv_last : last_rt s = -1 \/ last_rt s = 0 \/ last_rt s = 1
}.

Lemma empty_cell_ok : cell_ok empty_cell.
Proof. unfold cell_ok, empty_cell; cbn. repeat split; try lia; auto. Qed.

Lemma string_clear_ok n t : length t = n -> text_ok n (string_clear t).
Proof.
  intros Hl. split.
  - unfold string_clear. rewrite map_length. exact Hl.
  - unfold string_clear. apply Forall_forall. intros x Hx. apply in_map_iff in Hx.
    destruct Hx as [y [Hy _]]. subst. apply empty_cell_ok.
Qed.
Lemma string_init_ok n : text_ok n (string_init n).
Proof.
  split; [apply repeat_length|]. apply Forall_forall. intros x Hx.
  apply repeat_spec in Hx. subst. apply empty_cell_ok.
Qed.
Lemma string_clear_is_init n t : length t = n -> string_clear t = string_init n.
Proof.
  intros <-. unfold string_clear, string_init. induction t as [|c r IH]; simpl; [reflexivity|].
  f_equal. exact IH.
Qed.

(* one character: never out of the buffer, result well-formed *)
Lemma update_single_ok n t inp ei ed pos pr :
  text_ok n t -> (pos < n)%nat -> 0 <= ei <= 2 -> 0 <= ed <= 2 -> 0 <= inp < 256 ->
  exists t' c, update_single conv t inp ei ed pos pr = Some (t', c) /\ text_ok n t'.
Proof.
  intros [Hl Hf] Hp Hei Hed Hin. unfold update_single.
  destruct (nth_error t pos) as [c|] eqn:Hn.
  2:{ apply nth_error_None in Hn. lia. }
  pose proof (Forall_nth_error _ _ _ _ Hf Hn) as Hc.
  pose proof (calc_error_range ei ed Hei Hed) as Hr.
  destruct (pr && (lv c <? calc_error ei ed)); [eexists _, _; split; [reflexivity|split; assumption]|].
  destruct ((inp =? 13) && negb ((ei =? 0) && (ed =? 0))); [eexists _, _; split; [reflexivity|split; assumption]|].
  destruct (negb (inp =? 13) && (inp <? 32)) eqn:Hlow; [eexists _, _; split; [reflexivity|split; assumption]|].
  destruct ((127 <=? inp) && negb ((ei =? 0) && (ed =? 0))); [eexists _, _; split; [reflexivity|split; assumption]|].
  destruct Hc as [Hc1 [Hc2 [Hc3 Hc4]]].
  destruct ((ch c =? convert conv inp) && (lv c <=? calc_error ei ed)) eqn:Hsame.
  - eexists _, _; split; [reflexivity|]. split; [rewrite upd_length; exact Hl|].
    apply Forall_upd; [exact Hf|]. unfold cell_ok; cbn.
    apply andb_true_iff in Hsame. destruct Hsame as [_ Hle]. apply Z.leb_le in Hle.
    repeat split; try lia; auto; try (intros; lia).
  - eexists _, _; split; [reflexivity|]. split; [rewrite upd_length; exact Hl|].
    apply Forall_upd; [exact Hf|]. unfold cell_ok; cbn.
    repeat split; try lia; auto; try (intros; lia).
    unfold convert. destruct (inp =? 13) eqn:E13; [left; reflexivity|].
    right; right. exists inp. split; [|reflexivity].
    cbn in Hlow. apply Z.ltb_ge in Hlow. lia.
Qed.

Lemma string_update_ok n t b0 b1 ei ed pos pr :
  text_ok n t -> (S pos < n)%nat -> 0 <= ei <= 2 -> 0 <= ed <= 2 -> 0 <= b0 < 256 -> 0 <= b1 < 256 ->
  exists t' c, string_update conv t b0 b1 ei ed pos pr = Some (t', c) /\ text_ok n t'.
Proof.
  intros Ht Hp Hei Hed H0 H1. unfold string_update.
  destruct (update_single_ok n t b0 ei ed pos pr Ht ltac:(lia) Hei Hed H0) as [t1 [c1 [E1 Ht1]]].
  rewrite E1.
  destruct (update_single_ok n t1 b1 ei ed (S pos) pr Ht1 Hp Hei Hed H1) as [t2 [c2 [E2 Ht2]]].
  rewrite E2. eexists _, _; split; [reflexivity|exact Ht2].
Qed.

Definition cap (sl : tslot) : nat := match sl with TPS | TPTYN => 8 | TRT0 | TRT1 => 64 end.

Lemma inv_text sl s : Inv s -> text_ok (cap sl) (get_text sl s).
Proof. intros I. destruct sl; cbn; apply I. Qed.

Lemma set_text_inv sl t s : Inv s -> text_ok (cap sl) t -> Inv (set_text sl t s).
Proof. intros I Ht. destruct sl; cbn in *; constructor; cbn; try apply I; exact Ht. Qed.

(* the text update of one block: the threshold gate keeps the error codes within 0..2, the
   positions derived from masked address bits stay inside the buffer *)
Lemma upd_string_inv sl w ei ed pos s :
  Inv s -> 0 <= w < 65536 -> 0 <= ei -> 0 <= ed -> (S pos < cap sl)%nat ->
  Inv (fst (upd_string conv sl w ei ed pos s)).
Proof.
  intros I Hw Hei Hed Hp. unfold upd_string.
  destruct ((ei <=? corr s (tid_of sl) INFO) && (ed <=? corr s (tid_of sl) DATA)) eqn:G; [|exact I].
  apply andb_true_iff in G. destruct G as [G1 G2]. apply Z.leb_le in G1, G2.
  pose proof (inv_corr s I (tid_of sl) INFO). pose proof (inv_corr s I (tid_of sl) DATA).
  pose proof (bits_W w Hw) as Hb. unfold bits_W_ok in Hb. split_andb Hb.
  destruct (string_update_ok (cap sl) (get_text sl s) (hi_byte w) (lo_byte w) ei ed pos (prog s (tid_of sl))
              (inv_text sl s I) Hp ltac:(lia) ltac:(lia) ltac:(lia) ltac:(lia)) as [t' [c [E Ht']]].
  rewrite E. cbn [fst]. apply set_text_inv; assumption.
Qed.

Lemma with_used_inv d s : Inv s -> length (d_af d) = 26%nat -> Inv (with_used d s).
Proof. intros I H. constructor; cbn; try apply I. exact H. Qed.
Lemma with_temp_inv d s : Inv s -> length (d_af d) = 26%nat -> Inv (with_temp d s).
Proof. intros I H. constructor; cbn; try apply I. exact H. Qed.
Lemma setf_af f v d : d_af (setf f v d) = d_af d.
Proof. destruct f; reflexivity. Qed.

Lemma set_scalar_inv f v s : Inv s -> Inv (fst (set_scalar f v s)).
Proof.
  intros I. unfold set_scalar, buffer_update.
  destruct (_ || _); cbn [fst].
  - apply with_temp_inv; [exact I|]. rewrite setf_af. apply I.
  - apply with_used_inv; [exact I|]. rewrite setf_af. apply I.
Qed.

Lemma af_set_ok a v : length a = 26%nat -> 0 <= v < 256 ->
  exists a' r, af_set a v = Some (a', r) /\ length a' = 26%nat.
Proof.
  intros Hl Hv. unfold af_set. destruct (af_ok v) eqn:Hok; [|eexists _, _; split; [reflexivity|exact Hl]].
  unfold af_ok in Hok. apply andb_true_iff in Hok. destruct Hok as [H1 H2]. apply Z.leb_le in H1, H2.
  destruct (nth_error a (Z.to_nat (v / 8))) as [byte|] eqn:Hn.
  - eexists _, _; split; [reflexivity|]. rewrite upd_length. exact Hl.
  - apply nth_error_None in Hn. rewrite Hl in Hn.
    assert (v / 8 <= 25) by (apply Z.div_le_upper_bound; lia).
    assert (0 <= v / 8) by (apply Z.div_pos; lia). lia.
Qed.

Lemma add_af_inv v s : Inv s -> 0 <= v < 256 -> Inv (fst (add_af v s)).
Proof.
  intros I Hv. unfold add_af, buffer_add_af.
  destruct (negb (af_get (d_af (used s)) v)); [|exact I].
  destruct (ext s && negb (af_get (d_af (temp s)) v)).
  - destruct (af_set_ok (d_af (temp s)) v (inv_aft s I) Hv) as [a' [r [E Hl]]]. rewrite E. cbn [fst].
    apply with_temp_inv; [exact I|exact Hl].
  - destruct (af_set_ok (d_af (used s)) v (inv_afu s I) Hv) as [a' [r [E Hl]]]. rewrite E. cbn [fst].
    apply with_used_inv; [exact I|exact Hl].
Qed.

(* ---------- composite actions ---------- *)
Definition pres (a : act) : Prop := forall s, Inv s -> Inv (fst (a s)).
Lemma pres_skip : pres skip.
Proof. intros s I. exact I. Qed.
Lemma pres_andthen a b : pres a -> pres b -> pres (andthen a b).
Proof. intros Ha Hb s I. rewrite andthen_fst. apply Hb, Ha, I. Qed.
Lemma pres_when c a : pres a -> pres (when c a).
Proof. intros Ha. destruct c; [exact Ha|apply pres_skip]. Qed.
Lemma pres_set_scalar f v : pres (set_scalar f v).
Proof. intros s I. apply set_scalar_inv, I. Qed.

Lemma with_last_rt_inv v s : Inv s -> (v = 0 \/ v = 1) -> Inv (with_last_rt v s).
Proof. intros I H. constructor; cbn; try apply I. right. exact H. Qed.

Lemma pos2_ok b : 0 <= b < 65536 -> (S (Z.to_nat (2 * get_ps_pos b)) < 8)%nat.
Proof. intros Hb. rewrite (get_ps_pos_spec b Hb). lia. Qed.
Lemma pos_rt4_ok b : 0 <= b < 65536 -> (S (Z.to_nat (4 * get_rt_pos b)) < 64)%nat /\ (S (Z.to_nat (4 * get_rt_pos b + 2)) < 64)%nat.
Proof. intros Hb. rewrite (get_rt_pos_spec b Hb). lia. Qed.
Lemma pos_rt2_ok b : 0 <= b < 65536 -> (S (Z.to_nat (2 * get_rt_pos b)) < 64)%nat.
Proof. intros Hb. rewrite (get_rt_pos_spec b Hb). lia. Qed.
Lemma pos_ptyn_ok b : 0 <= b < 65536 -> (S (Z.to_nat (4 * get_ptyn_pos b)) < 8)%nat /\ (S (Z.to_nat (4 * get_ptyn_pos b + 2)) < 8)%nat.
Proof. intros Hb. rewrite (get_ptyn_pos_spec b Hb). lia. Qed.
Lemma rt_flag_01 b : 0 <= b < 65536 -> get_rt_flag b = 0 \/ get_rt_flag b = 1.
Proof. intros Hb. rewrite (get_rt_flag_spec b Hb). unfold b_rtflag. lia. Qed.

Lemma group2_inv g fl : wf_group g -> pres (group2_parse conv g fl).
Proof.
  intros [Ha [Hb [Hc [Hd [Hea [Heb [Hec Hed]]]]]]] s I. unfold blk_ok, err_ok in *. unfold group2_parse.
  set (rf := get_rt_flag (gb g)). set (sl := if rf =? 0 then TRT0 else TRT1).
  assert (Hcap : cap sl = 64%nat) by (unfold sl; destruct (rf =? 0); reflexivity).
  (* first stage: possible clear, flag update *)
  match goal with |- Inv (fst (let '(s1, chg0) := ?X in _)) => set (st1 := X) end.
  assert (I1 : Inv (fst st1)).
  { unfold st1. destruct ((eb g =? 0) && negb (rf =? last_rt s)); [|exact I].
    destruct (negb (last_rt s =? -1) && string_available (get_text sl s)); cbn [fst].
    - apply with_last_rt_inv; [|apply rt_flag_01; exact Hb].
      apply set_text_inv; [exact I|]. apply string_clear_ok. apply (inv_text sl s I).
    - apply with_last_rt_inv; [exact I|apply rt_flag_01; exact Hb]. }
  destruct st1 as [s1 chg0]. cbn [fst] in I1.
  destruct (negb (eb g =? 0) && negb (rf =? last_rt s1) && negb (last_rt s1 =? -1)); [exact I1|].
  destruct (pos_rt4_ok (gb g) Hb) as [P1 P2]. pose proof (pos_rt2_ok (gb g) Hb) as P3.
  destruct (fl =? 0).
  - pose proof (upd_string_inv sl (gc g) (eb g) (ec g) (Z.to_nat (4 * get_rt_pos (gb g))) s1 I1 Hc ltac:(lia) ltac:(lia) ltac:(rewrite Hcap; exact P1)) as I2.
    destruct (upd_string conv sl (gc g) (eb g) (ec g) (Z.to_nat (4 * get_rt_pos (gb g))) s1) as [s2 c1]. cbn [fst] in I2.
    pose proof (upd_string_inv sl (gd g) (eb g) (ed g) (Z.to_nat (4 * get_rt_pos (gb g) + 2)) s2 I2 Hd ltac:(lia) ltac:(lia) ltac:(rewrite Hcap; exact P2)) as I3.
    destruct (upd_string conv sl (gd g) (eb g) (ed g) (Z.to_nat (4 * get_rt_pos (gb g) + 2)) s2) as [s3 c2]. exact I3.
  - pose proof (upd_string_inv sl (gd g) (eb g) (ed g) (Z.to_nat (2 * get_rt_pos (gb g))) s1 I1 Hd ltac:(lia) ltac:(lia) ltac:(rewrite Hcap; exact P3)) as I3.
    destruct (upd_string conv sl (gd g) (eb g) (ed g) (Z.to_nat (2 * get_rt_pos (gb g))) s1) as [s3 c2]. exact I3.
Qed.

Lemma group10_inv g fl : wf_group g -> pres (group10_parse conv g fl).
Proof.
  intros [Ha [Hb [Hc [Hd [Hea [Heb [Hec Hed]]]]]]] s I. unfold blk_ok, err_ok in *. unfold group10_parse.
  destruct (fl =? 0); [|exact I].
  destruct (pos_ptyn_ok (gb g) Hb) as [P1 P2].
  pose proof (upd_string_inv TPTYN (gc g) (eb g) (ec g) (Z.to_nat (4 * get_ptyn_pos (gb g))) s I Hc ltac:(lia) ltac:(lia) P1) as I2.
  destruct (upd_string conv TPTYN (gc g) (eb g) (ec g) (Z.to_nat (4 * get_ptyn_pos (gb g))) s) as [s2 c1]. cbn [fst] in I2.
  pose proof (upd_string_inv TPTYN (gd g) (eb g) (ed g) (Z.to_nat (4 * get_ptyn_pos (gb g) + 2)) s2 I2 Hd ltac:(lia) ltac:(lia) P2) as I3.
  destruct (upd_string conv TPTYN (gd g) (eb g) (ed g) (Z.to_nat (4 * get_ptyn_pos (gb g) + 2)) s2) as [s3 c2]. exact I3.
Qed.

Lemma process_inv g : wf_group g -> pres (process conv lut g).
Proof.
  intros Hwf. pose proof Hwf as [Ha [Hb [Hc [Hd [Hea [Heb [Hec Hed]]]]]]]. unfold blk_ok, err_ok in *.
  unfold process. apply pres_andthen.
  - unfold group_parse. repeat first [apply pres_andthen | apply pres_when | apply pres_set_scalar].
  - unfold dispatch. cbv zeta.
    destruct (get_group (gb g) =? 0).
    { unfold group0_parse, group0a_parse.
      repeat first [apply pres_andthen | apply pres_when | apply pres_set_scalar].
      - intros s I.
        pose proof (upd_string_inv TPS (gd g) (eb g) (ed g) (Z.to_nat (2 * get_ps_pos (gb g))) s I Hd ltac:(lia) ltac:(lia) (pos2_ok (gb g) Hb)) as I2.
        destruct (upd_string conv TPS (gd g) (eb g) (ed g) (Z.to_nat (2 * get_ps_pos (gb g))) s). exact I2.
      - intros s I. apply add_af_inv; [exact I|].
        pose proof (bits_W (gc g) Hc) as Hw. unfold bits_W_ok in Hw. split_andb Hw. lia.
      - intros s I. apply add_af_inv; [exact I|].
        pose proof (bits_W (gc g) Hc) as Hw. unfold bits_W_ok in Hw. split_andb Hw. lia. }
    destruct (get_group (gb g) =? 1).
    { unfold group1_parse. apply pres_when. apply pres_andthen; [apply pres_set_scalar|].
      intros s I. apply set_scalar_inv, I. }
    destruct (get_group (gb g) =? 2); [apply group2_inv; exact Hwf|].
    destruct (get_group (gb g) =? 4).
    { intros s I. rewrite group4_keeps_all. exact I. }
    destruct (get_group (gb g) =? 10); [apply group10_inv; exact Hwf|apply pres_skip].
Qed.

Lemma init_inv : Inv init_state.
Proof.
  constructor; cbn; try apply string_init_ok; try reflexivity; try (intros; lia); try (left; reflexivity).
Qed.

Lemma clear_inv s : Inv s -> Inv (clear s).
Proof.
  intros I. constructor; cbn; try reflexivity; try apply I; try (left; reflexivity);
    apply string_clear_ok; apply I.
Qed.

End Inv.
