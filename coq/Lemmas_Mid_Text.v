(* Lemmas_Mid_Text.v — the text cell update of the sources (src/string.c:
   rdsparser_string_update_single, rdsparser_string_update; src/parser.c:
   rdsparser_parser_update_string), translated on every run (GenMid.v), against the model's
   update_single / string_update / upd_string.  A text buffer of the model (list of cells) is
   seen by the C code as two arrays: the characters and the levels. *)
Require Export Lemmas_MidBase Lemmas_Leaf_C06.
Require Import ZifyBool.
Local Open Scope Z_scope.

Definition contents (t : text) : list Z := map ch t.
Definition levels (t : text) : list Z := map lv t.

Lemma upd_nth_error_id {A} (l : list A) i x : nth_error l i = Some x -> upd i x l = l.
Proof.
  revert i; induction l as [|h r IH]; intros [|i] H; cbn in *; try discriminate; try reflexivity.
  - injection H as ->. reflexivity.
  - rewrite (IH i H). reflexivity.
Qed.
Lemma contents_touch t pos c b : nth_error t pos = Some c ->
  contents (upd pos (mkcell (ch c) (lv c) b) t) = contents t /\ levels (upd pos (mkcell (ch c) (lv c) b) t) = levels t.
Proof.
  intros H. unfold contents, levels. rewrite !map_upd. cbn [ch lv].
  split; apply upd_nth_error_id; rewrite nth_error_map, H; reflexivity.
Qed.
Lemma nth_contents t pos c : nth_error t pos = Some c ->
  nth pos (contents t) 0 = ch c /\ nth pos (levels t) 0 = lv c.
Proof.
  intros H. unfold contents, levels. split; apply nth_error_nth; rewrite nth_error_map, H; reflexivity.
Qed.


Section Conv.
Variable conv : Z -> Z.
Variable cconv : Z -> Z.          (* the translated rdsparser_string_convert of the configuration *)
Hypothesis cconv_13 : cconv 13 = 0.
Hypothesis cconv_code : forall x, 32 <= x < 256 -> cconv x = conv x.

(* the shape shared by the wide and the narrow build: a function that differs from the model's
   update_single only in how it names the converted character *)
Definition single_spec (f : list Z -> list Z -> Z -> Z -> Z -> Z -> Z -> Z -> Z * list Z * list Z) : Prop :=
  forall t inp ei ed pos prog,
  0 <= inp < 256 -> 0 <= ei < 256 -> 0 <= ed < 256 -> (pos < length t)%nat ->
  f (contents t) (levels t) inp ei ed (Z.of_nat pos) (b2z prog) 1
  = match update_single conv t inp ei ed pos prog with
    | Some (t', chg) => (b2z chg, contents t', levels t')
    | None => (0, [], [])
    end.
End Conv.

Ltac finish_cell En :=
  cbn [b2z negb andb orb];
  first [ reflexivity
        | exfalso; lia
        | destruct (contents_touch _ _ _ true En) as [-> ->]; reflexivity
        | unfold contents, levels; rewrite !map_upd; cbn [ch lv]; reflexivity
        | unfold contents, levels; rewrite !map_upd; cbn [ch lv]; f_equal; [f_equal|]; f_equal; lia ].

(* ---------- the wide (default) build ---------- *)
Theorem mid_update_single : forall conv, (forall x, 32 <= x < 256 -> m_string_convert x = conv x) ->
  single_spec conv m_update_single.
Proof.
  intros conv Hc t inp ei ed pos prog Hi He Hd Hp.
  unfold m_update_single, update_single. cbv zeta.
  rewrite (leaf_calc_error ei ed He Hd).
  destruct (nth_error t pos) as [c|] eqn:En; [|apply nth_error_None in En; lia].
  rewrite Nat2Z.id. destruct (nth_contents t pos c En) as [-> ->].
  set (err := calc_error ei ed).
  unfold convert.
  destruct (Z.eq_dec inp 13) as [->|N13].
  - replace (m_string_convert 13) with 0 by (vm_compute; reflexivity).
    destruct prog; cbn [b2z]; decide_atoms; finish_cell En.
  - destruct (Z_lt_ge_dec inp 32) as [Lo|Hi32].
    + generalize (m_string_convert inp) (conv inp). intros cv mv.
      destruct prog; cbn [b2z]; decide_atoms; finish_cell En.
    + rewrite (Hc inp ltac:(lia)). generalize (conv inp). intros mv.
      destruct prog; cbn [b2z]; decide_atoms; finish_cell En.
Qed.

(* ---------- rdsparser_string_update: the two characters of one block ---------- *)
Lemma update_single_length conv t inp ei ed pos prog t' chg :
  update_single conv t inp ei ed pos prog = Some (t', chg) -> length t' = length t.
Proof.
  unfold update_single. destruct (nth_error t pos); [|discriminate].
  repeat match goal with |- context [if ?c then _ else _] => destruct c end;
    intros H; injection H as <- _; rewrite ?upd_length; reflexivity.
Qed.

Theorem mid_string_update : forall conv, (forall x, 32 <= x < 256 -> m_string_convert x = conv x) ->
  forall t b0 b1 ei ed pos prog,
  0 <= b0 < 256 -> 0 <= b1 < 256 -> 0 <= ei < 256 -> 0 <= ed < 256 -> (S pos < length t)%nat -> (S pos < 256)%nat ->
  m_string_update (contents t) (levels t) b0 b1 ei ed (Z.of_nat pos) (b2z prog) 1
  = match string_update conv t b0 b1 ei ed pos prog with
    | Some (t', chg) => (b2z chg, contents t', levels t')
    | None => (0, [], [])
    end.
Proof.
  intros conv Hc t b0 b1 ei ed pos prog H0 H1 He Hd Hp Hq.
  unfold m_string_update, string_update. cbv zeta.
  assert (U0 : to_u8 b0 = b0) by (unfold to_u8; apply Z.mod_small; lia).
  assert (U1 : to_u8 b1 = b1) by (unfold to_u8; apply Z.mod_small; lia).
  assert (P0 : to_u8 (Z.of_nat pos + 0) = Z.of_nat pos) by (unfold to_u8; rewrite Z.add_0_r; apply Z.mod_small; lia).
  assert (P1 : to_u8 (Z.of_nat pos + 1) = Z.of_nat (S pos)) by (unfold to_u8; rewrite Z.mod_small; lia).
  assert (P0' : to_u8 (Z.of_nat pos) = Z.of_nat pos) by (unfold to_u8; apply Z.mod_small; lia).
  rewrite ?U0, ?U1, ?P0, ?P1, ?P0'.
  replace (Z.of_nat pos + 1) with (Z.of_nat (S pos)) by lia. rewrite ?Z.add_0_r.
  rewrite (mid_update_single conv Hc t b0 ei ed pos prog H0 He Hd ltac:(lia)).
  destruct (update_single conv t b0 ei ed pos prog) as [[t1 c1]|] eqn:E1.
  2:{ unfold update_single in E1. destruct (nth_error t pos) eqn:En; [|apply nth_error_None in En; lia].
      repeat match type of E1 with context [if ?c then _ else _] => destruct c end; discriminate. }
  pose proof (update_single_length _ _ _ _ _ _ _ _ _ E1) as L1.
  rewrite (mid_update_single conv Hc t1 b1 ei ed (S pos) prog H1 He Hd ltac:(lia)).
  destruct (update_single conv t1 b1 ei ed (S pos) prog) as [[t2 c2]|] eqn:E2.
  2:{ unfold update_single in E2. destruct (nth_error t1 (S pos)) eqn:En; [|apply nth_error_None in En; lia].
      repeat match type of E2 with context [if ?c then _ else _] => destruct c end; discriminate. }
  destruct c1, c2; cbn [b2z orb Z.lor]; decide_atoms; first [reflexivity | exfalso; lia].
Qed.

(* ---------- rdsparser_parser_update_string: the correction thresholds of the text ---------- *)
Definition text_index (t : text_id) : Z := match t with PS => 0 | RT => 1 | PTYN => 2 end.
Definition corr_tab (s : state) : list (list Z) :=
  [[corr s PS INFO; corr s PS DATA]; [corr s RT INFO; corr s RT DATA]; [corr s PTYN INFO; corr s PTYN DATA]].
Definition prog_tab (s : state) : list Z := [b2z (prog s PS); b2z (prog s RT); b2z (prog s PTYN)].

Lemma u8_s8 x : 0 <= x < 256 -> to_u8 (to_s8 x) = x.
Proof.
  intros H. unfold to_u8, to_s8. cbv zeta. rewrite (Z.mod_small x 256) by lia.
  destruct (x <? 128) eqn:E.
  - apply Z.mod_small. lia.
  - replace (x - 256) with (x + (-1) * 256) by lia. rewrite Z.mod_add by lia. apply Z.mod_small. lia.
Qed.

Lemma su_norm c e b0 b1 ei ed p pr al :
  m_string_update c e b0 b1 ei ed p pr al = m_string_update c e (to_u8 b0) (to_u8 b1) ei ed p pr al.
Proof. unfold m_string_update. cbv zeta. unfold to_u8. rewrite !Z.mod_mod by lia. reflexivity. Qed.

(* blk = RDSPARSER_BLOCK_C (2) or RDSPARSER_BLOCK_D (3): the block the characters come from *)
Theorem mid_parser_update_string : forall conv, (forall x, 32 <= x < 256 -> m_string_convert x = conv x) ->
  forall sl s blk d0 d1 d2 d3 e0 e1 e2 e3 pos,
  let t := get_text sl s in
  let w := nth (Z.to_nat blk) [d0; d1; d2; d3] 0 in
  let edat := nth (Z.to_nat blk) [e0; e1; e2; e3] 0 in
  (blk = 2 \/ blk = 3) -> 0 <= w < 65536 -> 0 <= e1 < 256 -> 0 <= edat < 256 ->
  (S pos < length t)%nat -> (S pos < 256)%nat ->
  m_parser_update_string (corr_tab s) (prog_tab s) (contents t) (levels t) (text_index (tid_of sl)) blk
                         d0 d1 d2 d3 e0 e1 e2 e3 (Z.of_nat pos)
  = let r := upd_string conv sl w e1 edat pos s in
    (b2z (snd r), contents (get_text sl (fst r)), levels (get_text sl (fst r))).
Proof.
  intros conv Hc sl s blk d0 d1 d2 d3 e0 e1 e2 e3 pos t w edat Hb Hw He1 Hed Hp Hq.
  unfold m_parser_update_string. cbv zeta.
  assert (C0 : nth (Z.to_nat 0) (nth (Z.to_nat (text_index (tid_of sl))) (corr_tab s) []) 0 = corr s (tid_of sl) INFO)
    by (destruct sl; reflexivity).
  assert (C1 : nth (Z.to_nat 1) (nth (Z.to_nat (text_index (tid_of sl))) (corr_tab s) []) 0 = corr s (tid_of sl) DATA)
    by (destruct sl; reflexivity).
  assert (P : nth (Z.to_nat (text_index (tid_of sl))) (prog_tab s) 0 = b2z (prog s (tid_of sl)))
    by (destruct sl; reflexivity).
  rewrite ?C0, ?C1, ?P.
  (* whatever way the C code builds the two bytes of the block (casts, masks, shifts): compared
     with the model's hi_byte / lo_byte on all 65536 values of the block *)
  assert (K : forall x, 0 <= x < 65536 -> 0 <= hi_byte x < 256 /\ 0 <= lo_byte x < 256).
  { intros x Hx. unfold hi_byte, lo_byte. rewrite Z.shiftr_div_pow2 by lia. change (2 ^ 8) with 256.
    change 255 with (Z.ones 8). rewrite Z.land_ones by lia. change (2 ^ 8) with 256.
    split; [split; [apply Z.div_pos; lia|apply Z.div_lt_upper_bound; lia]|apply Z.mod_pos_bound; lia]. }
  destruct (K w Hw) as [B0 B1r].
  pose proof (mid_string_update conv Hc t (hi_byte w) (lo_byte w) e1 edat pos (prog s (tid_of sl)) B0 B1r He1 Hed Hp Hq) as M.
  unfold upd_string. fold t. fold t in M.
  destruct (string_update conv t (hi_byte w) (lo_byte w) e1 edat pos (prog s (tid_of sl))) as [[t' chg]|] eqn:E.
  2:{ exfalso. unfold string_update in E.
      destruct (update_single conv t (hi_byte w) e1 edat pos (prog s (tid_of sl))) as [[t1 c1]|] eqn:E1.
      + pose proof (update_single_length _ _ _ _ _ _ _ _ _ E1) as L1.
        destruct (update_single conv t1 (lo_byte w) e1 edat (S pos) (prog s (tid_of sl))) as [[t2 c2]|] eqn:E2; [discriminate|].
        unfold update_single in E2. destruct (nth_error t1 (S pos)) eqn:En; [|apply nth_error_None in En; lia].
        repeat match type of E2 with context [if ?c then _ else _] => destruct c end; discriminate.
      + unfold update_single in E1. destruct (nth_error t pos) eqn:En; [|apply nth_error_None in En; lia].
        repeat match type of E1 with context [if ?c then _ else _] => destruct c end; discriminate. }
  subst w edat.
  destruct Hb as [-> | ->]; change (Z.to_nat 2) with 2%nat in *; change (Z.to_nat 3) with 3%nat in *; cbn [nth] in *;
    repeat match goal with
           | |- context [m_string_update _ _ ?A0 ?A1 _ _ _ _ _] =>
             lazymatch A0 with hi_byte _ => fail | _ => idtac end;
             rewrite (su_norm _ _ A0 A1);
             let E0 := fresh "E0" in let E1 := fresh "E1" in
             (assert (E0 : to_u8 A0 = hi_byte d2) by (clear - Hw; apply Z.eqb_eq; revert d2 Hw;
                match goal with |- forall v, 0 <= v < 65536 -> (@?Q v) = true =>
                  intros v Hv; exact (all_from_spec (Z.to_nat 65536) 0 Q ltac:(vm_compute; reflexivity) v ltac:(rewrite Z2Nat.id; lia)) end);
              assert (E1 : to_u8 A1 = lo_byte d2) by (clear - Hw; apply Z.eqb_eq; revert d2 Hw;
                match goal with |- forall v, 0 <= v < 65536 -> (@?Q v) = true =>
                  intros v Hv; exact (all_from_spec (Z.to_nat 65536) 0 Q ltac:(vm_compute; reflexivity) v ltac:(rewrite Z2Nat.id; lia)) end))
             || (assert (E0 : to_u8 A0 = hi_byte d3) by (clear - Hw; apply Z.eqb_eq; revert d3 Hw;
                match goal with |- forall v, 0 <= v < 65536 -> (@?Q v) = true =>
                  intros v Hv; exact (all_from_spec (Z.to_nat 65536) 0 Q ltac:(vm_compute; reflexivity) v ltac:(rewrite Z2Nat.id; lia)) end);
              assert (E1 : to_u8 A1 = lo_byte d3) by (clear - Hw; apply Z.eqb_eq; revert d3 Hw;
                match goal with |- forall v, 0 <= v < 65536 -> (@?Q v) = true =>
                  intros v Hv; exact (all_from_spec (Z.to_nat 65536) 0 Q ltac:(vm_compute; reflexivity) v ltac:(rewrite Z2Nat.id; lia)) end));
             rewrite E0, E1; clear E0 E1
           end;
    rewrite ?M; cbn [fst snd];
    decide_atoms; cbn [fst snd b2z]; first [destruct sl; reflexivity | exfalso; lia].
Qed.
