(* Lemmas_SimEv.v — C20, callbacks: the unicode and the non-unicode instantiation make the same
   callbacks.  Part 1: every callback other than PS / RT / PTYN is literally the same event
   (same function, user data, argument and sampled value), whatever the texts hold.  Part 2
   (with Lemmas_Sim): on groups without narrow collision the text callbacks correspond one to one,
   their sampled texts related cell by cell. *)
Require Export Lemmas_Sim Lemmas_ObsEv.
Local Open Scope Z_scope.

Definition nontext (e : event) : bool := negb (isf FPS e || isf FRT e || isf FPTYN e).

Section SimEv.
Variable cu cn : Z -> Z.
Variable lut : Z -> Z -> Z.

(* the parts of the state that the non-text actions read and write *)
Definition Rb (s1 s2 : state) : Prop :=
  used s1 = used s2 /\ temp s1 = temp s2 /\ ext s1 = ext s2 /\ cb s1 = cb s2 /\ ud s1 = ud s2.

Definition ntsim (a1 a2 : act) : Prop :=
  forall s1 s2, Rb s1 s2 ->
    Rb (fst (a1 s1)) (fst (a2 s2)) /\ filter nontext (snd (a1 s1)) = filter nontext (snd (a2 s2)).

Lemma ntsim_skip : ntsim skip skip.
Proof. intros s1 s2 H. split; [exact H|reflexivity]. Qed.
Lemma ntsim_andthen a1 a2 b1 b2 : ntsim a1 a2 -> ntsim b1 b2 -> ntsim (andthen a1 b1) (andthen a2 b2).
Proof.
  intros Ha Hb s1 s2 H. rewrite !andthen_fst, !andthen_snd, !filter_app.
  destruct (Ha s1 s2 H) as [H1 E1]. destruct (Hb _ _ H1) as [H2 E2]. split; [exact H2|]. rewrite E1, E2. reflexivity.
Qed.
Lemma ntsim_when c a1 a2 : ntsim a1 a2 -> ntsim (when c a1) (when c a2).
Proof. intros H. destruct c; [exact H|apply ntsim_skip]. Qed.

Lemma ntsim_set_scalar_v f v1 v2 : v1 = v2 -> ntsim (set_scalar f v1) (set_scalar f v2).
Proof.
  intros <- s1 s2 [Hu [Ht [Hx [Hc Hd]]]]. unfold set_scalar, buffer_update. rewrite Hu, Ht, Hx.
  destruct ((getf f (used s2) =? v1) || (ext s2 && negb (getf f (temp s2) =? v1))); cbn [fst snd].
  - split; [|reflexivity]. unfold Rb. cbn [used temp ext cb ud with_temp]. rewrite ?Ht. repeat split; assumption.
  - split.
    + unfold Rb. cbn [used temp ext cb ud with_used]. rewrite ?Hu. repeat split; assumption.
    + unfold emit. cbn [cb ud used with_used]. rewrite ?Hc, ?Hd, ?Hu. reflexivity.
Qed.
Lemma ntsim_set_scalar f v : ntsim (set_scalar f v) (set_scalar f v).
Proof. apply ntsim_set_scalar_v. reflexivity. Qed.

Lemma ntsim_country g : ntsim
  (fun s => set_scalar SCountry (ecc_lookup lut (d_pi (used s)) (get_ecc (gc g))) s)
  (fun s => set_scalar SCountry (ecc_lookup lut (d_pi (used s)) (get_ecc (gc g))) s).
Proof.
  intros s1 s2 H. apply (ntsim_set_scalar_v SCountry); [|exact H]. destruct H as [Hu _]. rewrite Hu. reflexivity.
Qed.

Lemma ntsim_add_af v : ntsim (add_af v) (add_af v).
Proof.
  intros s1 s2 [Hu [Ht [Hx [Hc Hd]]]]. unfold add_af, buffer_add_af. rewrite Hu, Ht, Hx.
  destruct (negb (af_get (d_af (used s2)) v)); cbn [fst snd]; [|split; [repeat split; assumption|reflexivity]].
  destruct (ext s2 && negb (af_get (d_af (temp s2)) v)).
  - destruct (af_set (d_af (temp s2)) v) as [[a r]|]; cbn [fst snd]; split; try reflexivity;
      unfold Rb; cbn [used temp ext cb ud with_temp with_fault]; rewrite ?Ht; repeat split; assumption.
  - destruct (af_set (d_af (used s2)) v) as [[a r]|]; cbn [fst snd].
    + split; [unfold Rb; cbn [used temp ext cb ud with_used]; rewrite ?Hu; repeat split; assumption|].
      destruct r; [|reflexivity]. unfold emit. cbn [cb ud used with_used]. rewrite ?Hc, ?Hd, ?Hu. reflexivity.
    + split; [unfold Rb; cbn [used temp ext cb ud with_fault]; repeat split; assumption|reflexivity].
Qed.

(* an action that keeps the buffers and the settings and notifies text fields only *)
Lemma ntsim_text a1 a2 F :
  keeps P_buf a1 -> keeps P_set a1 -> keeps P_buf a2 -> keeps P_set a2 ->
  fields_in [F] a1 -> fields_in [F] a2 -> (F = FPS \/ F = FRT \/ F = FPTYN) -> ntsim a1 a2.
Proof.
  intros B1 S1 B2 S2 F1 F2 HF s1 s2 [Hu [Ht [Hx [Hc Hd]]]].
  pose proof (B1 s1) as E1. pose proof (S1 s1) as E2. pose proof (B2 s2) as E3. pose proof (S2 s2) as E4.
  unfold P_buf in E1, E3. unfold P_set in E2, E4. inversion E1. inversion E2. inversion E3. inversion E4.
  split; [unfold Rb; repeat split; congruence|].
  assert (N : forall a s, fields_in [F] a -> filter nontext (snd (a s)) = []).
  { intros a s Hf. apply filter_none. apply Forall_forall. intros e He. specialize (Hf s e He).
    destruct Hf as [Hf|[]]. unfold nontext, isf. rewrite <- Hf.
    destruct HF as [-> | [-> | ->]]; cbn; rewrite ?orb_true_r; reflexivity. }
  rewrite (N a1 s1 F1), (N a2 s2 F2). reflexivity.
Qed.

Lemma keeps_set_ps_update conv g : keeps P_set
  (fun s => let (s', chg) := upd_string conv TPS (gd g) (eb g) (ed g) (Z.to_nat (2 * get_ps_pos (gb g))) s in
            (s', text_event FPS ANone TPS chg s')).
Proof. apply keeps_ps_update. Qed.

Lemma keeps_set_group2 conv g fl : keeps P_set (group2_parse conv g fl).
Proof. keeps_leaf. Qed.
Lemma keeps_set_group10 conv g fl : keeps P_set (group10_parse conv g fl).
Proof. keeps_leaf. Qed.

Lemma fields_group2 conv g fl : fields_in [FRT] (group2_parse conv g fl).
Proof.
  intros s e H. unfold group2_parse in H.
  repeat match type of H with context [let '(_, _) := ?X in _] => destruct X as [? ?] end.
  repeat match type of H with context [if ?c then _ else _] => destruct c end;
    repeat match type of H with context [let '(_, _) := ?X in _] => destruct X as [? ?] end;
    cbn [snd] in H; try (destruct H; fail); apply text_event_field in H; rewrite H; cbn; tauto.
Qed.
Lemma fields_group10 conv g fl : fields_in [FPTYN] (group10_parse conv g fl).
Proof.
  intros s e H. unfold group10_parse in H. destruct (fl =? 0); [|destruct H].
  destruct (upd_string conv TPTYN (gc g) _ _ _ s) as [s2 c1].
  destruct (upd_string conv TPTYN (gd g) _ _ _ s2) as [s3 c2]. cbn [snd] in H.
  apply text_event_field in H. rewrite H. cbn; tauto.
Qed.

Lemma ntsim_group4 g fl : ntsim (group4_parse g fl) (group4_parse g fl).
Proof.
  intros s1 s2 H. rewrite !group4_keeps_all. split; [exact H|].
  rewrite !group4_events. destruct H as [_ [_ [_ [Hc Hd]]]]. rewrite Hc, Hd. reflexivity.
Qed.

Theorem ntsim_process g : ntsim (process cu lut g) (process cn lut g).
Proof.
  unfold process, group_parse, dispatch. cbv zeta.
  apply ntsim_andthen.
  - apply ntsim_andthen; [apply ntsim_when, ntsim_set_scalar|].
    apply ntsim_when, ntsim_andthen; apply ntsim_set_scalar.
  - destruct (get_group (gb g) =? 0).
    { unfold group0_parse, group0a_parse. apply ntsim_andthen; [apply ntsim_andthen|].
      - apply ntsim_when, ntsim_andthen; apply ntsim_set_scalar.
      - apply (ntsim_text _ _ FPS); try apply keeps_buf_ps_update; try apply keeps_set_ps_update;
          try apply fields_ps_update. tauto.
      - apply ntsim_when, ntsim_when, ntsim_when, ntsim_andthen; apply ntsim_add_af. }
    destruct (get_group (gb g) =? 1).
    { unfold group1_parse. apply ntsim_when, ntsim_andthen; [apply ntsim_set_scalar|apply ntsim_country]. }
    destruct (get_group (gb g) =? 2).
    { apply (ntsim_text _ _ FRT); try apply group2_keeps_buf; try apply keeps_set_group2; try apply fields_group2. tauto. }
    destruct (get_group (gb g) =? 4); [apply ntsim_group4|].
    destruct (get_group (gb g) =? 10); [|apply ntsim_skip].
    apply (ntsim_text _ _ FPTYN); try apply group10_keeps_buf; try apply keeps_set_group10; try apply fields_group10. tauto.
Qed.

End SimEv.

(* ---------- part 2: the text callbacks ---------- *)
Section SimText.
Variable cu cn : Z -> Z.
Variable lut : Z -> Z -> Z.
Hypothesis nz : forall b, 32 <= b < 256 -> cu b <> 0 /\ cn b <> 0.
Hypothesis wd : forall i j, 32 <= i < 256 -> 32 <= j < 256 -> cu i = cu j -> cn i = cn j.
Hypothesis sp : forall b, 32 <= b < 256 -> cu b = 32 -> cn b = 32.
Notation cellsrel := (cellsrel cu cn).
Notation SR := (SR cu cn).
Notation nocoll_group := (nocoll_group cu cn).

(* what a callback sees of a text, in the two builds *)
Definition tsrel (t1 t2 : tsnap) : Prop :=
  ts_len t1 = ts_len t2 /\ ts_avail t1 = ts_avail t2 /\ ts_term t1 = ts_term t2
  /\ cellsrel (ts_cells t1) (ts_cells t2).
Definition evrel (e1 e2 : event) : Prop :=
  ev_field e1 = ev_field e2 /\ ev_cb e1 = ev_cb e2 /\ ev_ud e1 = ev_ud e2 /\ ev_arg e1 = ev_arg e2
  /\ match ev_sample e1, ev_sample e2 with
     | SmText t1, SmText t2 => tsrel t1 t2
     | x, y => x = y
     end.

Lemma crel_zero x y : crel cu cn x y -> (x =? 0) = (y =? 0).
Proof.
  intros [[-> ->]|[[-> ->]|[b [Hb [-> ->]]]]]; try reflexivity.
  destruct (nz b Hb) as [A B]. destruct (Z.eqb_spec (cu b) 0), (Z.eqb_spec (cn b) 0); try reflexivity; contradiction.
Qed.

Lemma first_zero_rel l1 l2 : cellsrel l1 l2 -> first_zero l1 = first_zero l2.
Proof.
  induction 1 as [|[c1 v1] [c2 v2] r1 r2 [Hc _] Hr IH]; [reflexivity|]. cbn [first_zero].
  cbn [fst] in Hc. rewrite (crel_zero _ _ Hc). destruct (c2 =? 0); [reflexivity|]. rewrite IH. reflexivity.
Qed.

Lemma tsnap_rel t1 t2 : cellsrel (cells t1) (cells t2) -> tsrel (tsnap_of t1) (tsnap_of t2).
Proof.
  intros H. unfold tsrel, tsnap_of. cbn [ts_len ts_avail ts_term ts_cells].
  repeat split.
  - rewrite <- !first_zero_length. apply (first_zero_rel _ _ H).
  - rewrite !(avail_cells). apply (cellsrel_avail cu cn). exact H.
  - exact H.
Qed.

Lemma text_formula_rel F t1 t1' s1 t2 t2' s2 :
  cb s1 = cb s2 -> ud s1 = ud s2 -> cellsrel (cells t1') (cells t2') ->
  cells_eqb (cells t1') (cells t1) = cells_eqb (cells t2') (cells t2) ->
  Forall2 evrel (text_formula F t1 t1' s1) (text_formula F t2 t2' s2).
Proof.
  intros Hc Hu Hr He. unfold text_formula. rewrite He, Hc, Hu.
  destruct (negb (cells_eqb (cells t2') (cells t2)) && negb (cb s2 F =? 0)); [|constructor].
  constructor; [|constructor].
  unfold evrel. cbn [ev_field ev_cb ev_ud ev_arg ev_sample].
  refine (conj eq_refl (conj eq_refl (conj eq_refl (conj eq_refl _)))). apply tsnap_rel. exact Hr.
Qed.

(* "some cell of the text changed" is the same fact in the two builds *)
Lemma write2_changed info data pr eb e pos w l1 l2 : cellsrel l1 l2 -> (S pos < length l1)%nat -> 0 <= w < 65536 ->
  nocoll2 cu cn l1 l2 pos w ->
  cells_eqb (write2 cu info data pr eb e pos w l1) l1 = cells_eqb (write2 cn info data pr eb e pos w l2) l2.
Proof.
  intros Hr Hl Hw Hn. destruct (write2_rel cu cn lut nz wd sp info data pr eb e pos w l1 l2 Hr Hl Hw Hn) as [_ C].
  rewrite (changed2_spec cu lut) in C by exact Hl.
  rewrite (changed2_spec cn lut) in C by (rewrite <- (cellsrel_length cu cn _ _ Hr); exact Hl).
  destruct (cells_eqb (write2 cu info data pr eb e pos w l1) l1), (cells_eqb (write2 cn info data pr eb e pos w l2) l2);
    cbn in C; congruence.
Qed.

Lemma write4_changed info data pr eb e1 e2 p w1 w2 l1 l2 : cellsrel l1 l2 -> (S (S (S p)) < length l1)%nat ->
  0 <= w1 < 65536 -> 0 <= w2 < 65536 -> nocoll2 cu cn l1 l2 p w1 -> nocoll2 cu cn l1 l2 (S (S p)) w2 ->
  cells_eqb (write2 cu info data pr eb e2 (S (S p)) w2 (write2 cu info data pr eb e1 p w1 l1)) l1
  = cells_eqb (write2 cn info data pr eb e2 (S (S p)) w2 (write2 cn info data pr eb e1 p w1 l2)) l2.
Proof.
  intros Hr Hl Hw1 Hw2 N1 N2.
  pose proof (cellsrel_length cu cn _ _ Hr) as Len.
  pose proof (two_blocks cu info data pr eb e1 e2 p w1 w2 l1 Hl) as T1. cbv zeta in T1.
  pose proof (two_blocks cn info data pr eb e1 e2 p w1 w2 l2 ltac:(lia)) as T2. cbv zeta in T2.
  destruct (write2_rel cu cn lut nz wd sp info data pr eb e1 p w1 l1 l2 Hr ltac:(lia) Hw1 N1) as [R1 C1].
  assert (N2' : nocoll2 cu cn (write2 cu info data pr eb e1 p w1 l1) (write2 cn info data pr eb e1 p w1 l2) (S (S p)) w2)
    by (apply nocoll2_after; try lia; exact N2).
  destruct (write2_rel cu cn lut nz wd sp info data pr eb e2 (S (S p)) w2 _ _ R1 ltac:(rewrite write2_length; lia) Hw2 N2') as [_ C2].
  rewrite C1, C2 in T1. rewrite T2 in T1.
  destruct (cells_eqb _ l1), (cells_eqb _ l2); cbn in T1; congruence.
Qed.

Lemma eqb_cells_same l : cells_eqb l l = true.
Proof. apply cells_eqb_refl. Qed.

Section Groups.
Variables (su sn : state) (g : group).
Hypothesis R : SR su sn.
Hypothesis Iu : Inv cu su.
Hypothesis In_ : Inv cn sn.
Hypothesis Hwf : wf_group g.
Hypothesis Hnc : nocoll_group su sn g.

Let su' := fst (process cu lut g su).
Let sn' := fst (process cn lut g sn).

Lemma sim_after : SR su' sn'.
Proof. exact (group_simulation cu cn lut nz wd sp su sn g R Iu In_ Hwf Hnc). Qed.

(* Programme Service name *)
Theorem ps_events_sim :
  Forall2 evrel (filter (isf FPS) (snd (process cu lut g su))) (filter (isf FPS) (snd (process cn lut g sn))).
Proof.
  rewrite (ps_callbacks cu lut g su Iu Hwf), (ps_callbacks cn lut g sn In_ Hwf).
  pose proof sim_after as R'. pose proof Hwf as [_ [Hb [_ [Hd _]]]]. unfold blk_ok in *.
  apply text_formula_rel; [apply (sr_cb cu cn _ _ R)|apply (sr_ud cu cn _ _ R)|apply (sr_ps cu cn _ _ R')|].
  destruct (group_cases cu lut (gb g) Hb) as [G|[G|[[G V]|[N0 [N2 N10]]]]].
  - destruct (ps_step cu lut g su Iu Hwf G) as [Eu _]. destruct (ps_step cn lut g sn In_ Hwf G) as [En _].
    rewrite Eu, En. rewrite (sr_prog cu cn _ _ R), (sr_corr cu cn _ _ R).
    destruct Hnc as [Nps _]. apply write2_changed; [apply (sr_ps cu cn _ _ R)| |exact Hd|exact (Nps G)].
    unfold cells. rewrite map_length. destruct (inv_ps cu su Iu) as [Hl _]. rewrite Hl.
    pose proof (Z.mod_pos_bound (gb g) 4 ltac:(lia)). lia.
  - rewrite (proj1 (rt_step cu lut g su Iu Hwf G)), (proj1 (rt_step cn lut g sn In_ Hwf G)), !eqb_cells_same. reflexivity.
  - destruct (ptyn_step cu lut g su Iu Hwf G V) as [_ [Pu _]]. destruct (ptyn_step cn lut g sn In_ Hwf G V) as [_ [Pn _]].
    rewrite Pu, Pn, !eqb_cells_same. reflexivity.
  - rewrite (proj1 (no_text_step cu lut g su Iu Hwf N0 N2 N10)), (proj1 (no_text_step cn lut g sn In_ Hwf N0 N2 N10)), !eqb_cells_same.
    reflexivity.
Qed.

(* Programme Type Name *)
Theorem ptyn_events_sim :
  Forall2 evrel (filter (isf FPTYN) (snd (process cu lut g su))) (filter (isf FPTYN) (snd (process cn lut g sn))).
Proof.
  pose proof sim_after as R'. pose proof Hwf as [_ [Hb [Hc [Hd _]]]]. unfold blk_ok in *.
  destruct (Z.eq_dec (b_group (gb g)) 10) as [G|G]; [destruct (Z.eq_dec (b_ver (gb g)) 0) as [V|V]|].
  - rewrite (ptyn_callbacks_10A cu lut g su Iu Hwf G V), (ptyn_callbacks_10A cn lut g sn In_ Hwf G V).
    apply text_formula_rel; [apply (sr_cb cu cn _ _ R)|apply (sr_ud cu cn _ _ R)|apply (sr_ptyn cu cn _ _ R')|].
    destruct (ptyn_step cu lut g su Iu Hwf G V) as [Eu _]. destruct (ptyn_step cn lut g sn In_ Hwf G V) as [En _].
    cbv zeta in Eu, En. rewrite Eu, En. rewrite (sr_prog cu cn _ _ R), (sr_corr cu cn _ _ R).
    destruct Hnc as [_ [Npt _]]. destruct (Npt G V) as [Nc Nd].
    assert (Hm : 0 <= gb g mod 2 <= 1) by (pose proof (Z.mod_pos_bound (gb g) 2 ltac:(lia)); lia).
    replace (Z.to_nat (4 * (gb g mod 2) + 2)) with (S (S (Z.to_nat (4 * (gb g mod 2))))) in * by lia.
    apply write4_changed; [apply (sr_ptyn cu cn _ _ R)| |exact Hc|exact Hd|exact Nc|exact Nd].
    unfold cells. rewrite map_length. destruct (inv_ptyn cu su Iu) as [Hl _]. rewrite Hl. lia.
  - rewrite (no_ptyn_events cu lut g su Hb), (no_ptyn_events cn lut g sn Hb) by tauto. constructor.
  - rewrite (no_ptyn_events cu lut g su Hb), (no_ptyn_events cn lut g sn Hb) by tauto. constructor.
Qed.

(* RadioText *)
Theorem rt_events_sim :
  Forall2 evrel (filter (isf FRT) (snd (process cu lut g su))) (filter (isf FRT) (snd (process cn lut g sn))).
Proof.
  pose proof sim_after as R'. pose proof Hwf as [_ [Hb [Hc [Hd _]]]]. unfold blk_ok in *.
  destruct (Z.eq_dec (b_group (gb g)) 2) as [G|G].
  2:{ rewrite (no_rt_events cu lut g su Hb G), (no_rt_events cn lut g sn Hb G). constructor. }
  pose proof (rt_callbacks cu lut g su Iu Hwf G) as Eu. pose proof (rt_callbacks cn lut g sn In_ Hwf G) as En.
  cbv zeta in Eu, En. rewrite Eu, En. clear Eu En.
  destruct (rt_step cu lut g su Iu Hwf G) as [_ [_ [_ [_ Su]]]]. destruct (rt_step cn lut g sn In_ Hwf G) as [_ [_ [_ [_ Sn]]]].
  cbv zeta in Su, Sn. fold su' in Su |- *. fold sn' in Sn |- *.
  set (f := b_rtflag (gb g)) in *.
  assert (Hf : f = 0 \/ f = 1) by (unfold f, b_rtflag; pose proof (Z.mod_pos_bound (gb g / 16) 2 ltac:(lia)); lia).
  assert (Rf : cellsrel (cells (rt_of f su)) (cells (rt_of f sn))).
  { unfold rt_of. destruct (f =? 0); [apply (sr_rt0 cu cn _ _ R)|apply (sr_rt1 cu cn _ _ R)]. }
  assert (Rf' : cellsrel (cells (rt_of f su')) (cells (rt_of f sn'))).
  { unfold rt_of. destruct (f =? 0); [apply (sr_rt0 cu cn _ _ R')|apply (sr_rt1 cu cn _ _ R')]. }
  assert (Av : string_available (rt_of f su) = string_available (rt_of f sn)).
  { rewrite !avail_cells. apply (cellsrel_avail cu cn). exact Rf. }
  assert (Lf : length (rt_of f su) = length (rt_of f sn)).
  { unfold rt_of. destruct (f =? 0).
    - destruct (inv_rt0 cu su Iu) as [A _], (inv_rt0 cn sn In_) as [B _]. congruence.
    - destruct (inv_rt1 cu su Iu) as [A _], (inv_rt1 cn sn In_) as [B _]. congruence. }
  assert (L64 : length (cells (rt_of f su)) = 64%nat).
  { unfold cells, rt_of. rewrite map_length. destruct (f =? 0); [apply (inv_rt0 cu su Iu)|apply (inv_rt1 cu su Iu)]. }
  rewrite <- (sr_last cu cn _ _ R), <- Av, <- (sr_cb cu cn _ _ R), <- (sr_ud cu cn _ _ R) in *.
  rewrite <- (sr_prog cu cn _ _ R), <- (sr_corr cu cn _ _ R) in Sn.
  destruct (negb (eb g =? 0) && negb (f =? last_rt su) && negb (last_rt su =? -1)); [constructor|].
  destruct Hnc as [_ [_ Nrt]]. specialize (Nrt G). cbv zeta in Nrt. fold f in Nrt.
  set (clr := (eb g =? 0) && negb (f =? last_rt su) && negb (last_rt su =? -1) && string_available (rt_of f su)) in *.
  set (bu := if clr then cells (string_clear (rt_of f su)) else cells (rt_of f su)) in *.
  set (bn := if clr then cells (string_clear (rt_of f sn)) else cells (rt_of f sn)) in *.
  assert (Rb' : cellsrel bu bn) by (unfold bu, bn; destruct clr; [apply cellsrel_clear; exact Lf|exact Rf]).
  assert (Lb : length bu = 64%nat).
  { unfold bu. destruct clr; [|exact L64]. unfold cells, string_clear. rewrite !map_length.
    unfold cells in L64. rewrite map_length in L64. exact L64. }
  assert (Hm : 0 <= gb g mod 16 <= 15) by (pose proof (Z.mod_pos_bound (gb g) 16 ltac:(lia)); lia).
  assert (Ce : cells_eqb (cells (rt_of f su')) bu = cells_eqb (cells (rt_of f sn')) bn).
  { rewrite Su, Sn. destruct (b_ver (gb g) =? 0).
    - destruct Nrt as [Nc Nd].
      replace (Z.to_nat (4 * (gb g mod 16) + 2)) with (S (S (Z.to_nat (4 * (gb g mod 16))))) in * by lia.
      apply write4_changed; try assumption. lia.
    - apply write2_changed; try assumption. lia. }
  rewrite Ce.
  destruct ((clr || negb (cells_eqb (cells (rt_of f sn')) bn)) && negb (cb su FRT =? 0)); [|constructor].
  constructor; [|constructor]. unfold evrel. cbn [ev_field ev_cb ev_ud ev_arg ev_sample].
  refine (conj eq_refl (conj eq_refl (conj eq_refl (conj eq_refl _)))). apply tsnap_rel. exact Rf'.
Qed.

(* every other callback: the same event in both builds *)
Theorem other_events_sim :
  filter nontext (snd (process cu lut g su)) = filter nontext (snd (process cn lut g sn)).
Proof.
  apply (ntsim_process cu cn lut g su sn).
  unfold Rb. destruct R. repeat split; assumption.
Qed.

End Groups.
End SimText.
