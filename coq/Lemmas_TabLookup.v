(* Lemmas_TabLookup.v — kernel-evaluated facts about the PTY and country lookup graphs measured on
   the compiled library (Gen.v, regenerated on every run) against the committed reference tables.
   Complete finite domains: all 256 argument values of each of the 8 lookups.  Used by C18 only. *)
Require Import Observers Inst Ref_Tables Lemmas_Base.
Require Gen.
From Coq Require Import String.
Local Open Scope Z_scope.

Definition bytes_eqb (a b : list Z) : bool := list_eqb Z.eqb a b.
Definition unknown_name : list Z := bytes_of_string "Unknown".
Definition unknown_iso : list Z := bytes_of_string "??".
Definition no_nul (e : list Z) : bool := forallb (fun c => (1 <=? c) && (c <? 256)) e.

(* ---------- PTY ---------- *)
(* index i of a dumped PTY table stands for the argument (int8_t)i: 0..127 as is, 128..255 negative *)
Definition pty_table_ok (tbl : list (list Z)) (ref : list string) : bool :=
  Nat.eqb (List.length tbl) 256 && Nat.eqb (List.length ref) 32
  && list_eqb bytes_eqb (firstn 32 tbl) (map bytes_of_string ref)
  && forallb (fun e => bytes_eqb e unknown_name) (skipn 32 tbl)
  && forallb no_nul tbl.
Definition width_ok (w : nat) (tbl : list (list Z)) : bool :=
  forallb (fun e => Nat.leb (List.length e) w) tbl.

Definition pty_all_ok : bool :=
  pty_table_ok Gen.pty_rds_name ref_pty_rds_name && pty_table_ok Gen.pty_rbds_name ref_pty_rbds_name
  && pty_table_ok Gen.pty_rds_short ref_pty_rds_short && pty_table_ok Gen.pty_rbds_short ref_pty_rbds_short
  && pty_table_ok Gen.pty_rds_long ref_pty_rds_long && pty_table_ok Gen.pty_rbds_long ref_pty_rbds_long.
Definition pty_widths_ok : bool :=
  width_ok 8 (firstn 32 Gen.pty_rds_short) && width_ok 8 (firstn 32 Gen.pty_rbds_short)
  && width_ok 16 (firstn 32 Gen.pty_rds_long) && width_ok 16 (firstn 32 Gen.pty_rbds_long).

(* ---------- countries ---------- *)
Fixpoint ref_lookup (e : string) (l : list (string * string * string)) : option (string * string) :=
  match l with
  | [] => None
  | (e', n, i) :: r => if String.eqb e e' then Some (n, i) else ref_lookup e r
  end.
(* the enumerators are numbered 0 (UNKNOWN), 1, 2, ... and the last one is COUNT *)
Fixpoint enum_consecutive (l : list (string * Z)) (from : Z) : bool :=
  match l with
  | [] => true
  | (_, v) :: r => (v =? from) && enum_consecutive r (from + 1)
  end.
Definition entry (tbl : list (list Z)) (v : Z) : list Z := nth (Z.to_nat v) tbl [-1].
Definition country_entries_ok : bool :=
  forallb (fun '(e, v) =>
             if (1 <=? v) && (v <? Gen.c_RDSPARSER_COUNTRY_COUNT) then
               match ref_lookup e ref_country with
               | Some (n, i) => bytes_eqb (entry Gen.country_name v) (bytes_of_string n)
                                && bytes_eqb (entry Gen.country_iso v) (bytes_of_string i)
               | None => false
               end
             else true) Gen.country_enum.
Definition country_shape_ok : bool :=
  Nat.eqb (List.length Gen.country_name) 256 && Nat.eqb (List.length Gen.country_iso) 256
  && (Gen.c_RDSPARSER_COUNTRY_COUNT =? 221) && (Gen.c_RDSPARSER_COUNTRY_UNKNOWN =? 0)
  && enum_consecutive Gen.country_enum 0
  && Nat.eqb (List.length Gen.country_enum) 222 && Nat.eqb (List.length ref_country) 220
  && forallb no_nul Gen.country_name && forallb no_nul Gen.country_iso
  && all_from 256 0 (fun v => if (1 <=? v) && (v <? 221) then true
                              else bytes_eqb (entry Gen.country_name v) unknown_name
                                   && bytes_eqb (entry Gen.country_iso v) unknown_iso).
Definition is_upper (c : Z) : bool := (65 <=? c) && (c <=? 90).
Definition iso_format_ok (e : list Z) : bool :=
  match e with
  | [a; b] => (is_upper a && is_upper b) || ((a =? 45) && (b =? 45))
  | _ => false
  end.
Definition dashes : list Z := [45; 45].
Definition australia : list Z := bytes_of_string "Australia".
Definition starts_with (p l : list Z) : bool := bytes_eqb (firstn (List.length p) l) p.
(* distinct countries never share a code (composite areas carry "--"; the eight Australian
   states and territories all carry the code of Australia) *)
Definition iso_unique_ok : bool :=
  all_from 220 1 (fun i =>
    all_from 220 1 (fun j =>
      (i =? j) || negb (bytes_eqb (entry Gen.country_iso i) (entry Gen.country_iso j))
      || bytes_eqb (entry Gen.country_iso i) dashes
      || (starts_with australia (entry Gen.country_name i) && starts_with australia (entry Gen.country_name j)))).
Definition iso_all_format_ok : bool := all_from 220 1 (fun i => iso_format_ok (entry Gen.country_iso i)).

Lemma pty_tables_are_reference : pty_all_ok = true.
Proof. vm_compute. reflexivity. Qed.
Lemma pty_widths : pty_widths_ok = true.
Proof. vm_compute. reflexivity. Qed.
Lemma country_tables_are_reference : country_entries_ok = true.
Proof. vm_compute. reflexivity. Qed.
Lemma country_shape : country_shape_ok = true.
Proof. vm_compute. reflexivity. Qed.
Lemma iso_format : iso_all_format_ok = true.
Proof. vm_compute. reflexivity. Qed.
Lemma iso_unique : iso_unique_ok = true.
Proof. vm_compute. reflexivity. Qed.

