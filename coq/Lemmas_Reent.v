(* Lemmas_Reent.v — the re-entrant step is a conservative extension of the model: without
   scripts it is `step`; with any scripts the getter-visible state evolves as without them. *)
Require Export Lemmas_Core Reent.
Local Open Scope Z_scope.

(* the notifications of a call under registrations c / user data u, from the notifications it
   makes when every callback is registered *)
Definition relabel (c : field -> Z) (u : Z) (evs : list event) : list event :=
  map (fun e => mkev (ev_field e) (c (ev_field e)) u (ev_arg e) (ev_sample e))
      (filter (fun e => negb (c (ev_field e) =? 0)) evs).

Lemma relabel_app c u a b : relabel c u (a ++ b) = relabel c u a ++ relabel c u b.
Proof. unfold relabel. rewrite filter_app, map_app. reflexivity. Qed.

Lemma with_obs_eq c u s : with_obs' c u s = with_obs c u s.
Proof. reflexivity. Qed.
Lemma with_obs_twice c u c' u' s : with_obs c u (with_obs c' u' s) = with_obs c u s.
Proof. reflexivity. Qed.
Lemma with_obs_self s : with_obs (cb s) (ud s) s = s.
Proof. destruct s; reflexivity. Qed.

Section Reent.
Variable conv : Z -> Z.
Variable lut : Z -> Z -> Z.

Definition erel (a : act) : Prop :=
  forall s c u, snd (a (with_obs c u s)) = relabel c u (snd (a (with_obs full_obs 0 s))).

Lemma erel_skip : erel skip.
Proof. intros s c u. reflexivity. Qed.
Lemma erel_andthen a b : commutes a -> erel a -> erel b -> erel (andthen a b).
Proof.
  intros Ca Ea Eb s c u. rewrite !andthen_snd, relabel_app, (Ea s c u). f_equal.
  rewrite (Ca s c u), (Ca s full_obs 0). apply Eb.
Qed.
Lemma erel_when cond a : erel a -> erel (when cond a).
Proof. intros Ha. destruct cond; [exact Ha|apply erel_skip]. Qed.

Lemma emit_rel f a sm s c u :
  emit f a sm (with_obs c u s) = relabel c u (emit f a sm (with_obs full_obs 0 s)).
Proof.
  unfold emit, relabel, with_obs, full_obs. cbn [cb ud with_cb with_ud Z.eqb filter map ev_field ev_arg ev_sample].
  destruct (c f =? 0); reflexivity.
Qed.

Lemma buffer_update_obs f v s c u :
  buffer_update f v (with_obs c u s) = (with_obs c u (fst (buffer_update f v s)), snd (buffer_update f v s)).
Proof. unfold buffer_update, with_obs. cbn [used temp ext with_cb with_ud]. destruct (_ || _); reflexivity. Qed.

Lemma erel_set_scalar f v : erel (set_scalar f v).
Proof.
  intros s c u. unfold set_scalar. rewrite !buffer_update_obs.
  destruct (buffer_update f v s) as [s' chg]. cbn [fst snd]. destruct chg; [|reflexivity].
  apply emit_rel.
Qed.

Lemma buffer_add_af_obs v s c u :
  buffer_add_af v (with_obs c u s) = (with_obs c u (fst (buffer_add_af v s)), snd (buffer_add_af v s)).
Proof.
  unfold buffer_add_af, with_obs. cbn [used temp ext with_cb with_ud].
  destruct (negb _); [|reflexivity]. destruct (_ && _).
  - destruct (af_set _ v) as [[a r]|]; reflexivity.
  - destruct (af_set _ v) as [[a r]|]; reflexivity.
Qed.

Lemma erel_add_af v : erel (add_af v).
Proof.
  intros s c u. unfold add_af. rewrite !buffer_add_af_obs.
  destruct (buffer_add_af v s) as [s' chg]. cbn [fst snd]. destruct chg; [|reflexivity].
  apply emit_rel.
Qed.

Lemma text_event_rel f a sl chg s c u :
  text_event f a sl chg (with_obs c u s) = relabel c u (text_event f a sl chg (with_obs full_obs 0 s)).
Proof.
  unfold text_event. destruct chg; [|reflexivity].
  replace (get_text sl (with_obs c u s)) with (get_text sl s) by (destruct sl; reflexivity).
  replace (get_text sl (with_obs full_obs 0 s)) with (get_text sl s) by (destruct sl; reflexivity).
  apply emit_rel.
Qed.

Lemma erel_ps_update g : erel
  (fun s => let (s', chg) := upd_string conv TPS (gd g) (eb g) (ed g) (Z.to_nat (2 * get_ps_pos (gb g))) s in
            (s', text_event FPS ANone TPS chg s')).
Proof.
  intros s c u. rewrite !upd_string_commutes.
  destruct (upd_string conv TPS (gd g) (eb g) (ed g) _ s) as [s' chg]. cbn [fst snd]. cbv beta iota. cbn [fst snd]. apply text_event_rel.
Qed.

Lemma erel_country g : erel
  (fun s => set_scalar SCountry (ecc_lookup lut (d_pi (used s)) (get_ecc (gc g))) s).
Proof. intros s c u. apply (erel_set_scalar SCountry (ecc_lookup lut (d_pi (used s)) (get_ecc (gc g))) s c u). Qed.

Lemma erel_group10 g fl : erel (group10_parse conv g fl).
Proof.
  intros s c u. unfold group10_parse. destruct (fl =? 0); [|reflexivity].
  rewrite !upd_string_commutes.
  destruct (upd_string conv TPTYN (gc g) (eb g) (ec g) _ s) as [s2 c1]. cbn [fst snd]. cbv beta iota.
  rewrite ?upd_string_commutes. cbn [fst snd]. cbv beta iota. cbn [fst snd]. apply text_event_rel.
Qed.

Lemma erel_group4 g fl : erel (group4_parse g fl).
Proof.
  intros s c u. unfold group4_parse.
  destruct ((fl =? 0) && (eb g =? 0) && (ec g =? 0) && (ed g =? 0)); [|reflexivity].
  replace (cb (with_obs c u s) FCT) with (c FCT) by reflexivity.
  replace (cb (with_obs full_obs 0 s) FCT) with 1 by reflexivity. cbn [Z.eqb].
  destruct (ct_init _ _ _ _) as [a|]; cbn [snd].
  - rewrite <- emit_rel. unfold emit. replace (cb (with_obs c u s) FCT) with (c FCT) by reflexivity.
    destruct (c FCT =? 0); reflexivity.
  - destruct (c FCT =? 0); reflexivity.
Qed.

Lemma erel_group2 g fl : erel (group2_parse conv g fl).
Proof.
  intros s c u. unfold group2_parse.
  set (rf := get_rt_flag (gb g)). set (sl := if rf =? 0 then TRT0 else TRT1).
  assert (K : forall c u, 
    (if (eb g =? 0) && negb (rf =? last_rt (with_obs c u s))
     then let '(s', c0) := if negb (last_rt (with_obs c u s) =? -1) && string_available (get_text sl (with_obs c u s))
                           then (set_text sl (string_clear (get_text sl (with_obs c u s))) (with_obs c u s), true)
                           else (with_obs c u s, false) in (with_last_rt rf s', c0)
     else (with_obs c u s, false))
    = (with_obs c u (fst (if (eb g =? 0) && negb (rf =? last_rt s)
                          then let '(s', c0) := if negb (last_rt s =? -1) && string_available (get_text sl s)
                                                then (set_text sl (string_clear (get_text sl s)) s, true)
                                                else (s, false) in (with_last_rt rf s', c0)
                          else (s, false))),
       snd (if (eb g =? 0) && negb (rf =? last_rt s)
            then let '(s', c0) := if negb (last_rt s =? -1) && string_available (get_text sl s)
                                  then (set_text sl (string_clear (get_text sl s)) s, true)
                                  else (s, false) in (with_last_rt rf s', c0)
            else (s, false)))).
  { intros c' u'. replace (last_rt (with_obs c' u' s)) with (last_rt s) by reflexivity.
    replace (get_text sl (with_obs c' u' s)) with (get_text sl s) by (destruct sl; reflexivity).
    destruct (_ && negb _); [|reflexivity].
    destruct (_ && string_available _); destruct sl; reflexivity. }
  rewrite !K. clear K.
  destruct (if (eb g =? 0) && negb (rf =? last_rt s) then _ else (s, false)) as [s1 chg0]. cbn [fst snd].
  replace (last_rt (with_obs c u s1)) with (last_rt s1) by reflexivity.
  replace (last_rt (with_obs full_obs 0 s1)) with (last_rt s1) by reflexivity.
  destruct (_ && _ && _); [reflexivity|].
  destruct (fl =? 0).
  - rewrite !upd_string_commutes.
    destruct (upd_string conv sl (gc g) (eb g) (ec g) _ s1) as [s2 c1]. cbn [fst snd]. cbv beta iota.
    rewrite ?upd_string_commutes. cbn [fst snd]. cbv beta iota. cbn [fst snd]. apply text_event_rel.
  - rewrite !upd_string_commutes. cbn [fst snd]. cbv beta iota. cbn [fst snd]. apply text_event_rel.
Qed.

Lemma erel_process g : erel (process conv lut g).
Proof.
  unfold process, group_parse, dispatch. cbv zeta.
  apply erel_andthen.
  - apply commutes_andthen; [apply commutes_when, commutes_set_scalar|].
    apply commutes_when, commutes_andthen; apply commutes_set_scalar.
  - apply erel_andthen; [apply commutes_when, commutes_set_scalar|apply erel_when, erel_set_scalar|].
    apply erel_when, erel_andthen; [apply commutes_set_scalar|apply erel_set_scalar|apply erel_set_scalar].
  - destruct (get_group (gb g) =? 0).
    { unfold group0_parse, group0a_parse.
      apply erel_andthen; [|apply erel_andthen|].
      - apply commutes_andthen; [apply commutes_when, commutes_andthen; apply commutes_set_scalar|apply commutes_ps_update].
      - apply commutes_when, commutes_andthen; apply commutes_set_scalar.
      - apply erel_when, erel_andthen; [apply commutes_set_scalar|apply erel_set_scalar|apply erel_set_scalar].
      - apply erel_ps_update.
      - apply erel_when, erel_when, erel_when, erel_andthen; [apply commutes_add_af|apply erel_add_af|apply erel_add_af]. }
    destruct (get_group (gb g) =? 1).
    { unfold group1_parse. apply erel_when, erel_andthen; [apply commutes_set_scalar|apply erel_set_scalar|apply erel_country]. }
    destruct (get_group (gb g) =? 2); [apply erel_group2|].
    destruct (get_group (gb g) =? 4); [apply erel_group4|].
    destruct (get_group (gb g) =? 10); [apply erel_group10|apply erel_skip].
Qed.

(* replaying through a table that no callback changes is relabelling *)
Lemma replay_no_scripts tab u full :
  replay (fun _ => []) tab u full = (relabel tab u full, (tab, u)).
Proof.
  induction full as [|e r IH]; [reflexivity|]. cbn [replay]. unfold relabel. cbn [filter].
  destruct (tab (ev_field e) =? 0); cbn [negb fold_left fst snd map].
  - exact IH.
  - rewrite IH. reflexivity.
Qed.

(* the events of a call, in terms of the call with every callback registered *)
Theorem step_events_relabel s o : op_group o <> None ->
  snd (step conv lut s o) = relabel (cb s) (ud s) (snd (step conv lut (with_obs full_obs 0 s) o)).
Proof.
  intros H. rewrite <- (with_obs_self s) at 1.
  destruct o as [| |g|str|v|t k e|t v|x|fd id]; cbn [op_group] in H; try congruence; cbn [step].
  - apply erel_process.
  - destruct str as [l|]; [|congruence]. destruct (utils_convert l) as [g|]; [|congruence]. apply erel_process.
Qed.

(* 1. conservative: callbacks without scripts behave as in the base model *)
Theorem reent_conservative s o : step_reent conv lut (fun _ => []) s o = step conv lut s o.
Proof.
  unfold step_reent. destruct (op_group o) as [g|] eqn:E; [|reflexivity].
  change with_obs' with with_obs. rewrite replay_no_scripts.
  rewrite <- (step_events_relabel s o) by congruence.
  assert (K : with_obs (cb s) (ud s) (fst (step conv lut s o)) = fst (step conv lut s o)).
  { rewrite <- (step_commutes conv lut s o (cb s) (ud s)).
    - rewrite with_obs_self. reflexivity.
    - intros f id ->. discriminate.
    - intros x ->. discriminate.
    - intros ->. discriminate. }
  rewrite K. destruct (step conv lut s o); reflexivity.
Qed.

(* 2. whatever the callbacks register or set, decoding is not altered *)
Theorem reent_snapshot sc s o : snap_of (fst (step_reent conv lut sc s o)) = snap_of (fst (step conv lut s o)).
Proof.
  unfold step_reent. destruct (op_group o); [|reflexivity].
  destruct (replay sc (cb s) (ud s) _) as [evs [tab u]]. reflexivity.
Qed.

(* 3. every notification made goes to a non-NULL function *)
Theorem replay_nonnull sc : forall full tab u e, In e (fst (replay sc tab u full)) -> ev_cb e <> 0.
Proof.
  induction full as [|x r IH]; intros tab u e H; [destruct H|].
  cbn [replay] in H. destruct (tab (ev_field x) =? 0) eqn:E.
  - exact (IH tab u e H).
  - destruct (replay sc _ _ r) as [es fin] eqn:R. cbn [fst] in H. destruct H as [<-|H].
    + cbn [ev_cb]. apply Z.eqb_neq. exact E.
    + eapply IH. rewrite R. exact H.
Qed.

End Reent.
