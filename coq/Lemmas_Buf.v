(* Lemmas_Buf.v — the two-stage scalar/AF buffer in isolation.  The buffer part of the state
   (data_used, data_temp, extended_check) evolves independently of the texts; this file defines
   that small machine (b_step), proves that every API call of the model acts on the buffer
   projection exactly as b_step (step_bproj), and characterises one b_set / b_af.  C01, C09, C10,
   C11 are then statements about folding b_step over a history. *)
Require Export Lemmas_Step.
Local Open Scope Z_scope.

Definition bst := (bufdata * bufdata * bool)%type.      (* used, temp, extended check *)
Definition bproj (s : state) : bst := (used s, temp s, ext s).
Definition b_used (b : bst) : bufdata := fst (fst b).
Definition b_temp (b : bst) : bufdata := snd (fst b).
Definition b_ext (b : bst) : bool := snd b.

Definition b_set (f : sfield) (v : Z) (b : bst) : bst :=
  let '(u, t, x) := b in
  if (getf f u =? v) || (x && negb (getf f t =? v)) then (u, setf f v t, x) else (setf f v u, t, x).

Definition b_af (v : Z) (b : bst) : bst :=
  let '(u, t, x) := b in
  if negb (af_get (d_af u) v) then
    if x && negb (af_get (d_af t) v) then
      match af_set (d_af t) v with Some (a, _) => (u, set_af a t, x) | None => b end
    else
      match af_set (d_af u) v with Some (a, _) => (set_af a u, t, x) | None => b end
  else b.

Definition b_init : bst := (buf_unknown, buf_unknown, false).

Section Buf.
Variable conv : Z -> Z.
Variable lut : Z -> Z -> Z.

Definition b_group_parse (g : group) (b0 : bst) : bst :=
  let b1 := if ea g =? 0 then b_set SPi (ga g) b0 else b0 in
  if eb g =? 0 then b_set STp (get_tp (gb g)) (b_set SPty (get_pty (gb g)) b1) else b1.

Definition b_group0 (g : group) (b2 : bst) : bst :=
  let b3 := if eb g =? 0 then b_set SMs (get_ms (gb g)) (b_set STa (get_ta (gb g)) b2) else b2 in
  if get_flag (gb g) =? 0 then
    if (eb g =? 0) && (ec g =? 0) then
      if negb (get_af1 (gc g) =? 250) then b_af (get_af2 (gc g)) (b_af (get_af1 (gc g)) b3) else b3
    else b3
  else b3.

Definition b_group1 (g : group) (b2 : bst) : bst :=
  if (get_flag (gb g) =? 0) && (eb g =? 0) && (ec g =? 0) && (get_variant (gc g) =? 0) then
    let b3 := b_set SEcc (get_ecc (gc g)) b2 in
    b_set SCountry (ecc_lookup lut (d_pi (b_used b3)) (get_ecc (gc g))) b3
  else b2.

Definition b_dispatch (g : group) (b2 : bst) : bst :=
  if get_group (gb g) =? 0 then b_group0 g b2
  else if get_group (gb g) =? 1 then b_group1 g b2
  else b2.

Definition b_process (g : group) (b0 : bst) : bst := b_dispatch g (b_group_parse g b0).

Definition b_step (b : bst) (o : op) : bst :=
  match o with
  | OInit => b_init
  | OClear => (buf_unknown, buf_unknown, b_ext b)
  | OParse g => b_process g b
  | OParseString (Some l) => match utils_convert l with Some g => b_process g b | None => b end
  | OSetExt v => (b_used b, b_temp b, v)
  | _ => b
  end.

(* an action acts on the buffer projection as fb *)
Definition refines (a : act) (fb : bst -> bst) : Prop := forall s, bproj (fst (a s)) = fb (bproj s).

Lemma refines_skip : refines skip (fun b => b).
Proof. intros s. reflexivity. Qed.
Lemma refines_andthen a b fa fb : refines a fa -> refines b fb -> refines (andthen a b) (fun x => fb (fa x)).
Proof. intros Ha Hb s. rewrite andthen_fst, Hb, Ha. reflexivity. Qed.
Lemma refines_when c a fa : refines a fa -> refines (when c a) (fun x => if c then fa x else x).
Proof. intros Ha. destruct c; [exact Ha|apply refines_skip]. Qed.
Lemma refines_ext a fa fb : refines a fa -> (forall x, fa x = fb x) -> refines a fb.
Proof. intros Ha He s. rewrite Ha. apply He. Qed.
Lemma refines_keeps a : keeps P_buf a -> keeps ext a -> refines a (fun b => b).
Proof. intros H1 H2 s. unfold bproj. specialize (H1 s). specialize (H2 s). unfold P_buf in H1. inversion H1. congruence. Qed.

Lemma refines_set_scalar f v : refines (set_scalar f v) (b_set f v).
Proof.
  intros s. unfold set_scalar, buffer_update, b_set, bproj.
  destruct ((getf f (used s) =? v) || (ext s && negb (getf f (temp s) =? v))); reflexivity.
Qed.

Lemma refines_add_af v : refines (add_af v) (b_af v).
Proof.
  intros s. unfold add_af, buffer_add_af, b_af, bproj.
  destruct (negb (af_get (d_af (used s)) v)); [|reflexivity].
  destruct (ext s && negb (af_get (d_af (temp s)) v)).
  - destruct (af_set (d_af (temp s)) v) as [[a r]|]; reflexivity.
  - destruct (af_set (d_af (used s)) v) as [[a r]|]; reflexivity.
Qed.

Lemma upd_string_keeps_buf sl w ei ed pos : forall s,
  bproj (fst (upd_string conv sl w ei ed pos s)) = bproj s.
Proof.
  intros s. unfold upd_string. destruct (_ && _); [|reflexivity].
  destruct (string_update _ _ _ _ _ _ _ _) as [[t' c]|]; [|reflexivity].
  destruct sl; reflexivity.
Qed.

Lemma keeps_ext_tac_group2 g fl : keeps ext (group2_parse conv g fl).
Proof. keeps_leaf. Qed.
Lemma keeps_ext_tac_group10 g fl : keeps ext (group10_parse conv g fl).
Proof. keeps_leaf. Qed.

Lemma refines_ps_update g : refines
  (fun s => let (s', chg) := upd_string conv TPS (gd g) (eb g) (ed g) (Z.to_nat (2 * get_ps_pos (gb g))) s in
            (s', text_event FPS ANone TPS chg s')) (fun b => b).
Proof.
  intros s. pose proof (upd_string_keeps_buf TPS (gd g) (eb g) (ed g) (Z.to_nat (2 * get_ps_pos (gb g))) s) as H.
  destruct (upd_string conv TPS (gd g) (eb g) (ed g) _ s) as [s' chg]. exact H.
Qed.

Lemma refines_country g : refines
  (fun s => set_scalar SCountry (ecc_lookup lut (d_pi (used s)) (get_ecc (gc g))) s)
  (fun b => b_set SCountry (ecc_lookup lut (d_pi (b_used b)) (get_ecc (gc g))) b).
Proof. intros s. apply (refines_set_scalar SCountry (ecc_lookup lut (d_pi (used s)) (get_ecc (gc g))) s). Qed.

Lemma group_parse_refines g : refines (group_parse g) (b_group_parse g).
Proof.
  unfold group_parse. eapply refines_ext.
  - apply refines_andthen.
    + apply refines_when. apply refines_set_scalar.
    + apply refines_when. apply refines_andthen; apply refines_set_scalar.
  - intros b. unfold b_group_parse. cbv zeta. reflexivity.
Qed.

Lemma group0_refines g : refines (group0_parse conv g (get_flag (gb g))) (b_group0 g).
Proof.
  unfold group0_parse, group0a_parse. eapply refines_ext.
  - apply refines_andthen.
    + apply refines_andthen.
      * apply refines_when. apply refines_andthen; apply refines_set_scalar.
      * apply refines_ps_update.
    + apply refines_when. apply refines_when. apply refines_when.
      apply refines_andthen; apply refines_add_af.
  - intros b. unfold b_group0. cbv zeta. reflexivity.
Qed.

Lemma group1_refines g : refines (group1_parse lut g (get_flag (gb g))) (b_group1 g).
Proof.
  unfold group1_parse. eapply refines_ext.
  - apply refines_when. apply refines_andthen; [apply refines_set_scalar|apply refines_country].
  - intros b. unfold b_group1. cbv zeta. reflexivity.
Qed.

Lemma dispatch_refines g : refines (dispatch conv lut g) (b_dispatch g).
Proof.
  unfold dispatch, b_dispatch. cbv zeta.
  destruct (get_group (gb g) =? 0); [apply group0_refines|].
  destruct (get_group (gb g) =? 1); [apply group1_refines|].
  destruct (get_group (gb g) =? 2).
  { apply refines_keeps; [apply group2_keeps_buf|apply keeps_ext_tac_group2]. }
  destruct (get_group (gb g) =? 4).
  { intros s. rewrite group4_keeps_all. reflexivity. }
  destruct (get_group (gb g) =? 10).
  { apply refines_keeps; [apply group10_keeps_buf|apply keeps_ext_tac_group10]. }
  apply refines_skip.
Qed.

Lemma process_refines g : refines (process conv lut g) (b_process g).
Proof.
  unfold process, b_process.
  apply (refines_andthen _ _ _ _ (group_parse_refines g) (dispatch_refines g)).
Qed.

Theorem step_bproj s o : bproj (fst (step conv lut s o)) = b_step (bproj s) o.
Proof.
  destruct o as [| |g|str|v|t k e|t v|u|f id]; cbn [step fst b_step]; try reflexivity.
  - apply process_refines.
  - destruct str as [l|]; [|reflexivity]. destruct (utils_convert l) as [g|]; [|reflexivity].
    apply process_refines.
Qed.

(* the buffer part of every reachable state is the fold of b_step over its history *)
Fixpoint b_hist (h : list op) : bst :=
  match h with
  | [] => b_init
  | o :: r => b_step (b_hist r) o
  end.

Theorem reach_bproj h s : reach conv lut h s -> bproj s = b_hist h.
Proof.
  induction 1 as [|h s o Hr IH Hwf].
  - reflexivity.
  - rewrite step_bproj, IH. reflexivity.
Qed.

End Buf.
