(* Lemmas_Tuning.v — C01: in normal mode the five tuning getters equal the last error-free
   reception (history functions last_rx). *)
Require Export Lemmas_Buf.
Local Open Scope Z_scope.

Definition sfield_eqb (a b : sfield) : bool :=
  match a, b with
  | SPi, SPi | SPty, SPty | STp, STp | STa, STa | SMs, SMs | SEcc, SEcc | SCountry, SCountry => true
  | _, _ => false
  end.
Lemma getf_setf f f' v d : getf f' (setf f v d) = if sfield_eqb f f' then v else getf f' d.
Proof. destruct f, f'; reflexivity. Qed.
Lemma getf_set_af f a d : getf f (set_af a d) = getf f d.
Proof. destruct f; reflexivity. Qed.

(* one buffer update in normal mode: the getter shows the value; other fields untouched *)
Lemma b_set_used_normal f f' v b : b_ext b = false ->
  getf f' (b_used (b_set f v b)) = if sfield_eqb f f' then v else getf f' (b_used b).
Proof.
  destruct b as [[u t] x]. unfold b_ext, b_used, b_set. cbn [fst snd]. intros ->.
  cbn [andb]. rewrite orb_false_r.
  destruct (getf f u =? v) eqn:E; cbn [fst].
  - apply Z.eqb_eq in E. destruct (sfield_eqb f f') eqn:Ef; [|reflexivity].
    destruct f, f'; try discriminate; exact E.
  - apply getf_setf.
Qed.
Lemma b_set_ext f v b : b_ext (b_set f v b) = b_ext b.
Proof. destruct b as [[u t] x]. unfold b_set, b_ext. destruct (_ || _); reflexivity. Qed.
Lemma b_af_ext v b : b_ext (b_af v b) = b_ext b.
Proof.
  destruct b as [[u t] x]. unfold b_af, b_ext. destruct (negb _); [|reflexivity].
  destruct (x && _).
  - destruct (af_set (d_af t) v) as [[a r]|]; reflexivity.
  - destruct (af_set (d_af u) v) as [[a r]|]; reflexivity.
Qed.
Lemma b_af_used f v b : getf f (b_used (b_af v b)) = getf f (b_used b).
Proof.
  destruct b as [[u t] x]. unfold b_af, b_used. destruct (negb _); [|reflexivity].
  destruct (x && _).
  - destruct (af_set (d_af t) v) as [[a r]|]; reflexivity.
  - destruct (af_set (d_af u) v) as [[a r]|]; cbn [fst]; [apply getf_set_af|reflexivity].
Qed.

Section Tuning.
Variable lut : Z -> Z -> Z.

(* what a group delivers for each of the five tuning fields, with the extractors of the sources *)
Definition rxs (f : sfield) (g : group) : option Z :=
  match f with
  | SPi => if ea g =? 0 then Some (ga g) else None
  | SPty => if eb g =? 0 then Some (get_pty (gb g)) else None
  | STp => if eb g =? 0 then Some (get_tp (gb g)) else None
  | STa => if (get_group (gb g) =? 0) && (eb g =? 0) then Some (get_ta (gb g)) else None
  | SMs => if (get_group (gb g) =? 0) && (eb g =? 0) then Some (get_ms (gb g)) else None
  | _ => None
  end.
Definition tuning (f : sfield) : bool :=
  match f with SPi | SPty | STp | STa | SMs => true | _ => false end.

Lemma b_process_ext g b : b_ext (b_process lut g b) = b_ext b.
Proof.
  unfold b_process, b_dispatch, b_group0, b_group1, b_group_parse. cbv zeta.
  repeat match goal with |- context [if ?c then _ else _] => destruct c end;
    rewrite ?b_af_ext, ?b_set_ext; reflexivity.
Qed.

Lemma b_process_tuning f g b : tuning f = true -> b_ext b = false ->
  getf f (b_used (b_process lut g b)) =
  match rxs f g with Some v => v | None => getf f (b_used b) end.
Proof.
  intros Hf Hx. unfold b_process, b_dispatch, b_group0, b_group1, b_group_parse, rxs. cbv zeta.
  destruct (ea g =? 0), (eb g =? 0), (get_group (gb g) =? 0), (get_group (gb g) =? 1); cbn [andb];
  destruct f; try discriminate;
    repeat match goal with |- context [if ?c then _ else _] => destruct c end;
    cbn [andb];
    repeat (first [ rewrite b_af_used
                  | rewrite b_set_used_normal by (rewrite ?b_af_ext, ?b_set_ext; exact Hx) ];
            cbn [sfield_eqb]);
    reflexivity.
Qed.

(* rxs with arithmetic reading, for well-formed groups *)
Lemma rxs_spec g : wf_group g ->
  rxs SPi g = rx_pi g /\ rxs SPty g = rx_pty g /\ rxs STp g = rx_tp g
  /\ rxs STa g = rx_ta g /\ rxs SMs g = rx_ms g.
Proof.
  intros [_ [Hb _]]. unfold rxs, rx_pi, rx_pty, rx_tp, rx_ta, rx_ms.
  rewrite (get_pty_spec _ Hb), (get_tp_spec _ Hb), (get_ta_spec _ Hb), (get_ms_spec _ Hb), (get_group_spec _ Hb).
  repeat split; try reflexivity; rewrite andb_comm; reflexivity.
Qed.

Definition wf_hist (h : list op) : Prop := Forall wf_op h.

Definition sel_of (f : sfield) : group -> option Z :=
  match f with SPi => rx_pi | SPty => rx_pty | STp => rx_tp | STa => rx_ta | SMs => rx_ms
             | _ => fun _ => None end.

Theorem tuning_last_rx f : tuning f = true -> forall h, wf_hist h -> no_ext h = true ->
  b_ext (b_hist lut h) = false /\ getf f (b_used (b_hist lut h)) = last_rx (sel_of f) h.
Proof.
  intros Hf. induction h as [|o r IH]; intros Hwf Hn.
  - split; [reflexivity|]. destruct f; try discriminate; reflexivity.
  - inversion Hwf as [|? ? Hwo Hwr]; subst.
    destruct o as [| |g|str|v|t k e|t v|u|fd id]; cbn [b_hist b_step].
    + split; [reflexivity|]. destruct f; try discriminate; reflexivity.
    + cbn [no_ext] in Hn. destruct (IH Hwr Hn) as [Hx _]. split; [exact Hx|].
      destruct f; try discriminate; reflexivity.
    + cbn [no_ext] in Hn. destruct (IH Hwr Hn) as [Hx Hv]. split.
      * rewrite b_process_ext. exact Hx.
      * rewrite (b_process_tuning f g _ Hf Hx). cbn [last_rx is_reset op_group].
        destruct (rxs_spec g Hwo) as [E1 [E2 [E3 [E4 E5]]]].
        destruct f; try discriminate; cbn [sel_of];
          rewrite ?E1, ?E2, ?E3, ?E4, ?E5;
          match goal with |- match ?x with _ => _ end = _ => destruct x end; try reflexivity; exact Hv.
    + cbn [no_ext] in Hn. destruct (IH Hwr Hn) as [Hx Hv].
      destruct str as [l|]; [|split; [exact Hx|exact Hv]].
      cbn [last_rx is_reset op_group].
      destruct (utils_convert l) as [g|] eqn:E; [|split; [exact Hx|exact Hv]].
      pose proof (utils_convert_wf l g E) as Hg. split.
      * rewrite b_process_ext. exact Hx.
      * rewrite (b_process_tuning f g _ Hf Hx).
        destruct (rxs_spec g Hg) as [E1 [E2 [E3 [E4 E5]]]].
        destruct f; try discriminate; cbn [sel_of];
          rewrite ?E1, ?E2, ?E3, ?E4, ?E5;
          match goal with |- match ?x with _ => _ end = _ => destruct x end; try reflexivity; exact Hv.
    + destruct v; [discriminate|]. cbn [no_ext] in Hn. destruct (IH Hwr Hn) as [Hx Hv].
      split; [reflexivity|exact Hv].
    + cbn [no_ext] in Hn. apply (IH Hwr Hn).
    + cbn [no_ext] in Hn. apply (IH Hwr Hn).
    + cbn [no_ext] in Hn. apply (IH Hwr Hn).
    + cbn [no_ext] in Hn. apply (IH Hwr Hn).
Qed.

End Tuning.

Lemma reach_wf_hist conv lut h s : reach conv lut h s -> wf_hist h.
Proof.
  induction 1 as [|h s o Hr IH Hwf]; constructor; auto. exact I.
Qed.

(* C01 as the observer states it *)
Theorem C01_observer_holds conv lut h s o : reach conv lut h s -> wf_op o ->
  obs_C01 (o :: h) (snap_of s) (snap_of (fst (step conv lut s o))) (snd (step conv lut s o)) (ret_of o) = true.
Proof.
  intros Hr Hwf. unfold obs_C01. destruct (no_ext (o :: h)) eqn:Hn; [|reflexivity].
  pose proof (reach_step conv lut h s o Hr Hwf) as Hr'.
  pose proof (reach_bproj conv lut _ _ Hr') as Hb.
  pose proof (reach_wf_hist _ _ _ _ Hr') as Hw.
  assert (forall f, tuning f = true -> getf f (used (fst (step conv lut s o))) = last_rx (sel_of f) (o :: h)) as Hall.
  { intros f Hf. destruct (tuning_last_rx lut f Hf (o :: h) Hw Hn) as [_ Hv].
    rewrite <- Hv. rewrite <- Hb. reflexivity. }
  unfold snap_of. cbn [sn_pi sn_pty sn_tp sn_ta sn_ms].
  pose proof (Hall SPi eq_refl) as H1. pose proof (Hall SPty eq_refl) as H2. pose proof (Hall STp eq_refl) as H3.
  pose proof (Hall STa eq_refl) as H4. pose proof (Hall SMs eq_refl) as H5.
  cbn [getf sel_of] in H1, H2, H3, H4, H5. rewrite H1, H2, H3, H4, H5, !Z.eqb_refl. reflexivity.
Qed.
