(* Properties_C11.v — obligations of property C11 (ECC and country follow group 1A variant 0 and
   the IEC 62106-4 table). *)
Require Import ObsRun Lemmas_Ecc Lemmas_TabEcc Lemmas_Leaf_C11.
Local Open Scope Z_scope.

(* The table measured on the compiled library (complete graph over 16 PI nibbles x 256 ECC values;
   the dumper also checks "PI unknown gives 0" and "the low 12 bits of PI are irrelevant" over all
   65537 x 256 arguments) equals the reference IEC 62106-4 table, is 'unknown' for nibble 0 and
   outside A0-A6 / D0-D4 / E0-E5 / F0-F4, and contains only valid enumerators. *)
Theorem C11_table_is_IEC_and_shaped : ecc_ok = true.
Proof. exact ecc_table_is_reference. Qed.
Print Assumptions C11_table_is_IEC_and_shaped.

(* For every reachable state and every call (normal mode): a 1A group with error-free B and C
   and variant 0 — (B/4096 = 1, (B/2048) mod 2 = 0, (C/4096) mod 8 = 0; the linkage bit 15 of C is
   irrelevant) — sets ECC to C mod 256 and the country to the table entry for (country nibble of
   the PI the getter shows after this very call, ECC), 0 when that PI is unknown; every other
   call leaves both as they were (clear / init reset them); the country getter always returns a
   valid enumerator (both modes). *)
Theorem C11_observer : forall h s o, reach conv_u lut_g h s -> wf_op o ->
  obs_C11 lut_g (o :: h) (snap_of s) (snap_of (fst (step_u s o))) (snd (step_u s o)) (ret_of o) = true.
Proof. exact (C11_observer_holds conv_u lut_g lut_g_range). Qed.
Print Assumptions C11_observer.

Theorem C11_country_always_valid : forall h s, reach conv_u lut_g h s ->
  0 <= d_country (used s) < 221.
Proof.
  intros h s Hr. pose proof (reach_bproj conv_u lut_g h s Hr) as Hb.
  pose proof (b_hist_ranges lut_g lut_g_range h (reach_wf_hist _ _ _ _ Hr)) as [_ [_ [Hc _]]].
  replace (used s) with (b_used (b_hist lut_g h)) by (rewrite <- Hb; reflexivity). exact Hc.
Qed.
Print Assumptions C11_country_always_valid.

(* THE CODE ITSELF: variant and ECC extractors of group 1A, translated from clang's typed AST on every run *)
Theorem C11_code_ecc : forall d0 d1 d2 d3, 0 <= d2 < 65536 ->
  c_get_variant d0 d1 d2 d3 = get_variant d2 /\ c_get_ecc d0 d1 d2 d3 = get_ecc d2.
Proof. intros d0 d1 d2 d3 H. split; [apply leaf_get_variant|apply leaf_get_ecc]; exact H. Qed.
Print Assumptions C11_code_ecc.

Example C11_scenario : check_run_u (observer_u 11) scenario = true.
Proof. vm_compute. reflexivity. Qed.
Example C11_nontrivial :
  let s := run_u (firstn 16 scenario) in sn_ecc (snap_of s) = 226 /\ sn_country (snap_of s) = 107.
Proof. vm_compute. split; reflexivity. Qed.
