(* Properties_C11.v — obligations of property C11.  Contains only theorem statements closed by
   `exact <lemma>` and Print Assumptions. *)
Require Import ObsRun.
Local Open Scope Z_scope.

(* non-vacuity: the observer of C11 is evaluated (and holds) along a run of the model that
   touches every group kind *)
Example C11_scenario : check_run_u (observer_u 11) scenario = true.
Proof. vm_compute. reflexivity. Qed.
Print Assumptions C11_scenario.
