(* Lemmas_Frame.v — which components of the state an action can touch.
   `keeps proj a` : running action a never changes the projection proj of the state.
   Composite actions are handled structurally (andthen / when / skip); leaf actions by unfolding
   and case analysis (tactic keeps_tac). *)
Require Export Lemmas_Bits.
Local Open Scope Z_scope.

Section Frame.
Variable conv : Z -> Z.
Variable lut : Z -> Z -> Z.

Definition keeps {X} (proj : state -> X) (a : act) : Prop := forall s, proj (fst (a s)) = proj s.

Lemma keeps_skip {X} (p : state -> X) : keeps p skip.
Proof. intros s. reflexivity. Qed.

Lemma keeps_andthen {X} (p : state -> X) a b : keeps p a -> keeps p b -> keeps p (andthen a b).
Proof.
  intros Ha Hb s. unfold andthen. specialize (Ha s).
  destruct (a s) as [s1 e1]. specialize (Hb s1). destruct (b s1) as [s2 e2].
  simpl in *. congruence.
Qed.

Lemma keeps_when {X} (p : state -> X) c a : keeps p a -> keeps p (when c a).
Proof. intros Ha. unfold when. destruct c; [exact Ha | apply keeps_skip]. Qed.

Lemma andthen_fst a b s : fst (andthen a b s) = fst (b (fst (a s))).
Proof. unfold andthen. destruct (a s) as [s1 e1]. simpl. destruct (b s1) as [s2 e2]. reflexivity. Qed.

Lemma andthen_snd a b s : snd (andthen a b s) = snd (a s) ++ snd (b (fst (a s))).
Proof. unfold andthen. destruct (a s) as [s1 e1]. simpl. destruct (b s1) as [s2 e2]. reflexivity. Qed.

Lemma when_true a : when true a = a.   Proof. reflexivity. Qed.
Lemma when_false a : when false a = skip.   Proof. reflexivity. Qed.

End Frame.

(* case analysis on every match / if in the goal *)
Ltac break_match :=
  match goal with
  | |- context [match ?x with _ => _ end] =>
    match type of x with
    | sumbool _ _ => destruct x
    | _ => destruct x eqn:?
    end
  end.

Ltac break_hyp :=
  match goal with
  | H : context [match ?x with _ => _ end] |- _ => destruct x eqn:?
  end.
Ltac inv_pairs :=
  repeat match goal with
         | H : (_, _) = (_, _) |- _ => inversion H; clear H; subst
         end.

Ltac leaf_unfold :=
  cbv beta zeta delta [set_scalar add_af buffer_update buffer_add_af emit text_event upd_string
                       group2_parse group4_parse group10_parse set_text].

Ltac keeps_leaf :=
  unfold keeps; intros ?s; leaf_unfold;
  repeat break_match; repeat break_hyp; inv_pairs; try discriminate; cbn [fst snd]; try reflexivity.

Ltac keeps_tac :=
  repeat first
    [ apply keeps_andthen
    | apply keeps_when
    | apply keeps_skip
    | progress cbv beta zeta delta [process group_parse dispatch group0_parse group0a_parse group1_parse]
    | match goal with |- keeps _ (if ?c then _ else _) => destruct c end ];
  try keeps_leaf.

(* ---------- the three coarse frames ---------- *)
Definition P_set (s : state) := (ext s, prog s, corr s, ud s, cb s).
Definition P_txt (s : state) := (ps s, rt0 s, rt1 s, ptyn s, last_rt s).
Definition P_buf (s : state) := (used s, temp s).

Section Frame2.
Variable conv : Z -> Z.
Variable lut : Z -> Z -> Z.

(* parsing never touches a setting, a callback registration or the user data *)
Lemma process_keeps_settings g : keeps P_set (process conv lut g).
Proof. keeps_tac. Qed.

Lemma set_scalar_keeps_txt f v : keeps P_txt (set_scalar f v).
Proof. keeps_leaf. Qed.
Lemma add_af_keeps_txt v : keeps P_txt (add_af v).
Proof. keeps_leaf. Qed.
Lemma group_parse_keeps_txt g : keeps P_txt (group_parse g).
Proof. keeps_tac. Qed.
Lemma group1_keeps_txt g fl : keeps P_txt (group1_parse lut g fl).
Proof. keeps_tac. Qed.
Lemma group4_keeps_all g fl : forall s, fst (group4_parse g fl s) = s.
Proof. intros s. unfold group4_parse. repeat break_match; reflexivity. Qed.
Lemma group2_keeps_buf g fl : keeps P_buf (group2_parse conv g fl).
Proof. keeps_leaf. Qed.
Lemma group10_keeps_buf g fl : keeps P_buf (group10_parse conv g fl).
Proof. keeps_leaf. Qed.

End Frame2.
