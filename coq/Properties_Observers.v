(* Properties_Observers.v — the checks cannot alarm on behaviour the model allows.
   The correspondence check evaluates, on every trace of the library, the boolean observers
   observer_u n / observer_n n (n = 1, 2, 4, 6..12, 14..17; the constant `true` for any other n).
   Here, for ANY character table whose entries are printable and ANY ECC table whose entries are
   country enumerators: for EVERY script of well-formed calls, of any length, every one of these
   observers is true at every step of the model's own run.  (The two table facts are checked for the
   tables measured on the library in Properties_ObserversInst.v; this file does not depend on the
   generated tables, so that a table edit disturbs only the properties that talk about tables.)
   So an observer that fires on the library exhibits a behaviour the model does not have (a
   deviation of the code from the model, i.e. from the property theorems), never an over-strict
   check. *)
Require Import ObsRun Lemmas_Tuning Lemmas_Settings Lemmas_Ecc Lemmas_Ext Lemmas_Callbacks Lemmas_ObsCb Properties_C14.
Local Open Scope Z_scope.

(* the observer dispatcher of Inst.v, for an arbitrary ECC table *)
Definition observer_g (conv : Z -> Z) (lut : Z -> Z -> Z) (n : Z) : observer_t :=
  if n =? 1 then obs_C01
  else if n =? 2 then obs_C02 conv
  else if n =? 4 then obs_C04
  else if n =? 6 then obs_C06 conv
  else if n =? 7 then obs_C07
  else if n =? 8 then obs_C08 conv
  else if n =? 9 then obs_C09 lut
  else if n =? 10 then obs_C10
  else if n =? 11 then obs_C11 lut
  else if n =? 12 then obs_C12
  else if n =? 14 then obs_C14
  else if n =? 15 then obs_C15
  else if n =? 16 then obs_C16 conv
  else if n =? 17 then obs_C17
  else fun _ _ _ _ _ => true.
Lemma observer_is_g conv n : observer conv n = observer_g conv lut_g n.
Proof. reflexivity. Qed.

Section AnyTables.
Variable conv : Z -> Z.
Variable lut : Z -> Z -> Z.
Hypothesis conv_printable : forall b, 32 <= b < 256 -> printable (conv b) = true.
Hypothesis conv_space : conv 32 = 32.
Hypothesis lut_range : forall n e, 0 <= lut n e < 221.

Theorem every_observer_every_step : forall n h s o, reach conv lut h s -> wf_op o ->
  observer_g conv lut n (o :: h) (snap_of s) (snap_of (fst (step conv lut s o))) (snd (step conv lut s o)) (ret_of o) = true.
Proof.
  intros n h s o Hr Wo. unfold observer_g.
  destruct (n =? 1); [exact (C01_observer_holds conv lut h s o Hr Wo)|].
  destruct (n =? 2); [exact (obs_C02_holds conv lut h s o _ Hr Wo)|].
  destruct (n =? 4); [exact (obs_C04_holds conv lut h s o _ Hr Wo)|].
  destruct (n =? 6); [exact (obs_C06_holds conv lut h s o _ Hr Wo)|].
  destruct (n =? 7); [exact (obs_C07_holds conv lut h s o _ Hr Wo)|].
  destruct (n =? 8); [exact (obs_C08_holds conv lut h s o _ Hr Wo)|].
  destruct (n =? 9); [exact (C09_observer_holds conv lut lut_range h s o Hr Wo)|].
  destruct (n =? 10); [exact (obs_C10_holds conv lut h s o _ Hr Wo)|].
  destruct (n =? 11); [exact (C11_observer_holds conv lut lut_range h s o Hr Wo)|].
  destruct (n =? 12); [exact (C12_observer_holds conv lut h s o Hr Wo)|].
  destruct (n =? 14); [exact (C14_observer conv lut s o h)|].
  destruct (n =? 15); [exact (C15_observer_holds conv lut h s o Hr Wo)|].
  destruct (n =? 16); [exact (obs_C16_holds conv lut conv_printable conv_space h s o _ Hr Wo)|].
  destruct (n =? 17); [exact (C17_observer_holds conv lut h s o Hr Wo)|].
  reflexivity.
Qed.

Theorem every_observer_along : forall n ops h s, reach conv lut h s -> Forall wf_op ops ->
  obs_along (step conv lut) (observer_g conv lut n) h s ops = true.
Proof.
  intros n ops. induction ops as [|o r IH]; intros h s Hr Hw; [reflexivity|].
  inversion Hw as [|x l Wo Wr]; subst. cbn [obs_along].
  destruct (step conv lut s o) as [s' evs] eqn:E.
  pose proof (every_observer_every_step n h s o Hr Wo) as H1. rewrite E in H1. cbn [fst snd] in H1. rewrite H1.
  cbn [andb]. apply IH; [|exact Wr].
  pose proof (reach_step conv lut h s o Hr Wo) as Hr'. rewrite E in Hr'. exact Hr'.
Qed.

(* from the initial state: what the check runs *)
Theorem observers_never_alarm_on_the_model_gen : forall n ops, Forall wf_op ops ->
  obs_along (step conv lut) (observer_g conv lut n) [OInit] init_state ops = true.
Proof. intros n ops Hw. apply every_observer_along; [apply reach_init|exact Hw]. Qed.

End AnyTables.
Print Assumptions observers_never_alarm_on_the_model_gen.

(* non-vacuity: the scenario of the Examples is such a script *)
Example scenario_wf : Forall wf_op scenario.
Proof. unfold scenario, G. repeat constructor; cbn; try lia; repeat constructor; lia. Qed.
