(* Properties_Observers.v — the checks cannot alarm on behaviour the model allows.
   The correspondence check evaluates, on every trace of the library, the boolean observers
   observer_u n / observer_n n (n = 1, 2, 4, 6..12, 14..17; the constant `true` for any other n).
   Here: for EVERY script of well-formed calls, of any length, every one of these observers is
   true at every step of the model's own run — for the unicode tables and for the tables of the
   non-unicode build.  So an observer that fires on the library exhibits a behaviour the model
   does not have (a deviation of the code from the model, i.e. from the property theorems), never
   an over-strict check. *)
Require Import ObsRun Lemmas_Tuning Lemmas_Settings Lemmas_Ecc Lemmas_Ext Lemmas_Callbacks Lemmas_TabEcc
               Lemmas_TabConv Lemmas_Narrow Lemmas_ObsCb Properties_C14.
Local Open Scope Z_scope.

Section AnyTables.
Variable conv : Z -> Z.
Hypothesis conv_printable : forall b, 32 <= b < 256 -> printable (conv b) = true.
Hypothesis conv_space : conv 32 = 32.

Theorem every_observer_every_step : forall n h s o, reach conv lut_g h s -> wf_op o ->
  observer conv n (o :: h) (snap_of s) (snap_of (fst (step conv lut_g s o))) (snd (step conv lut_g s o)) (ret_of o) = true.
Proof.
  intros n h s o Hr Wo. unfold observer.
  destruct (n =? 1); [exact (C01_observer_holds conv lut_g h s o Hr Wo)|].
  destruct (n =? 2); [exact (obs_C02_holds conv lut_g h s o _ Hr Wo)|].
  destruct (n =? 4); [exact (obs_C04_holds conv lut_g h s o _ Hr Wo)|].
  destruct (n =? 6); [exact (obs_C06_holds conv lut_g h s o _ Hr Wo)|].
  destruct (n =? 7); [exact (obs_C07_holds conv lut_g h s o _ Hr Wo)|].
  destruct (n =? 8); [exact (obs_C08_holds conv lut_g h s o _ Hr Wo)|].
  destruct (n =? 9); [exact (C09_observer_holds conv lut_g lut_g_range h s o Hr Wo)|].
  destruct (n =? 10); [exact (obs_C10_holds conv lut_g h s o _ Hr Wo)|].
  destruct (n =? 11); [exact (C11_observer_holds conv lut_g lut_g_range h s o Hr Wo)|].
  destruct (n =? 12); [exact (C12_observer_holds conv lut_g h s o Hr Wo)|].
  destruct (n =? 14); [exact (C14_observer conv lut_g s o h)|].
  destruct (n =? 15); [exact (C15_observer_holds conv lut_g h s o Hr Wo)|].
  destruct (n =? 16); [exact (obs_C16_holds conv lut_g conv_printable conv_space h s o _ Hr Wo)|].
  destruct (n =? 17); [exact (C17_observer_holds conv lut_g h s o Hr Wo)|].
  reflexivity.
Qed.

Theorem every_observer_along : forall n ops h s, reach conv lut_g h s -> Forall wf_op ops ->
  obs_along (step conv lut_g) (observer conv n) h s ops = true.
Proof.
  intros n ops. induction ops as [|o r IH]; intros h s Hr Hw; [reflexivity|].
  inversion Hw as [|x l Wo Wr]; subst. cbn [obs_along].
  destruct (step conv lut_g s o) as [s' evs] eqn:E.
  pose proof (every_observer_every_step n h s o Hr Wo) as H1. rewrite E in H1. cbn [fst snd] in H1. rewrite H1.
  cbn [andb]. apply IH; [|exact Wr].
  pose proof (reach_step conv lut_g h s o Hr Wo) as Hr'. rewrite E in Hr'. exact Hr'.
Qed.

End AnyTables.

(* the unicode build *)
Theorem observers_never_alarm_on_the_model : forall n ops, Forall wf_op ops ->
  check_run_u (observer_u n) ops = true.
Proof.
  intros n ops Hw. unfold check_run_u, observer_u, step_u.
  apply (every_observer_along conv_u (proj1 (conv_printable_spec conv_u conv_unicode_printable))
                              (proj2 (conv_printable_spec conv_u conv_unicode_printable)) n ops [OInit] init_state);
    [apply reach_init|exact Hw].
Qed.
Print Assumptions observers_never_alarm_on_the_model.

(* the non-unicode build *)
Theorem observers_never_alarm_on_the_model_narrow : forall n ops, Forall wf_op ops ->
  check_run_n (observer_n n) ops = true.
Proof.
  intros n ops Hw. unfold check_run_n, observer_n, step_n.
  apply (every_observer_along conv_n (proj1 (conv_printable_spec conv_n conv_narrow_printable))
                              (proj2 (conv_printable_spec conv_n conv_narrow_printable)) n ops [OInit] init_state);
    [apply reach_init|exact Hw].
Qed.
Print Assumptions observers_never_alarm_on_the_model_narrow.

(* non-vacuity: the scenario of the Examples is such a script *)
Example scenario_wf : Forall wf_op scenario.
Proof. unfold scenario, G. repeat constructor; cbn; try lia; repeat constructor; lia. Qed.
