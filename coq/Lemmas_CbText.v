(* Lemmas_CbText.v — C04 for the Programme Service name: the PS callback is made exactly when a PS
   cell (character or level) changed in this call, once, and it sees the new text. *)
Require Export Lemmas_Cb.
Local Open Scope Z_scope.

Definition cells_eqb (a b : list (Z * Z)) : bool := list_eqb pair_eqb a b.

Lemma pair_eqb_eq p q : pair_eqb p q = true <-> p = q.
Proof.
  destruct p as [a b], q as [c d]. unfold pair_eqb. cbn [fst snd]. split.
  - intros H. apply andb_true_iff in H. destruct H as [H1 H2]. apply Z.eqb_eq in H1, H2. subst. reflexivity.
  - intros H. inversion H; subst. rewrite !Z.eqb_refl. reflexivity.
Qed.
Lemma cells_eqb_eq a b : cells_eqb a b = true <-> a = b.
Proof.
  unfold cells_eqb, list_eqb. revert b. induction a as [|x r IH]; intros [|y r2]; cbn [all2]; split; intros H;
    try reflexivity; try discriminate.
  - apply andb_true_iff in H. destruct H as [H1 H2]. apply pair_eqb_eq in H1. apply IH in H2. subst. reflexivity.
  - inversion H; subst. apply andb_true_iff. split; [apply pair_eqb_eq; reflexivity|apply IH; reflexivity].
Qed.

Section CbText.
Variable conv : Z -> Z.
Variable lut : Z -> Z -> Z.

(* "changed" of one block = the cell list differs afterwards *)
Lemma changed2_spec info data pr eb e pos w cs : (S pos < length cs)%nat ->
  changed2 conv info data pr eb e pos w cs = negb (cells_eqb (write2 conv info data pr eb e pos w cs) cs).
Proof.
  intros Hl. unfold changed2.
  set (n0 := cell_after conv info data pr (nth pos cs (0, 0)) (w_hi w) eb e).
  set (n1 := cell_after conv info data pr (nth (S pos) cs (0, 0)) (w_lo w) eb e).
  assert (H0 : nth_error cs pos = Some (nth pos cs (0, 0))) by (apply nth_error_nth'; lia).
  assert (H1 : nth_error cs (S pos) = Some (nth (S pos) cs (0, 0))) by (apply nth_error_nth'; lia).
  destruct (pair_eqb n0 (nth pos cs (0, 0))) eqn:E0; cbn [negb orb].
  - apply pair_eqb_eq in E0.
    assert (W : write2 conv info data pr eb e pos w cs = upd (S pos) n1 cs).
    { unfold write2. fold n0. rewrite E0, (upd_same cs pos _ H0). reflexivity. }
    rewrite W. destruct (pair_eqb n1 (nth (S pos) cs (0, 0))) eqn:E1; cbn [negb].
    + apply pair_eqb_eq in E1. rewrite E1, (upd_same cs (S pos) _ H1).
      symmetry. apply negb_false_iff. apply cells_eqb_eq. reflexivity.
    + symmetry. apply negb_true_iff. destruct (cells_eqb (upd (S pos) n1 cs) cs) eqn:C; [|reflexivity].
      apply cells_eqb_eq in C. exfalso.
      assert (nth (S pos) (upd (S pos) n1 cs) (0, 0) = n1) by (apply nth_upd_same; lia).
      rewrite C in H. rewrite H in E1. rewrite pair_eqb_refl in E1. discriminate.
  - symmetry. apply negb_true_iff. destruct (cells_eqb (write2 conv info data pr eb e pos w cs) cs) eqn:C; [|reflexivity].
    apply cells_eqb_eq in C. exfalso.
    pose proof (write2_first conv info data pr eb e pos w cs Hl) as F. rewrite C in F. fold n0 in F.
    rewrite <- F in E0. rewrite pair_eqb_refl in E0. discriminate.
Qed.

Definition text_formula (F : field) (t t' : text) (s : state) : list event :=
  if negb (cells_eqb (cells t') (cells t)) && negb (cb s F =? 0)
  then [mkev F (cb s F) (ud s) ANone (SmText (tsnap_of t'))] else [].

Lemma filter_isf_self F e : ev_field e = F -> isf F e = true.
Proof. intros <-. unfold isf, field_eqb. apply Z.eqb_refl. Qed.

(* C04 for PS *)
Theorem ps_callbacks g s : Inv conv s -> wf_group g ->
  filter (isf FPS) (snd (process conv lut g s)) = text_formula FPS (ps s) (ps (fst (process conv lut g s))) s.
Proof.
  intros I Hwf. pose proof Hwf as [Ha [Hb [Hc [Hd [Hea [Heb [Hec Hed]]]]]]]. unfold blk_ok, err_ok in *.
  destruct (b_group (gb g) =? 0) eqn:G0.
  2:{ (* not type 0: PS untouched, no PS event *)
    assert (Hps : ps (fst (process conv lut g s)) = ps s).
    { destruct (group_cases conv lut (gb g) Hb) as [G|[G|[[G V]|[N0 [N2 N10]]]]]; [lia| | |].
      - exact (proj1 (rt_step conv lut g s I Hwf G)).
      - destruct (ptyn_step conv lut g s I Hwf G V) as [_ [P _]]. exact P.
      - exact (proj1 (no_text_step conv lut g s I Hwf N0 N2 N10)). }
    unfold text_formula. rewrite Hps.
    replace (cells_eqb (cells (ps s)) (cells (ps s))) with true by (symmetry; apply cells_eqb_eq; reflexivity).
    cbn [negb andb]. unfold process. rewrite andthen_snd, filter_app.
    rewrite (filter_fields FPS [FPI; FPTY; FTP] (group_parse g) s).
    2:{ unfold group_parse. apply fields_andthen; [apply fields_when; eapply fields_weaken; [apply fields_set_scalar|]; intros x [<-|[]]; cbn; tauto|].
        apply fields_when, fields_andthen; eapply fields_weaken; try apply fields_set_scalar; intros x [<-|[]]; cbn; tauto. }
    2:{ cbn; intuition discriminate. }
    cbn [app]. unfold dispatch. cbv zeta. rewrite (get_group_spec _ Hb), G0.
    destruct (b_group (gb g) =? 1).
    { apply (filter_fields FPS [FECC; FCOUNTRY]); [|cbn; intuition discriminate].
      unfold group1_parse. apply fields_when, fields_andthen.
      - eapply fields_weaken; [apply fields_set_scalar|]. intros x [<-|[]]; cbn; tauto.
      - intros s0 e H. apply (fields_set_scalar SCountry _ s0) in H. destruct H as [<-|[]]. cbn; tauto. }
    pose proof (fields_dispatch conv lut g) as FD. unfold dispatch in FD. cbv zeta in FD.
    rewrite (get_group_spec _ Hb), G0 in FD.
    (* remaining group types emit RT / CT / PTYN only *)
    set (s1 := fst (group_parse g s)).
    assert (Hn : forall e, In e (snd ((if b_group (gb g) =? 2 then group2_parse conv g (get_flag (gb g))
                                     else if b_group (gb g) =? 4 then group4_parse g (get_flag (gb g))
                                     else if b_group (gb g) =? 10 then group10_parse conv g (get_flag (gb g)) else skip) s1))
                      -> ev_field e <> FPS).
    { intros e He. destruct (b_group (gb g) =? 2).
      - unfold group2_parse in He.
        repeat match type of He with context [let '(_, _) := ?X in _] => destruct X as [? ?] end.
        repeat match type of He with context [if ?c then _ else _] => destruct c end;
          repeat match type of He with context [let '(_, _) := ?X in _] => destruct X as [? ?] end;
          cbn [snd] in He; try (destruct He; fail); apply text_event_field in He; rewrite He; discriminate.
      - destruct (b_group (gb g) =? 4).
        + rewrite group4_events in He. destruct (_ && negb _); [|destruct He]. destruct (ct_init _ _ _ _); [|destruct He].
          destruct He as [<-|[]]. discriminate.
        + destruct (b_group (gb g) =? 10); [|destruct He].
          unfold group10_parse in He. destruct (get_flag (gb g) =? 0); [|destruct He].
          destruct (upd_string conv TPTYN (gc g) _ _ _ s1) as [s2 c1].
          destruct (upd_string conv TPTYN (gd g) _ _ _ s2) as [s3 c2]. cbn [snd] in He.
          apply text_event_field in He. rewrite He. discriminate. }
    apply filter_none. apply Forall_forall. intros e He. specialize (Hn e He).
    unfold isf, field_eqb. destruct (ev_field e); try reflexivity. contradiction Hn; reflexivity. }
  (* type 0 *)
  assert (G : b_group (gb g) = 0) by lia.
  destruct (ps_step conv lut g s I Hwf G) as [Eps _].
  unfold process. rewrite andthen_snd, andthen_fst, filter_app.
  rewrite (filter_fields FPS [FPI; FPTY; FTP] (group_parse g) s).
  2:{ unfold group_parse. apply fields_andthen; [apply fields_when; eapply fields_weaken; [apply fields_set_scalar|]; intros x [<-|[]]; cbn; tauto|].
      apply fields_when, fields_andthen; eapply fields_weaken; try apply fields_set_scalar; intros x [<-|[]]; cbn; tauto. }
  2:{ cbn; intuition discriminate. }
  cbn [app].
  destruct (group_parse_frame conv g s I) as [I1 [C1 T1]]. cbv zeta in I1, C1, T1.
  set (s1 := fst (group_parse g s)) in *.
  unfold dispatch. cbv zeta. rewrite (get_group_spec _ Hb), G0.
  unfold group0_parse. rewrite !andthen_snd, !andthen_fst, !filter_app.
  set (a1 := when (eb g =? 0) (andthen (set_scalar STa (get_ta (gb g))) (set_scalar SMs (get_ms (gb g))))).
  rewrite (filter_fields FPS [FTA; FMS] a1 s1).
  2:{ unfold a1. apply fields_when, fields_andthen; eapply fields_weaken; try apply fields_set_scalar; intros x [<-|[]]; cbn; tauto. }
  2:{ cbn; intuition discriminate. }
  cbn [app].
  assert (I2 : Inv conv (fst (a1 s1))) by (unfold a1; apply pres_when; [apply pres_andthen; apply pres_set_scalar|exact I1]).
  assert (C2 : P_set (fst (a1 s1)) = P_set s1) by (unfold a1; apply keeps_when, keeps_andthen; apply keeps_set_scalar).
  assert (T2 : P_txt (fst (a1 s1)) = P_txt s1) by (unfold a1; apply keeps_when, keeps_andthen; apply set_scalar_keeps_txt).
  set (s2 := fst (a1 s1)) in *.
  destruct (upd_string_spec conv TPS (gd g) (eb g) (ed g) (Z.to_nat (2 * get_ps_pos (gb g))) s2 I2 Hd ltac:(lia) ltac:(lia)
              (pos2_ok conv lut (gb g) Hb)) as [t' [Eu Ct]]. cbv zeta in Eu, Ct.
  rewrite Eu. cbn [fst snd].
  set (a3 := when (get_flag (gb g) =? 0) (group0a_parse g)).
  rewrite (filter_fields FPS [FAF] a3 (set_text TPS t' s2)).
  2:{ unfold a3, group0a_parse. apply fields_when, fields_when, fields_when, fields_andthen; apply fields_add_af. }
  2:{ cbn; intuition discriminate. }
  rewrite app_nil_r.
  assert (T3 : P_txt (fst (a3 (set_text TPS t' s2))) = P_txt (set_text TPS t' s2)).
  { unfold a3, group0a_parse. apply keeps_when, keeps_when, keeps_when. apply keeps_andthen; apply add_af_keeps_txt. }
  destruct (P_txt_fields _ _ T3) as [Q1 _]. destruct (P_txt_fields _ _ T2) as [R1 _]. destruct (P_txt_fields _ _ T1) as [S1 _].
  destruct (P_set_fields _ _ C2) as [U1 [U2 [U3 U4]]]. destruct (P_set_fields _ _ C1) as [V1 [V2 [V3 V4]]].
  fold a3. rewrite Q1. cbn [set_text with_ps ps get_text tid_of].
  (* the event list of the PS update *)
  unfold text_event, text_formula.
  assert (Hlen : (S (Z.to_nat (2 * get_ps_pos (gb g))) < length (cells (ps s2)))%nat).
  { unfold cells. rewrite map_length. destruct (inv_ps conv s2 I2) as [Hl _]. rewrite Hl. apply (pos2_ok conv lut (gb g) Hb). }
  cbn [get_text tid_of] in Ct. rewrite (changed2_spec _ _ _ _ _ _ _ _ Hlen), <- Ct.
  rewrite R1, S1.
  unfold emit. cbn [cb ud set_text with_ps get_text]. rewrite U3, V3, U4, V4.
  destruct (negb (cells_eqb (cells t') (cells (ps s)))); cbn [andb]; [|reflexivity].
  destruct (cb s FPS =? 0); cbn [negb filter]; [reflexivity|].
  rewrite filter_isf_self by reflexivity. reflexivity.
Qed.

End CbText.

(* ---------- two blocks (PTYN, RT 2A): "changed" = c1 || c2 = the cell list differs afterwards ---------- *)
Section TwoBlocks.
Variable conv : Z -> Z.

Lemma cells_eqb_refl a : cells_eqb a a = true.
Proof. apply cells_eqb_eq. reflexivity. Qed.

Lemma two_blocks info data pr eb e1 e2 p w1 w2 cs : (S (S (S p)) < length cs)%nat ->
  let a1 := write2 conv info data pr eb e1 p w1 cs in
  let a2 := write2 conv info data pr eb e2 (S (S p)) w2 a1 in
  changed2 conv info data pr eb e1 p w1 cs || changed2 conv info data pr eb e2 (S (S p)) w2 a1
  = negb (cells_eqb a2 cs).
Proof.
  intros Hl a1 a2.
  assert (L1 : length a1 = length cs) by apply write2_length.
  rewrite (changed2_spec conv (fun _ _ => 0) _ _ _ _ _ _ _ cs) by lia.
  rewrite (changed2_spec conv (fun _ _ => 0) _ _ _ _ _ _ _ a1) by (rewrite L1; lia).
  fold a1 a2.
  destruct (cells_eqb a1 cs) eqn:E1; cbn [negb orb].
  - apply cells_eqb_eq in E1. rewrite E1. reflexivity.
  - symmetry. apply negb_true_iff. destruct (cells_eqb a2 cs) eqn:E2; [|reflexivity].
    apply cells_eqb_eq in E2. exfalso.
    assert (a1 = cs).
    { apply (nth_ext a1 cs (0, 0) (0, 0) L1). intros i Hi.
      destruct (Nat.eq_dec i p) as [->|N1]; [|destruct (Nat.eq_dec i (S p)) as [->|N2]].
      - transitivity (nth p a2 (0, 0)); [|rewrite E2; reflexivity]. unfold a2. rewrite write2_other by lia. reflexivity.
      - transitivity (nth (S p) a2 (0, 0)); [|rewrite E2; reflexivity]. unfold a2. rewrite write2_other by lia. reflexivity.
      - unfold a1. apply write2_other; assumption. }
    rewrite H in E1. rewrite cells_eqb_refl in E1. discriminate.
Qed.

End TwoBlocks.

Section CbText2.
Variable conv : Z -> Z.
Variable lut : Z -> Z -> Z.

Lemma fields_group_parse g : fields_in [FPI; FPTY; FTP] (group_parse g).
Proof.
  unfold group_parse. apply fields_andthen; [apply fields_when; eapply fields_weaken; [apply fields_set_scalar|]; intros x [<-|[]]; cbn; tauto|].
  apply fields_when, fields_andthen; eapply fields_weaken; try apply fields_set_scalar; intros x [<-|[]]; cbn; tauto.
Qed.

(* C04 for PTYN, group 10A *)
Theorem ptyn_callbacks_10A g s : Inv conv s -> wf_group g -> b_group (gb g) = 10 -> b_ver (gb g) = 0 ->
  filter (isf FPTYN) (snd (process conv lut g s)) = text_formula FPTYN (ptyn s) (ptyn (fst (process conv lut g s))) s.
Proof.
  intros I Hwf G10 V0. pose proof Hwf as [Ha [Hb [Hc [Hd [Hea [Heb [Hec Hed]]]]]]]. unfold blk_ok, err_ok in *.
  unfold text_formula. unfold process. rewrite andthen_snd, andthen_fst, filter_app.
  rewrite (filter_fields FPTYN [FPI; FPTY; FTP] (group_parse g) s (fields_group_parse g)) by (cbn; intuition discriminate).
  cbn [app].
  destruct (group_parse_frame conv g s I) as [I1 [C1 T1]]. cbv zeta in I1, C1, T1.
  set (s1 := fst (group_parse g s)) in *.
  unfold dispatch. cbv zeta. rewrite (get_group_spec _ Hb), (get_flag_spec _ Hb), G10, V0. cbn [Z.eqb Pos.eqb].
  unfold group10_parse. cbv zeta. cbn [Z.eqb Pos.eqb].
  destruct (pos_ptyn_ok conv lut (gb g) Hb) as [P1 P2].
  destruct (upd_string_spec conv TPTYN (gc g) (eb g) (ec g) (Z.to_nat (4 * get_ptyn_pos (gb g))) s1 I1 Hc ltac:(lia) ltac:(lia) P1)
    as [t1 [E1 Ct1]]. cbv zeta in E1, Ct1. rewrite E1.
  assert (I2 : Inv conv (set_text TPTYN t1 s1)).
  { pose proof (upd_string_inv conv lut TPTYN (gc g) (eb g) (ec g) (Z.to_nat (4 * get_ptyn_pos (gb g))) s1 I1 Hc ltac:(lia) ltac:(lia) P1) as H.
    rewrite E1 in H. exact H. }
  destruct (upd_string_spec conv TPTYN (gd g) (eb g) (ed g) (Z.to_nat (4 * get_ptyn_pos (gb g) + 2)) _ I2 Hd ltac:(lia) ltac:(lia) P2)
    as [t2 [E2 Ct2]]. cbv zeta in E2, Ct2. rewrite E2. cbn [fst snd].
  destruct (P_txt_fields _ _ T1) as [_ [_ [_ [S4 _]]]].
  destruct (P_set_fields _ _ C1) as [V1 [V2 [V3 V4]]].
  cbn [set_text with_ptyn ptyn get_text tid_of prog corr cb ud] in *.
  unfold text_event.
  assert (Hpp : 0 <= get_ptyn_pos (gb g) <= 1).
  { rewrite (get_ptyn_pos_spec _ Hb). pose proof (Z.mod_pos_bound (gb g) 2 ltac:(lia)). lia. }
  replace (Z.to_nat (4 * get_ptyn_pos (gb g) + 2)) with (S (S (Z.to_nat (4 * get_ptyn_pos (gb g))))) in * by lia.
  rewrite Ct1.
  assert (Hlen : (S (S (S (Z.to_nat (4 * get_ptyn_pos (gb g))))) < length (cells (ptyn s1)))%nat).
  { unfold cells. rewrite map_length. destruct (inv_ptyn conv s1 I1) as [Hl _]. rewrite Hl. lia. }
  rewrite (two_blocks conv _ _ _ _ _ _ _ _ _ _ Hlen). cbv zeta. rewrite <- Ct1, <- Ct2, S4.
  unfold emit. cbn [cb ud with_ptyn ptyn]. rewrite V3, V4.
  destruct (negb (cells_eqb (cells t2) (cells (ptyn s)))); cbn [andb]; [|reflexivity].
  destruct (cb s FPTYN =? 0); cbn [negb filter]; [reflexivity|].
  rewrite filter_isf_self by reflexivity. reflexivity.
Qed.

End CbText2.
