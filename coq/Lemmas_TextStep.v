(* Lemmas_TextStep.v — what one group does to the four texts and to the last-flag register,
   by group type (the "texts_step_spec" interface lemma of DESIGN.md 8.0). *)
Require Export Lemmas_Text.
Require Import ZifyBool.
Local Open Scope Z_scope.
Ltac Zify.zify_post_hook ::= Z.div_mod_to_equations.

Section TextStep.
Variable conv : Z -> Z.
Variable lut : Z -> Z -> Z.
Notation Inv := (Inv conv).

Definition same_cfg (s s' : state) : Prop := P_set s' = P_set s.
Definition same_txt (s s' : state) : Prop := P_txt s' = P_txt s.

Lemma group_parse_frame g s : Inv s ->
  let s1 := fst (group_parse g s) in Inv s1 /\ same_cfg s s1 /\ same_txt s s1.
Proof.
  intros I. cbv zeta. split; [|split].
  - unfold group_parse. apply pres_andthen; [apply pres_when, pres_set_scalar| |exact I].
    apply pres_when, pres_andthen; apply pres_set_scalar.
  - apply keeps_group_parse.
  - apply group_parse_keeps_txt.
Qed.

Lemma P_set_fields s s' : P_set s' = P_set s -> prog s' = prog s /\ corr s' = corr s /\ cb s' = cb s /\ ud s' = ud s.
Proof. unfold P_set. intros H. inversion H. auto. Qed.
Lemma P_txt_fields s s' : P_txt s' = P_txt s ->
  ps s' = ps s /\ rt0 s' = rt0 s /\ rt1 s' = rt1 s /\ ptyn s' = ptyn s /\ last_rt s' = last_rt s.
Proof. unfold P_txt. intros H. inversion H. auto. Qed.

(* ---------- type 0 (A or B): the two bytes of block D into PS cells 2s, 2s+1 ---------- *)
Theorem ps_step g s : Inv s -> wf_group g -> b_group (gb g) = 0 ->
  let s' := fst (process conv lut g s) in
  cells (ps s') = write2 conv (corr s PS INFO) (corr s PS DATA) (prog s PS) (eb g) (ed g)
                         (Z.to_nat (2 * (gb g mod 4))) (gd g) (cells (ps s))
  /\ rt0 s' = rt0 s /\ rt1 s' = rt1 s /\ ptyn s' = ptyn s /\ last_rt s' = last_rt s.
Proof.
  intros I Hwf G0. pose proof Hwf as [Ha [Hb [Hc [Hd [Hea [Heb [Hec Hed]]]]]]]. unfold blk_ok, err_ok in *.
  cbv zeta. unfold process. rewrite andthen_fst.
  destruct (group_parse_frame g s I) as [I1 [C1 T1]]. cbv zeta in I1, C1, T1.
  set (s1 := fst (group_parse g s)) in *.
  unfold dispatch. cbv zeta. rewrite (get_group_spec _ Hb), G0. cbn [Z.eqb].
  unfold group0_parse. rewrite !andthen_fst.
  (* TA / MS *)
  set (a1 := when (eb g =? 0) (andthen (set_scalar STa (get_ta (gb g))) (set_scalar SMs (get_ms (gb g))))).
  assert (I2 : Inv (fst (a1 s1))).
  { unfold a1. apply pres_when; [|exact I1]. apply pres_andthen; apply pres_set_scalar. }
  assert (C2 : P_set (fst (a1 s1)) = P_set s1).
  { unfold a1. apply keeps_when. apply keeps_andthen; apply keeps_set_scalar. }
  assert (T2 : P_txt (fst (a1 s1)) = P_txt s1).
  { unfold a1. apply keeps_when. apply keeps_andthen; apply set_scalar_keeps_txt. }
  set (s2 := fst (a1 s1)) in *.
  (* the PS update *)
  destruct (upd_string_spec conv TPS (gd g) (eb g) (ed g) (Z.to_nat (2 * get_ps_pos (gb g))) s2 I2 Hd ltac:(lia) ltac:(lia)
              (pos2_ok conv lut (gb g) Hb)) as [t' [Eu Ct]]. cbv zeta in Eu, Ct.
  rewrite Eu. cbn [fst].
  (* AF *)
  set (a3 := when (get_flag (gb g) =? 0) (group0a_parse g)).
  assert (T3 : P_txt (fst (a3 (set_text TPS t' s2))) = P_txt (set_text TPS t' s2)).
  { unfold a3, group0a_parse. apply keeps_when, keeps_when, keeps_when. apply keeps_andthen; apply add_af_keeps_txt. }
  destruct (P_txt_fields _ _ T3) as [Q1 [Q2 [Q3 [Q4 Q5]]]].
  destruct (P_txt_fields _ _ T2) as [R1 [R2 [R3 [R4 R5]]]].
  destruct (P_txt_fields _ _ T1) as [S1 [S2 [S3 [S4 S5]]]].
  destruct (P_set_fields _ _ C2) as [U1 [U2 _]]. destruct (P_set_fields _ _ C1) as [V1 [V2 _]].
  fold a3. rewrite Q1, Q2, Q3, Q4, Q5.
  cbn [set_text with_ps ps rt0 rt1 ptyn last_rt].
  repeat split; try congruence.
  rewrite Ct. cbn [get_text tid_of]. rewrite U1, U2, V1, V2, R1, S1. rewrite (get_ps_pos_spec _ Hb). reflexivity.
Qed.

(* ---------- groups that carry no text: nothing changes in any text ---------- *)
Theorem no_text_step g s : Inv s -> wf_group g ->
  b_group (gb g) <> 0 -> b_group (gb g) <> 2 -> (b_group (gb g) = 10 -> b_ver (gb g) = 1) ->
  let s' := fst (process conv lut g s) in
  ps s' = ps s /\ rt0 s' = rt0 s /\ rt1 s' = rt1 s /\ ptyn s' = ptyn s /\ last_rt s' = last_rt s.
Proof.
  intros I Hwf N0 N2 N10. pose proof Hwf as [Ha [Hb _]]. unfold blk_ok in *.
  cbv zeta. unfold process. rewrite andthen_fst.
  destruct (group_parse_frame g s I) as [I1 [C1 T1]]. cbv zeta in I1, C1, T1.
  set (s1 := fst (group_parse g s)) in *.
  destruct (P_txt_fields _ _ T1) as [S1 [S2 [S3 [S4 S5]]]].
  assert (K : P_txt (fst (dispatch conv lut g s1)) = P_txt s1).
  { unfold dispatch. cbv zeta. rewrite (get_group_spec _ Hb), (get_flag_spec _ Hb).
    replace (b_group (gb g) =? 0) with false by lia. replace (b_group (gb g) =? 2) with false by lia.
    destruct (b_group (gb g) =? 1); [apply group1_keeps_txt|].
    destruct (b_group (gb g) =? 4); [rewrite group4_keeps_all; reflexivity|].
    destruct (b_group (gb g) =? 10) eqn:E10; [|reflexivity].
    unfold group10_parse. rewrite N10 by lia. reflexivity. }
  destruct (P_txt_fields _ _ K) as [Q1 [Q2 [Q3 [Q4 Q5]]]].
  repeat split; congruence.
Qed.

(* ---------- 10A: blocks C and D into PTYN cells 4s .. 4s+3 ---------- *)
Theorem ptyn_step g s : Inv s -> wf_group g -> b_group (gb g) = 10 -> b_ver (gb g) = 0 ->
  let s' := fst (process conv lut g s) in
  let w := write2 conv (corr s PTYN INFO) (corr s PTYN DATA) (prog s PTYN) (eb g) in
  cells (ptyn s') = w (ed g) (Z.to_nat (4 * (gb g mod 2) + 2)) (gd g)
                      (w (ec g) (Z.to_nat (4 * (gb g mod 2))) (gc g) (cells (ptyn s)))
  /\ ps s' = ps s /\ rt0 s' = rt0 s /\ rt1 s' = rt1 s /\ last_rt s' = last_rt s.
Proof.
  intros I Hwf G10 V0. pose proof Hwf as [Ha [Hb [Hc [Hd [Hea [Heb [Hec Hed]]]]]]]. unfold blk_ok, err_ok in *.
  cbv zeta. unfold process. rewrite andthen_fst.
  destruct (group_parse_frame g s I) as [I1 [C1 T1]]. cbv zeta in I1, C1, T1.
  set (s1 := fst (group_parse g s)) in *.
  unfold dispatch. cbv zeta. rewrite (get_group_spec _ Hb), (get_flag_spec _ Hb), G10, V0. cbn [Z.eqb Pos.eqb].
  unfold group10_parse. cbv zeta. cbn [Z.eqb Pos.eqb].
  destruct (pos_ptyn_ok conv lut (gb g) Hb) as [P1 P2].
  destruct (upd_string_spec conv TPTYN (gc g) (eb g) (ec g) (Z.to_nat (4 * get_ptyn_pos (gb g))) s1 I1 Hc ltac:(lia) ltac:(lia) P1)
    as [t1 [E1 Ct1]]. cbv zeta in E1, Ct1. rewrite E1.
  assert (I2 : Inv (set_text TPTYN t1 s1)).
  { pose proof (upd_string_inv conv lut TPTYN (gc g) (eb g) (ec g) (Z.to_nat (4 * get_ptyn_pos (gb g))) s1 I1 Hc ltac:(lia) ltac:(lia) P1) as H.
    rewrite E1 in H. exact H. }
  destruct (upd_string_spec conv TPTYN (gd g) (eb g) (ed g) (Z.to_nat (4 * get_ptyn_pos (gb g) + 2)) _ I2 Hd ltac:(lia) ltac:(lia) P2)
    as [t2 [E2 Ct2]]. cbv zeta in E2, Ct2. rewrite E2. cbn [fst].
  destruct (P_txt_fields _ _ T1) as [S1 [S2 [S3 [S4 S5]]]].
  destruct (P_set_fields _ _ C1) as [V1 [V2 _]].
  cbn [set_text with_ptyn ps rt0 rt1 ptyn last_rt get_text tid_of prog corr] in *.
  repeat split; try congruence.
  rewrite Ct2, Ct1. rewrite V1, V2, S4. rewrite (get_ptyn_pos_spec _ Hb). reflexivity.
Qed.

(* ---------- type 2: the RadioText A/B protocol ---------- *)
Definition rt_of (f : Z) (s : state) : text := if f =? 0 then rt0 s else rt1 s.

Theorem rt_step g s : Inv s -> wf_group g -> b_group (gb g) = 2 ->
  let s' := fst (process conv lut g s) in
  let f := b_rtflag (gb g) in
  let last := last_rt s in
  let switch := (eb g =? 0) && negb (f =? last) in
  let ignored := negb (eb g =? 0) && negb (f =? last) && negb (last =? -1) in
  let base := if switch && negb (last =? -1) && string_available (rt_of f s)
              then cells (string_clear (rt_of f s)) else cells (rt_of f s) in
  let w := write2 conv (corr s RT INFO) (corr s RT DATA) (prog s RT) (eb g) in
  ps s' = ps s /\ ptyn s' = ptyn s
  /\ rt_of (1 - f) s' = rt_of (1 - f) s
  /\ last_rt s' = (if switch then f else last)
  /\ cells (rt_of f s') =
     if ignored then cells (rt_of f s)
     else if b_ver (gb g) =? 0
          then w (ed g) (Z.to_nat (4 * (gb g mod 16) + 2)) (gd g) (w (ec g) (Z.to_nat (4 * (gb g mod 16))) (gc g) base)
          else w (ed g) (Z.to_nat (2 * (gb g mod 16))) (gd g) base.
Proof.
  intros I Hwf G2. pose proof Hwf as [Ha [Hb [Hc [Hd [Hea [Heb [Hec Hed]]]]]]]. unfold blk_ok, err_ok in *.
  cbv zeta. unfold process. rewrite andthen_fst.
  destruct (group_parse_frame g s I) as [I1 [C1 T1]]. cbv zeta in I1, C1, T1.
  set (s1 := fst (group_parse g s)) in *.
  destruct (P_txt_fields _ _ T1) as [S1 [S2 [S3 [S4 S5]]]].
  destruct (P_set_fields _ _ C1) as [V1 [V2 _]].
  unfold dispatch. cbv zeta. rewrite (get_group_spec _ Hb), (get_flag_spec _ Hb), G2. cbn [Z.eqb Pos.eqb].
  unfold group2_parse. rewrite (get_rt_flag_spec _ Hb), (get_rt_pos_spec _ Hb).
  set (f := b_rtflag (gb g)).
  assert (Hf : f = 0 \/ f = 1) by (unfold f, b_rtflag; lia).
  set (sl := if f =? 0 then TRT0 else TRT1).
  assert (Hcap : cap sl = 64%nat) by (unfold sl; destruct (f =? 0); reflexivity).
  assert (Hget : forall x, get_text sl x = rt_of f x) by (intros x; unfold sl, rt_of; destruct (f =? 0); reflexivity).
  assert (Htid : tid_of sl = RT) by (unfold sl; destruct (f =? 0); reflexivity).
  rewrite S5.
  (* stage 1 *)
  match goal with |- context [let '(s1', chg0) := ?X in _] => set (st1 := X) end.
  assert (E1 : exists chg0, st1 = (let sa := if (eb g =? 0) && negb (f =? last_rt s) && negb (last_rt s =? -1) && string_available (rt_of f s)
                                              then set_text sl (string_clear (rt_of f s1)) s1 else s1 in
                                   if (eb g =? 0) && negb (f =? last_rt s) then with_last_rt f sa else sa, chg0)).
  { unfold st1. destruct ((eb g =? 0) && negb (f =? last_rt s)) eqn:Sw; cbn [andb].
    - rewrite Hget. unfold rt_of at 1. rewrite S2, S3. fold (rt_of f s).
      destruct (negb (last_rt s =? -1) && string_available (rt_of f s)); eexists; reflexivity.
    - eexists; reflexivity. }
  destruct E1 as [chg0 E1]. rewrite E1. clear E1 st1. cbv zeta.
  set (clr := (eb g =? 0) && negb (f =? last_rt s) && negb (last_rt s =? -1) && string_available (rt_of f s)).
  set (sw := (eb g =? 0) && negb (f =? last_rt s)).
  set (sa := if clr then set_text sl (string_clear (rt_of f s1)) s1 else s1).
  set (sb := if sw then with_last_rt f sa else sa).
  assert (Ia : Inv sa).
  { unfold sa. destruct clr; [|exact I1]. apply set_text_inv; [exact I1|].
    apply string_clear_ok. rewrite <- Hget. apply (inv_text conv sl s1 I1). }
  assert (Ib : Inv sb).
  { unfold sb. destruct sw; [|exact Ia]. apply with_last_rt_inv; [exact Ia|exact Hf]. }
  assert (Lb : last_rt sb = if sw then f else last_rt s).
  { unfold sb. destruct sw; [reflexivity|]. unfold sa. destruct clr; [destruct sl|]; cbn; exact S5. }
  assert (Tb : get_text sl sb = if clr then string_clear (rt_of f s) else rt_of f s).
  { unfold sb, sa. unfold rt_of at 1. rewrite S2, S3. fold (rt_of f s).
    destruct sw, clr; rewrite ?Hget; unfold sl, rt_of; destruct (f =? 0); cbn; try reflexivity; congruence. }
  assert (Ob : ps sb = ps s /\ ptyn sb = ptyn s /\ rt_of (1 - f) sb = rt_of (1 - f) s
               /\ prog sb = prog s /\ corr sb = corr s).
  { unfold sb, sa, rt_of, sl. destruct Hf as [-> | ->]; cbn [Z.eqb Z.sub];
      destruct sw, clr; cbn; repeat split; congruence. }
  destruct Ob as [O1 [O2 [O3 [O4 O5]]]].
  rewrite Lb.
  (* ignored? *)
  assert (Ign : (negb (eb g =? 0) && negb (f =? (if sw then f else last_rt s)) && negb ((if sw then f else last_rt s) =? -1))
                = (negb (eb g =? 0) && negb (f =? last_rt s) && negb (last_rt s =? -1))).
  { unfold sw. destruct (eb g =? 0); cbn [negb andb]; reflexivity. }
  rewrite Ign.
  destruct (negb (eb g =? 0) && negb (f =? last_rt s) && negb (last_rt s =? -1)) eqn:Ig.
  { (* ignored: block B has errors, so no switch and no clear either *)
    assert (Hsw : sw = false) by (unfold sw; destruct (eb g =? 0); [discriminate|reflexivity]).
    assert (Hcl : clr = false) by (unfold clr; destruct (eb g =? 0); [discriminate|reflexivity]).
    cbn [fst]. rewrite Hsw in *. rewrite Hcl in *.
    repeat split; try assumption. rewrite <- Hget, Tb. reflexivity. }
  destruct (pos_rt4_ok conv lut (gb g) Hb) as [P1 P2]. pose proof (pos_rt2_ok conv lut (gb g) Hb) as P3.
  rewrite (get_rt_pos_spec _ Hb) in P1, P2, P3.
  assert (Base : cells (get_text sl sb) = if sw && negb (last_rt s =? -1) && string_available (rt_of f s)
                                          then cells (string_clear (rt_of f s)) else cells (rt_of f s)).
  { rewrite Tb. unfold clr, sw. destruct (_ && _ && _ && _); reflexivity. }
  destruct (b_ver (gb g) =? 0) eqn:Ver.
  - destruct (upd_string_spec conv sl (gc g) (eb g) (ec g) (Z.to_nat (4 * (gb g mod 16))) sb Ib Hc ltac:(lia) ltac:(lia)
                ltac:(rewrite Hcap; exact P1)) as [t1 [E1 Ct1]]. cbv zeta in E1, Ct1. rewrite E1.
    assert (I2 : Inv (set_text sl t1 sb)).
    { pose proof (upd_string_inv conv lut sl (gc g) (eb g) (ec g) (Z.to_nat (4 * (gb g mod 16))) sb Ib Hc ltac:(lia) ltac:(lia)
                    ltac:(rewrite Hcap; exact P1)) as H. rewrite E1 in H. exact H. }
    destruct (upd_string_spec conv sl (gd g) (eb g) (ed g) (Z.to_nat (4 * (gb g mod 16) + 2)) _ I2 Hd ltac:(lia) ltac:(lia)
                ltac:(rewrite Hcap; exact P2)) as [t2 [E2 Ct2]]. cbv zeta in E2, Ct2. rewrite E2. cbn [fst].
    rewrite set_text_get_same in Ct2. rewrite Htid in *.
    assert (Hps : ps (set_text sl t2 (set_text sl t1 sb)) = ps s) by (unfold sl; destruct (f =? 0); cbn; exact O1).
    assert (Hpt : ptyn (set_text sl t2 (set_text sl t1 sb)) = ptyn s) by (unfold sl; destruct (f =? 0); cbn; exact O2).
    assert (Hot : rt_of (1 - f) (set_text sl t2 (set_text sl t1 sb)) = rt_of (1 - f) s).
    { rewrite <- O3. unfold sl, rt_of. destruct Hf as [-> | ->]; reflexivity. }
    assert (Hla : last_rt (set_text sl t2 (set_text sl t1 sb)) = last_rt sb) by (unfold sl; destruct (f =? 0); reflexivity).
    assert (Hpr : prog (set_text sl t1 sb) = prog sb /\ corr (set_text sl t1 sb) = corr sb) by (unfold sl; destruct (f =? 0); split; reflexivity).
    destruct Hpr as [Hpr Hco].
    repeat split; try assumption; [rewrite Hla; exact Lb|].
    rewrite <- Hget, set_text_get_same, Ct2, Ct1, Base, Hpr, Hco, O4, O5. reflexivity.
  - destruct (upd_string_spec conv sl (gd g) (eb g) (ed g) (Z.to_nat (2 * (gb g mod 16))) sb Ib Hd ltac:(lia) ltac:(lia)
                ltac:(rewrite Hcap; exact P3)) as [t2 [E2 Ct2]]. cbv zeta in E2, Ct2.
    replace (get_flag (gb g) =? 0) with false in * by (rewrite (get_flag_spec _ Hb); exact (eq_sym Ver)).
    rewrite E2. cbn [fst]. rewrite Htid in *.
    assert (Hps : ps (set_text sl t2 sb) = ps s) by (unfold sl; destruct (f =? 0); cbn; exact O1).
    assert (Hpt : ptyn (set_text sl t2 sb) = ptyn s) by (unfold sl; destruct (f =? 0); cbn; exact O2).
    assert (Hot : rt_of (1 - f) (set_text sl t2 sb) = rt_of (1 - f) s).
    { rewrite <- O3. unfold sl, rt_of. destruct Hf as [-> | ->]; reflexivity. }
    assert (Hla : last_rt (set_text sl t2 sb) = last_rt sb) by (unfold sl; destruct (f =? 0); reflexivity).
    repeat split; try assumption; [rewrite Hla; exact Lb|].
    rewrite <- Hget, set_text_get_same, Ct2, Base, O4, O5. reflexivity.
Qed.

End TextStep.
