(* Properties_C06.v — obligations of property C06 (text acceptance thresholds and weighted
   per-character error level).  The spec function cell_after (Observers.v) says what a reception
   of `byte` with block-B error eb and carrying-block error e does to a cell holding (char, level):
     rejected unless eb <= info threshold and e <= data threshold of THAT text;
     level l = 0 if eb = e = 0, else 2*eb + 3*e - 1;
     progressive: rejected if l is worse than the cell's level;
     0x0D and codes >= 0x7F only with l = 0; control codes never;
     identical character with equal or worse level: ignored;  otherwise the cell becomes (conv byte, l).
   write2 applies cell_after to two consecutive cells with the two bytes of a block. *)
Require Import ObsRun Lemmas_TextProps Lemmas_ObsText Lemmas_Leaf_C06.
Local Open Scope Z_scope.

(* type 0 (A and B): block D, PS thresholds / progressive flag, cells 2s and 2s+1 *)
Theorem C06_ps : forall conv lut g s, Inv conv s -> wf_group g -> b_group (gb g) = 0 ->
  cells (ps (fst (process conv lut g s)))
  = write2 conv (corr s PS INFO) (corr s PS DATA) (prog s PS) (eb g) (ed g)
           (Z.to_nat (2 * (gb g mod 4))) (gd g) (cells (ps s)).
Proof. intros conv lut g s I W G. exact (proj1 (ps_step conv lut g s I W G)). Qed.
Print Assumptions C06_ps.

(* 10A: blocks C (error ec) and D (error ed), PTYN thresholds, cells 4s..4s+3 *)
Theorem C06_ptyn : forall conv lut g s, Inv conv s -> wf_group g -> b_group (gb g) = 10 -> b_ver (gb g) = 0 ->
  let w := write2 conv (corr s PTYN INFO) (corr s PTYN DATA) (prog s PTYN) (eb g) in
  cells (ptyn (fst (process conv lut g s)))
  = w (ed g) (Z.to_nat (4 * (gb g mod 2) + 2)) (gd g) (w (ec g) (Z.to_nat (4 * (gb g mod 2))) (gc g) (cells (ptyn s))).
Proof. intros conv lut g s I W G V. exact (proj1 (ptyn_step conv lut g s I W G V)). Qed.
Print Assumptions C06_ptyn.

(* type 2: RT thresholds; block C with its own error code ec, block D with ed (see C08 for `base`
   and for the ignored case) *)
Theorem C06_rt : forall conv lut g s, Inv conv s -> wf_group g -> b_group (gb g) = 2 ->
  let f := b_rtflag (gb g) in let last := last_rt s in
  let switch := (eb g =? 0) && negb (f =? last) in
  let ignored := negb (eb g =? 0) && negb (f =? last) && negb (last =? -1) in
  let base := if switch && negb (last =? -1) && string_available (rt_of f s)
              then cells (string_clear (rt_of f s)) else cells (rt_of f s) in
  let w := write2 conv (corr s RT INFO) (corr s RT DATA) (prog s RT) (eb g) in
  cells (rt_of f (fst (process conv lut g s))) =
  if ignored then cells (rt_of f s)
  else if b_ver (gb g) =? 0
       then w (ed g) (Z.to_nat (4 * (gb g mod 16) + 2)) (gd g) (w (ec g) (Z.to_nat (4 * (gb g mod 16))) (gc g) base)
       else w (ed g) (Z.to_nat (2 * (gb g mod 16))) (gd g) base.
Proof. intros conv lut g s I W G. exact (proj2 (proj2 (proj2 (proj2 (rt_step conv lut g s I W G))))). Qed.
Print Assumptions C06_rt.

(* the hypothesis Inv holds in every reachable state *)
Theorem C06_inv_reachable : forall conv lut h s, reach conv lut h s -> Inv conv s.
Proof. exact reach_inv. Qed.

(* the weighted level: 0..9 for accepted errors, 0 exactly when both blocks are error-free, strictly
   monotone in each argument, and for equal magnitudes a data error weighs more than an info error
   ("data errors outweigh info errors": weight 3 against 2) *)
Theorem C06_weights :
  (forall eb e, 0 <= eb <= 2 -> 0 <= e <= 2 -> 0 <= lvl eb e <= 9 /\ (lvl eb e = 0 <-> eb = 0 /\ e = 0))
  /\ (forall x, 1 <= x <= 2 -> lvl x 0 < lvl 0 x)
  /\ (forall eb e e', 0 <= eb <= 2 -> 0 <= e < e' -> e' <= 2 -> lvl eb e < lvl eb e')
  /\ (forall eb eb' e, 0 <= e <= 2 -> 0 <= eb < eb' -> eb' <= 2 -> lvl eb e < lvl eb' e).
Proof. exact (lvl_facts (fun x => x)). Qed.
Print Assumptions C06_weights.

(* the model computes the level with the 8-bit arithmetic of the sources; no wrap for accepted errors *)
Theorem C06_level_formula : forall eb e, 0 <= eb <= 2 -> 0 <= e <= 2 -> calc_error eb e = lvl eb e.
Proof. exact calc_error_lvl. Qed.

(* THE OBSERVER: every cell a group addresses holds afterwards exactly cell_after(thresholds and
   progressive flag of that text, old cell or the empty cell after an A/B switch, byte, eB, e of the
   carrying block), and every level is within 0..10 — at every step from every reachable state *)
Theorem C06_observer : forall conv lut h s o ret, reach conv lut h s -> wf_op o ->
  obs_C06 conv (o :: h) (snap_of s) (snap_of (fst (step conv lut s o))) (snd (step conv lut s o)) ret = true.
Proof. exact obs_C06_holds. Qed.
Print Assumptions C06_observer.

(* THE CODE ITSELF: rdsparser_string_calculate_error, translated from clang's typed AST on every run
   (tools/cleaf.py -> GenLeaf.v), equals the model's calc_error for all 256 x 256 error-code pairs *)
Theorem C06_code_level : forall i d, 0 <= i < 256 -> 0 <= d < 256 -> c_calc_error i d = calc_error i d.
Proof. exact leaf_calc_error. Qed.
Print Assumptions C06_code_level.

Example C06_scenario : check_run_u (observer_u 6) scenario = true.
Proof. vm_compute. reflexivity. Qed.
Example C06_cell_after_examples :
  cell_after conv_u 2 2 false (65, 0) 66 1 0 = (66, 1)            (* different character, info error *)
  /\ cell_after conv_u 2 2 false (65, 0) 65 0 1 = (65, 0)         (* same data, worse level: ignored *)
  /\ cell_after conv_u 2 2 false (65, 4) 65 0 1 = (65, 2)         (* same data, better level *)
  /\ cell_after conv_u 2 2 true (65, 1) 66 0 1 = (65, 1)          (* progressive: worse level rejected *)
  /\ cell_after conv_u 2 2 false (65, 5) 128 0 1 = (65, 5)        (* special character with errors *)
  /\ cell_after conv_u 1 2 false (65, 5) 66 2 0 = (65, 5)         (* above the info threshold *)
  /\ cell_after conv_u 2 2 false (65, 5) 13 0 0 = (0, 0).         (* end of text *)
Proof. vm_compute. repeat split. Qed.
