(* Properties_C06.v — obligations of property C06.  Contains only theorem statements closed by
   `exact <lemma>` and Print Assumptions. *)
Require Import ObsRun.
Local Open Scope Z_scope.

(* non-vacuity: the observer of C06 is evaluated (and holds) along a run of the model that
   touches every group kind *)
Example C06_scenario : check_run_u (observer_u 6) scenario = true.
Proof. vm_compute. reflexivity. Qed.
Print Assumptions C06_scenario.
