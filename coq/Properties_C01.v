(* Properties_C01.v — obligations of property C01.  Contains only theorem statements closed by
   `exact <lemma>` and Print Assumptions. *)
Require Import ObsRun.
Local Open Scope Z_scope.

(* non-vacuity: the observer of C01 is evaluated (and holds) along a run of the model that
   touches every group kind *)
Example C01_scenario : check_run_u (observer_u 1) scenario = true.
Proof. vm_compute. reflexivity. Qed.
Print Assumptions C01_scenario.
