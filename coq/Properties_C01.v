(* Properties_C01.v — obligations of property C01 (basic tuning fields always equal the last
   error-free reception). *)
Require Import ObsRun Lemmas_Tuning Lemmas_Leaf_C01.
Local Open Scope Z_scope.

(* For EVERY history h of API calls with well-formed arguments (16-bit blocks, error codes 0..255,
   any group type/version, supported or not, binary or hex-string input, clears and
   re-initialisations anywhere) in which the extended check is never switched on, and for any
   character/ECC tables: each of the five getters equals the history function last_rx —
     PI  = block A of the most recent group with ea = 0,
     PTY = (B / 32) mod 32, TP = (B / 1024) mod 2 of the most recent group with eb = 0,
     TA  = (B / 16) mod 2,  MS = (B / 8) mod 2 of the most recent type-0 group (B / 4096 = 0) with eb = 0,
   and -1 (unknown) when there is none since the last clear / init.  Because last_rx only
   restarts at OClear / OInit, a field never falls back to unknown otherwise. *)
Theorem C01_tuning : forall conv lut h s, reach conv lut h s -> no_ext h = true ->
  d_pi (used s) = last_rx rx_pi h /\ d_pty (used s) = last_rx rx_pty h /\ d_tp (used s) = last_rx rx_tp h
  /\ d_ta (used s) = last_rx rx_ta h /\ d_ms (used s) = last_rx rx_ms h.
Proof.
  intros conv lut h s Hr Hn.
  pose proof (reach_bproj conv lut h s Hr) as Hb. pose proof (reach_wf_hist conv lut h s Hr) as Hw.
  assert (forall f, tuning f = true -> getf f (used s) = last_rx (sel_of f) h) as Hall.
  { intros f Hf. destruct (tuning_last_rx lut f Hf h Hw Hn) as [_ Hv]. rewrite <- Hv, <- Hb. reflexivity. }
  repeat split; [exact (Hall SPi eq_refl)|exact (Hall SPty eq_refl)|exact (Hall STp eq_refl)
                |exact (Hall STa eq_refl)|exact (Hall SMs eq_refl)].
Qed.
Print Assumptions C01_tuning.

(* the same as the observer evaluated on the library after every call *)
Theorem C01_observer : forall conv lut h s o, reach conv lut h s -> wf_op o ->
  obs_C01 (o :: h) (snap_of s) (snap_of (fst (step conv lut s o))) (snd (step conv lut s o)) (ret_of o) = true.
Proof. exact C01_observer_holds. Qed.
Print Assumptions C01_observer.

(* the masks and shifts of the sources agree with the arithmetic reading on all 65536 blocks *)
Theorem C01_bit_fields : forall b, 0 <= b < 65536 ->
  get_pty b = (b / 32) mod 32 /\ get_tp b = (b / 1024) mod 2 /\ get_ta b = (b / 16) mod 2
  /\ get_ms b = (b / 8) mod 2 /\ get_group b = b / 4096.
Proof.
  intros b Hb. repeat split;
    [apply get_pty_spec|apply get_tp_spec|apply get_ta_spec|apply get_ms_spec|apply get_group_spec]; exact Hb.
Qed.
Print Assumptions C01_bit_fields.

(* THE CODE ITSELF.  GenLeaf.v is produced on every run by tools/cleaf.py from clang's typed AST of
   the C sources (every implicit integer conversion explicit).  The translated C functions equal the
   functions the model uses, for every value of the four 16-bit blocks: the PI, PTY, TP, TA, MS
   extractors and the group-type / version dispatch fields *)
Theorem C01_code_extractors : forall d0 d1 d2 d3, 0 <= d1 < 65536 ->
  c_get_pi d0 d1 d2 d3 = d0 /\ c_get_pty d0 d1 d2 d3 = get_pty d1 /\ c_get_tp d0 d1 d2 d3 = get_tp d1
  /\ c_get_ta d0 d1 d2 d3 = get_ta d1 /\ c_get_ms d0 d1 d2 d3 = get_ms d1
  /\ c_get_group d0 d1 d2 d3 = get_group d1 /\ c_get_flag d0 d1 d2 d3 = get_flag d1.
Proof.
  intros d0 d1 d2 d3 H.
  split; [apply leaf_get_pi|]. split; [apply leaf_get_pty; exact H|]. split; [apply leaf_get_tp; exact H|].
  split; [apply leaf_get_ta; exact H|]. split; [apply leaf_get_ms; exact H|].
  split; [apply leaf_get_group; exact H|apply leaf_get_flag; exact H].
Qed.
Print Assumptions C01_code_extractors.

Example C01_scenario : check_run_u (observer_u 1) scenario = true.
Proof. vm_compute. reflexivity. Qed.
Example C01_nontrivial :
  let s := run_u (firstn 15 scenario) in sn_pi (snap_of s) = 12801 /\ sn_pty (snap_of s) = 4 /\ sn_ta (snap_of s) = 0.
Proof. vm_compute. repeat split. Qed.
