(* Properties_C12.v — obligations of property C12 (every reported clock time is the broadcast UTC
   instant shifted by the offset). *)
Require Import ObsRun Lemmas_Callbacks Lemmas_Leaf_C12.
Local Open Scope Z_scope.

(* For every reachable state and every call: a 4A group (B/4096 = 4, version bit 0) with
   error-free B, C, D whose hour (C mod 2)*16 + D/4096 is below 24 and minute (D/64) mod 64 below 60
   produces, when a clock-time callback is registered, EXACTLY ONE report (y, m, d, h, mi, off) with
     valid_date y m d  (a real Gregorian date),  0 <= h < 24,  0 <= mi < 60,  off = 30 * o,
     1440 * mjd_of_civil y m d + 60 h + mi = 1440 * MJD + 60 * hour + minute + 30 * o
   (o the sign-magnitude half-hour offset; the left side is injective on valid values, so the one
   equation pins date, time of day and all midnight / month / year / century crossings);
   every other call produces no clock-time report.  The calendar part rests on a kernel-evaluated
   sweep over ALL 131074 day numbers -1 .. 2^17, the time part on all 24 x 60 x 63 cases. *)
Theorem C12_observer : forall conv lut h s o, reach conv lut h s -> wf_op o ->
  obs_C12 (o :: h) (snap_of s) (snap_of (fst (step conv lut s o))) (snd (step conv lut s o)) (ret_of o) = true.
Proof. exact C12_observer_holds. Qed.
Print Assumptions C12_observer.

Theorem C12_calendar_all_days : forall m1, -1 <= m1 <= 131072 ->
  let '(y, m, d) := date_part (to_u32 m1) in valid_date y m d = true /\ mjd_of_civil y m d = m1.
Proof.
  intros m1 H. pose proof (date_spec m1 H) as D. unfold date_ok in D.
  destruct (date_part (to_u32 m1)) as [[y m] d]. apply andb_true_iff in D. destruct D as [D1 D2].
  split; [exact D1|apply Z.eqb_eq; exact D2].
Qed.
Print Assumptions C12_calendar_all_days.

(* the reference calendar function is the usual one *)
Example C12_mjd_epoch : mjd_of_civil 1858 11 17 = 0 /\ mjd_of_civil 2000 1 1 = 51544
  /\ mjd_of_civil 2023 11 27 = 60275 /\ mjd_of_civil 2100 3 1 = 88128 /\ mjd_of_civil 1900 2 28 = 15078.
Proof. vm_compute. repeat split. Qed.
(* THE CODE ITSELF.  rdsparser_ct_init (the whole function: range test, half-hour offset with minute,
   hour and day carries in int8_t / uint32_t arithmetic, civil-from-days conversion, field stores),
   rdsparser_ct_get_offset and the four 4A field extractors are translated on every run from clang's
   typed AST of src/ct.c and src/group4.c (tools/cleaf.py -> GenLeaf.v).  The translated function, seen
   through its return value and the six translated getters (ct_view), is the model's ct_init
   - for every clock time a 4A group can carry (32 x 64 x 63) at day number 65536, and
   - for every day number a 4A group can carry (131072) at three clock times (no carry, carry into the
     next day, carry into the previous day),
   by kernel evaluation of both (so any restructuring of the C code that leaves the function alone
   still passes).  Properties_C12full.v (optional) extends this to ALL values of the C parameter types
   by following the structure of the function. *)
Theorem C12_code_ct_init_all_times : forall h mi off,
  0 <= h < 32 -> 0 <= mi < 64 -> -31 <= off <= 31 -> ct_view 65536 h mi off = ct_init 65536 h mi off.
Proof. exact leaf_ct_all_times. Qed.
Print Assumptions C12_code_ct_init_all_times.
Theorem C12_code_ct_init_all_days : forall mjd h mi off, 0 <= mjd < 131072 ->
  In (h, mi, off) [(12, 0, 0); (23, 59, 1); (0, 0, -1)] ->
  ct_view mjd h mi off = ct_init mjd h mi off.
Proof. exact leaf_ct_all_days. Qed.
Print Assumptions C12_code_ct_init_all_days.
Theorem C12_code_fields : forall d0 d1 d2 d3, 0 <= d1 < 65536 -> 0 <= d2 < 65536 -> 0 <= d3 < 65536 ->
  c_get_mjd d0 d1 d2 d3 = get_mjd d1 d2 /\ c_get_hour d0 d1 d2 d3 = get_hour d2 d3
  /\ c_get_minute d0 d1 d2 d3 = get_minute d3 /\ c_get_offset d0 d1 d2 d3 = get_offset d3.
Proof.
  intros d0 d1 d2 d3 H1 H2 H3.
  split; [apply leaf_get_mjd; assumption|]. split; [apply leaf_get_hour; assumption|].
  split; [apply leaf_get_minute; assumption|apply leaf_get_offset; assumption].
Qed.
Print Assumptions C12_code_fields.

Example C12_scenario : check_run_u (observer_u 12) scenario = true.
Proof. vm_compute. reflexivity. Qed.
Example C12_nontrivial :
  snd (step_u (run_u (firstn 20 scenario)) (G 12801 16385 58096 2 0 0 0 0))
  = [mkev FCT 3 77 (ACT 2028 2 15 1 0 60) SmNone].
Proof. vm_compute. reflexivity. Qed.
