(* Properties_C12.v — obligations of property C12.  Contains only theorem statements closed by
   `exact <lemma>` and Print Assumptions. *)
Require Import ObsRun.
Local Open Scope Z_scope.

(* non-vacuity: the observer of C12 is evaluated (and holds) along a run of the model that
   touches every group kind *)
Example C12_scenario : check_run_u (observer_u 12) scenario = true.
Proof. vm_compute. reflexivity. Qed.
Print Assumptions C12_scenario.
