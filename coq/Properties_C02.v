(* Properties_C02.v — obligations of property C02 (PS/RT/PTYN characters land in the addressed
   cells via the RDS charset). *)
Require Import ObsRun Lemmas_TextProps Lemmas_TabConv Lemmas_ObsText Lemmas_Leaf_C02.
Local Open Scope Z_scope.

(* the character table measured on the compiled library equals the reference G0 table, maps 0x0D to
   the end-of-text marker and stores no other control code (all 256 bytes, kernel-evaluated) *)
Theorem C02_charset_is_G0 : conv_unicode_ok = true.
Proof. exact conv_unicode_is_G0. Qed.
Print Assumptions C02_charset_is_G0.

(* an error-free reception stores the table image at level 0 (0x0D: the marker; control codes
   below 0x20: cell untouched), whatever the thresholds, the progressive flag and the old cell *)
Theorem C02_error_free_cell : forall conv info data pr old b, 0 <= info -> 0 <= data -> 0 <= snd old ->
  cell_after conv info data pr old b 0 0 = cell_ef conv old b.
Proof. exact cell_after_error_free. Qed.
Print Assumptions C02_error_free_cell.

(* addressing and frame, type 0 (A or B): exactly PS cells 2s, 2s+1 (s = B mod 4) from the high and
   low byte of D; every other PS cell and the three other texts unchanged *)
Theorem C02_ps : forall conv lut g s, Inv conv s -> wf_group g -> b_group (gb g) = 0 ->
  let s' := fst (process conv lut g s) in
  let p := Z.to_nat (2 * (gb g mod 4)) in
  let ca := cell_after conv (corr s PS INFO) (corr s PS DATA) (prog s PS) in
  nth p (cells (ps s')) (0, 0) = ca (nth p (cells (ps s)) (0, 0)) (w_hi (gd g)) (eb g) (ed g)
  /\ nth (S p) (cells (ps s')) (0, 0) = ca (nth (S p) (cells (ps s)) (0, 0)) (w_lo (gd g)) (eb g) (ed g)
  /\ (forall i, i <> p -> i <> S p -> nth i (cells (ps s')) (0, 0) = nth i (cells (ps s)) (0, 0))
  /\ rt0 s' = rt0 s /\ rt1 s' = rt1 s /\ ptyn s' = ptyn s.
Proof.
  intros conv lut g s I W G. cbv zeta.
  destruct (ps_step conv lut g s I W G) as [E [R0 [R1 [P _]]]]. rewrite E.
  assert (L : (S (Z.to_nat (2 * (gb g mod 4))) < length (cells (ps s)))%nat).
  { unfold cells. rewrite map_length. destruct (inv_ps conv s I) as [Hl _]. rewrite Hl.
    destruct W as [_ [Hb _]]. unfold blk_ok in Hb. lia. }
  repeat split; try assumption.
  - apply write2_first. exact L.
  - apply write2_second. exact L.
  - intros i H1 H2. apply write2_other; assumption.
Qed.
Print Assumptions C02_ps.

(* 10A: PTYN cells 4s..4s+3 (s = B mod 2) from C then D; 10B, 1, 4 and every unsupported group:
   no cell of any text changes *)
Theorem C02_other_groups_change_no_cell : forall conv lut g s, Inv conv s -> wf_group g ->
  b_group (gb g) <> 0 -> b_group (gb g) <> 2 -> (b_group (gb g) = 10 -> b_ver (gb g) = 1) ->
  let s' := fst (process conv lut g s) in
  ps s' = ps s /\ rt0 s' = rt0 s /\ rt1 s' = rt1 s /\ ptyn s' = ptyn s.
Proof.
  intros conv lut g s I W N0 N2 N10. cbv zeta.
  destruct (no_text_step conv lut g s I W N0 N2 N10) as [A [B [C [D _]]]]. auto.
Qed.
Print Assumptions C02_other_groups_change_no_cell.

Theorem C02_ptyn_frame : forall conv lut g s, Inv conv s -> wf_group g -> b_group (gb g) = 10 -> b_ver (gb g) = 0 ->
  let s' := fst (process conv lut g s) in
  let p := Z.to_nat (4 * (gb g mod 2)) in
  (forall i, i <> p -> i <> S p -> i <> S (S p) -> i <> S (S (S p)) ->
             nth i (cells (ptyn s')) (0, 0) = nth i (cells (ptyn s)) (0, 0))
  /\ ps s' = ps s /\ rt0 s' = rt0 s /\ rt1 s' = rt1 s.
Proof.
  intros conv lut g s I W G V. cbv zeta.
  destruct (ptyn_step conv lut g s I W G V) as [E [A [B [C _]]]]. cbv zeta in E. rewrite E.
  repeat split; try assumption.
  intros i H1 H2 H3 H4. destruct W as [_ [Hb _]]. unfold blk_ok in Hb.
  rewrite write2_other by lia. apply write2_other; assumption.
Qed.
Print Assumptions C02_ptyn_frame.

(* type 2: only the buffer of the group's own flag, see C08 (rt_step) *)
(* ALL FOUR TEXTS, EVERY GROUP, IN ONE FORMULA.  For every state satisfying the invariant, every group
   and each of PS, RT-A, RT-B, PTYN: the cells after the call are spec_cells g s sl —
     the cells before, if the group is a type-2 group ignored as a possible flip of the A/B flag;
     otherwise the group's writes_of (the (buffer, cell, byte, carrying-block error) list: type 0: two
     PS cells 2s, 2s+1 from D; 2A: four RT cells 4s..4s+3 from C and D, 2B: two from D, in the buffer
     of the group's flag; 10A: four PTYN cells; nothing for any other group) applied with cell_after
     to the cells before, or to the emptied buffer when the group switches the A/B flag of a
     non-empty buffer.
   So a cell that is not addressed is never touched, whatever the group, and an addressed cell
   depends only on its old content, the two bytes' block and the settings of its own text. *)
Theorem C02_every_text_every_group : forall conv lut g s, Inv conv s -> wf_group g ->
  forall sl, cells (get_text sl (fst (process conv lut g s))) = spec_cells conv g s sl.
Proof. exact texts_step. Qed.
Print Assumptions C02_every_text_every_group.

(* THE OBSERVER: the boolean function obs_C02 that the check evaluates on the library's traces
   (no cell of any text changes other than the addressed ones — except the emptying of the selected
   RT buffer by a type-2 group with error-free B — and every error-free addressed reception is
   stored through the table at level 0) holds at every step from every reachable state, for any
   character table *)
Theorem C02_observer : forall conv lut h s o ret, reach conv lut h s -> wf_op o ->
  obs_C02 conv (o :: h) (snap_of s) (snap_of (fst (step conv lut s o))) (snd (step conv lut s o)) ret = true.
Proof. exact obs_C02_holds. Qed.
Print Assumptions C02_observer.

(* THE CODE ITSELF.  GenLeaf.v is produced on every run by tools/cleaf.py from clang's typed AST of
   the C sources (every implicit integer conversion explicit).  The translated C functions equal the
   functions the model uses, for every value of the four 16-bit blocks: the cell addresses *)
Theorem C02_code_addresses : forall d0 d1 d2 d3, 0 <= d1 < 65536 ->
  c_get_ps_pos d0 d1 d2 d3 = get_ps_pos d1 /\ c_get_rt_pos d0 d1 d2 d3 = get_rt_pos d1
  /\ c_get_ptyn_pos d0 d1 d2 d3 = get_ptyn_pos d1.
Proof.
  intros d0 d1 d2 d3 H. split; [apply leaf_get_ps_pos; exact H|]. split; [apply leaf_get_rt_pos; exact H|apply leaf_get_ptyn_pos; exact H].
Qed.
Print Assumptions C02_code_addresses.

Example C02_scenario : check_run_u (observer_u 2) scenario = true.
Proof. vm_compute. reflexivity. Qed.
