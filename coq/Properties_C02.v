(* Properties_C02.v — obligations of property C02.  Contains only theorem statements closed by
   `exact <lemma>` and Print Assumptions. *)
Require Import ObsRun.
Local Open Scope Z_scope.

(* non-vacuity: the observer of C02 is evaluated (and holds) along a run of the model that
   touches every group kind *)
Example C02_scenario : check_run_u (observer_u 2) scenario = true.
Proof. vm_compute. reflexivity. Qed.
Print Assumptions C02_scenario.
