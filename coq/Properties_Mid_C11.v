(* Properties_Mid_C11.v — C11 at the level of the code: rdsparser_ecc_lookup with the four tables
   written in src/ecc.c (translated on every run) is the model's ecc_lookup instantiated with the
   table MEASURED on the compiled library, for every PI (or none) and every ECC; and
   rdsparser_group1_parse (src/group1.c) is the model's group1_parse: ECC and country only from
   group 1A variant 0 with error-free blocks B and C, the country from the accepted PI's first
   nibble and the new ECC, both through their setters with their callbacks in that order. *)
Require Import Lemmas_Mid_G1.
Local Open Scope Z_scope.

Theorem C11_code_ecc_lookup : forall pi ecc, -1 <= pi < 65536 -> 0 <= ecc < 256 ->
  m_ecc_lookup pi ecc = ecc_lookup lut_g pi ecc.
Proof. exact mid_ecc_lookup. Qed.
Print Assumptions C11_code_ecc_lookup.

Theorem C11_code_group1 : forall g flag s evs, wf_group g -> -1 <= d_pi (used s) < 65536 ->
  m_group1_parse (getf SCountry (temp s)) (getf SEcc (temp s)) (getf SCountry (used s)) (getf SEcc (used s))
                 (d_pi (used s)) (b2z (ext s)) (cb s FCOUNTRY) (cb s FECC) evs (ud s)
                 (ga g) (gb g) (gc g) (gd g) (ea g) (eb g) (ec g) (ed g) flag
  = let r := group1_parse lut_g g flag s in
    let s' := fst r in
    (0, getf SCountry (temp s'), getf SEcc (temp s'), getf SCountry (used s'), getf SEcc (used s'),
     evs ++ map ev_call (snd r)).
Proof. exact mid_group1_parse. Qed.
Print Assumptions C11_code_group1.
