(* Properties_C05.v — obligations of property C05 (no memory-unsafe or undefined behaviour),
   the part a Gallina model can carry: with CHECKED array accesses in the model (an index outside
   its array raises the ghost flag `fault` instead of being silently ignored), no call sequence
   with well-formed arguments (16-bit blocks, 8-bit error codes, thresholds 0..255, byte strings
   of any length, NULL) ever raises it.  PARTIAL: object layout, uninitialised reads, libc and
   compiler-level undefined behaviour are outside the model; the check searches for them with
   ASan/UBSan/valgrind builds (not a proof). *)
Require Import ObsRun Lemmas_Step.
Local Open Scope Z_scope.

Theorem C05_no_index_leaves_its_array_partial : forall conv lut h s,
  reach conv lut h s -> fault s = false.
Proof. exact no_fault. Qed.
Print Assumptions C05_no_index_leaves_its_array_partial.

(* the invariant behind it: buffer capacities 8/64/64/8, AF bitmaps of 26 bytes, thresholds
   clamped to 0..2 (so the weighted level stays below 10), last RT flag in {-1,0,1} *)
Theorem C05_invariant : forall conv lut h s, reach conv lut h s -> Inv conv s.
Proof. exact reach_inv. Qed.
Print Assumptions C05_invariant.

(* every call is a total function: the model has no fuel and no partiality; strings of any length
   are consumed by structural recursion (utils_convert), so "every call returns" holds by
   construction of the model and is tied to the code by the runs under a timeout *)
Example C05_scenario : fault (run_u scenario) = false.
Proof. vm_compute. reflexivity. Qed.
