(* Properties_C05.v — obligations of property C05.  Contains only theorem statements closed by
   `exact <lemma>` and Print Assumptions. *)
Require Import ObsRun.
Local Open Scope Z_scope.

(* non-vacuity: the observer of C05 is evaluated (and holds) along a run of the model that
   touches every group kind *)
Example C05_scenario : check_run_u (observer_u 5) scenario = true.
Proof. vm_compute. reflexivity. Qed.
Print Assumptions C05_scenario.
