(* Lemmas_Base.v — generic lemmas: bounded sweeps, list update, well-formed inputs. *)
Require Export ObsRun.
Local Open Scope Z_scope.

Lemma all_from_spec : forall n lo p, all_from n lo p = true ->
  forall x, lo <= x < lo + Z.of_nat n -> p x = true.
Proof.
  induction n as [|n IH]; intros lo p H x Hx.
  - simpl in Hx. lia.
  - cbn [all_from] in H. apply andb_true_iff in H. destruct H as [H0 H1].
    destruct (Z.eq_dec x lo) as [->|Hne]; [exact H0|].
    apply (IH (lo + 1) p H1). rewrite Nat2Z.inj_succ in Hx. lia.
Qed.

(* well-formed inputs: 16-bit blocks, 8-bit error codes, bytes 1..255 in strings *)
Definition blk_ok (x : Z) : Prop := 0 <= x < 65536.
Definition err_ok (x : Z) : Prop := 0 <= x < 256.
Definition wf_group (g : group) : Prop :=
  blk_ok (ga g) /\ blk_ok (gb g) /\ blk_ok (gc g) /\ blk_ok (gd g) /\
  err_ok (ea g) /\ err_ok (eb g) /\ err_ok (ec g) /\ err_ok (ed g).
Definition wf_op (o : op) : Prop :=
  match o with
  | OParse g => wf_group g
  | OParseString (Some l) => Forall (fun c => 1 <= c < 256) l
  | OSetCorr _ _ e => 0 <= e < 256
  | _ => True
  end.

(* ---------- upd / nth ---------- *)
Lemma upd_length : forall A (l : list A) i x, length (upd i x l) = length l.
Proof. induction l as [|h t IH]; intros [|i] x; simpl; auto. Qed.

Lemma nth_error_upd_same : forall A (l : list A) i x, (i < length l)%nat ->
  nth_error (upd i x l) i = Some x.
Proof.
  induction l as [|h t IH]; intros [|i] x Hl; simpl in *; try lia; auto.
  apply IH. lia.
Qed.

Lemma nth_error_upd_other : forall A (l : list A) i j x, i <> j ->
  nth_error (upd i x l) j = nth_error l j.
Proof.
  induction l as [|h t IH]; intros [|i] [|j] x Hne; simpl; auto; try congruence.
Qed.

Lemma nth_upd_same : forall A (l : list A) i x d, (i < length l)%nat -> nth i (upd i x l) d = x.
Proof.
  induction l as [|h t IH]; intros [|i] x d Hl; simpl in *; try lia; auto.
  apply IH. lia.
Qed.

Lemma nth_upd_other : forall A (l : list A) i j x d, i <> j -> nth j (upd i x l) d = nth j l d.
Proof.
  induction l as [|h t IH]; intros [|i] [|j] x d Hne; simpl; auto; try congruence.
Qed.

Lemma nth_error_Some_lt : forall A (l : list A) i x, nth_error l i = Some x -> (i < length l)%nat.
Proof. intros A l i x H. apply nth_error_Some. congruence. Qed.

Lemma map_upd : forall A B (f : A -> B) l i x, map f (upd i x l) = upd i (f x) (map f l).
Proof. induction l as [|h t IH]; intros [|i] x; simpl; auto. f_equal. apply IH. Qed.
