(* Lemmas_CbAf.v — C04 / C10 for the AF list: the AF callback is made exactly when a frequency
   becomes listed in this call, with that frequency in kHz, and already sees it listed. *)
Require Export Lemmas_CbRt.
Require Import ZifyBool.
Local Open Scope Z_scope.

(* a well-formed bitmap: 26 bytes, no bit set for an invalid code *)
Definition AfWF (a : list Z) : Prop := exists p, AfInv a p.

Lemma AfWF_empty : AfWF af_empty.
Proof. exists (fun _ => false). apply af_empty_inv. reflexivity. Qed.

Lemma af_set_wf a v : AfWF a -> 0 <= v < 256 ->
  exists a', af_set a v = Some (a', af_ok v) /\ AfWF a'
             /\ af_get a' v = af_ok v /\ (forall w, 0 <= w < 256 -> w <> v -> af_get a' w = af_get a w).
Proof.
  intros [p I] Hv. destruct (af_set_spec a p v I Hv) as [a' [E I']]. exists a'. split; [exact E|].
  split; [eexists; exact I'|]. split.
  - rewrite (af_get_spec _ _ v I' Hv). rewrite Z.eqb_refl, orb_true_r, andb_true_r. reflexivity.
  - intros w Hw N. rewrite (af_get_spec _ _ w I' Hw), (af_get_spec _ _ w I Hw).
    replace (w =? v) with false by lia. rewrite orb_false_r. reflexivity.
Qed.

Section CbAf.
Variable conv : Z -> Z.
Variable lut : Z -> Z -> Z.

(* one AF code *)
Lemma add_af_events v s : AfWF (d_af (used s)) -> AfWF (d_af (temp s)) -> 0 <= v < 256 ->
  let s' := fst (add_af v s) in
  snd (add_af v s) =
    (if af_get (d_af (used s')) v && negb (af_get (d_af (used s)) v) && negb (cb s FAF =? 0)
     then [mkev FAF (cb s FAF) (ud s) (AFreq (87500 + v * 100)) (SmAf (d_af (used s')))] else [])
  /\ AfWF (d_af (used s')) /\ AfWF (d_af (temp s'))
  /\ (forall w, 0 <= w < 256 -> w <> v -> af_get (d_af (used s')) w = af_get (d_af (used s)) w)
  /\ (af_get (d_af (used s)) v = true -> af_get (d_af (used s')) v = true).
Proof.
  intros Wu Wt Hv. cbv zeta. unfold add_af, buffer_add_af.
  destruct (af_get (d_af (used s)) v) eqn:Gu; cbn [negb].
  - cbn [fst snd]. rewrite Gu. cbn [andb negb]. repeat split; auto.
  - destruct (ext s && negb (af_get (d_af (temp s)) v)) eqn:Cx.
    + destruct (af_set_wf _ v Wt Hv) as [a' [E [W' _]]]. rewrite E. cbn [fst snd with_temp used temp set_af d_af].
      rewrite Gu. cbn [andb]. repeat split; auto; try discriminate.
      all: try (destruct (temp s) as [? ? ? ? ? ? ? ta]; cbn [set_af d_af]; exact W').
    + destruct (af_set_wf _ v Wu Hv) as [a' [E [W' [Gv Go]]]]. rewrite E.
      assert (Ea : d_af (set_af a' (used s)) = a') by (destruct (used s); reflexivity).
      cbn [fst snd]. unfold emit. cbn [with_used used temp cb ud]. rewrite Ea, Gv. cbn [negb]. rewrite ?andb_true_r.
      repeat split; auto; try discriminate.
      destruct (af_ok v); cbn [andb]; [|reflexivity]. destruct (cb s FAF =? 0); reflexivity.
Qed.

(* the well-formedness of the two bitmaps is an invariant of the buffer machine *)
Lemma b_af_wf v b : 0 <= v < 256 -> AfWF (d_af (b_used b)) -> AfWF (d_af (b_temp b)) ->
  AfWF (d_af (b_used (b_af v b))) /\ AfWF (d_af (b_temp (b_af v b))).
Proof.
  intros Hv Wu Wt. destruct b as [[u t] x]. unfold b_af, b_used, b_temp in *. cbn [fst snd] in *.
  destruct (negb (af_get (d_af u) v)); [|split; assumption].
  destruct (x && negb (af_get (d_af t) v)).
  - destruct (af_set_wf _ v Wt Hv) as [a' [E [W' _]]]. rewrite E. cbn [fst snd]. split; [exact Wu|].
    destruct t as [? ? ? ? ? ? ? ta]; cbn [set_af d_af]. exact W'.
  - destruct (af_set_wf _ v Wu Hv) as [a' [E [W' _]]]. rewrite E. cbn [fst snd]. split; [|exact Wt].
    destruct u as [? ? ? ? ? ? ? ua]; cbn [set_af d_af]. exact W'.
Qed.

Lemma afp_wf b b' : afp b = afp b' -> AfWF (d_af (b_used b')) /\ AfWF (d_af (b_temp b')) ->
  AfWF (d_af (b_used b)) /\ AfWF (d_af (b_temp b)).
Proof. intros H. destruct (afp_eq _ _ H) as [E1 [E2 _]]. rewrite E1, E2. auto. Qed.

Lemma b_hist_af_wf h : wf_hist h -> AfWF (d_af (b_used (b_hist lut h))) /\ AfWF (d_af (b_temp (b_hist lut h))).
Proof.
  induction h as [|o r IH]; intros Hw.
  - split; apply AfWF_empty.
  - inversion Hw as [|? ? Hwo Hwr]; subst. specialize (IH Hwr).
    assert (Hproc : forall g, wf_group g -> AfWF (d_af (b_used (b_process lut g (b_hist lut r))))
                                            /\ AfWF (d_af (b_temp (b_process lut g (b_hist lut r))))).
    { intros g Hg. pose proof (afp_b_process lut g (b_hist lut r)) as Hp.
      destruct Hg as [_ [_ [Hc _]]]. unfold blk_ok in Hc.
      pose proof (bits_W (gc g) Hc) as Hbw. unfold bits_W_ok in Hbw. split_andb Hbw.
      destruct (cond_0A g).
      - apply (afp_wf _ _ Hp). 
        assert (H0 : afp (b_group_parse g (b_hist lut r)) = afp (b_hist lut r)).
        { unfold b_group_parse. cbv zeta. repeat match goal with |- context [if ?c then _ else _] => destruct c end;
            rewrite ?afp_b_set; reflexivity. }
        pose proof (afp_wf _ _ H0 IH) as [W1 W2].
        destruct (b_af_wf (get_af1 (gc g)) _ ltac:(lia) W1 W2) as [W3 W4].
        apply b_af_wf; [lia|assumption|assumption].
      - apply (afp_wf _ _ Hp). exact IH. }
    destruct o as [| |g|str|v|t k e|t v|u|fd id]; cbn [b_hist b_step]; try exact IH;
      try (split; apply AfWF_empty).
    + apply Hproc. exact Hwo.
    + destruct str as [l|]; [|exact IH]. destruct (utils_convert l) as [g|] eqn:E; [|exact IH].
      apply Hproc. eapply utils_convert_wf. exact E.
Qed.

Lemma reach_af_wf h s : reach conv lut h s -> AfWF (d_af (used s)) /\ AfWF (d_af (temp s)).
Proof.
  intros Hr. pose proof (reach_bproj conv lut h s Hr) as Hb.
  pose proof (b_hist_af_wf h (reach_wf_hist conv lut h s Hr)) as [W1 W2].
  replace (used s) with (b_used (b_hist lut h)) by (rewrite <- Hb; reflexivity).
  replace (temp s) with (b_temp (b_hist lut h)) by (rewrite <- Hb; reflexivity). auto.
Qed.

End CbAf.

Section CbAf2.
Variable conv : Z -> Z.
Variable lut : Z -> Z -> Z.

Definition newly (a a' : list Z) (v : Z) : bool := af_get a' v && negb (af_get a v).
Definition af_event (s : state) (v : Z) (a' : list Z) : event :=
  mkev FAF (cb s FAF) (ud s) (AFreq (87500 + v * 100)) (SmAf a').

Lemma keeps_af_set_scalar f v : keeps (fun s => (d_af (used s), d_af (temp s))) (set_scalar f v).
Proof.
  intros s. unfold set_scalar, buffer_update. destruct (_ || _); cbn [fst with_temp with_used used temp]; rewrite ?setf_af; reflexivity.
Qed.

Lemma fields_dispatch_rest g : (get_group (gb g) =? 0) = false -> (get_group (gb g) =? 1) = false ->
  fields_in [FRT; FCT; FPTYN] (dispatch conv lut g).
Proof.
  intros G0 G1. unfold dispatch. cbv zeta. rewrite G0, G1.
  destruct (get_group (gb g) =? 2).
  { intros s0 e H. unfold group2_parse in H.
    repeat match type of H with context [let '(_, _) := ?X in _] => destruct X as [? ?] end.
    repeat match type of H with context [if ?c then _ else _] => destruct c end;
      repeat match type of H with context [let '(_, _) := ?X in _] => destruct X as [? ?] end;
      cbn [snd] in H; try (destruct H; fail); apply text_event_field in H; rewrite H; cbn; tauto. }
  destruct (get_group (gb g) =? 4).
  { intros s0 e H. rewrite group4_events in H.
    match type of H with In _ (if ?c then _ else _) => destruct c end; [|destruct H].
    match type of H with In _ (match ?c with _ => _ end) => destruct c end; [|destruct H].
    destruct H as [<-|[]]. cbn; tauto. }
  destruct (get_group (gb g) =? 10); [|apply fields_skip].
  intros s0 e H. unfold group10_parse in H.
  match type of H with In _ (snd (if ?c then _ else _)) => destruct c end; [|destruct H].
  destruct (upd_string conv TPTYN (gc g) _ _ _ s0) as [s2 c1].
  destruct (upd_string conv TPTYN (gd g) _ _ _ s2) as [s3 c2]. cbn [snd] in H.
  apply text_event_field in H. rewrite H. cbn; tauto.
Qed.

(* the AF callbacks of one group: none unless it is a 0A group with error-free B and C whose first
   code is not 250; then, for each of the two codes in block order, one callback iff that code
   became listed at that moment, carrying 87500 + 100 * code kHz and a bitmap that lists it *)
Theorem af_callbacks_wf h g s : reach conv lut h s -> wf_group g ->
  let evs := filter (isf FAF) (snd (process conv lut g s)) in
  let a0 := d_af (used s) in
  let a2 := d_af (used (fst (process conv lut g s))) in
  let v1 := w_hi (gc g) in let v2 := w_lo (gc g) in
  if (b_group (gb g) =? 0) && (b_ver (gb g) =? 0) && (eb g =? 0) && (ec g =? 0) && negb (v1 =? 250) then
    exists a1,
      evs = (if newly a0 a1 v1 && negb (cb s FAF =? 0) then [af_event s v1 a1] else [])
            ++ (if newly a1 a2 v2 && negb (cb s FAF =? 0) then [af_event s v2 a2] else [])
      /\ (forall w, 0 <= w < 256 -> w <> v1 -> af_get a1 w = af_get a0 w)
      /\ (forall w, 0 <= w < 256 -> w <> v2 -> af_get a2 w = af_get a1 w)
      /\ (af_get a0 v1 = true -> af_get a1 v1 = true) /\ (af_get a1 v2 = true -> af_get a2 v2 = true)
      /\ AfWF a1 /\ AfWF a2
  else evs = [] /\ a2 = a0.
Proof.
  intros Hr Hwf. pose proof Hwf as [Ha [Hb [Hc [Hd [Hea [Heb [Hec Hed]]]]]]]. unfold blk_ok, err_ok in *.
  pose proof (reach_inv conv lut h s Hr) as I.
  destruct (reach_af_wf conv lut h s Hr) as [Wu Wt].
  cbv zeta.
  (* the buffer part of the final state, for the "else" branch *)
  pose proof (process_refines conv lut g s) as Rf. unfold bproj in Rf.
  assert (Eaf : d_af (used (fst (process conv lut g s))) = d_af (b_used (b_process lut g (used s, temp s, ext s))))
    by (rewrite <- Rf; reflexivity).
  pose proof (afp_b_process lut g (used s, temp s, ext s)) as Hp.
  pose proof (cond_0A_spec g Hwf) as Hc0. unfold rx_af in Hc0.
  destruct ((b_group (gb g) =? 0) && (b_ver (gb g) =? 0) && (eb g =? 0) && (ec g =? 0) && negb (w_hi (gc g) =? 250)) eqn:C.
  2:{ assert (Hcf : cond_0A g = false) by (destruct (cond_0A g); [cbv iota in Hc0; discriminate Hc0|reflexivity]).
      rewrite Hcf in Hp. destruct (afp_eq _ _ Hp) as [E1 _]. split; [|rewrite Eaf; exact E1].
      (* no AF event *)
      unfold process. rewrite andthen_snd, filter_app.
      rewrite (filter_fields FAF [FPI; FPTY; FTP] (group_parse g) s (fields_group_parse g)) by (cbn; intuition discriminate).
      cbn [app]. unfold dispatch. cbv zeta. rewrite (get_group_spec _ Hb), (get_flag_spec _ Hb).
      destruct (b_group (gb g) =? 0) eqn:G0.
      - unfold group0_parse. rewrite !andthen_snd, !filter_app.
        rewrite (filter_fields FAF [FTA; FMS]).
        2:{ apply fields_when, fields_andthen; eapply fields_weaken; try apply fields_set_scalar; intros x [<-|[]]; cbn; tauto. }
        2:{ cbn; intuition discriminate. }
        rewrite (filter_fields FAF [FPS] _ _ (fields_ps_update conv g)) by (cbn; intuition discriminate).
        cbn [app]. unfold group0a_parse.
        rewrite (get_af1_spec _ Hc).
        destruct (b_ver (gb g) =? 0); cbn [when andb] in *; [|reflexivity].
        destruct (eb g =? 0); cbn [when andb] in *; [|reflexivity].
        destruct (ec g =? 0); cbn [when andb] in *; [|reflexivity].
        rewrite C. reflexivity.
      - pose proof (fields_dispatch conv lut g) as FD. unfold dispatch in FD. cbv zeta in FD.
        rewrite (get_group_spec _ Hb), (get_flag_spec _ Hb), G0 in FD.
        destruct (b_group (gb g) =? 1) eqn:G1x.
        { apply (filter_fields FAF [FECC; FCOUNTRY]); [|cbn; intuition discriminate].
          unfold group1_parse. apply fields_when, fields_andthen.
          - eapply fields_weaken; [apply fields_set_scalar|]. intros x [<-|[]]; cbn; tauto.
          - intros s0 e H. apply (fields_set_scalar SCountry _ s0) in H. destruct H as [<-|[]]. cbn; tauto. }
        assert (G0' : (get_group (gb g) =? 0) = false) by (rewrite (get_group_spec _ Hb); exact G0).
        assert (G1' : (get_group (gb g) =? 1) = false) by (rewrite (get_group_spec _ Hb); exact G1x).
        pose proof (fields_dispatch_rest g G0' G1') as FR. unfold dispatch in FR. cbv zeta in FR.
        rewrite (get_group_spec _ Hb), (get_flag_spec _ Hb), G0, G1x in FR.
        apply (filter_fields FAF [FRT; FCT; FPTYN] _ _ FR). cbn; intuition discriminate. }
  (* a 0A group that delivers its two codes *)
  repeat (apply andb_true_iff in C; destruct C as [C ?]).
  apply Z.eqb_eq in C. rename C into G0.
  unfold process. rewrite andthen_snd, andthen_fst, filter_app.
  rewrite (filter_fields FAF [FPI; FPTY; FTP] (group_parse g) s (fields_group_parse g)) by (cbn; intuition discriminate).
  cbn [app].
  set (s1 := fst (group_parse g s)).
  unfold dispatch. cbv zeta. rewrite (get_group_spec _ Hb), (get_flag_spec _ Hb), G0. cbn [Z.eqb].
  unfold group0_parse. rewrite !andthen_snd, !andthen_fst, !filter_app.
  set (a1f := when (eb g =? 0) (andthen (set_scalar STa (get_ta (gb g))) (set_scalar SMs (get_ms (gb g))))).
  rewrite (filter_fields FAF [FTA; FMS] a1f s1).
  2:{ unfold a1f. apply fields_when, fields_andthen; eapply fields_weaken; try apply fields_set_scalar; intros x [<-|[]]; cbn; tauto. }
  2:{ cbn; intuition discriminate. }
  rewrite (filter_fields FAF [FPS] _ _ (fields_ps_update conv g)) by (cbn; intuition discriminate).
  cbn [app].
  set (pslam := fun s0 => let (s', chg) := upd_string conv TPS (gd g) (eb g) (ed g) (Z.to_nat (2 * get_ps_pos (gb g))) s0 in
                          (s', text_event FPS ANone TPS chg s')).
  set (sA := fst (pslam (fst (a1f s1)))).
  (* frames up to sA: bitmaps, callbacks and user data as in s *)
  assert (FA : d_af (used sA) = d_af (used s) /\ d_af (temp sA) = d_af (temp s) /\ cb sA = cb s /\ ud sA = ud s).
  { assert (K1 : (d_af (used s1), d_af (temp s1)) = (d_af (used s), d_af (temp s))).
    { unfold s1, group_parse. apply (keeps_andthen (fun s => (d_af (used s), d_af (temp s))));
        [apply keeps_when, keeps_af_set_scalar|apply keeps_when, keeps_andthen; apply keeps_af_set_scalar]. }
    assert (K2 : (d_af (used (fst (a1f s1))), d_af (temp (fst (a1f s1)))) = (d_af (used s1), d_af (temp s1))).
    { unfold a1f. apply (keeps_when (fun s => (d_af (used s), d_af (temp s)))), keeps_andthen; apply keeps_af_set_scalar. }
    assert (K3 : (used sA, temp sA) = (used (fst (a1f s1)), temp (fst (a1f s1)))) by (apply (keeps_buf_ps_update conv g)).
    pose proof (keeps_group_parse g s) as P1. fold s1 in P1.
    assert (P2 : P_set (fst (a1f s1)) = P_set s1) by (unfold a1f; apply keeps_when, keeps_andthen; apply keeps_set_scalar).
    assert (P3 : P_set sA = P_set (fst (a1f s1))) by (apply (keeps_ps_update conv g)).
    injection K1 as K1a K1b. injection K2 as K2a K2b. injection K3 as K3a K3b.
    destruct (P_set_fields _ _ P1) as [_ [_ [Q1 Q2]]]. destruct (P_set_fields _ _ P2) as [_ [_ [Q3 Q4]]].
    destruct (P_set_fields _ _ P3) as [_ [_ [Q5 Q6]]].
    repeat split.
    - rewrite K3a, K2a, K1a. reflexivity.
    - rewrite K3b, K2b, K1b. reflexivity.
    - rewrite Q5, Q3, Q1. reflexivity.
    - rewrite Q6, Q4, Q2. reflexivity. }
  destruct FA as [FA1 [FA2 [FA3 FA4]]].
  replace (b_ver (gb g) =? 0) with true by (symmetry; assumption).
  replace (eb g =? 0) with true by (symmetry; assumption). replace (ec g =? 0) with true by (symmetry; assumption).
  cbn [when andb]. unfold group0a_parse.
  replace (eb g =? 0) with true by (symmetry; assumption). replace (ec g =? 0) with true by (symmetry; assumption).
  cbn [andb when]. rewrite (get_af1_spec _ Hc), (get_af2_spec _ Hc).
  replace (negb (w_hi (gc g) =? 250)) with true by (symmetry; assumption). cbn [when].
  rewrite andthen_snd, andthen_fst, filter_app.
  pose proof (bits_W (gc g) Hc) as Hbw. unfold bits_W_ok in Hbw. split_andb Hbw.
  assert (R1 : 0 <= w_hi (gc g) < 256) by lia. assert (R2 : 0 <= w_lo (gc g) < 256) by lia.
  destruct (add_af_events (w_hi (gc g)) sA ltac:(rewrite FA1; exact Wu) ltac:(rewrite FA2; exact Wt) R1)
    as [Ev1 [Wu1 [Wt1 [O1 M1]]]]. cbv zeta in Ev1, Wu1, Wt1, O1, M1.
  set (sB := fst (add_af (w_hi (gc g)) sA)) in *.
  assert (KB : cb sB = cb sA /\ ud sB = ud sA).
  { pose proof (keeps_add_af (w_hi (gc g)) sA) as K. destruct (P_set_fields _ _ K) as [_ [_ [Q1 Q2]]]. split; assumption. }
  destruct KB as [KB1 KB2].
  destruct (add_af_events (w_lo (gc g)) sB Wu1 Wt1 R2) as [Ev2 [Wu2 [Wt2 [O2 M2]]]]. cbv zeta in Ev2, Wu2, Wt2, O2, M2.
  exists (d_af (used sB)).
  subst sB sA pslam. cbv beta in *. rewrite Ev1, Ev2. rewrite FA1, FA3, FA4, KB1, KB2, FA3, FA4.
  unfold newly, af_event.
  split; [|split; [|split; [|split; [|split; [|split]]]]]; try assumption.
  - f_equal.
    + match goal with |- filter _ (if ?c then _ else _) = _ => destruct c end; cbn [filter];
        [unfold isf at 1; cbn [ev_field]; unfold field_eqb; rewrite Z.eqb_refl|]; reflexivity.
    + match goal with |- filter _ (if ?c then _ else _) = _ => destruct c end; cbn [filter];
        [unfold isf at 1; cbn [ev_field]; unfold field_eqb; rewrite Z.eqb_refl|]; reflexivity.
  - intros w Hw N. rewrite (O1 w Hw N), FA1. reflexivity.
  - intros Hg. apply M1. rewrite FA1. exact Hg.
Qed.

Theorem af_callbacks h g s : reach conv lut h s -> wf_group g ->
  let evs := filter (isf FAF) (snd (process conv lut g s)) in
  let a0 := d_af (used s) in
  let a2 := d_af (used (fst (process conv lut g s))) in
  let v1 := w_hi (gc g) in let v2 := w_lo (gc g) in
  if (b_group (gb g) =? 0) && (b_ver (gb g) =? 0) && (eb g =? 0) && (ec g =? 0) && negb (v1 =? 250) then
    exists a1,
      evs = (if newly a0 a1 v1 && negb (cb s FAF =? 0) then [af_event s v1 a1] else [])
            ++ (if newly a1 a2 v2 && negb (cb s FAF =? 0) then [af_event s v2 a2] else [])
      /\ (forall w, 0 <= w < 256 -> w <> v1 -> af_get a1 w = af_get a0 w)
      /\ (forall w, 0 <= w < 256 -> w <> v2 -> af_get a2 w = af_get a1 w)
      /\ (af_get a0 v1 = true -> af_get a1 v1 = true) /\ (af_get a1 v2 = true -> af_get a2 v2 = true)
  else evs = [] /\ a2 = a0.
Proof.
  intros Hr Hwf. pose proof (af_callbacks_wf h g s Hr Hwf) as H. cbv zeta in *.
  destruct ((b_group (gb g) =? 0) && (b_ver (gb g) =? 0) && (eb g =? 0) && (ec g =? 0) && negb (w_hi (gc g) =? 250)); [|exact H].
  destruct H as [a1 [E [F1 [F2 [M1 [M2 _]]]]]]. exists a1. auto.
Qed.

End CbAf2.
