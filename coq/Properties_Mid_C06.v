(* Properties_Mid_C06.v — C06 at the level of the code: rdsparser_parser_update_string with
   rdsparser_string_update and rdsparser_string_update_single below it (src/parser.c,
   src/string.c; translated on every run) is the model's upd_string: the threshold gate of the
   text, the weighted level, and the cell update, for every text buffer, block, error code,
   threshold setting and position inside the buffer. *)
Require Import Lemmas_Mid_Text Lemmas_Mid_Conv.
Local Open Scope Z_scope.

Theorem C06_code_update_string : forall sl s blk d0 d1 d2 d3 e0 e1 e2 e3 pos,
  let t := get_text sl s in
  let w := nth (Z.to_nat blk) [d0; d1; d2; d3] 0 in
  let edat := nth (Z.to_nat blk) [e0; e1; e2; e3] 0 in
  (blk = 2 \/ blk = 3) -> 0 <= w < 65536 -> 0 <= e1 < 256 -> 0 <= edat < 256 ->
  (S pos < length t)%nat -> (S pos < 256)%nat ->
  m_parser_update_string (corr_tab s) (prog_tab s) (contents t) (levels t) (text_index (tid_of sl)) blk
                         d0 d1 d2 d3 e0 e1 e2 e3 (Z.of_nat pos)
  = let r := upd_string conv_u sl w e1 edat pos s in
    (b2z (snd r), contents (get_text sl (fst r)), levels (get_text sl (fst r))).
Proof. exact (mid_parser_update_string conv_u mid_convert_u). Qed.
Print Assumptions C06_code_update_string.

Theorem C06_code_update_single : single_spec conv_u m_update_single.
Proof. exact (mid_update_single conv_u mid_convert_u). Qed.
Print Assumptions C06_code_update_single.
