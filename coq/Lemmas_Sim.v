(* Lemmas_Sim.v — C20: the unicode and the non-unicode instantiation of the model simulate each
   other on every group that causes no narrow collision: everything the getters show stays equal
   except the stored characters, which stay related by "images of the same byte". *)
Require Export Lemmas_Prog.
Require Import Lemmas_WF.
Require Import ZifyBool.
Ltac Zify.zify_post_hook ::= Z.div_mod_to_equations.
Local Open Scope Z_scope.

Section Sim.
Variable cu cn : Z -> Z.        (* the two character graphs *)
Variable lut : Z -> Z -> Z.
(* table facts (kernel-checked for the measured graphs in Properties_C20) *)
Hypothesis nz : forall b, 32 <= b < 256 -> cu b <> 0 /\ cn b <> 0.
Hypothesis wd : forall i j, 32 <= i < 256 -> 32 <= j < 256 -> cu i = cu j -> cn i = cn j.
Hypothesis sp : forall b, 32 <= b < 256 -> cu b = 32 -> cn b = 32.

(* two stored characters that the two builds hold for the same reception history of a cell *)
Definition crel (x y : Z) : Prop :=
  (x = 0 /\ y = 0) \/ (x = 32 /\ y = 32) \/ exists b, 32 <= b < 256 /\ x = cu b /\ y = cn b.
Definition cellrel (p q : Z * Z) : Prop := crel (fst p) (fst q) /\ snd p = snd q.

(* no narrow collision for byte b on a cell: the non-unicode build finds "same character" only if
   the unicode build does *)
Definition nocoll (p q : Z * Z) (b : Z) : Prop :=
  fst q = (if b =? 13 then 0 else cn b) -> fst p = (if b =? 13 then 0 else cu b).

Lemma same_test p q b : cellrel p q -> 0 <= b < 256 -> (b = 13 \/ 32 <= b) -> nocoll p q b ->
  (fst p =? (if b =? 13 then 0 else cu b)) = (fst q =? (if b =? 13 then 0 else cn b)).
Proof.
  intros [Hc Hl] Hb Hs Hn. unfold nocoll in Hn.
  destruct (Z.eqb_spec (fst q) (if b =? 13 then 0 else cn b)) as [Eq|Nq].
  - rewrite (Hn Eq). apply Z.eqb_refl.
  - destruct (Z.eqb_spec (fst p) (if b =? 13 then 0 else cu b)) as [Ep|Np]; [|reflexivity].
    exfalso. apply Nq.
    destruct (Z.eqb_spec b 13) as [->|N13].
    + destruct Hc as [[_ Hy]|[[Hx _]|[b0 [Hb0 [Hx _]]]]]; [exact Hy|lia|]. destruct (nz b0 Hb0). lia.
    + assert (Hb32 : 32 <= b < 256) by lia.
      destruct Hc as [[Hx _]|[[Hx Hy]|[b0 [Hb0 [Hx Hy]]]]].
      * destruct (nz b Hb32). lia.
      * rewrite Hy. symmetry. apply sp; [exact Hb32|lia].
      * rewrite Hy. apply wd; try assumption. lia.
Qed.

Lemma cell_after_rel info data pr p q b eb e : cellrel p q -> 0 <= b < 256 -> nocoll p q b ->
  cellrel (cell_after cu info data pr p b eb e) (cell_after cn info data pr q b eb e)
  /\ (pair_eqb (cell_after cu info data pr p b eb e) p = pair_eqb (cell_after cn info data pr q b eb e) q).
Proof.
  intros Hr Hb Hn. pose proof Hr as [Hc Hl]. unfold cell_after. rewrite <- Hl.
  destruct ((info <? eb) || (data <? e)); [split; [exact Hr|rewrite !pair_eqb_refl; reflexivity]|].
  destruct (pr && (snd p <? lvl eb e)); [split; [exact Hr|rewrite !pair_eqb_refl; reflexivity]|].
  destruct ((b =? 13) && negb (lvl eb e =? 0)); [split; [exact Hr|rewrite !pair_eqb_refl; reflexivity]|].
  destruct (negb (b =? 13) && (b <? 32)) eqn:Ctl; [split; [exact Hr|rewrite !pair_eqb_refl; reflexivity]|].
  destruct ((127 <=? b) && negb (lvl eb e =? 0)); [split; [exact Hr|rewrite !pair_eqb_refl; reflexivity]|].
  assert (Hs : b = 13 \/ 32 <= b) by lia.
  rewrite (same_test p q b Hr Hb Hs Hn).
  destruct ((fst q =? (if b =? 13 then 0 else cn b)) && (snd p <=? lvl eb e)) eqn:Same;
    [split; [exact Hr|rewrite !pair_eqb_refl; reflexivity]|].
  split.
  - split; [|reflexivity]. cbn [fst]. destruct (Z.eqb_spec b 13) as [->|N]; [left; split; reflexivity|].
    right; right. exists b. split; [lia|split; reflexivity].
  - unfold pair_eqb. cbn [fst snd]. rewrite <- Hl.
    rewrite (Z.eqb_sym _ (fst p)), (Z.eqb_sym _ (fst q)), (same_test p q b Hr Hb Hs Hn). reflexivity.
Qed.

(* cell lists *)
Definition cellsrel (l1 l2 : list (Z * Z)) : Prop := Forall2 cellrel l1 l2.

Lemma cellsrel_nth l1 l2 i : cellsrel l1 l2 -> (i < length l1)%nat -> cellrel (nth i l1 (0, 0)) (nth i l2 (0, 0)).
Proof.
  intros H. revert i. induction H as [|x y r1 r2 Hxy Hr IH]; intros [|i] Hi; cbn in *; try lia; auto.
  apply IH. lia.
Qed.
Lemma cellsrel_length l1 l2 : cellsrel l1 l2 -> length l1 = length l2.
Proof. induction 1; cbn; congruence. Qed.
Lemma cellsrel_upd l1 l2 i x y : cellsrel l1 l2 -> cellrel x y -> cellsrel (upd i x l1) (upd i y l2).
Proof.
  intros H Hxy. revert i. induction H as [|a b r1 r2 Hab Hr IH]; intros [|i]; cbn; try constructor; auto.
  apply IH.
Qed.

(* one block: relation preserved, "changed" equal, provided neither byte collides *)
Definition nocoll2 (l1 l2 : list (Z * Z)) (pos : nat) (w : Z) : Prop :=
  nocoll (nth pos l1 (0, 0)) (nth pos l2 (0, 0)) (w_hi w)
  /\ nocoll (nth (S pos) l1 (0, 0)) (nth (S pos) l2 (0, 0)) (w_lo w).

Lemma write2_rel info data pr eb e pos w l1 l2 : cellsrel l1 l2 -> (S pos < length l1)%nat -> 0 <= w < 65536 ->
  nocoll2 l1 l2 pos w ->
  cellsrel (write2 cu info data pr eb e pos w l1) (write2 cn info data pr eb e pos w l2)
  /\ changed2 cu info data pr eb e pos w l1 = changed2 cn info data pr eb e pos w l2.
Proof.
  intros Hr Hl Hw [N0 N1].
  assert (Hhi : 0 <= w_hi w < 256) by (unfold w_hi; lia). assert (Hlo : 0 <= w_lo w < 256) by (unfold w_lo; lia).
  pose proof (cellsrel_nth _ _ pos Hr ltac:(lia)) as R0. pose proof (cellsrel_nth _ _ (S pos) Hr ltac:(lia)) as R1.
  destruct (cell_after_rel info data pr _ _ (w_hi w) eb e R0 Hhi N0) as [A0 B0].
  destruct (cell_after_rel info data pr _ _ (w_lo w) eb e R1 Hlo N1) as [A1 B1].
  split.
  - unfold write2. rewrite !(nth_upd_other _ _ pos (S pos)) by lia.
    apply cellsrel_upd; [apply cellsrel_upd; assumption|exact A1].
  - unfold changed2. rewrite B0, B1. reflexivity.
Qed.

End Sim.

Section SimState.
Variable cu cn : Z -> Z.
Variable lut : Z -> Z -> Z.
Hypothesis nz : forall b, 32 <= b < 256 -> cu b <> 0 /\ cn b <> 0.
Hypothesis wd : forall i j, 32 <= i < 256 -> 32 <= j < 256 -> cu i = cu j -> cn i = cn j.
Hypothesis sp : forall b, 32 <= b < 256 -> cu b = 32 -> cn b = 32.

Notation cellsrel := (cellsrel cu cn).
Notation nocoll2 := (nocoll2 cu cn).

(* everything equal except the stored characters, which are related cell by cell *)
Record SR (su sn : state) : Prop := mkSR {
  sr_used : used su = used sn; sr_temp : temp su = temp sn; sr_ext : ext su = ext sn;
  sr_prog : prog su = prog sn; sr_corr : corr su = corr sn; sr_ud : ud su = ud sn; sr_cb : cb su = cb sn;
  sr_last : last_rt su = last_rt sn;
  sr_ps : cellsrel (cells (ps su)) (cells (ps sn)); sr_rt0 : cellsrel (cells (rt0 su)) (cells (rt0 sn));
  sr_rt1 : cellsrel (cells (rt1 su)) (cells (rt1 sn)); sr_ptyn : cellsrel (cells (ptyn su)) (cells (ptyn sn))
}.

Lemma avail_cells t : string_available t = existsb (fun p => negb (snd p =? 10)) (cells t).
Proof. unfold string_available, cells. rewrite existsb_map. reflexivity. Qed.

Lemma cellsrel_avail l1 l2 : cellsrel l1 l2 ->
  existsb (fun p => negb (snd p =? 10)) l1 = existsb (fun p => negb (snd p =? 10)) l2.
Proof. induction 1 as [|x y r1 r2 [_ Hl] Hr IH]; cbn; [reflexivity|]. rewrite Hl, IH. reflexivity. Qed.

Lemma cellsrel_clear t1 t2 : length t1 = length t2 -> cellsrel (cells (string_clear t1)) (cells (string_clear t2)).
Proof.
  revert t2. induction t1 as [|c r IH]; intros [|c2 r2] H; cbn in *; try discriminate; constructor.
  - split; [right; left; split; reflexivity|reflexivity].
  - apply IH. lia.
Qed.

(* the groups that cause no narrow collision, by group type *)
Definition nocoll_group (su sn : state) (g : group) : Prop :=
  let b := gb g in
  (b_group b = 0 -> nocoll2 (cells (ps su)) (cells (ps sn)) (Z.to_nat (2 * (b mod 4))) (gd g))
  /\ (b_group b = 10 -> b_ver b = 0 ->
      nocoll2 (cells (ptyn su)) (cells (ptyn sn)) (Z.to_nat (4 * (b mod 2))) (gc g)
      /\ nocoll2 (cells (ptyn su)) (cells (ptyn sn)) (Z.to_nat (4 * (b mod 2) + 2)) (gd g))
  /\ (b_group b = 2 ->
      let f := b_rtflag b in
      let clr := (eb g =? 0) && negb (f =? last_rt su) && negb (last_rt su =? -1) && string_available (rt_of f su) in
      let bu := if clr then cells (string_clear (rt_of f su)) else cells (rt_of f su) in
      let bn := if clr then cells (string_clear (rt_of f sn)) else cells (rt_of f sn) in
      if b_ver b =? 0
      then nocoll2 bu bn (Z.to_nat (4 * (b mod 16))) (gc g) /\ nocoll2 bu bn (Z.to_nat (4 * (b mod 16) + 2)) (gd g)
      else nocoll2 bu bn (Z.to_nat (2 * (b mod 16))) (gd g)).

Lemma nocoll2_after l1 l2 info data pr eb e p w q w' :
  (q <> p) -> (q <> S p) -> (S q <> p) -> (S q <> S p) ->
  nocoll2 l1 l2 q w' ->
  nocoll2 (write2 cu info data pr eb e p w l1) (write2 cn info data pr eb e p w l2) q w'.
Proof.
  intros A B C D [N0 N1]. unfold Lemmas_Sim.nocoll2. rewrite !write2_other by assumption. split; assumption.
Qed.

Theorem group_simulation su sn g : SR su sn -> Inv cu su -> Inv cn sn -> wf_group g -> nocoll_group su sn g ->
  SR (fst (process cu lut g su)) (fst (process cn lut g sn)).
Proof.
  intros R Iu In Hwf Hnc. pose proof Hwf as [Ha [Hb [Hc [Hd [Hea [Heb [Hec Hed]]]]]]]. unfold blk_ok, err_ok in *.
  destruct R as [Ru Rt Rx Rp Rc Rud Rcb Rl Rps R0 R1 Rpt].
  (* the parts that do not involve characters *)
  pose proof (process_refines cu lut g su) as Bu. pose proof (process_refines cn lut g sn) as Bn.
  unfold bproj in Bu, Bn. rewrite Ru, Rt, Rx in Bu. rewrite <- Bn in Bu. injection Bu as Bu1 Bu2 Bu3.
  pose proof (process_keeps_settings cu lut g su) as Ku. pose proof (process_keeps_settings cn lut g sn) as Kn.
  destruct (P_set_fields _ _ Ku) as [Ku1 [Ku2 [Ku3 Ku4]]]. destruct (P_set_fields _ _ Kn) as [Kn1 [Kn2 [Kn3 Kn4]]].
  pose proof (process_last_rt cu lut g su Iu Hwf) as Lu. pose proof (process_last_rt cn lut g sn In Hwf) as Ln.
  assert (Lens : forall (t1 t2 : text) n, text_ok cu n t1 -> text_ok cn n t2 -> length t1 = length t2).
  { intros t1 t2 n [H1 _] [H2 _]. congruence. }
  assert (XL : last_rt (fst (process cu lut g su)) = last_rt (fst (process cn lut g sn))) by (rewrite Lu, Ln, Rl; reflexivity).
  destruct Hnc as [Nps [Npt Nrt]]. cbv zeta in Nps, Npt, Nrt.
  destruct (group_cases cu lut (gb g) Hb) as [G|[G|[[G V]|[N0 [N2 N10]]]]].
  - (* type 0 *)
    destruct (ps_step cu lut g su Iu Hwf G) as [Eu [Au [Bu' [Cu' _]]]].
    destruct (ps_step cn lut g sn In Hwf G) as [En [An [Bn' [Cn' _]]]].
    assert (X1 : cellsrel (cells (ps (fst (process cu lut g su)))) (cells (ps (fst (process cn lut g sn))))).
    { rewrite Eu, En, Rp, Rc.
      assert (Hm : 0 <= gb g mod 4 <= 3) by (pose proof (Z.mod_pos_bound (gb g) 4 ltac:(lia)); lia).
      apply (write2_rel cu cn lut nz wd sp); [exact Rps| |exact Hd|exact (Nps G)].
      unfold cells. rewrite map_length. destruct (inv_ps cu su Iu) as [Hl _]. rewrite Hl. lia. }
    constructor; try congruence; try assumption; rewrite ?Au, ?An, ?Bu', ?Bn', ?Cu', ?Cn'; try assumption.
  - (* type 2 *)
    destruct (rt_step cu lut g su Iu Hwf G) as [Pu [Qu [Ou [_ Eu]]]].
    destruct (rt_step cn lut g sn In Hwf G) as [Pn [Qn [On [_ En]]]].
    cbv zeta in Ou, On, Eu, En. specialize (Nrt G). 
    set (f := b_rtflag (gb g)) in *.
    assert (Hf : f = 0 \/ f = 1) by (unfold f, b_rtflag; pose proof (Z.mod_pos_bound (gb g / 16) 2 ltac:(lia)); lia).
    assert (Rf : cellsrel (cells (rt_of f su)) (cells (rt_of f sn))) by (unfold rt_of; destruct (f =? 0); assumption).
    assert (Rof : cellsrel (cells (rt_of (1 - f) su)) (cells (rt_of (1 - f) sn))) by (unfold rt_of; destruct (1 - f =? 0); assumption).
    assert (Av : string_available (rt_of f su) = string_available (rt_of f sn)).
    { rewrite !avail_cells. apply cellsrel_avail. exact Rf. }
    assert (Lf : length (rt_of f su) = length (rt_of f sn)).
    { unfold rt_of. destruct (f =? 0); [apply (Lens _ _ 64%nat (inv_rt0 cu su Iu) (inv_rt0 cn sn In))
                                       |apply (Lens _ _ 64%nat (inv_rt1 cu su Iu) (inv_rt1 cn sn In))]. }
    assert (L64 : length (cells (rt_of f su)) = 64%nat).
    { unfold cells, rt_of. rewrite map_length. destruct (f =? 0); [apply (inv_rt0 cu su Iu)|apply (inv_rt1 cu su Iu)]. }
    rewrite <- Rl, <- Av, <- Rp, <- Rc in En.
    set (clr := (eb g =? 0) && negb (f =? last_rt su) && negb (last_rt su =? -1) && string_available (rt_of f su)) in *.
    set (bu := if clr then cells (string_clear (rt_of f su)) else cells (rt_of f su)) in *.
    set (bn := if clr then cells (string_clear (rt_of f sn)) else cells (rt_of f sn)) in *.
    assert (Rb : cellsrel bu bn) by (unfold bu, bn; destruct clr; [apply cellsrel_clear; exact Lf|exact Rf]).
    assert (Lb : length bu = 64%nat).
    { unfold bu. destruct clr; [|exact L64]. unfold cells, string_clear. rewrite !map_length.
      unfold cells in L64. rewrite map_length in L64. exact L64. }
    assert (Hm : 0 <= gb g mod 16 <= 15) by (pose proof (Z.mod_pos_bound (gb g) 16 ltac:(lia)); lia).
    assert (Rnew : cellsrel (cells (rt_of f (fst (process cu lut g su)))) (cells (rt_of f (fst (process cn lut g sn))))).
    { rewrite Eu, En.
      replace ((eb g =? 0) && negb (f =? last_rt su) && negb (last_rt su =? -1) && string_available (rt_of f su)) with clr by reflexivity.
      fold bu bn.
      destruct (negb (eb g =? 0) && negb (f =? last_rt su) && negb (last_rt su =? -1)); [exact Rf|].
      destruct (b_ver (gb g) =? 0).
      - destruct Nrt as [Nc Ndd].
        destruct (write2_rel cu cn lut nz wd sp (corr su RT INFO) (corr su RT DATA) (prog su RT) (eb g) (ec g)
                    (Z.to_nat (4 * (gb g mod 16))) (gc g) bu bn Rb ltac:(lia) Hc Nc) as [W1 _].
        apply (write2_rel cu cn lut nz wd sp); [exact W1|rewrite write2_length; lia|exact Hd|].
        apply nocoll2_after; try lia. exact Ndd.
      - apply (write2_rel cu cn lut nz wd sp); [exact Rb|lia|exact Hd|exact Nrt]. }
    assert (rt_of_0 : forall x, rt_of 0 x = rt0 x) by reflexivity.
    assert (rt_of_1 : forall x, rt_of 1 x = rt1 x) by reflexivity.
    assert (X01 : cellsrel (cells (rt0 (fst (process cu lut g su)))) (cells (rt0 (fst (process cn lut g sn))))
                  /\ cellsrel (cells (rt1 (fst (process cu lut g su)))) (cells (rt1 (fst (process cn lut g sn))))).
    { clear Eu En. destruct Hf as [E|E]; rewrite E in Rnew, Ou, On.
      - change (1 - 0) with 1 in Ou, On. rewrite !rt_of_0 in Rnew. rewrite !rt_of_1 in Ou, On.
        split; [exact Rnew|rewrite Ou, On; exact R1].
      - change (1 - 1) with 0 in Ou, On. rewrite !rt_of_1 in Rnew. rewrite !rt_of_0 in Ou, On.
        split; [rewrite Ou, On; exact R0|exact Rnew]. }
    destruct X01 as [X0 X1].
    constructor; try congruence; try assumption; rewrite ?Pu, ?Pn, ?Qu, ?Qn; assumption.
  - (* 10A *)
    destruct (ptyn_step cu lut g su Iu Hwf G V) as [Eu [Au [Bu' [Cu' _]]]].
    destruct (ptyn_step cn lut g sn In Hwf G V) as [En [An [Bn' [Cn' _]]]]. cbv zeta in Eu, En.
    destruct (Npt G V) as [Nc Ndd].
    assert (Hm : 0 <= gb g mod 2 <= 1) by (pose proof (Z.mod_pos_bound (gb g) 2 ltac:(lia)); lia).
    assert (L8 : length (cells (ptyn su)) = 8%nat) by (unfold cells; rewrite map_length; apply (inv_ptyn cu su Iu)).
    assert (X1 : cellsrel (cells (ptyn (fst (process cu lut g su)))) (cells (ptyn (fst (process cn lut g sn))))).
    { rewrite Eu, En, Rp, Rc.
      destruct (write2_rel cu cn lut nz wd sp (corr sn PTYN INFO) (corr sn PTYN DATA) (prog sn PTYN) (eb g) (ec g)
                  (Z.to_nat (4 * (gb g mod 2))) (gc g) _ _ Rpt ltac:(lia) Hc Nc) as [W1 _].
      apply (write2_rel cu cn lut nz wd sp); [exact W1|rewrite write2_length; lia|exact Hd|].
      apply nocoll2_after; try lia. exact Ndd. }
    constructor; try congruence; try assumption; rewrite ?Au, ?An, ?Bu', ?Bn', ?Cu', ?Cn'; assumption.
  - (* no text *)
    destruct (no_text_step cu lut g su Iu Hwf N0 N2 N10) as [Au [Bu' [Cu' [Du _]]]].
    destruct (no_text_step cn lut g sn In Hwf N0 N2 N10) as [An [Bn' [Cn' [Dn _]]]].
    constructor; try congruence; try assumption; rewrite ?Au, ?An, ?Bu', ?Bn', ?Cu', ?Cn', ?Du, ?Dn; assumption.
Qed.

End SimState.
