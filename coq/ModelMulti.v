(* ModelMulti.v — several parser instances: each API call names the instance it is made on.
   The library keeps no state outside struct librdsparser, so the model of a process is just a
   table of independent instance states.  (That the code has no other mutable state is what the
   static scan and the interleaving / thread runs of the C19 check look for.) *)
Require Export Lemmas_Reach.
Local Open Scope Z_scope.

Section Multi.
Variable conv : Z -> Z.
Variable lut : Z -> Z -> Z.

Inductive mop :=
  | MNew (ok : bool)       (* rdsparser_new: allocation succeeded or not *)
  | MFree                  (* rdsparser_free (also on a NULL handle) *)
  | MCall (o : op).        (* any other API call (OInit = rdsparser_init on caller storage) *)

Definition mstate := list (option state).

Definition mstep (ms : mstate) (c : nat * mop) : mstate * list event :=
  let (i, m) := c in
  match m with
  | MNew ok => (upd i (if ok then Some init_state else None) ms, [])
  | MFree => (upd i None ms, [])
  | MCall OInit => (upd i (Some init_state) ms, [])
  | MCall o =>
    match nth i ms None with
    | Some s => let (s', ev) := step conv lut s o in (upd i (Some s') ms, ev)
    | None => (ms, [])     (* a call on a NULL handle is outside the API contract *)
    end
  end.

Fixpoint mrun (ms : mstate) (cs : list (nat * mop)) : mstate :=
  match cs with
  | [] => ms
  | c :: r => mrun (fst (mstep ms c)) r
  end.

(* a call on instance i leaves every other instance exactly as it was *)
Theorem isolation ms i m j : i <> j -> nth j (fst (mstep ms (i, m))) None = nth j ms None.
Proof.
  intros Hne. unfold mstep. destruct m as [ok| |o].
  - cbn [fst]. apply nth_upd_other. exact Hne.
  - cbn [fst]. apply nth_upd_other. exact Hne.
  - destruct o; try (destruct (nth i ms None) as [s|]; [destruct (step conv lut s _) as [s' ev]|];
                     cbn [fst]; [apply nth_upd_other; exact Hne|reflexivity]).
    cbn [fst]. apply nth_upd_other. exact Hne.
Qed.

(* what instance j goes through depends only on the calls made on j: the calls of the others
   can be deleted from the schedule *)
Definition mine (j : nat) (cs : list (nat * mop)) : list (nat * mop) :=
  filter (fun c => Nat.eqb (fst c) j) cs.

Lemma mstep_same ms ms' j m : (j < length ms)%nat -> (j < length ms')%nat ->
  nth j ms None = nth j ms' None ->
  nth j (fst (mstep ms (j, m))) None = nth j (fst (mstep ms' (j, m))) None
  /\ snd (mstep ms (j, m)) = snd (mstep ms' (j, m)).
Proof.
  intros Hl Hl' He. unfold mstep. destruct m as [ok| |o].
  - cbn [fst snd]. rewrite !nth_upd_same by assumption. split; reflexivity.
  - cbn [fst snd]. rewrite !nth_upd_same by assumption. split; reflexivity.
  - assert (Hgen : forall (f : state -> state * list event),
               nth j (fst (match nth j ms None with
                           | Some s => let (s', ev) := f s in (upd j (Some s') ms, ev)
                           | None => (ms, []) end)) None
               = nth j (fst (match nth j ms' None with
                             | Some s => let (s', ev) := f s in (upd j (Some s') ms', ev)
                             | None => (ms', []) end)) None
               /\ snd (match nth j ms None with
                       | Some s => let (s', ev) := f s in (upd j (Some s') ms, ev)
                       | None => (ms, []) end)
                  = snd (match nth j ms' None with
                         | Some s => let (s', ev) := f s in (upd j (Some s') ms', ev)
                         | None => (ms', []) end)).
    { intros f. rewrite <- He. destruct (nth j ms None) as [s|] eqn:E.
      - destruct (f s) as [s' ev]. cbn [fst snd]. rewrite !nth_upd_same by assumption. split; reflexivity.
      - cbn [fst snd]. split; [rewrite E; exact He|reflexivity]. }
    destruct o; try (apply (Hgen (fun s => step conv lut s _))).
    cbn [fst snd]. rewrite !nth_upd_same by assumption. split; reflexivity.
Qed.

Lemma mstep_length ms c : length (fst (mstep ms c)) = length ms.
Proof.
  destruct c as [i m]. unfold mstep. destruct m as [ok| |o]; cbn [fst]; try apply upd_length.
  destruct o; try (destruct (nth i ms None) as [s|]; [destruct (step conv lut s _)|]; cbn [fst];
                   [apply upd_length|reflexivity]).
  apply upd_length.
Qed.

Theorem projection cs : forall ms ms' j, (j < length ms)%nat -> (j < length ms')%nat ->
  nth j ms None = nth j ms' None ->
  nth j (mrun ms cs) None = nth j (mrun ms' (mine j cs)) None.
Proof.
  induction cs as [|[i m] r IH]; intros ms ms' j Hl Hl' He.
  - exact He.
  - change (mrun ms ((i, m) :: r)) with (mrun (fst (mstep ms (i, m))) r).
    unfold mine. cbn [filter fst]. fold (mine j r).
    destruct (Nat.eqb_spec i j) as [->|Hne].
    + change (mrun ms' ((j, m) :: mine j r)) with (mrun (fst (mstep ms' (j, m))) (mine j r)).
      apply IH; try (rewrite mstep_length; assumption).
      apply (mstep_same ms ms' j m Hl Hl' He).
    + apply IH; [rewrite mstep_length; assumption | assumption |].
      rewrite (isolation ms i m j Hne). exact He.
Qed.

(* any two schedules with the same per-instance call sequences give every instance the same
   state (in particular: any interleaving of per-thread call sequences, one instance per thread) *)
Corollary schedules_agree cs cs' ms j : (j < length ms)%nat -> mine j cs = mine j cs' ->
  nth j (mrun ms cs) None = nth j (mrun ms cs') None.
Proof.
  intros Hl Hm. rewrite (projection cs ms ms j Hl Hl eq_refl), (projection cs' ms ms j Hl Hl eq_refl), Hm.
  reflexivity.
Qed.

End Multi.
