(* Lemmas_Mid_Clear.v — rdsparser_clear (src/rdsparser.c, with rdsparser_buffer_clear,
   rdsparser_buffer_data_clear and rdsparser_af_clear inlined — its 26-iteration loop unrolled — and
   rdsparser_string_clear for the four texts), translated on every run (GenMid.v), against the
   model's clear. *)
Require Export Lemmas_Mid_G2.
Require Import ZifyBool.
Local Open Scope Z_scope.

Definition clear_view (s : state) :=
  (0, d_af (temp s), getf SCountry (temp s), getf SEcc (temp s), getf SMs (temp s), getf SPi (temp s),
   getf SPty (temp s), getf STa (temp s), getf STp (temp s),
   d_af (used s), getf SCountry (used s), getf SEcc (used s), getf SMs (used s), getf SPi (used s),
   getf SPty (used s), getf STa (used s), getf STp (used s),
   last_rt s, contents (ps s), levels (ps s), contents (ptyn s), levels (ptyn s),
   contents (rt0 s), levels (rt0 s), contents (rt1 s), levels (rt1 s)).

Lemma af_wipe (l : list Z) : length l = 26%nat ->
  upd 25 0 (upd 24 0 (upd 23 0 (upd 22 0 (upd 21 0 (upd 20 0 (upd 19 0 (upd 18 0 (upd 17 0 (upd 16 0
  (upd 15 0 (upd 14 0 (upd 13 0 (upd 12 0 (upd 11 0 (upd 10 0 (upd 9 0 (upd 8 0 (upd 7 0 (upd 6 0
  (upd 5 0 (upd 4 0 (upd 3 0 (upd 2 0 (upd 1 0 (upd 0 0 l))))))))))))))))))))))))) = af_empty.
Proof.
  intros H.
  change (upd 0 0 l) with (upd 0 0 (repeat 0 0%nat ++ skipn 0 l)).
  repeat (rewrite upd_fill by (rewrite H; lia)).
  rewrite skipn_all2 by lia. rewrite app_nil_r. reflexivity.
Qed.

Theorem mid_clear : forall s,
  length (ps s) = 8%nat -> length (rt0 s) = 64%nat -> length (rt1 s) = 64%nat -> length (ptyn s) = 8%nat ->
  length (d_af (used s)) = 26%nat -> length (d_af (temp s)) = 26%nat ->
  m_clear (d_af (temp s)) (getf SCountry (temp s)) (getf SEcc (temp s)) (getf SMs (temp s)) (getf SPi (temp s))
          (getf SPty (temp s)) (getf STa (temp s)) (getf STp (temp s))
          (d_af (used s)) (getf SCountry (used s)) (getf SEcc (used s)) (getf SMs (used s)) (getf SPi (used s))
          (getf SPty (used s)) (getf STa (used s)) (getf STp (used s)) (last_rt s)
          (contents (ps s)) (levels (ps s)) 8 (contents (ptyn s)) (levels (ptyn s)) 8
          (contents (rt0 s)) (levels (rt0 s)) 64 (contents (rt1 s)) (levels (rt1 s)) 64
  = clear_view (clear s).
Proof.
  intros s Lps L0 L1 Lpt Lu Lt. unfold m_clear. cbv zeta.
  pose proof (mid_string_clear (ps s) ltac:(lia)) as C1. rewrite Lps in C1. change (Z.of_nat 8) with 8 in C1.
  pose proof (mid_string_clear (rt0 s) ltac:(lia)) as C2. rewrite L0 in C2. change (Z.of_nat 64) with 64 in C2.
  pose proof (mid_string_clear (rt1 s) ltac:(lia)) as C3. rewrite L1 in C3. change (Z.of_nat 64) with 64 in C3.
  pose proof (mid_string_clear (ptyn s) ltac:(lia)) as C4. rewrite Lpt in C4. change (Z.of_nat 8) with 8 in C4.
  rewrite C1, C2, C3, C4.
  change (to_u8 0) with 0.
  repeat match goal with |- context [Z.to_nat ?k] => let v := eval vm_compute in (Z.to_nat k) in change (Z.to_nat k) with v end.
  rewrite (af_wipe (d_af (used s)) Lu), (af_wipe (d_af (temp s)) Lt).
  reflexivity.
Qed.
