(* Reent.v — callbacks that call the registration API from inside the callback (C15: "registering,
   replacing or removing any callback, changing the user-data pointer ... at any time").
   The base model has callbacks as pure notifications.  Here a callback function (identified by
   its id) may carry a script of registration / user-data calls which it performs on its own
   parser when invoked.  What the property demands of such a run: decoding is unaffected; each
   notification goes to the function registered for its field AT THAT MOMENT (skipped when that is
   NULL) with the user data set AT THAT MOMENT.  step_reent says exactly this, by replaying the
   notifications the call would make with every callback registered through the evolving table.
   Definitions only. *)
Require Export Inst.
Local Open Scope Z_scope.

Inductive raction := RReg (f : field) (id : Z) | RSetUD (u : Z).
Definition rtab := Z -> list raction.            (* callback id -> what that function does *)

Definition r_apply (tu : (field -> Z) * Z) (a : raction) : (field -> Z) * Z :=
  match a with
  | RReg f id => (fupd field_eqb (fst tu) f id, snd tu)
  | RSetUD u => (fst tu, u)
  end.

Fixpoint replay (sc : rtab) (tab : field -> Z) (u : Z) (full : list event)
  : list event * ((field -> Z) * Z) :=
  match full with
  | [] => ([], (tab, u))
  | e :: r =>
    let id := tab (ev_field e) in
    if id =? 0 then replay sc tab u r
    else
      let tu := fold_left r_apply (sc id) (tab, u) in
      let (es, fin) := replay sc (fst tu) (snd tu) r in
      (mkev (ev_field e) id u (ev_arg e) (ev_sample e) :: es, fin)
  end.

Definition full_obs : field -> Z := fun _ => 1.
Definition with_obs' (c : field -> Z) (u : Z) (s : state) : state := with_cb c (with_ud u s).

Section WithTables.
Variable conv : Z -> Z.
Variable lut : Z -> Z -> Z.

Definition step_reent (sc : rtab) (s : state) (o : op) : state * list event :=
  match op_group o with
  | None => step conv lut s o
  | Some _ =>
    let s1 := fst (step conv lut s o) in
    let full := snd (step conv lut (with_obs' full_obs 0 s) o) in
    let '(evs, (tab, u)) := replay sc (cb s) (ud s) full in
    (with_obs' tab u s1, evs)
  end.

End WithTables.

Definition step_reent_u := step_reent conv_u lut_g.
Definition step_reent_n := step_reent conv_n lut_g.
(* script tables as association lists, for the driver *)
Definition rtab_of (l : list (Z * list raction)) : rtab :=
  fun id => match find (fun p => fst p =? id) l with Some p => snd p | None => [] end.
