(* Properties_Mid_C20.v — C20 at the level of the code: rdsparser_string_update_single of the
   non-unicode build (translated on every run with -DRDSPARSER_DISABLE_UNICODE) is the model's
   update_single instantiated with the narrow character graph. *)
Require Import Lemmas_Mid_TextN Lemmas_Mid_Conv.
Local Open Scope Z_scope.

Theorem C20_code_update_single_narrow : single_spec conv_n m_update_single_n.
Proof. exact (mid_update_single_n conv_n mid_convert_n_lo mid_convert_n_hi). Qed.
Print Assumptions C20_code_update_single_narrow.
