(* Lemmas_Leaf_C01.v — PI / PTY / TP / TA / MS extractors and the group-type dispatch fields: the C functions, translated on every run (GenLeaf.v), equal the functions of
   the model for every 16-bit block value (kernel sweep over all 65536 values: any equivalent
   rewrite of the C code still passes, any other has a concrete failing value). *)
Require Export Lemmas_LeafBase.
Require Import ZifyBool.
Local Open Scope Z_scope.

Lemma leaf_get_pi d0 d1 d2 d3 : c_get_pi d0 d1 d2 d3 = d0.
Proof. reflexivity. Qed.

Definition leaf_C01_ok (x : Z) : bool :=
  (c_get_pty 0 x 0 0 =? get_pty x) && (c_get_tp 0 x 0 0 =? get_tp x) && (c_get_ta 0 x 0 0 =? get_ta x) && (c_get_ms 0 x 0 0 =? get_ms x) && (c_get_group 0 x 0 0 =? get_group x) && (c_get_flag 0 x 0 0 =? get_flag x).
Lemma leaf_C01_sweep : all_from (Z.to_nat 65536) 0 leaf_C01_ok = true.
Proof. vm_compute. reflexivity. Qed.

Lemma leaf_get_pty d0 d1 d2 d3 : 0 <= d1 < 65536 -> c_get_pty d0 d1 d2 d3 = get_pty d1.
Proof.
  intros H. pose proof (sweep16 _ leaf_C01_sweep d1 H) as S. unfold leaf_C01_ok in S. split_andb S.
  change (c_get_pty d0 d1 d2 d3) with (c_get_pty 0 d1 0 0). lia.
Qed.
Lemma leaf_get_tp d0 d1 d2 d3 : 0 <= d1 < 65536 -> c_get_tp d0 d1 d2 d3 = get_tp d1.
Proof.
  intros H. pose proof (sweep16 _ leaf_C01_sweep d1 H) as S. unfold leaf_C01_ok in S. split_andb S.
  change (c_get_tp d0 d1 d2 d3) with (c_get_tp 0 d1 0 0). lia.
Qed.
Lemma leaf_get_ta d0 d1 d2 d3 : 0 <= d1 < 65536 -> c_get_ta d0 d1 d2 d3 = get_ta d1.
Proof.
  intros H. pose proof (sweep16 _ leaf_C01_sweep d1 H) as S. unfold leaf_C01_ok in S. split_andb S.
  change (c_get_ta d0 d1 d2 d3) with (c_get_ta 0 d1 0 0). lia.
Qed.
Lemma leaf_get_ms d0 d1 d2 d3 : 0 <= d1 < 65536 -> c_get_ms d0 d1 d2 d3 = get_ms d1.
Proof.
  intros H. pose proof (sweep16 _ leaf_C01_sweep d1 H) as S. unfold leaf_C01_ok in S. split_andb S.
  change (c_get_ms d0 d1 d2 d3) with (c_get_ms 0 d1 0 0). lia.
Qed.
Lemma leaf_get_group d0 d1 d2 d3 : 0 <= d1 < 65536 -> c_get_group d0 d1 d2 d3 = get_group d1.
Proof.
  intros H. pose proof (sweep16 _ leaf_C01_sweep d1 H) as S. unfold leaf_C01_ok in S. split_andb S.
  change (c_get_group d0 d1 d2 d3) with (c_get_group 0 d1 0 0). lia.
Qed.
Lemma leaf_get_flag d0 d1 d2 d3 : 0 <= d1 < 65536 -> c_get_flag d0 d1 d2 d3 = get_flag d1.
Proof.
  intros H. pose proof (sweep16 _ leaf_C01_sweep d1 H) as S. unfold leaf_C01_ok in S. split_andb S.
  change (c_get_flag d0 d1 d2 d3) with (c_get_flag 0 d1 0 0). lia.
Qed.
