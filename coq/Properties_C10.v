(* Properties_C10.v — obligations of property C10 (the AF list is exactly the set of valid FM
   codes received in 0A). *)
Require Import ObsRun Lemmas_AfHist Lemmas_CbAf Lemmas_ObsAf Lemmas_Leaf_C10.
Local Open Scope Z_scope.

(* For EVERY history, after every call, the 26-byte bitmap the AF getter returns is
     bitmap_of (fun v => thr <= number of receptions of v since the last reset)
   with thr = 1 in normal mode and thr = 2 under the extended check, where
   - the receptions (af_rx) are both bytes of block C of every group with B/4096 = 0, version bit 0,
     error-free B and C, whose first byte is not 250 (a pair starting with 250 is skipped entirely;
     0B and every other group contribute nothing);
   - bitmap_of sets, for each code 1 <= v <= 204 satisfying the predicate, bit 2^(7 - v mod 8) of byte
     v / 8, and nothing else (codes 0 and 205..255 never add an entry).
   Since af_rx only grows between resets, so does the list. *)
Theorem C10_af_set : forall conv lut h s, reach conv lut h s ->
  (no_ext h = true -> d_af (used s) = bitmap_of (fun v => 1 <=? count_z v (af_rx h)))
  /\ (ext_scope h = true -> d_af (used s) = bitmap_of (fun v => 2 <=? count_z v (af_rx h))).
Proof. exact C10_af_set_holds. Qed.
Print Assumptions C10_af_set.

(* the bit operations of the sources against the membership reading, all 256 byte values x 8 x 8
   bit positions (kernel sweep): test, set, and "a byte is the sum of its bits" *)
Theorem C10_bitmap_layout : forall a p v, AfInv a p -> 0 <= v < 256 ->
  af_get a v = (af_ok v && p v)
  /\ exists a', af_set a v = Some (a', af_ok v) /\ AfInv a' (fun w => p w || (w =? v)).
Proof. intros a p v I Hv. split; [apply af_get_spec; assumption|apply af_set_spec; assumption]. Qed.
Print Assumptions C10_bitmap_layout.

(* every addition triggers the AF callback exactly once with that frequency in kHz *)
Theorem C10_af_callbacks : forall conv lut h g s, reach conv lut h s -> wf_group g ->
  let evs := filter (isf FAF) (snd (process conv lut g s)) in
  let a0 := d_af (used s) in
  let a2 := d_af (used (fst (process conv lut g s))) in
  let v1 := w_hi (gc g) in let v2 := w_lo (gc g) in
  if (b_group (gb g) =? 0) && (b_ver (gb g) =? 0) && (eb g =? 0) && (ec g =? 0) && negb (v1 =? 250) then
    exists a1,
      evs = (if newly a0 a1 v1 && negb (cb s FAF =? 0) then [af_event s v1 a1] else [])
            ++ (if newly a1 a2 v2 && negb (cb s FAF =? 0) then [af_event s v2 a2] else [])
      /\ (forall w, 0 <= w < 256 -> w <> v1 -> af_get a1 w = af_get a0 w)
      /\ (forall w, 0 <= w < 256 -> w <> v2 -> af_get a2 w = af_get a1 w)
      /\ (af_get a0 v1 = true -> af_get a1 v1 = true) /\ (af_get a1 v2 = true -> af_get a2 v2 = true)
  else evs = [] /\ a2 = a0.
Proof. exact af_callbacks. Qed.
Print Assumptions C10_af_callbacks.

(* THE OBSERVER: bitmap = set of codes received at least thr times since the last reset, and the AF
   callbacks of the call are exactly the group's own codes that became listed, in block order, with
   87500 + 100 * code kHz and a sampled list that already contains the code *)
Theorem C10_observer : forall conv lut h s o ret, reach conv lut h s -> wf_op o ->
  obs_C10 (o :: h) (snap_of s) (snap_of (fst (step conv lut s o))) (snd (step conv lut s o)) ret = true.
Proof. exact obs_C10_holds. Qed.
Print Assumptions C10_observer.

(* THE CODE ITSELF: the two AF code extractors, translated from clang's typed AST on every run *)
Theorem C10_code_af : forall d0 d1 d2 d3, 0 <= d2 < 65536 ->
  c_get_af1 d0 d1 d2 d3 = get_af1 d2 /\ c_get_af2 d0 d1 d2 d3 = get_af2 d2.
Proof. intros d0 d1 d2 d3 H. split; [apply leaf_get_af1|apply leaf_get_af2]; exact H. Qed.
Print Assumptions C10_code_af.

(* THE CODE ITSELF: rdsparser_af_get and rdsparser_af_set (src/af.c), translated on every run with the
   bitmap as a list, are the model's af_get / af_set on every 26-byte bitmap and every code 0..255
   (so C10_bitmap_layout — code v at byte v/8, mask 0x80 >> (v mod 8), only 1..204 — is a statement
   about these two C functions) *)
Theorem C10_code_bitmap : forall a v, length a = 26%nat -> Forall (fun x => 0 <= x < 256) a -> 0 <= v < 256 ->
  c_af_get a v = (if af_get a v then 1 else 0)
  /\ af_set a v = Some (c_af_set__buffer a v, negb (c_af_set__ret a v =? 0)).
Proof. intros a v Hl Hb Hv. split; [exact (leaf_af_get a v Hv)|exact (leaf_af_set a v Hl Hb Hv)]. Qed.
Print Assumptions C10_code_bitmap.

Example C10_scenario : check_run_u (observer_u 10) scenario = true.
Proof. vm_compute. reflexivity. Qed.
Example C10_marker_and_range :
  let s := run_u [G 4096 0 64001 8224 0 0 0 0; G 4096 0 205 8224 0 0 0 0; G 4096 2048 257 8224 0 0 0 0] in
  d_af (used s) = af_empty.
Proof. vm_compute. reflexivity. Qed.
