(* Properties_C10.v — obligations of property C10.  Contains only theorem statements closed by
   `exact <lemma>` and Print Assumptions. *)
Require Import ObsRun.
Local Open Scope Z_scope.

(* non-vacuity: the observer of C10 is evaluated (and holds) along a run of the model that
   touches every group kind *)
Example C10_scenario : check_run_u (observer_u 10) scenario = true.
Proof. vm_compute. reflexivity. Qed.
Print Assumptions C10_scenario.
