(* Properties_Mid_C04.v — C04 at the level of the code: the eight setters of src/rdsparser.c
   (rdsparser_set_pi ... rdsparser_set_country, rdsparser_add_af), translated on every run with
   their callback invocations as events, are the model's set_scalar / add_af: the callback is
   invoked exactly when the buffer reports a change, once, with the registered function, the
   current user data and (AF) the frequency in kHz; the buffer members afterwards are the model's. *)
Require Import Lemmas_Mid_Acts.
Local Open Scope Z_scope.

Theorem C04_code_setters : forall f v s evs,
  m_set f (getf f (temp s)) (getf f (used s)) (b2z (ext s)) (cb s (field_of f)) evs (ud s) v
  = let r := set_scalar f v s in
    (0, getf f (temp (fst r)), getf f (used (fst r)), evs ++ map ev_call (snd r)).
Proof. exact mid_set_scalar. Qed.
Print Assumptions C04_code_setters.

Theorem C04_code_add_af : forall v s evs, bytes (d_af (used s)) -> bytes (d_af (temp s)) -> 0 <= v < 256 ->
  m_add_af (d_af (temp s)) (d_af (used s)) (b2z (ext s)) (cb s FAF) evs (ud s) v
  = let r := add_af v s in
    (0, d_af (temp (fst r)), d_af (used (fst r)), evs ++ map ev_call (snd r)).
Proof. exact mid_add_af. Qed.
Print Assumptions C04_code_add_af.
