(* Model.v — executable Gallina model of the whole public API of librdsparser.
   One function per C function, same order of tests.  Definitions only (no proofs), so the
   model still runs (extraction, correspondence) when a proof elsewhere breaks.

   Parameters (Section variables, instantiated from the regenerated Gen.v in Inst.v):
     conv : byte -> stored character, for bytes >= 0x20 (rdsparser_string_convert, and in
            the non-unicode build the `input = ' '` replacement for bytes >= 0x7F);
     lut  : PI country nibble -> ECC -> country (the four range-checked ECC tables).  *)
Require Export Types.
Local Open Scope Z_scope.

(* ---------- bit-field extractors (group.c, group0.c, group1.c, group2.c, group4.c,
              group10.c, parser.c), written with the masks and shifts of the sources ---------- *)
Definition get_pty (b : Z) : Z := Z.shiftr (Z.land b 992) 5.          (* (B & 0x03E0) >> 5 *)
Definition get_tp (b : Z) : Z := Z.shiftr (Z.land b 1024) 10.         (* (B & 0x400) >> 10 *)
Definition get_group (b : Z) : Z := Z.shiftr (Z.land b 61440) 12.     (* (B & 0xF000) >> 12 *)
Definition get_flag (b : Z) : Z := Z.shiftr (Z.land b 2048) 11.       (* (B & 0x0800) >> 11 *)
Definition get_ta (b : Z) : Z := Z.shiftr (Z.land b 16) 4.
Definition get_ms (b : Z) : Z := Z.shiftr (Z.land b 8) 3.
Definition get_ps_pos (b : Z) : Z := Z.land b 3.
Definition get_af1 (c : Z) : Z := Z.shiftr c 8.
Definition get_af2 (c : Z) : Z := Z.land c 255.                        (* (uint8_t)C *)
Definition get_variant (c : Z) : Z := Z.shiftr (Z.land c 28672) 12.    (* (C & 0x7000) >> 12 *)
Definition get_ecc (c : Z) : Z := Z.land c 255.
Definition get_rt_pos (b : Z) : Z := Z.land b 15.
Definition get_rt_flag (b : Z) : Z := Z.shiftr (Z.land b 16) 4.
Definition get_ptyn_pos (b : Z) : Z := Z.land b 1.
Definition get_mjd (b c : Z) : Z := Z.lor (Z.shiftl (Z.land b 3) 15) (Z.shiftr c 1).
Definition get_hour (c d : Z) : Z := Z.lor (Z.shiftl (Z.land c 1) 4) (Z.shiftr (Z.land d 61440) 12).
Definition get_minute (d : Z) : Z := Z.shiftr (Z.land d 4032) 6.       (* (D & 0xFC0) >> 6 *)
Definition get_offset (d : Z) : Z :=
  let o := Z.land d 31 in if Z.land d 32 =? 0 then o else - o.
Definition hi_byte (w : Z) : Z := Z.shiftr w 8.
Definition lo_byte (w : Z) : Z := Z.land w 255.

(* ---------- af.c ---------- *)
Definition af_ok (v : Z) : bool := (1 <=? v) && (v <=? 204).
Definition af_mask (v : Z) : Z := Z.shiftr 128 (v mod 8).             (* 0x80 >> bitPos *)
Definition af_get (a : list Z) (v : Z) : bool :=
  af_ok v && negb (Z.land (nth (Z.to_nat (v / 8)) a 0) (af_mask v) =? 0).
(* None = index outside the bitmap (cannot happen: 204/8 = 25 < 26; proved, not assumed) *)
Definition af_set (a : list Z) (v : Z) : option (list Z * bool) :=
  if af_ok v then
    match nth_error a (Z.to_nat (v / 8)) with
    | Some byte => Some (upd (Z.to_nat (v / 8)) (Z.lor byte (af_mask v)) a, true)
    | None => None
    end
  else Some (a, false).
Definition af_empty : list Z := repeat 0 26.

(* ---------- string.c ---------- *)
Definition empty_cell : cell := mkcell 32 10 false.                    (* ' ', UNCORRECTABLE *)
Definition string_clear (t : text) : text := map (fun _ => empty_cell) t.
Definition string_init (n : nat) : text := repeat empty_cell n.
Definition string_available (t : text) : bool := existsb (fun c => negb (lv c =? 10)) t.
Fixpoint string_length (t : text) : Z :=
  match t with
  | [] => 0
  | c :: r => if ch c =? 0 then 0 else 1 + string_length r
  end.
(* The terminator slot content[size] is not a cell of the model: the only way the sources can
   write it is through a position >= size, which the model reports as a fault (and C05/C16 prove
   never happens); the getters' view of it is therefore the constant 0. *)
Definition tsnap_of (t : text) : tsnap :=
  mktsnap (string_length t) (string_available t) 0 (map (fun c => (ch c, lv c)) t).
Definition calc_error (ei ed : Z) : Z :=
  let v := to_u8 (2 * ei + 3 * ed) in if v =? 0 then 0 else v - 1.

Section WithTables.
Variable conv : Z -> Z.
Variable lut : Z -> Z -> Z.

Definition convert (inp : Z) : Z := if inp =? 13 then 0 else conv inp.

(* rdsparser_string_update_single (allow_eol is true at its only call site).
   None = position outside the buffer. *)
Definition update_single (t : text) (inp ei ed : Z) (pos : nat) (progressive : bool)
  : option (text * bool) :=
  match nth_error t pos with
  | None => None
  | Some c =>
    let err := calc_error ei ed in
    let clean := (ei =? 0) && (ed =? 0) in
    if progressive && (lv c <? err) then Some (t, false)
    else if (inp =? 13) && negb clean then Some (t, false)
    else if negb (inp =? 13) && (inp <? 32) then Some (t, false)
    else if (127 <=? inp) && negb clean then Some (t, false)
    else
      let chr := convert inp in
      if (ch c =? chr) && (lv c <=? err)
      then Some (upd pos (mkcell (ch c) (lv c) true) t, false)
      else Some (upd pos (mkcell chr err true) t, true)
  end.

(* rdsparser_string_update: two characters at pos, pos+1; `changed |= ...` *)
Definition string_update (t : text) (b0 b1 ei ed : Z) (pos : nat) (progressive : bool)
  : option (text * bool) :=
  match update_single t b0 ei ed pos progressive with
  | None => None
  | Some (t1, c1) =>
    match update_single t1 b1 ei ed (S pos) progressive with
    | None => None
    | Some (t2, c2) => Some (t2, c1 || c2)
    end
  end.

(* rdsparser_parser_update_string: threshold gate of the text, then the two bytes of block w *)
Definition upd_string (sl : tslot) (w e_info e_data : Z) (pos : nat) (s : state) : state * bool :=
  let tid := tid_of sl in
  if (e_info <=? corr s tid INFO) && (e_data <=? corr s tid DATA) then
    match string_update (get_text sl s) (hi_byte w) (lo_byte w) e_info e_data pos (prog s tid) with
    | Some (t', chg) => (set_text sl t' s, chg)
    | None => (with_fault true s, false)
    end
  else (s, false).

(* ---------- buffer.c: RDSPARSER_BUFFER_UPDATE, once for the seven scalars ---------- *)
Definition buffer_update (f : sfield) (v : Z) (s : state) : state * bool :=
  if (getf f (used s) =? v) || (ext s && negb (getf f (temp s) =? v))
  then (with_temp (setf f v (temp s)) s, false)
  else (with_used (setf f v (used s)) s, true).

Definition buffer_add_af (v : Z) (s : state) : state * bool :=
  if negb (af_get (d_af (used s)) v) then
    if ext s && negb (af_get (d_af (temp s)) v) then
      match af_set (d_af (temp s)) v with
      | Some (a, _) => (with_temp (set_af a (temp s)) s, false)
      | None => (with_fault true s, false)
      end
    else
      match af_set (d_af (used s)) v with
      | Some (a, r) => (with_used (set_af a (used s)) s, r)
      | None => (with_fault true s, false)
      end
  else (s, false).

(* ---------- actions: state transformers that may invoke callbacks ---------- *)
Definition act := state -> state * list event.
Definition skip : act := fun s => (s, []).
Definition andthen (f g : act) : act :=
  fun s => let (s1, e1) := f s in let (s2, e2) := g s1 in (s2, e1 ++ e2).
Definition when (b : bool) (f : act) : act := if b then f else skip.
Infix ";;" := andthen (at level 61, left associativity).

Definition emit (f : field) (a : arg) (sm : sample) (s : state) : list event :=
  if cb s f =? 0 then [] else [mkev f (cb s f) (ud s) a sm].

(* rdsparser_set_pi ... rdsparser_set_country (rdsparser.c) *)
Definition set_scalar (f : sfield) (v : Z) : act := fun s =>
  let (s', chg) := buffer_update f v s in
  (s', if chg then emit (field_of f) ANone (SmZ (getf f (used s'))) s' else []).

(* rdsparser_add_af: 87500 + (uint32_t)new_af * 100 *)
Definition add_af (v : Z) : act := fun s =>
  let (s', chg) := buffer_add_af v s in
  (s', if chg then emit FAF (AFreq (87500 + v * 100)) (SmAf (d_af (used s'))) s' else []).

(* ---------- group.c ---------- *)
Definition group_parse (g : group) : act :=
  when (ea g =? 0) (set_scalar SPi (ga g)) ;;
  when (eb g =? 0) (set_scalar SPty (get_pty (gb g)) ;; set_scalar STp (get_tp (gb g))).

(* ---------- group0.c ---------- *)
Definition group0a_parse (g : group) : act :=
  when ((eb g =? 0) && (ec g =? 0))
    (when (negb (get_af1 (gc g) =? 250))
       (add_af (get_af1 (gc g)) ;; add_af (get_af2 (gc g)))).

Definition text_event (f : field) (a : arg) (sl : tslot) (chg : bool) (s : state) : list event :=
  if chg then emit f a (SmText (tsnap_of (get_text sl s))) s else [].

Definition group0_parse (g : group) (flag : Z) : act :=
  when (eb g =? 0) (set_scalar STa (get_ta (gb g)) ;; set_scalar SMs (get_ms (gb g))) ;;
  (fun s =>
     let (s', chg) := upd_string TPS (gd g) (eb g) (ed g) (Z.to_nat (2 * get_ps_pos (gb g))) s in
     (s', text_event FPS ANone TPS chg s')) ;;
  when (flag =? 0) (group0a_parse g).

(* ---------- group1.c / ecc.c ---------- *)
Definition ecc_lookup (pi ecc : Z) : Z :=
  if pi =? -1 then 0 else lut (Z.land (Z.shiftr pi 12) 15) ecc.

Definition group1_parse (g : group) (flag : Z) : act :=
  when ((flag =? 0) && (eb g =? 0) && (ec g =? 0) && (get_variant (gc g) =? 0))
    (set_scalar SEcc (get_ecc (gc g)) ;;
     (fun s => set_scalar SCountry (ecc_lookup (d_pi (used s)) (get_ecc (gc g))) s)).

(* ---------- group2.c ---------- *)
Definition group2_parse (g : group) (flag : Z) : act := fun s =>
  let rf := get_rt_flag (gb g) in
  let sl := if rf =? 0 then TRT0 else TRT1 in
  let '(s1, chg0) :=
    if (eb g =? 0) && negb (rf =? last_rt s) then
      let '(s', c) :=
        if negb (last_rt s =? -1) && string_available (get_text sl s)
        then (set_text sl (string_clear (get_text sl s)) s, true)
        else (s, false) in
      (with_last_rt rf s', c)
    else (s, false) in
  if negb (eb g =? 0) && negb (rf =? last_rt s1) && negb (last_rt s1 =? -1)
  then (s1, [])                       (* possible bit-flip of the A/B flag: ignore the group *)
  else
    let '(s2, chg1, pos) :=
      if flag =? 0 then
        let (s', c) := upd_string sl (gc g) (eb g) (ec g) (Z.to_nat (4 * get_rt_pos (gb g))) s1 in
        (s', c, Z.to_nat (4 * get_rt_pos (gb g) + 2))
      else (s1, false, Z.to_nat (2 * get_rt_pos (gb g))) in
    let '(s3, chg2) := upd_string sl (gd g) (eb g) (ed g) pos s2 in
    (s3, text_event FRT (AFlag rf) sl (chg0 || chg1 || chg2) s3).

(* ---------- ct.c (int8_t hour/minute/offset, uint32_t mjd; C `/` and `%` truncate) ---------- *)
Definition ct_init (mjd hour minute offset : Z) : option arg :=
  if (24 <=? hour) || (60 <=? minute) then None
  else
    let minute1 := to_s8 (minute + Z.rem offset 2 * 30) in
    let '(hour1, minute2) :=
      if 60 <=? minute1 then (to_s8 (hour + 1), to_s8 (Z.rem minute1 60))
      else if minute1 <? 0 then (to_s8 (hour - 1), to_s8 (60 + minute1))
      else (hour, minute1) in
    let hour2 := to_s8 (hour1 + Z.quot offset 2) in
    let '(mjd1, hour3) :=
      if 24 <=? hour2 then (to_u32 (mjd + 1), to_s8 (Z.rem hour2 24))
      else if hour2 <? 0 then (to_u32 (mjd - 1), to_s8 (24 + hour2))
      else (mjd, hour2) in
    let z := to_s32 mjd1 + 678881 in
    let era := Z.quot z 146097 in
    let doe := z - era * 146097 in
    let yoe := Z.quot (doe - Z.quot doe 1460 + Z.quot doe 36524 - Z.quot doe 146096) 365 in
    let doy := doe - (365 * yoe + Z.quot yoe 4 - Z.quot yoe 100) in
    let mp := Z.quot (5 * doy + 2) 153 in
    let day := to_u8 (doy - Z.quot (153 * mp + 2) 5 + 1) in
    let month := to_u8 (if mp <? 10 then mp + 3 else mp - 9) in
    let year := to_u16 (yoe + era * 400 + (if month <=? 2 then 1 else 0)) in
    Some (ACT year month day (to_u8 hour3) (to_u8 minute2) (offset * 30)).

(* ---------- group4.c ---------- *)
Definition group4_parse (g : group) (flag : Z) : act := fun s =>
  if (flag =? 0) && (eb g =? 0) && (ec g =? 0) && (ed g =? 0) then
    if cb s FCT =? 0 then (s, [])
    else
      match ct_init (get_mjd (gb g) (gc g)) (get_hour (gc g) (gd g)) (get_minute (gd g))
                    (get_offset (gd g)) with
      | Some a => (s, emit FCT a SmNone s)
      | None => (s, [])
      end
  else (s, []).

(* ---------- group10.c ---------- *)
Definition group10_parse (g : group) (flag : Z) : act := fun s =>
  if flag =? 0 then
    let pos := 4 * get_ptyn_pos (gb g) in
    let (s1, c1) := upd_string TPTYN (gc g) (eb g) (ec g) (Z.to_nat pos) s in
    let (s2, c2) := upd_string TPTYN (gd g) (eb g) (ed g) (Z.to_nat (pos + 2)) s1 in
    (s2, text_event FPTYN ANone TPTYN (c1 || c2) s2)
  else (s, []).

(* ---------- parser.c: rdsparser_parser_process ---------- *)
Definition dispatch (g : group) : act :=
  let flag := get_flag (gb g) in
  let grp := get_group (gb g) in
  if grp =? 0 then group0_parse g flag
  else if grp =? 1 then group1_parse g flag
  else if grp =? 2 then group2_parse g flag
  else if grp =? 4 then group4_parse g flag
  else if grp =? 10 then group10_parse g flag
  else skip.

Definition process (g : group) : act := group_parse g ;; dispatch g.

(* ---------- utils.c: strict hexadecimal decoding (after the fix: commit of C14) ---------- *)
Definition hexval (c : Z) : option Z :=
  if (48 <=? c) && (c <=? 57) then Some (c - 48)
  else if (97 <=? c) && (c <=? 102) then Some (c - 87)
  else if (65 <=? c) && (c <=? 70) then Some (c - 55)
  else None.
Fixpoint parse_hex (l : list Z) (acc : Z) : option Z :=
  match l with
  | [] => Some acc
  | c :: r =>
    match hexval c with
    | None => None
    | Some d => parse_hex r (to_u16 (Z.lor (Z.shiftl acc 4) d))
    end
  end.
Definition utils_convert (str : list Z) : option group :=
  let n := length str in
  let errs :=
    if Nat.eqb n 16 then Some 0
    else if Nat.eqb n 18 then parse_hex (skipn 16 str) 0
    else None in
  match errs with
  | None => None
  | Some e =>
    let e := to_u8 e in
    match parse_hex (firstn 4 str) 0, parse_hex (firstn 4 (skipn 4 str)) 0,
          parse_hex (firstn 4 (skipn 8 str)) 0, parse_hex (firstn 4 (skipn 12 str)) 0 with
    | Some a, Some b, Some c, Some d =>
      Some (mkgroup a b c d (Z.shiftr (Z.land e 192) 6) (Z.shiftr (Z.land e 48) 4)
                    (Z.shiftr (Z.land e 12) 2) (Z.land e 3))
    | _, _, _, _ => None
    end
  end.

(* ---------- rdsparser.c: init / clear / setters ---------- *)
Definition buf_unknown : bufdata := mkbuf (-1) (-1) (-1) (-1) (-1) (-1) 0 af_empty.

Definition clear (s : state) : state :=
  mkstate buf_unknown buf_unknown (ext s)
          (string_clear (ps s)) (string_clear (rt0 s)) (string_clear (rt1 s)) (string_clear (ptyn s))
          (prog s) (corr s) (ud s) (cb s) (-1) (fault s).

Definition init_state : state :=
  mkstate buf_unknown buf_unknown false
          (string_init 8) (string_init 64) (string_init 64) (string_init 8)
          (fun _ => false) (fun _ _ => 0) 0 (fun _ => 0) (-1) false.

Definition set_corr (t : text_id) (k : blk_type) (e : Z) (s : state) : state :=
  let v := if e <? 2 then e else 2 in           (* error < max_error ? error : max_error *)
  with_corr (fupd text_id_eqb (corr s) t (fupd blk_type_eqb (corr s t) k v)) s.

Definition parse_string_result (str : option (list Z)) : bool :=
  match str with
  | None => false
  | Some l => is_some (utils_convert l)
  end.

Definition step (s : state) (o : op) : state * list event :=
  match o with
  | OInit => (init_state, [])
  | OClear => (clear s, [])
  | OParse g => process g s
  | OParseString None => (s, [])
  | OParseString (Some l) =>
    match utils_convert l with
    | Some g => process g s
    | None => (s, [])
    end
  | OSetExt v => (with_ext v s, [])
  | OSetCorr t k e => (set_corr t k e s, [])
  | OSetProg t v => (with_prog (fupd text_id_eqb (prog s) t v) s, [])
  | OSetUD u => (with_ud u s, [])
  | ORegister f id => (with_cb (fupd field_eqb (cb s) f id) s, [])
  end.

Fixpoint run_from (s : state) (ops : list op) : state :=
  match ops with
  | [] => s
  | o :: r => run_from (fst (step s o)) r
  end.
Definition run (ops : list op) : state := run_from init_state ops.

End WithTables.
