(* Lemmas_Callbacks.v — C12 and C15 as the observers state them: what every callback is handed,
   and when a clock-time report is made. *)
Require Export Lemmas_Events.
Require Import Lemmas_Settings.
Local Open Scope Z_scope.

Section Callbacks.
Variable conv : Z -> Z.
Variable lut : Z -> Z -> Z.
Notation step := (step conv lut).
Notation reach := (reach conv lut).

(* the registrations and the user data of a reachable state are those of its history *)
Lemma reach_cb_ud h s : reach h s -> (forall f, cb s f = h_cb h f) /\ ud s = h_ud h.
Proof.
  induction 1 as [|h s o Hr [IHc IHu] Hwf].
  - split; [intros f|]; reflexivity.
  - destruct o as [| |g|str|v|t k e|t v|u|fd id]; cbn [step fst h_cb h_ud].
    + split; [intros f|]; reflexivity.
    + split; [intros f; apply IHc|apply IHu].
    + pose proof (process_keeps_settings conv lut g s) as K. unfold P_set in K. inversion K as [[K1 K2 K3 K4 K5]].
      split; [intros f; rewrite K5; apply IHc|rewrite K4; apply IHu].
    + destruct str as [l|]; [destruct (utils_convert l) as [g|]|]; cbn [fst];
        try (split; [intros f; apply IHc|apply IHu]).
      pose proof (process_keeps_settings conv lut g s) as K. unfold P_set in K. inversion K as [[K1 K2 K3 K4 K5]].
      split; [intros f; rewrite K5; apply IHc|rewrite K4; apply IHu].
    + split; [intros f; apply IHc|apply IHu].
    + split; [intros f; apply IHc|apply IHu].
    + split; [intros f; apply IHc|apply IHu].
    + split; [intros f; apply IHc|reflexivity].
    + split; [|apply IHu]. intros f. cbn [with_cb cb]. unfold fupd. destruct (field_eqb fd f); [reflexivity|apply IHc].
Qed.

(* the events of processing one group *)
Lemma process_events g s :
  (get_group (gb g) =? 4) = false ->
  Forall (ev_good (P_set s)) (snd (process conv lut g s)).
Proof.
  intros G4. unfold process.
  apply (evs_andthen (P_set s) _ _ _ (group_parse_good (P_set s) g) (keeps_group_parse g)
                     (dispatch_good conv lut (P_set s) g G4)). reflexivity.
Qed.

Lemma process_events4 g s :
  (get_group (gb g) =? 4) = true ->
  snd (process conv lut g s) = snd (group_parse g s) ++ snd (group4_parse g (get_flag (gb g)) (fst (group_parse g s)))
  /\ Forall (ev_good (P_set s)) (snd (group_parse g s)).
Proof.
  intros G4. unfold process. rewrite andthen_snd. split.
  - f_equal. unfold dispatch. cbv zeta.
    assert (get_group (gb g) = 4) by (apply Z.eqb_eq; exact G4).
    replace (get_group (gb g) =? 0) with false by lia. replace (get_group (gb g) =? 1) with false by lia.
    replace (get_group (gb g) =? 2) with false by lia. rewrite G4. reflexivity.
  - apply (group_parse_good (P_set s) g s eq_refl).
Qed.

(* C15 (arguments): every callback receives the user data most recently set and is the function
   most recently registered for its field, which is not NULL *)
Lemma args_of_good h s e : reach h s -> ev_good (P_set s) e ->
  (ev_ud e =? h_ud h) && (ev_cb e =? h_cb h (ev_field e)) && negb (ev_cb e =? 0) = true.
Proof.
  intros Hr [H1 [H2 [H3 _]]]. destruct (reach_cb_ud h s Hr) as [Hc Hu].
  rewrite H1, H2, Hu, Hc, !Z.eqb_refl. cbn [andb]. rewrite H2 in H3. rewrite <- Hc.
  destruct (cb s (ev_field e) =? 0) eqn:E; [apply Z.eqb_eq in E; contradiction|reflexivity].
Qed.

Lemma h_cb_parse o h f : op_group o <> None \/ (exists s, o = OParseString s) -> h_cb (o :: h) f = h_cb h f.
Proof. intros [H|[s' E]]; [|subst o; reflexivity]. destruct o; try reflexivity; cbn in H; congruence. Qed.
Lemma h_ud_parse o h : op_group o <> None \/ (exists s, o = OParseString s) -> h_ud (o :: h) = h_ud h.
Proof. intros [H|[s' E]]; [|subst o; reflexivity]. destruct o; try reflexivity; cbn in H; congruence. Qed.

Lemma process_args h s g : reach h s -> wf_group g ->
  forallb (fun e => (ev_ud e =? h_ud h) && (ev_cb e =? h_cb h (ev_field e)) && negb (ev_cb e =? 0))
          (snd (process conv lut g s)) = true.
Proof.
  intros Hr Hwf. apply forallb_forall. intros e Hin.
  destruct (get_group (gb g) =? 4) eqn:G4.
  - destruct (process_events4 g s G4) as [E Hgood]. rewrite E in Hin. apply in_app_or in Hin.
    destruct Hin as [Hin|Hin].
    + rewrite Forall_forall in Hgood. apply (args_of_good h s e Hr (Hgood e Hin)).
    + rewrite group4_events in Hin.
      pose proof (keeps_group_parse g s) as K. unfold P_set in K. inversion K as [[K1 K2 K3 K4 K5]].
      destruct (reach_cb_ud h s Hr) as [Hc Hu].
      destruct (_ && negb (cb _ FCT =? 0)) eqn:C; [|contradiction].
      destruct (ct_init _ _ _ _); [|contradiction]. destruct Hin as [<-|[]]. cbn [ev_ud ev_cb ev_field].
      rewrite K4, K5, Hu, Hc, !Z.eqb_refl. cbn [andb].
      apply andb_true_iff in C. destruct C as [_ C]. rewrite K5, Hc in C. exact C.
  - pose proof (process_events g s G4) as Hgood. rewrite Forall_forall in Hgood.
    apply (args_of_good h s e Hr (Hgood e Hin)).
Qed.

Lemma forallb_ext {A} (p q : A -> bool) l : (forall x, p x = q x) -> forallb p l = forallb q l.
Proof. intros H. induction l as [|x r IH]; simpl; [reflexivity|]. rewrite H, IH. reflexivity. Qed.

Theorem C15_observer_holds h s o : reach h s -> wf_op o ->
  obs_C15 (o :: h) (snap_of s) (snap_of (fst (step s o))) (snd (step s o)) (ret_of o) = true.
Proof.
  intros Hr Hwf. unfold obs_C15. apply andb_true_iff. split.
  - destruct o as [| |g|str|v|t k e|t v|u|fd id]; cbn [step snd]; try reflexivity.
    + rewrite <- (process_args h s g Hr Hwf). apply forallb_ext. intros e.
      rewrite (h_ud_parse (OParse g) h) by (left; discriminate).
      rewrite (h_cb_parse (OParse g) h) by (left; discriminate). reflexivity.
    + destruct str as [l|]; [|reflexivity]. destruct (utils_convert l) as [g|] eqn:E; [|reflexivity].
      rewrite <- (process_args h s g Hr (utils_convert_wf l g E)). apply forallb_ext. intros e.
      rewrite (h_ud_parse (OParseString (Some l)) h) by (right; eexists; reflexivity).
      rewrite (h_cb_parse (OParseString (Some l)) h) by (right; eexists; reflexivity). reflexivity.
  - destruct o as [| |g|str|v|t k e|t v|u|fd id]; try reflexivity; cbn [step fst snd].
    + rewrite andb_true_r. unfold snapshot_eqb. rewrite data_eqb_same_data by reflexivity.
      cbn [snap_of sn_cfg]. apply list_eqb_Z_refl.
    + rewrite andb_true_r. unfold snapshot_eqb. rewrite data_eqb_same_data by reflexivity.
      cbn [snap_of sn_cfg]. apply list_eqb_Z_refl.
Qed.

(* C12 *)
Lemma is_4A_spec g : wf_group g ->
  ((get_group (gb g) =? 4) && (get_flag (gb g) =? 0)) = ((b_group (gb g) =? 4) && (b_ver (gb g) =? 0)).
Proof. intros [_ [Hb _]]. rewrite (get_group_spec _ Hb), (get_flag_spec _ Hb). reflexivity. Qed.

Lemma process_ct h s g : reach h s -> wf_group g ->
  let cts := filter is_ct_event (snd (process conv lut g s)) in
  if ct_due g && negb (h_cb h FCT =? 0)
  then match cts with [e] => ct_report_ok g e = true | _ => False end
  else cts = [].
Proof.
  intros Hr Hwf. cbv zeta. destruct (reach_cb_ud h s Hr) as [Hc Hu].
  destruct (get_group (gb g) =? 4) eqn:G4.
  - destruct (process_events4 g s G4) as [E Hgood]. rewrite E, filter_app.
    rewrite (filter_none is_ct_event (snd (group_parse g s))).
    2:{ eapply Forall_impl; [|exact Hgood]. intros e He. eapply good_not_ct; exact He. }
    cbn [app]. rewrite group4_events.
    pose proof (keeps_group_parse g s) as K. unfold P_set in K. inversion K as [[K1 K2 K3 K4 K5]].
    rewrite K5, Hc.
    pose proof (is_4A_spec g Hwf) as H4. rewrite G4 in H4. cbn [andb] in H4.
    unfold ct_due.
    destruct (get_flag (gb g) =? 0) eqn:F; rewrite <- H4; cbn [andb].
    2:{ reflexivity. }
    destruct (eb g =? 0), (ec g =? 0), (ed g =? 0); cbn [andb]; try reflexivity.
    destruct (negb (h_cb h FCT =? 0)) eqn:C; [|rewrite andb_false_r; reflexivity].
    rewrite andb_true_r.
    destruct (ct_hour g <? 24) eqn:Hh; destruct (ct_minute g <? 60) eqn:Hm; cbn [andb].
    + destruct (ct_init_correct g Hwf ltac:(lia) ltac:(lia)) as [a [Ea Hok]]. rewrite Ea.
      cbn [filter is_ct_event ev_field field_eqb field_idx Z.eqb]. apply Hok.
    + rewrite (ct_init_rejects g Hwf ltac:(lia)). reflexivity.
    + rewrite (ct_init_rejects g Hwf ltac:(lia)). reflexivity.
    + rewrite (ct_init_rejects g Hwf ltac:(lia)). reflexivity.
  - pose proof (process_events g s G4) as Hgood.
    rewrite (filter_none is_ct_event).
    2:{ eapply Forall_impl; [|exact Hgood]. intros e He. eapply good_not_ct; exact He. }
    unfold ct_due. destruct Hwf as [_ [Hb _]]. rewrite <- (get_group_spec _ Hb), G4. reflexivity.
Qed.

Theorem C12_observer_holds h s o : reach h s -> wf_op o ->
  obs_C12 (o :: h) (snap_of s) (snap_of (fst (step s o))) (snd (step s o)) (ret_of o) = true.
Proof.
  intros Hr Hwf. unfold obs_C12.
  destruct o as [| |g|str|v|t k e|t v|u|fd id]; cbn [cur_group op_group step snd filter]; try reflexivity.
  - pose proof (process_ct h s g Hr Hwf) as H. cbv zeta in H.
    rewrite (h_cb_parse (OParse g) h FCT) by (left; discriminate).
    destruct (ct_due g && negb (h_cb h FCT =? 0)).
    + destruct (filter is_ct_event (snd (process conv lut g s))) as [|e [|e2 r]]; try contradiction. exact H.
    + rewrite H. reflexivity.
  - destruct str as [l|]; [|reflexivity]. destruct (utils_convert l) as [g|] eqn:E; [|reflexivity].
    pose proof (process_ct h s g Hr (utils_convert_wf l g E)) as H. cbv zeta in H.
    rewrite (h_cb_parse (OParseString (Some l)) h FCT) by (right; eexists; reflexivity).
    destruct (ct_due g && negb (h_cb h FCT =? 0)).
    + destruct (filter is_ct_event (snd (process conv lut g s))) as [|e [|e2 r]]; try contradiction. exact H.
    + rewrite H. reflexivity.
Qed.

End Callbacks.
