(* Base.v — small general-purpose definitions shared by the model and the proofs.
   Definitions only; lemmas about them live in BaseLemmas.v. *)
From Coq Require Export ZArith List Bool Lia.
Export ListNotations.
Local Open Scope Z_scope.

(* functional update of a list cell; out-of-range indices leave the list unchanged
   (every caller checks the index first and raises the model's fault flag) *)
Fixpoint upd {A : Type} (i : nat) (x : A) (l : list A) : list A :=
  match l, i with
  | [], _ => []
  | _ :: t, O => x :: t
  | h :: t, S i' => h :: upd i' x t
  end.

(* C integer conversions that the sources perform implicitly *)
Definition to_u8  (x : Z) : Z := x mod 256.
Definition to_u16 (x : Z) : Z := x mod 65536.
Definition to_u32 (x : Z) : Z := x mod 4294967296.
Definition to_s32 (x : Z) : Z :=           (* (int32_t) of a uint32_t value *)
  if x <? 2147483648 then x else x - 4294967296.
Definition to_s8 (x : Z) : Z :=            (* (int8_t) of an int value *)
  let y := x mod 256 in if y <? 128 then y else y - 256.

(* finite total maps over small enumerations, as functions *)
Definition fupd {K V : Type} (eqb : K -> K -> bool) (f : K -> V) (k : K) (v : V) : K -> V :=
  fun k' => if eqb k k' then v else f k'.

(* bounded universal quantification over [lo, lo+n) with a Z counter and nat fuel
   (a nat counter converted with Z.of_nat would make kernel sweeps quadratic) *)
Fixpoint all_from (n : nat) (lo : Z) (p : Z -> bool) : bool :=
  match n with
  | O => true
  | S n' => p lo && all_from n' (lo + 1) p
  end.

Definition is_some {A} (o : option A) : bool := match o with Some _ => true | None => false end.
