(* Properties_Mid_C17.v — C17 at the level of the code: the three setters of the settings
   (src/rdsparser.c), translated on every run, write exactly the model's new setting —
   rdsparser_set_text_correction the clamped level (min(error, 2)) into the one cell correction[text][type],
   rdsparser_set_text_progressive the flag of that text, rdsparser_set_extended_check the check mode — and
   mention no other member of the parser (GenMid.v: "writes: correction" / "progressive" /
   "buffer__extended_check"). *)
Require Import Lemmas_Mid_Set.
Local Open Scope Z_scope.

Theorem C17_code_set_correction : forall t k e s, 0 <= e < 256 ->
  m_set_text_correction (corr_tab s) (text_index t) (type_index k) e = (0, corr_tab (set_corr t k e s)).
Proof. exact mid_set_text_correction. Qed.
Print Assumptions C17_code_set_correction.

Theorem C17_code_set_progressive : forall t (v : bool) s,
  m_set_text_progressive (prog_tab s) (text_index t) (b2z v)
  = (0, prog_tab (with_prog (fupd text_id_eqb (prog s) t v) s)).
Proof. exact mid_set_text_progressive. Qed.
Print Assumptions C17_code_set_progressive.

Theorem C17_code_set_extended_check : forall (v : bool) s,
  m_set_extended_check (b2z (ext s)) (b2z v) = (0, b2z (ext (with_ext v s))).
Proof. exact mid_set_extended_check. Qed.
Print Assumptions C17_code_set_extended_check.
