(* Lemmas_Mid_Process.v — rdsparser_parser_process (src/parser.c): the common part of every group,
   then the switch over the group type to the five handlers; translated on every run (GenMid.v),
   against the model's process = group_parse ;; dispatch. *)
Require Export Lemmas_Mid_G1 Lemmas_Mid_G2 Lemmas_Mid_G4 Lemmas_Mid_Conv Lemmas_Events.
Require Import ZifyBool.
Local Open Scope Z_scope.

(* everything the translated function reads / writes, as a function of the model's state *)
Definition buf_view (d : bufdata) : list Z * (Z * Z * Z * Z * Z * Z * Z) :=
  (d_af d, (getf SCountry d, getf SEcc d, getf SMs d, getf SPi d, getf SPty d, getf STa d, getf STp d)).
Definition txt_view (s : state) :=
  (last_rt s, ps s, ptyn s, rt0 s, rt1 s).
Definition set_view (s : state) := (ext s, cb s, ud s, corr s, prog s).

Section Frames.
Variable conv : Z -> Z.
Variable lut : Z -> Z -> Z.

Lemma gp_frame g s :
  let s1 := fst (group_parse g s) in
  set_view s1 = set_view s /\ txt_view s1 = txt_view s
  /\ d_af (temp s1) = d_af (temp s) /\ d_af (used s1) = d_af (used s)
  /\ (forall f, f <> SPi -> f <> SPty -> f <> STp -> getf f (temp s1) = getf f (temp s) /\ getf f (used s1) = getf f (used s)).
Proof.
  unfold group_parse, set_view, txt_view.
  destruct (ea g =? 0); destruct (eb g =? 0); rewrite ?when_true, ?when_false, ?andthen_fst; cbn [skip fst];
    frames;
    (split; [reflexivity|]); (split; [reflexivity|]); (split; [reflexivity|]); (split; [reflexivity|]);
    intros f N1 N2 N3; rewrite ?fr_set_temp, ?fr_set_used by assumption; split; reflexivity.
Qed.

Definition rest0 (s : state) :=
  (getf SPi (temp s), getf SPty (temp s), getf STp (temp s), getf SCountry (temp s), getf SEcc (temp s),
   getf SPi (used s), getf SPty (used s), getf STp (used s), getf SCountry (used s), getf SEcc (used s),
   last_rt s, ptyn s, rt0 s, rt1 s).
Lemma group0_rest g fl : keeps rest0 (group0_parse conv g fl).
Proof. keeps_tac. Qed.

Definition rest1 (s : state) :=
  (d_af (temp s), d_af (used s),
   getf SMs (temp s), getf SPi (temp s), getf SPty (temp s), getf STa (temp s), getf STp (temp s),
   getf SMs (used s), getf SPi (used s), getf SPty (used s), getf STa (used s), getf STp (used s), txt_view s).
Lemma group1_rest g fl : keeps rest1 (group1_parse lut g fl).
Proof. keeps_tac. Qed.

Definition rest2 (s : state) := (used s, temp s, ps s, ptyn s).
Lemma group2_rest g fl : keeps rest2 (group2_parse conv g fl).
Proof. keeps_leaf. Qed.

Definition rest10 (s : state) := (used s, temp s, last_rt s, ps s, rt0 s, rt1 s).
Lemma group10_rest g fl : keeps rest10 (group10_parse conv g fl).
Proof. keeps_leaf. Qed.
End Frames.

Definition Pre (s : state) : Prop :=
  length (ps s) = 8%nat /\ length (rt0 s) = 64%nat /\ length (rt1 s) = 64%nat /\ length (ptyn s) = 8%nat
  /\ bytes (d_af (used s)) /\ bytes (d_af (temp s)) /\ -1 <= d_pi (used s) < 65536.

(* the members rdsparser_parser_process writes, in the order of the translated function's result *)
Definition out_view (s : state) (evs : list (list Z)) :=
  (0, d_af (temp s), getf SCountry (temp s), getf SEcc (temp s), getf SMs (temp s), getf SPi (temp s),
   getf SPty (temp s), getf STa (temp s), getf STp (temp s),
   d_af (used s), getf SCountry (used s), getf SEcc (used s), getf SMs (used s), getf SPi (used s),
   getf SPty (used s), getf STa (used s), getf STp (used s),
   evs, last_rt s, contents (ps s), levels (ps s), contents (ptyn s), levels (ptyn s),
   contents (rt0 s), levels (rt0 s), contents (rt1 s), levels (rt1 s)).

Lemma ev_view_good c e : ev_good c e -> ev_view (ev_call e) = ev_call e.
Proof.
  destruct c as [[[[x p] co] u] cbs]. intros [_ [_ [_ Hf]]]. unfold ev_call.
  destruct (ev_field e); try contradiction; destruct (ev_arg e); reflexivity.
Qed.
Lemma ev_view_goods c l : Forall (ev_good c) l -> map ev_view (map ev_call l) = map ev_call l.
Proof.
  induction 1 as [|e r He Hr IH]; [reflexivity|]. cbn [map]. rewrite (ev_view_good c e He), IH. reflexivity.
Qed.

Ltac tuple_eq := cbn [getf] in *; repeat (apply (f_equal2 (@pair _ _))); congruence.

Theorem mid_parser_process : forall g s evs, wf_group g -> Pre s ->
  exists new,
    m_parser_process
      (d_af (temp s)) (getf SCountry (temp s)) (getf SEcc (temp s)) (getf SMs (temp s)) (getf SPi (temp s))
      (getf SPty (temp s)) (getf STa (temp s)) (getf STp (temp s))
      (d_af (used s)) (getf SCountry (used s)) (getf SEcc (used s)) (getf SMs (used s)) (getf SPi (used s))
      (getf SPty (used s)) (getf STa (used s)) (getf STp (used s))
      (b2z (ext s)) (cb s FAF) (cb s FCOUNTRY) (cb s FCT) (cb s FECC) (cb s FMS) (cb s FPI) (cb s FPS) (cb s FPTY)
      (cb s FPTYN) (cb s FRT) (cb s FTA) (cb s FTP) (corr_tab s) evs (last_rt s) (prog_tab s)
      (contents (ps s)) (levels (ps s)) (contents (ptyn s)) (levels (ptyn s))
      (contents (rt0 s)) (levels (rt0 s)) 64 (contents (rt1 s)) (levels (rt1 s)) 64 (ud s)
      (ga g) (gb g) (gc g) (gd g) (ea g) (eb g) (ec g) (ed g)
    = out_view (fst (process conv_u lut_g g s)) (evs ++ new)
    /\ map ev_view new = map ev_call (snd (process conv_u lut_g g s)).
Proof.
  intros g s evs W [Lps [L0 [L1 [Lpt [Bu [Bt Rpi]]]]]]. pose proof W as W0.
  destruct W as [Wa [Wb _]]. unfold blk_ok in *.
  pose proof (gp_frame g s) as GF. cbv zeta in GF.
  set (s1 := fst (group_parse g s)) in *.
  destruct GF as [GS [GT [Gat [Gau Gf]]]].
  unfold set_view in GS. unfold txt_view in GT.
  assert (S5 : ext s1 = ext s) by congruence. assert (S4 : cb s1 = cb s) by congruence.
  assert (S3 : ud s1 = ud s) by congruence. assert (S2 : corr s1 = corr s) by congruence.
  assert (S1 : prog s1 = prog s) by congruence.
  assert (T5 : last_rt s1 = last_rt s) by congruence. assert (T4 : ps s1 = ps s) by congruence.
  assert (T3 : ptyn s1 = ptyn s) by congruence. assert (T2 : rt0 s1 = rt0 s) by congruence.
  assert (T1 : rt1 s1 = rt1 s) by congruence.
  destruct (Gf SCountry ltac:(discriminate) ltac:(discriminate) ltac:(discriminate)) as [Q1 Q2].
  destruct (Gf SEcc ltac:(discriminate) ltac:(discriminate) ltac:(discriminate)) as [Q3 Q4].
  destruct (Gf SMs ltac:(discriminate) ltac:(discriminate) ltac:(discriminate)) as [Q5 Q6].
  destruct (Gf STa ltac:(discriminate) ltac:(discriminate) ltac:(discriminate)) as [Q7 Q8].
  set (evs1 := evs ++ map ev_call (snd (group_parse g s))).
  set (fl := get_flag (gb g)).
  (* the five handlers at s1, with their arguments named as the C code names them *)
  pose proof (mid_group0_parse conv_u mid_convert_u g fl s1 evs1 W0 ltac:(rewrite T4; exact Lps)
                ltac:(rewrite Gau; exact Bu) ltac:(rewrite Gat; exact Bt)) as H0. cbv zeta in H0.
  rewrite Gat, Gau, Q5, Q6, Q7, Q8, S5, S4, S3, T4 in H0.
  rewrite (corr_tab_ext s s1 S2), (prog_tab_ext s s1 S1) in H0.
  assert (Rpi1 : -1 <= d_pi (used s1) < 65536).
  { unfold s1, group_parse. destruct (ea g =? 0); destruct (eb g =? 0); rewrite ?when_true, ?when_false, ?andthen_fst; cbn [skip fst];
      rewrite ?fr_set_pi_other by discriminate; try exact Rpi;
      unfold set_scalar, buffer_update; destruct ((getf SPi (used s) =? ga g) || _); cbn; lia. }
  pose proof (mid_group1_parse g fl s1 evs1 W0 Rpi1) as H1. cbv zeta in H1.
  rewrite Q1, Q2, Q3, Q4, S5, S4, S3 in H1.
  pose proof (mid_group2_parse conv_u mid_convert_u g fl s1 evs1 W0 ltac:(rewrite T2; exact L0) ltac:(rewrite T1; exact L1)) as H2.
  cbv zeta in H2. rewrite S4, S3, T5, T2, T1 in H2. rewrite (corr_tab_ext s s1 S2), (prog_tab_ext s s1 S1) in H2.
  destruct (mid_group4_parse g fl s1 evs1 W0) as [new4 [H4 [V4 K4]]]. rewrite S4, S3 in H4.
  pose proof (mid_group10_parse conv_u mid_convert_u g fl s1 evs1 W0 ltac:(rewrite T3; exact Lpt)) as H10. cbv zeta in H10.
  rewrite S4, S3, T3 in H10. rewrite (corr_tab_ext s s1 S2), (prog_tab_ext s s1 S1) in H10.
  (* the C function *)
  unfold m_parser_process. cbv zeta.
  rewrite (mid_group_parse g s evs W0). cbv zeta. fold s1. fold evs1.
  rewrite (leaf_get_flag _ _ _ _ Wb), (leaf_get_group _ _ _ _ Wb). fold fl.
  change (getf SPi (used s1)) with (d_pi (used s1)) in *.
  rewrite H0, H1, H2, H4, H10.
  (* the model *)
  unfold process. rewrite andthen_fst, andthen_snd. fold s1.
  unfold dispatch. cbv zeta. fold fl.
  pose proof (group_parse_good (P_set s) g s eq_refl) as Ggp.
  pose proof (dispatch_good conv_u lut_g (P_set s1) g) as Gd. unfold dispatch in Gd. cbv zeta in Gd. fold fl in Gd.
  pose proof (group0_rest conv_u g fl s1) as R0. unfold rest0 in R0.
  pose proof (group1_rest lut_g g fl s1) as R1. unfold rest1, txt_view in R1.
  pose proof (group2_rest conv_u g fl s1) as R2. unfold rest2 in R2.
  pose proof (group10_rest conv_u g fl s1) as R10. unfold rest10 in R10.
  assert (GPV : map ev_view (map ev_call (snd (group_parse g s))) = map ev_call (snd (group_parse g s)))
    by (exact (ev_view_goods _ _ Ggp)).
  unfold out_view.
  destruct (get_group (gb g) =? 0) eqn:G0.
  { exists (map ev_call (snd (group_parse g s)) ++ map ev_call (snd (group0_parse conv_u g fl s1))).
    assert (G4 : (get_group (gb g) =? 4) = false) by lia.
    split.
    - unfold evs1. rewrite <- app_assoc. tuple_eq.
    - rewrite !map_app, GPV. f_equal. apply (ev_view_goods (P_set s1)). exact (Gd G4 s1 eq_refl). }
  destruct (get_group (gb g) =? 1) eqn:G1.
  { exists (map ev_call (snd (group_parse g s)) ++ map ev_call (snd (group1_parse lut_g g fl s1))).
    assert (G4 : (get_group (gb g) =? 4) = false) by lia.
    split.
    - unfold evs1. rewrite <- app_assoc. tuple_eq.
    - rewrite !map_app, GPV. f_equal. apply (ev_view_goods (P_set s1)). exact (Gd G4 s1 eq_refl). }
  destruct (get_group (gb g) =? 2) eqn:G2.
  { exists (map ev_call (snd (group_parse g s)) ++ map ev_call (snd (group2_parse conv_u g fl s1))).
    assert (G4 : (get_group (gb g) =? 4) = false) by lia.
    split.
    - unfold evs1. rewrite <- app_assoc. tuple_eq.
    - rewrite !map_app, GPV. f_equal. apply (ev_view_goods (P_set s1)). exact (Gd G4 s1 eq_refl). }
  destruct (get_group (gb g) =? 4) eqn:G4.
  { exists (map ev_call (snd (group_parse g s)) ++ new4).
    split.
    - unfold evs1. rewrite <- app_assoc, K4. tuple_eq.
    - rewrite !map_app, GPV, V4. reflexivity. }
  destruct (get_group (gb g) =? 10) eqn:G10.
  { exists (map ev_call (snd (group_parse g s)) ++ map ev_call (snd (group10_parse conv_u g fl s1))).
    split.
    - unfold evs1. rewrite <- app_assoc. tuple_eq.
    - rewrite !map_app, GPV. f_equal. apply (ev_view_goods (P_set s1)). exact (Gd eq_refl s1 eq_refl). }
  exists (map ev_call (snd (group_parse g s))).
  split.
  - unfold evs1. cbn [skip fst]. tuple_eq.
  - cbn [skip snd]. rewrite app_nil_r. exact GPV.
Qed.
