(* Lemmas_Core.v — C15: decoding does not depend on the observers.  Replacing the callback
   registrations and the user data of a state commutes with every API call. *)
Require Export Lemmas_Callbacks.
Local Open Scope Z_scope.

Definition with_obs (c : field -> Z) (u : Z) (s : state) : state := with_cb c (with_ud u s).

Section Core.
Variable conv : Z -> Z.
Variable lut : Z -> Z -> Z.

Definition commutes (a : act) : Prop :=
  forall s c u, fst (a (with_obs c u s)) = with_obs c u (fst (a s)).

Lemma commutes_skip : commutes skip.
Proof. intros s c u. reflexivity. Qed.
Lemma commutes_andthen a b : commutes a -> commutes b -> commutes (andthen a b).
Proof. intros Ha Hb s c u. rewrite !andthen_fst, Ha, Hb. reflexivity. Qed.
Lemma commutes_when cond a : commutes a -> commutes (when cond a).
Proof. intros Ha. destruct cond; [exact Ha|apply commutes_skip]. Qed.

Ltac commutes_leaf :=
  unfold commutes, with_obs; intros ?s ?c ?u; leaf_unfold;
  cbn [used temp ext ps rt0 rt1 ptyn prog corr ud cb last_rt fault with_cb with_ud get_text];
  repeat break_match; repeat break_hyp; inv_pairs; try discriminate; try reflexivity.

Lemma commutes_set_scalar f v : commutes (set_scalar f v).
Proof. commutes_leaf. Qed.
Lemma commutes_add_af v : commutes (add_af v).
Proof. commutes_leaf. Qed.

Lemma upd_string_commutes sl w ei ed pos s c u :
  upd_string conv sl w ei ed pos (with_obs c u s)
  = (with_obs c u (fst (upd_string conv sl w ei ed pos s)), snd (upd_string conv sl w ei ed pos s)).
Proof.
  unfold upd_string, with_obs.
  cbn [used temp ext ps rt0 rt1 ptyn prog corr ud cb last_rt fault with_cb with_ud].
  replace (get_text sl (with_cb c (with_ud u s))) with (get_text sl s) by (destruct sl; reflexivity).
  destruct (_ && _); [|reflexivity].
  destruct (string_update _ _ _ _ _ _ _ _) as [[t' chg]|]; [|reflexivity].
  destruct sl; reflexivity.
Qed.

Lemma commutes_ps_update g : commutes
  (fun s => let (s', chg) := upd_string conv TPS (gd g) (eb g) (ed g) (Z.to_nat (2 * get_ps_pos (gb g))) s in
            (s', text_event FPS ANone TPS chg s')).
Proof.
  intros s c u. rewrite upd_string_commutes.
  destruct (upd_string conv TPS (gd g) (eb g) (ed g) _ s) as [s' chg]. reflexivity.
Qed.

Lemma commutes_country g : commutes
  (fun s => set_scalar SCountry (ecc_lookup lut (d_pi (used s)) (get_ecc (gc g))) s).
Proof. intros s c u. apply (commutes_set_scalar SCountry (ecc_lookup lut (d_pi (used s)) (get_ecc (gc g))) s c u). Qed.

Lemma commutes_group2 g fl : commutes (group2_parse conv g fl).
Proof.
  intros s c u. unfold group2_parse.
  set (rf := get_rt_flag (gb g)). set (sl := if rf =? 0 then TRT0 else TRT1).
  replace (last_rt (with_obs c u s)) with (last_rt s) by reflexivity.
  replace (get_text sl (with_obs c u s)) with (get_text sl s) by (destruct sl; reflexivity).
  set (st1 := if (eb g =? 0) && negb (rf =? last_rt s) then _ else (s, false)).
  set (st1' := if (eb g =? 0) && negb (rf =? last_rt s) then _ else (with_obs c u s, false)).
  assert (E1 : st1' = (with_obs c u (fst st1), snd st1)).
  { unfold st1, st1'. destruct (_ && negb _); [|reflexivity].
    destruct (_ && string_available _); destruct sl; reflexivity. }
  rewrite E1. destruct st1 as [s1 chg0]. cbn [fst snd].
  replace (last_rt (with_obs c u s1)) with (last_rt s1) by reflexivity.
  destruct (_ && _ && _); [reflexivity|].
  destruct (fl =? 0).
  - rewrite upd_string_commutes.
    destruct (upd_string conv sl (gc g) (eb g) (ec g) _ s1) as [s2 c1]. cbn [fst snd].
    rewrite upd_string_commutes.
    destruct (upd_string conv sl (gd g) (eb g) (ed g) _ s2) as [s3 c2]. reflexivity.
  - rewrite upd_string_commutes.
    destruct (upd_string conv sl (gd g) (eb g) (ed g) _ s1) as [s3 c2]. reflexivity.
Qed.

Lemma commutes_group10 g fl : commutes (group10_parse conv g fl).
Proof.
  intros s c u. unfold group10_parse. destruct (fl =? 0); [|reflexivity].
  rewrite upd_string_commutes.
  destruct (upd_string conv TPTYN (gc g) (eb g) (ec g) _ s) as [s2 c1]. cbn [fst snd].
  rewrite upd_string_commutes.
  destruct (upd_string conv TPTYN (gd g) (eb g) (ed g) _ s2) as [s3 c2]. reflexivity.
Qed.

Lemma commutes_process g : commutes (process conv lut g).
Proof.
  unfold process, group_parse, dispatch. cbv zeta.
  apply commutes_andthen.
  - apply commutes_andthen; [apply commutes_when, commutes_set_scalar|].
    apply commutes_when, commutes_andthen; apply commutes_set_scalar.
  - destruct (get_group (gb g) =? 0).
    { unfold group0_parse, group0a_parse.
      apply commutes_andthen; [apply commutes_andthen|].
      - apply commutes_when, commutes_andthen; apply commutes_set_scalar.
      - apply commutes_ps_update.
      - apply commutes_when, commutes_when, commutes_when, commutes_andthen; apply commutes_add_af. }
    destruct (get_group (gb g) =? 1).
    { unfold group1_parse. apply commutes_when, commutes_andthen; [apply commutes_set_scalar|apply commutes_country]. }
    destruct (get_group (gb g) =? 2); [apply commutes_group2|].
    destruct (get_group (gb g) =? 4).
    { intros s c u. rewrite !group4_keeps_all. reflexivity. }
    destruct (get_group (gb g) =? 10); [apply commutes_group10|apply commutes_skip].
Qed.

(* every API call except the two that set the observers commutes with replacing the observers *)
Theorem step_commutes s o c u :
  (forall f id, o <> ORegister f id) -> (forall x, o <> OSetUD x) -> o <> OInit ->
  fst (step conv lut (with_obs c u s) o) = with_obs c u (fst (step conv lut s o)).
Proof.
  intros H1 H2 H3. destruct o as [| |g|str|v|t k e|t v|x|fd id]; cbn [step fst]; try reflexivity.
  - contradiction.
  - apply commutes_process.
  - destruct str as [l|]; [|reflexivity]. destruct (utils_convert l) as [g|]; [|reflexivity].
    apply commutes_process.
  - exfalso. apply (H2 x). reflexivity.
  - exfalso. apply (H1 fd id). reflexivity.
Qed.

(* the getter-visible state ignores the observers altogether *)
Lemma snap_with_obs c u s : snap_of (with_obs c u s) = snap_of s.
Proof. reflexivity. Qed.

(* Two runs of the same data calls with ARBITRARY registration / user-data calls interleaved
   differently show the same getter results after every call: `strip` removes the observer
   calls; a run equals the run of its stripped call sequence up to the observers. *)
Definition is_observer_call (o : op) : bool :=
  match o with ORegister _ _ | OSetUD _ => true | _ => false end.
Definition strip (ops : list op) : list op := filter (fun o => negb (is_observer_call o)) ops.

Theorem run_ignores_observers ops : forall s s', snap_of s = snap_of s' ->
  (exists c u, s = with_obs c u s') ->
  (forall o, In o ops -> o <> OInit) ->
  snap_of (run_from conv lut s ops) = snap_of (run_from conv lut s' (strip ops)).
Proof.
  induction ops as [|o r IH]; intros s s' Hs [c [u Hc]] Hni; cbn [run_from strip filter].
  - exact Hs.
  - assert (Hr : forall o', In o' r -> o' <> OInit) by (intros o' Hin; apply Hni; right; exact Hin).
    assert (Ho : o <> OInit) by (apply Hni; left; reflexivity).
    destruct (is_observer_call o) eqn:Eo; cbn [negb].
    + (* an observer call only changes the observers *)
      apply IH; [| |exact Hr].
      * destruct o; try discriminate; cbn [step fst]; rewrite <- Hs; reflexivity.
      * destruct o; try discriminate; cbn [step fst]; subst s.
        -- exists c, u0. reflexivity.
        -- exists (fupd field_eqb c f id), u. reflexivity.
    + cbn [run_from]. subst s.
      rewrite step_commutes; [|intros f id E; subst o; discriminate|intros x E; subst o; discriminate|exact Ho].
      apply IH; [apply snap_with_obs|eexists _, _; reflexivity|exact Hr].
Qed.

End Core.
