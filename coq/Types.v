(* Types.v — data of the model: one Gallina value per C object of struct librdsparser,
   the operations of the public API, and the observable events (callback invocations).
   Definitions only. *)
Require Export Base.
Local Open Scope Z_scope.

Inductive text_id := PS | RT | PTYN.
Inductive blk_type := INFO | DATA.
Inductive field := FPI | FPTY | FTP | FTA | FMS | FECC | FCOUNTRY | FAF | FPS | FRT | FPTYN | FCT.
Inductive sfield := SPi | SPty | STp | STa | SMs | SEcc | SCountry.   (* the seven buffered scalars *)
Inductive tslot := TPS | TRT0 | TRT1 | TPTYN.                          (* the four text buffers *)

Definition text_id_eqb (a b : text_id) : bool :=
  match a, b with PS, PS | RT, RT | PTYN, PTYN => true | _, _ => false end.
Definition blk_type_eqb (a b : blk_type) : bool :=
  match a, b with INFO, INFO | DATA, DATA => true | _, _ => false end.
Definition field_idx (f : field) : Z :=
  match f with FPI => 0 | FPTY => 1 | FTP => 2 | FTA => 3 | FMS => 4 | FECC => 5 | FCOUNTRY => 6
             | FAF => 7 | FPS => 8 | FRT => 9 | FPTYN => 10 | FCT => 11 end.
Definition field_eqb (a b : field) : bool := field_idx a =? field_idx b.

Definition field_of (f : sfield) : field :=
  match f with SPi => FPI | SPty => FPTY | STp => FTP | STa => FTA | SMs => FMS
             | SEcc => FECC | SCountry => FCOUNTRY end.
Definition tid_of (sl : tslot) : text_id :=
  match sl with TPS => PS | TRT0 | TRT1 => RT | TPTYN => PTYN end.

(* one character cell: stored character, weighted error level (10 = never received), and a
   GHOST flag "a reception was accepted for this cell since the last reset" that exists only
   in the model (C16 relates it to the level) *)
Record cell := mkcell { ch : Z; lv : Z; rx : bool }.
Definition text := list cell.          (* the capacity is the length of the list *)

Record bufdata := mkbuf {
  d_pi : Z; d_pty : Z; d_tp : Z; d_ta : Z; d_ms : Z; d_ecc : Z; d_country : Z;
  d_af : list Z                       (* RDSPARSER_AF_BUFFER_SIZE bytes *)
}.

(* struct librdsparser.  There is deliberately nothing else. *)
Record state := mkstate {
  used : bufdata;                     (* buffer.data_used *)
  temp : bufdata;                     (* buffer.data_temp *)
  ext : bool;                         (* buffer.extended_check *)
  ps : text; rt0 : text; rt1 : text; ptyn : text;
  prog : text_id -> bool;             (* progressive[] *)
  corr : text_id -> blk_type -> Z;    (* correction[][] *)
  ud : Z;                             (* user_data, as an opaque token *)
  cb : field -> Z;                    (* callback_*: 0 = NULL, otherwise a token naming the function *)
  last_rt : Z;                        (* last_rt_flag *)
  fault : bool                        (* GHOST: set when an index leaves its array *)
}.

Definition with_used (v : bufdata) (s : state) : state :=
  mkstate v (temp s) (ext s) (ps s) (rt0 s) (rt1 s) (ptyn s) (prog s) (corr s) (ud s) (cb s) (last_rt s) (fault s).
Definition with_temp (v : bufdata) (s : state) : state :=
  mkstate (used s) v (ext s) (ps s) (rt0 s) (rt1 s) (ptyn s) (prog s) (corr s) (ud s) (cb s) (last_rt s) (fault s).
Definition with_ext (v : bool) (s : state) : state :=
  mkstate (used s) (temp s) v (ps s) (rt0 s) (rt1 s) (ptyn s) (prog s) (corr s) (ud s) (cb s) (last_rt s) (fault s).
Definition with_ps (v : text) (s : state) : state :=
  mkstate (used s) (temp s) (ext s) v (rt0 s) (rt1 s) (ptyn s) (prog s) (corr s) (ud s) (cb s) (last_rt s) (fault s).
Definition with_rt0 (v : text) (s : state) : state :=
  mkstate (used s) (temp s) (ext s) (ps s) v (rt1 s) (ptyn s) (prog s) (corr s) (ud s) (cb s) (last_rt s) (fault s).
Definition with_rt1 (v : text) (s : state) : state :=
  mkstate (used s) (temp s) (ext s) (ps s) (rt0 s) v (ptyn s) (prog s) (corr s) (ud s) (cb s) (last_rt s) (fault s).
Definition with_ptyn (v : text) (s : state) : state :=
  mkstate (used s) (temp s) (ext s) (ps s) (rt0 s) (rt1 s) v (prog s) (corr s) (ud s) (cb s) (last_rt s) (fault s).
Definition with_prog (v : text_id -> bool) (s : state) : state :=
  mkstate (used s) (temp s) (ext s) (ps s) (rt0 s) (rt1 s) (ptyn s) v (corr s) (ud s) (cb s) (last_rt s) (fault s).
Definition with_corr (v : text_id -> blk_type -> Z) (s : state) : state :=
  mkstate (used s) (temp s) (ext s) (ps s) (rt0 s) (rt1 s) (ptyn s) (prog s) v (ud s) (cb s) (last_rt s) (fault s).
Definition with_ud (v : Z) (s : state) : state :=
  mkstate (used s) (temp s) (ext s) (ps s) (rt0 s) (rt1 s) (ptyn s) (prog s) (corr s) v (cb s) (last_rt s) (fault s).
Definition with_cb (v : field -> Z) (s : state) : state :=
  mkstate (used s) (temp s) (ext s) (ps s) (rt0 s) (rt1 s) (ptyn s) (prog s) (corr s) (ud s) v (last_rt s) (fault s).
Definition with_last_rt (v : Z) (s : state) : state :=
  mkstate (used s) (temp s) (ext s) (ps s) (rt0 s) (rt1 s) (ptyn s) (prog s) (corr s) (ud s) (cb s) v (fault s).
Definition with_fault (v : bool) (s : state) : state :=
  mkstate (used s) (temp s) (ext s) (ps s) (rt0 s) (rt1 s) (ptyn s) (prog s) (corr s) (ud s) (cb s) (last_rt s) v.

Definition getf (f : sfield) (d : bufdata) : Z :=
  match f with
  | SPi => d_pi d | SPty => d_pty d | STp => d_tp d | STa => d_ta d
  | SMs => d_ms d | SEcc => d_ecc d | SCountry => d_country d
  end.
Definition setf (f : sfield) (v : Z) (d : bufdata) : bufdata :=
  match f with
  | SPi => mkbuf v (d_pty d) (d_tp d) (d_ta d) (d_ms d) (d_ecc d) (d_country d) (d_af d)
  | SPty => mkbuf (d_pi d) v (d_tp d) (d_ta d) (d_ms d) (d_ecc d) (d_country d) (d_af d)
  | STp => mkbuf (d_pi d) (d_pty d) v (d_ta d) (d_ms d) (d_ecc d) (d_country d) (d_af d)
  | STa => mkbuf (d_pi d) (d_pty d) (d_tp d) v (d_ms d) (d_ecc d) (d_country d) (d_af d)
  | SMs => mkbuf (d_pi d) (d_pty d) (d_tp d) (d_ta d) v (d_ecc d) (d_country d) (d_af d)
  | SEcc => mkbuf (d_pi d) (d_pty d) (d_tp d) (d_ta d) (d_ms d) v (d_country d) (d_af d)
  | SCountry => mkbuf (d_pi d) (d_pty d) (d_tp d) (d_ta d) (d_ms d) (d_ecc d) v (d_af d)
  end.
Definition set_af (a : list Z) (d : bufdata) : bufdata :=
  mkbuf (d_pi d) (d_pty d) (d_tp d) (d_ta d) (d_ms d) (d_ecc d) (d_country d) a.

Definition get_text (sl : tslot) (s : state) : text :=
  match sl with TPS => ps s | TRT0 => rt0 s | TRT1 => rt1 s | TPTYN => ptyn s end.
Definition set_text (sl : tslot) (t : text) (s : state) : state :=
  match sl with TPS => with_ps t s | TRT0 => with_rt0 t s | TRT1 => with_rt1 t s
              | TPTYN => with_ptyn t s end.

(* one RDS group as passed to rdsparser_parse: four 16-bit blocks, four 8-bit error codes *)
Record group := mkgroup { ga : Z; gb : Z; gc : Z; gd : Z; ea : Z; eb : Z; ec : Z; ed : Z }.

(* the public API, one constructor per entry point (the getters are functions of the state) *)
Inductive op :=
  | OInit                                       (* rdsparser_init / the init part of rdsparser_new *)
  | OClear                                      (* rdsparser_clear *)
  | OParse (g : group)                          (* rdsparser_parse *)
  | OParseString (str : option (list Z))        (* rdsparser_parse_string; None = NULL; bytes 1..255 *)
  | OSetExt (v : bool)
  | OSetCorr (t : text_id) (k : blk_type) (e : Z)
  | OSetProg (t : text_id) (v : bool)
  | OSetUD (u : Z)
  | ORegister (f : field) (id : Z).

(* a callback invocation: which field, which registered function, the user-data token passed,
   the extra argument, and the value of the field's own getter at the moment of the call *)
Inductive arg := ANone | AFreq (khz : Z) | AFlag (f : Z) | ACT (y m d h mi off : Z).
(* what the string getters show of one text buffer: get_length, get_available, the slot after
   the capacity (terminator), and the (character, level) pairs *)
Record tsnap := mktsnap { ts_len : Z; ts_avail : bool; ts_term : Z; ts_cells : list (Z * Z) }.
Inductive sample := SmNone | SmZ (v : Z) | SmAf (a : list Z) | SmText (t : tsnap).
Record event := mkev { ev_field : field; ev_cb : Z; ev_ud : Z; ev_arg : arg; ev_sample : sample }.
