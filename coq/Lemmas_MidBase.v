(* Lemmas_MidBase.v — shared by the bridges between the translated middle layer (GenMid.v,
   tools/cmid.py) and the model: case analysis on every atomic comparison that occurs, pruning the
   branches a decided comparison kills before looking for the next one.  No step of a bridge proof
   refers to the shape of the C function's `if` tree. *)
Require Export Lemmas_Base Model Obs GenLeaf GenMid.
Require Import ZifyBool.
Local Open Scope Z_scope.

Ltac prune := cbn [negb andb orb]; cbv iota.
(* a comparison of two closed terms is evaluated, not split *)
Ltac eval_closed c :=
  let v := eval vm_compute in c in
  lazymatch v with
  | true => change c with true
  | false => change c with false
  end.
(* an atom whose operands still contain a conditional is left for later: its inner comparisons
   are decided first, the conditional reduces, and the atom becomes closed or simple *)
Ltac simple_operands a b :=
  lazymatch a with context [if _ then _ else _] => fail | _ => idtac end;
  lazymatch b with context [if _ then _ else _] => fail | _ => idtac end.
Ltac decide_atoms :=
  prune;
  repeat match goal with
         | |- context [?a =? ?b] => simple_operands a b; first [eval_closed (a =? b) | destruct (a =? b) eqn:?]; prune
         | |- context [?a <? ?b] => simple_operands a b; destruct (a <? b) eqn:?; prune
         | |- context [?a <=? ?b] => simple_operands a b; destruct (a <=? b) eqn:?; prune
         | |- context [?a >=? ?b] => simple_operands a b; destruct (a >=? b) eqn:?; prune
         | |- context [?a >? ?b] => simple_operands a b; destruct (a >? b) eqn:?; prune
         end.
