(* Properties_Mid_C15.v — C15 at the level of the code: the twelve rdsparser_register_* functions
   and rdsparser_set_user_data (src/rdsparser.c), translated on every run, store their argument in
   their own member and mention no other member of the parser (GenMid.v: "reads: callback_pi /
   writes: callback_pi", ...): registering an observer or changing the user data cannot change
   anything that is decoded. *)
Require Import Lemmas_Mid_Reg.
Local Open Scope Z_scope.

Theorem C15_code_register : forall f id s,
  m_register f (cb s f) id = (0, cb (with_cb (fupd field_eqb (cb s) f id) s) f).
Proof. exact mid_register. Qed.
Print Assumptions C15_code_register.

Theorem C15_code_set_user_data : forall u s, m_set_user_data (ud s) u = (0, ud (with_ud u s)).
Proof. exact mid_set_user_data. Qed.
Print Assumptions C15_code_set_user_data.
