(* Lemmas_LeafBase.v — tools for the bridge between the translated C leaf functions (GenLeaf.v,
   generated on every run by tools/cleaf.py from clang's typed AST) and the functions of the model.
   The bridge lemmas live in one file per property (Lemmas_Leaf_Cxx.v) so that a change to one C
   function disturbs only the properties that talk about it. *)
Require Export Lemmas_Bits GenLeaf.
Require Import ZifyBool.
Local Open Scope Z_scope.

Lemma sweep16 (p : Z -> bool) : all_from (Z.to_nat 65536) 0 p = true -> forall x, 0 <= x < 65536 -> p x = true.
Proof. intros H x Hx. apply (all_from_spec _ _ _ H). rewrite Z2Nat.id; lia. Qed.
Lemma sweep8 (p : Z -> bool) : all_from (Z.to_nat 256) 0 p = true -> forall x, 0 <= x < 256 -> p x = true.
Proof. intros H x Hx. apply (all_from_spec _ _ _ H). rewrite Z2Nat.id; lia. Qed.

Lemma land_idem x m : Z.land (Z.land x m) m = Z.land x m.
Proof. rewrite <- Z.land_assoc, Z.land_diag. reflexivity. Qed.
Lemma land3_mod x : 0 <= x -> Z.land x 3 = x mod 4.
Proof. intros H. change 3 with (Z.ones 2). rewrite Z.land_ones by lia. reflexivity. Qed.
Lemma land1_mod x : 0 <= x -> Z.land x 1 = x mod 2.
Proof. intros H. change 1 with (Z.ones 1). rewrite Z.land_ones by lia. reflexivity. Qed.
Lemma land3_cases x : 0 <= x -> Z.land x 3 = 0 \/ Z.land x 3 = 1 \/ Z.land x 3 = 2 \/ Z.land x 3 = 3.
Proof. intros H. rewrite (land3_mod x H). pose proof (Z.mod_pos_bound x 4 ltac:(lia)). lia. Qed.
Lemma land1_cases x : 0 <= x -> Z.land x 1 = 0 \/ Z.land x 1 = 1.
Proof. intros H. rewrite (land1_mod x H). pose proof (Z.mod_pos_bound x 2 ltac:(lia)). lia. Qed.
