(* Lemmas_Reach.v — reachable states paired with their history (most recent call first), and
   reflexivity lemmas for the boolean equalities used by the observers. *)
Require Export Lemmas_Frame.
Local Open Scope Z_scope.

Section Reach.
Variable conv : Z -> Z.
Variable lut : Z -> Z -> Z.

(* every instance starts with rdsparser_init (or rdsparser_new, which calls it) *)
Inductive reach : list op -> state -> Prop :=
| reach_init : reach [OInit] init_state
| reach_step : forall h s o, reach h s -> wf_op o -> reach (o :: h) (fst (step conv lut s o)).

Lemma reach_nonempty h s : reach h s -> h <> [].
Proof. intros H; inversion H; discriminate. Qed.

End Reach.

Lemma all2_refl {A} (p : A -> A -> bool) l : (forall x, p x x = true) -> all2 p l l = true.
Proof. intros Hp. induction l as [|x r IH]; simpl; [reflexivity|]. rewrite Hp, IH. reflexivity. Qed.
Lemma list_eqb_Z_refl l : list_eqb Z.eqb l l = true.
Proof. apply all2_refl. apply Z.eqb_refl. Qed.
Lemma pair_eqb_refl p : pair_eqb p p = true.
Proof. unfold pair_eqb. rewrite !Z.eqb_refl. reflexivity. Qed.
Lemma tsnap_eqb_refl t : tsnap_eqb t t = true.
Proof.
  unfold tsnap_eqb. rewrite !Z.eqb_refl, Bool.eqb_reflx. simpl.
  apply all2_refl. apply pair_eqb_refl.
Qed.
Lemma data_eqb_refl a : data_eqb a a = true.
Proof. unfold data_eqb. rewrite !Z.eqb_refl, list_eqb_Z_refl, !tsnap_eqb_refl. reflexivity. Qed.
Lemma snapshot_eqb_refl a : snapshot_eqb a a = true.
Proof. unfold snapshot_eqb. rewrite data_eqb_refl, list_eqb_Z_refl. reflexivity. Qed.

Lemma all2_eqb_eq l1 l2 : all2 Z.eqb l1 l2 = true -> l1 = l2.
Proof.
  revert l2; induction l1 as [|x r IH]; intros [|y r2] H; simpl in H; try discriminate; auto.
  apply andb_true_iff in H. destruct H as [H1 H2]. apply Z.eqb_eq in H1. subst. f_equal. auto.
Qed.
