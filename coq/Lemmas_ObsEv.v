(* Lemmas_ObsEv.v — which callbacks a group can make at all (by group type), and the boolean
   observer of the RadioText A/B protocol (obs_C08) as a theorem of the model. *)
Require Export Lemmas_ObsText Lemmas_CbRt Lemmas_Callbacks Lemmas_WF.
Require Import ZifyBool.
Local Open Scope Z_scope.
Ltac Zify.zify_post_hook ::= Z.div_mod_to_equations.

Section ObsEv.
Variable conv : Z -> Z.
Variable lut : Z -> Z -> Z.
Notation Inv := (Inv conv).
Notation reach := (reach conv lut).
Notation step := (step conv lut).
Notation process := (process conv lut).

(* ---------- the callbacks a group type can make ---------- *)
Definition type_fields (g : group) : list field :=
  let grp := get_group (gb g) in
  if grp =? 0 then [FTA; FMS; FPS; FAF]
  else if grp =? 1 then [FECC; FCOUNTRY]
  else if grp =? 2 then [FRT]
  else if grp =? 4 then [FCT]
  else if (grp =? 10) && (get_flag (gb g) =? 0) then [FPTYN] else [].

Lemma fields_dispatch_typed g : fields_in (type_fields g) (dispatch conv lut g).
Proof.
  unfold dispatch, type_fields. cbv zeta.
  destruct (get_group (gb g) =? 0).
  { unfold group0_parse, group0a_parse. apply fields_andthen; [apply fields_andthen|].
    - apply fields_when, fields_andthen; eapply fields_weaken; try apply fields_set_scalar; intros x [<-|[]]; cbn; tauto.
    - intros s e H. destruct (upd_string conv TPS _ _ _ _ s) as [s' chg]. cbn [snd] in H.
      apply text_event_field in H. rewrite H. cbn; tauto.
    - apply fields_when, fields_when, fields_when, fields_andthen; eapply fields_weaken; try apply fields_add_af; intros x [<-|[]]; cbn; tauto. }
  destruct (get_group (gb g) =? 1).
  { unfold group1_parse. apply fields_when, fields_andthen.
    - eapply fields_weaken; [apply fields_set_scalar|]. intros x [<-|[]]; cbn; tauto.
    - intros s e H. apply (fields_set_scalar SCountry _ s) in H. destruct H as [<-|[]]. cbn; tauto. }
  destruct (get_group (gb g) =? 2).
  { intros s e H. unfold group2_parse in H.
    repeat match type of H with context [let '(_, _) := ?X in _] => destruct X as [? ?] end.
    repeat match type of H with context [if ?c then _ else _] => destruct c end;
      repeat match type of H with context [let '(_, _) := ?X in _] => destruct X as [? ?] end;
      cbn [snd] in H; try (destruct H; fail); apply text_event_field in H; rewrite H; cbn; tauto. }
  destruct (get_group (gb g) =? 4).
  { intros s e H. rewrite group4_events in H.
    destruct (_ && negb _); [|destruct H]. destruct (ct_init _ _ _ _); [|destruct H].
    destruct H as [<-|[]]. cbn; tauto. }
  destruct (get_group (gb g) =? 10); cbn [andb]; [|apply fields_skip].
  intros s e H. unfold group10_parse in H. destruct (get_flag (gb g) =? 0); [|destruct H].
  destruct (upd_string conv TPTYN (gc g) _ _ _ s) as [s2 c1].
  destruct (upd_string conv TPTYN (gd g) _ _ _ s2) as [s3 c2]. cbn [snd] in H.
  apply text_event_field in H. rewrite H. cbn; tauto.
Qed.

Lemma fields_process g : fields_in ([FPI; FPTY; FTP] ++ type_fields g) (process g).
Proof.
  unfold Model.process. apply fields_andthen.
  - eapply fields_weaken; [apply fields_group_parse|]. apply incl_appl, incl_refl.
  - eapply fields_weaken; [apply fields_dispatch_typed|]. apply incl_appr, incl_refl.
Qed.

Lemma no_events_of F g s : ~ In F ([FPI; FPTY; FTP] ++ type_fields g) -> filter (isf F) (snd (process g s)) = [].
Proof. intros H. exact (filter_fields F _ (process g) s (fields_process g) H). Qed.

Lemma no_rt_events g s : 0 <= gb g < 65536 -> b_group (gb g) <> 2 -> filter (isf FRT) (snd (process g s)) = [].
Proof.
  intros Hb N. apply no_events_of. unfold type_fields. rewrite (get_group_spec _ Hb).
  replace (b_group (gb g) =? 2) with false by lia.
  repeat (match goal with |- context [if ?c then _ else _] => destruct c end); cbn; intuition discriminate.
Qed.

Lemma no_ptyn_events g s : 0 <= gb g < 65536 -> ~ (b_group (gb g) = 10 /\ b_ver (gb g) = 0) ->
  filter (isf FPTYN) (snd (process g s)) = [].
Proof.
  intros Hb N. apply no_events_of. unfold type_fields. rewrite (get_group_spec _ Hb), (get_flag_spec _ Hb).
  replace ((b_group (gb g) =? 10) && (b_ver (gb g) =? 0)) with false by lia.
  repeat (match goal with |- context [if ?c then _ else _] => destruct c end); cbn; intuition discriminate.
Qed.

(* ---------- what a snapshot shows of a text is a function of its cells ---------- *)
Lemma tsnap_of_cells t t' : cells t = cells t' -> tsnap_of t = tsnap_of t'.
Proof.
  intros H. unfold tsnap_of. rewrite <- !first_zero_length.
  assert (A : forall x, string_available x = existsb (fun '(c, l) => negb (l =? 10)) (cells x)).
  { intros x. unfold string_available, cells. rewrite existsb_map. reflexivity. }
  rewrite !A. change (map (fun c => (ch c, lv c)) t) with (cells t).
  change (map (fun c => (ch c, lv c)) t') with (cells t'). rewrite H. reflexivity.
Qed.

Lemma type2_forms g L : is_type2 g = true ->
  m_ignored L g = negb (eb g =? 0) && negb (b_rtflag (gb g) =? L) && negb (L =? -1)
  /\ m_switch L g = (eb g =? 0) && negb (b_rtflag (gb g) =? L) && negb (L =? -1).
Proof.
  intros H. unfold m_ignored, m_switch. rewrite H, (Z.eqb_sym L (b_rtflag (gb g))).
  destruct (eb g =? 0), (b_rtflag (gb g) =? L), (L =? -1); split; reflexivity.
Qed.

Lemma is_rt_event_isf evs : filter is_rt_event evs = filter (isf FRT) evs.
Proof. reflexivity. Qed.

Lemma tid_rt_slot f : tid_of (rt_slot f) = RT.
Proof. unfold rt_slot. destruct (f =? 0); reflexivity. Qed.

Lemma C04_only_parse o s : op_group o = None -> snd (step s o) = [].
Proof.
  intros H. destruct o; try reflexivity; cbn in H; try discriminate.
  destruct str as [l|]; [|reflexivity]. cbn [Model.step]. cbn in H. rewrite H. reflexivity.
Qed.

(* ---------- C08 ---------- *)
Theorem obs_C08_holds h s o ret : reach h s -> wf_op o ->
  obs_C08 conv (o :: h) (snap_of s) (snap_of (fst (step s o))) (snd (step s o)) ret = true.
Proof.
  intros Hr Wo. pose proof (reach_inv conv lut h s Hr) as I.
  pose proof (reach_last_rt conv lut h s Hr) as HL.
  destruct (reach_cb_ud conv lut h s Hr) as [Hcb _].
  unfold obs_C08. destruct (is_reset o) eqn:Er; [reflexivity|].
  destruct (op_group o) as [g|] eqn:Eo.
  2:{ pose proof (no_parse_step conv lut o s Eo Er) as K. destruct (P_txt_fields _ _ K) as [_ [K2 [K3 _]]].
      rewrite (C04_only_parse o s Eo). cbn [filter]. cbn [snap_of sn_rt0 sn_rt1]. rewrite K2, K3, !tsnap_eqb_refl. reflexivity. }
  destruct (parse_step conv lut o g s Eo Wo) as [Es Wg]. rewrite Es.
  pose proof Wg as [_ [Hb _]]. unfold blk_ok in Hb.
  rewrite is_rt_event_isf.
  destruct (is_type2 g) eqn:T2.
  2:{ assert (N2 : b_group (gb g) <> 2) by (unfold is_type2 in T2; lia).
      rewrite (no_rt_events g s Hb N2).
      assert (K : rt0 (fst (process g s)) = rt0 s /\ rt1 (fst (process g s)) = rt1 s).
      { destruct (group_cases conv lut (gb g) Hb) as [G|[G|[[G V]|[N0 [_ N10]]]]]; [|contradiction| |].
        - destruct (ps_step conv lut g s I Wg G) as [_ [A [B _]]]. auto.
        - destruct (ptyn_step conv lut g s I Wg G V) as [_ [_ [A [B _]]]]. auto.
        - destruct (no_text_step conv lut g s I Wg N0 N2 N10) as [_ [A [B _]]]. auto. }
      destruct K as [K2 K3]. cbn [snap_of sn_rt0 sn_rt1]. rewrite K2, K3, !tsnap_eqb_refl. reflexivity. }
  assert (G : b_group (gb g) = 2) by (unfold is_type2 in T2; lia).
  pose proof (rt_step conv lut g s I Wg G) as St. cbv zeta in St. destruct St as [_ [_ [Hother _]]].
  pose proof (rt_callbacks conv lut g s I Wg G) as Hev. cbv zeta in Hev.
  destruct (type2_forms g (last_rt s) T2) as [Fi Fs]. rewrite <- Fi in Hev. rewrite <- Fs in Hev.
  rewrite rt_ignored_m, rt_switch_m, <- HL.
  set (f := b_rtflag (gb g)) in *. set (sl := rt_slot f).
  rewrite !rt_of_slot in Hev, Hother. fold sl in Hev.
  rewrite (h_cb_parse o h FRT) by (left; congruence). rewrite <- Hcb.
  rewrite (snap_len conv sl s I), snap_cells_avail, !snap_corr, !snap_prog.
  set (rte := filter (isf FRT) (snd (process g s))) in *.
  assert (Hcl : m_cleared (last_rt s) g s sl = m_switch (last_rt s) g && string_available (get_text sl s)).
  { unfold m_cleared. fold f. fold sl. rewrite tslot_eqb_refl, andb_true_r. reflexivity. }
  (* the buffer of the other flag *)
  assert (P1 : tsnap_eqb (sn_text (rt_slot (1 - f)) (snap_of (fst (process g s)))) (sn_text (rt_slot (1 - f)) (snap_of s)) = true).
  { rewrite !snap_text, Hother. apply tsnap_eqb_refl. }
  rewrite P1. cbn [andb].
  destruct (m_ignored (last_rt s) g) eqn:Ig.
  { rewrite Hev. cbn [forallb length Nat.leb andb].
    rewrite !snap_text.
    rewrite (tsnap_of_cells (get_text sl (fst (process g s))) (get_text sl s)).
    - rewrite tsnap_eqb_refl. reflexivity.
    - rewrite (texts_step conv lut g s I Wg sl). unfold spec_cells. rewrite Ig. reflexivity. }
  (* flag and number of the RT callbacks *)
  assert (P2 : forallb (fun e => match ev_arg e with AFlag x => x =? f | _ => false end) rte = true
               /\ (length rte <=? 1)%nat = true).
  { rewrite Hev. destruct (_ && negb (cb s FRT =? 0)); cbn; [rewrite Z.eqb_refl|]; split; reflexivity. }
  destruct P2 as [P2 P3]. rewrite P2, P3. cbn [andb].
  destruct (m_switch (last_rt s) g && string_available (get_text sl s)) eqn:Cl.
  - (* the switch empties the selected buffer *)
    apply andb_true_intro. split.
    + apply forallb_seq. intros i Hi. destruct (addressed (writes_of g) sl i) eqn:A; [reflexivity|]. cbn [orb].
      rewrite snap_cell, (cell_kept conv lut g s sl i I Wg Ig Hi A). unfold base_cell. rewrite Hcl.
      apply pair_eqb_refl.
    + destruct (cb s FRT =? 0) eqn:C0; [reflexivity|]. rewrite Hev. cbn [orb negb andb length]. reflexivity.
  - apply andb_true_intro. split.
    + apply forallb_seq. intros i Hi. destruct (addressed (writes_of g) sl i) eqn:A; [reflexivity|]. cbn [orb].
      rewrite !snap_cell, (cell_kept conv lut g s sl i I Wg Ig Hi A). unfold base_cell. rewrite Hcl.
      apply pair_eqb_refl.
    + (* not silently dropped *)
      match goal with |- negb (existsb ?p ?l) || _ = true => destruct (existsb p l) eqn:Ex end; [|reflexivity].
      cbn [negb orb]. apply existsb_exists in Ex. destruct Ex as [[[[sl' p] byte] e] [HIn Hx]].
      apply existsb_exists. exists (sl', p, byte, e). split; [exact HIn|].
      assert (Esl : sl' = sl).
      { rewrite (writes_slot g sl' p byte e HIn). replace (b_group (gb g) =? 0) with false by lia.
        replace (b_group (gb g) =? 2) with true by lia. reflexivity. }
      subst sl'. rewrite !snap_cell in *.
      rewrite (cell_written conv lut g s sl p byte e I Wg Ig HIn). unfold base_cell. rewrite Hcl.
      unfold sl at 1 2 3. rewrite tid_rt_slot. exact Hx.
Qed.

End ObsEv.
