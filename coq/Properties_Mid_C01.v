(* Properties_Mid_C01.v — C01 at the level of the code: rdsparser_group_parse (src/group.c), the
   part every group goes through, translated on every run, is the model's group_parse: PI from an
   error-free block A, PTY and TP from an error-free block B, through the setters, with their
   callbacks in that order. *)
Require Import Lemmas_Mid_Acts.
Local Open Scope Z_scope.

Theorem C01_code_group_parse : forall g s evs, wf_group g ->
  m_group_parse (getf SPi (temp s)) (getf SPty (temp s)) (getf STp (temp s))
                (getf SPi (used s)) (getf SPty (used s)) (getf STp (used s))
                (b2z (ext s)) (cb s FPI) (cb s FPTY) (cb s FTP) evs (ud s)
                (ga g) (gb g) (gc g) (gd g) (ea g) (eb g) (ec g) (ed g)
  = let r := group_parse g s in
    let s' := fst r in
    (0, getf SPi (temp s'), getf SPty (temp s'), getf STp (temp s'),
        getf SPi (used s'), getf SPty (used s'), getf STp (used s'), evs ++ map ev_call (snd r)).
Proof. exact mid_group_parse. Qed.
Print Assumptions C01_code_group_parse.
