(* Properties_Mid_C10.v — C10 at the level of the code: rdsparser_buffer_add_af (src/buffer.c),
   translated on every run, is the model's buffer_add_af on every pair of 26-byte bitmaps and
   every code 0..255. *)
Require Import Lemmas_Mid_C10.
Local Open Scope Z_scope.

Theorem C10_code_add_af : forall v s, bytes (d_af (used s)) -> bytes (d_af (temp s)) -> 0 <= v < 256 ->
  let '(r, t', u') := m_buffer_add_af (d_af (temp s)) (d_af (used s)) (if ext s then 1 else 0) v in
  (negb (r =? 0), t', u')
  = (snd (buffer_add_af v s), d_af (temp (fst (buffer_add_af v s))), d_af (used (fst (buffer_add_af v s)))).
Proof. exact mid_buffer_add_af. Qed.
Print Assumptions C10_code_add_af.
