(* Lemmas_Mid_Set.v — the setters of the settings (src/rdsparser.c: rdsparser_set_text_correction with
   its clamp, rdsparser_set_text_progressive, rdsparser_set_extended_check), translated on every run
   (GenMid.v), against the model's set_corr / OSetProg / OSetExt steps: the setting written is the
   model's, and no other member is mentioned (GenMid.v lists what each function writes). *)
Require Export Lemmas_Mid_Text.
Require Import ZifyBool.
Local Open Scope Z_scope.

Definition type_index (k : blk_type) : Z := match k with INFO => 0 | DATA => 1 end.

Theorem mid_set_text_correction : forall t k e s, 0 <= e < 256 ->
  m_set_text_correction (corr_tab s) (text_index t) (type_index k) e = (0, corr_tab (set_corr t k e s)).
Proof.
  intros t k e s He. unfold m_set_text_correction, set_corr, corr_tab. cbv zeta.
  change (to_u8 (3 - 1)) with 2.
  assert (U : to_u8 (if e <? 2 then e else 2) = (if e <? 2 then e else 2))
    by (unfold to_u8; apply Z.mod_small; destruct (e <? 2) eqn:E; lia).
  rewrite U. destruct t, k; cbn; reflexivity.
Qed.

Theorem mid_set_text_progressive : forall t (v : bool) s,
  m_set_text_progressive (prog_tab s) (text_index t) (b2z v)
  = (0, prog_tab (with_prog (fupd text_id_eqb (prog s) t v) s)).
Proof. intros t v s. unfold m_set_text_progressive, prog_tab. cbv zeta. destruct t; cbn; reflexivity. Qed.

Theorem mid_set_extended_check : forall (v : bool) s,
  m_set_extended_check (b2z (ext s)) (b2z v) = (0, b2z (ext (with_ext v s))).
Proof. intros v s. reflexivity. Qed.
