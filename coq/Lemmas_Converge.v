(* Lemmas_Converge.v — C07, convergence for ALL texts: under progressive correction a text whose
   error-free receptions are consistent with a target converges to it, cell by cell, whatever
   corrected receptions are interleaved — PS, PTYN, and each RadioText buffer as long as the stream
   does not switch the A/B flag. *)
Require Export Lemmas_ObsText Lemmas_Prog.
Require Import ZifyBool.
Local Open Scope Z_scope.

(* the writes of a group: one per cell *)
Lemma nodup_map_inj {A B} (f : A -> B) l x y : NoDup (map f l) -> In x l -> In y l -> f x = f y -> x = y.
Proof.
  induction l as [|a r IH]; intros ND Hx Hy E; [destruct Hx|].
  cbn [map] in ND. inversion ND as [|? ? Hn ND']; subst.
  destruct Hx as [->|Hx]; destruct Hy as [->|Hy]; try reflexivity.
  - exfalso. apply Hn. rewrite E. apply in_map. exact Hy.
  - exfalso. apply Hn. rewrite <- E. apply in_map. exact Hx.
  - apply IH; assumption.
Qed.

Lemma same_cell_same_write g sl p b1 e1 b2 e2 :
  In (sl, p, b1, e1) (writes_of g) -> In (sl, p, b2, e2) (writes_of g) -> b1 = b2 /\ e1 = e2.
Proof.
  intros H1 H2. pose proof (writes_nodup g sl) as ND. unfold positions in ND.
  assert (F : forall x, In x (writes_of g) -> (let '(sl', _, _, _) := x in tslot_eqb sl' sl) = true ->
              In x (filter (fun '(sl', _, _, _) => tslot_eqb sl' sl) (writes_of g))).
  { intros x Hx Hc. apply filter_In. split; assumption. }
  pose proof (nodup_map_inj (fun '(_, q, _, _) => q) _ (sl, p, b1, e1) (sl, p, b2, e2) ND
                (F _ H1 (tslot_eqb_refl sl)) (F _ H2 (tslot_eqb_refl sl)) eq_refl) as E.
  inversion E. split; reflexivity.
Qed.

Section Converge.
Variable conv : Z -> Z.
Variable lut : Z -> Z -> Z.
Notation Inv := (Inv conv).
Notation process := (process conv lut).

(* the byte an error-free reception of group g delivers to cell i of text sl *)
Definition ef_write (g : group) (sl : tslot) (i : nat) : option Z :=
  if eb g =? 0 then
    match find (fun '(sl', p, _, e) => tslot_eqb sl' sl && Nat.eqb p i && (e =? 0)) (writes_of g) with
    | Some (_, _, b, _) => Some b
    | None => None
    end
  else None.
Definition consistent_sl (sl : tslot) (tgt : nat -> Z) (g : group) : Prop :=
  forall i b, ef_write g sl i = Some b -> storable b = true -> fst (cell_ef conv (0, 0) b) = tgt i.
Definition delivers_sl (sl : tslot) (g : group) (i : nat) : bool :=
  match ef_write g sl i with Some b => storable b | None => false end.
(* the stream stays on one A/B flag *)
Definition one_flag (f0 : Z) (g : group) : Prop := is_type2 g = true -> eb g = 0 -> b_rtflag (gb g) = f0.

Lemma ef_write_in g sl i b : ef_write g sl i = Some b -> eb g = 0 /\ In (sl, i, b, 0) (writes_of g).
Proof.
  unfold ef_write. destruct (Z.eqb_spec (eb g) 0) as [E|E]; [|discriminate]. intros H.
  destruct (find _ (writes_of g)) as [[[[sl' p] b'] e]|] eqn:F; [|discriminate].
  inversion H; subst. apply find_some in F. destruct F as [HIn Hc].
  apply andb_true_iff in Hc. destruct Hc as [Hc He]. apply andb_true_iff in Hc. destruct Hc as [Hs Hp].
  apply tslot_eqb_eq in Hs. apply Nat.eqb_eq in Hp. apply Z.eqb_eq in He. subst. split; [exact E|exact HIn].
Qed.

Lemma ef_write_of g sl i b : eb g = 0 -> In (sl, i, b, 0) (writes_of g) -> ef_write g sl i = Some b.
Proof.
  intros E HIn. unfold ef_write. rewrite E. cbn [Z.eqb].
  destruct (find _ (writes_of g)) as [[[[sl' p] b'] e]|] eqn:F.
  - apply find_some in F. destruct F as [HIn' Hc].
    apply andb_true_iff in Hc. destruct Hc as [Hc He]. apply andb_true_iff in Hc. destruct Hc as [Hs Hp].
    apply tslot_eqb_eq in Hs. apply Nat.eqb_eq in Hp. subst.
    destruct (same_cell_same_write g sl i b 0 b' e HIn HIn') as [-> _]. reflexivity.
  - exfalso. pose proof (find_none _ _ F _ HIn) as N. cbn in N.
    rewrite tslot_eqb_refl, Nat.eqb_refl in N. discriminate.
Qed.

Lemma level_nonneg sl s i : Inv s -> (i < cap sl)%nat -> 0 <= snd (cell_of sl s i).
Proof.
  intros I Hi. destruct (inv_text conv sl s I) as [Hl F]. unfold cell_of.
  destruct (nth_error (get_text sl s) i) as [c|] eqn:En; [|apply nth_error_None in En; lia].
  rewrite (nth_cells _ _ _ En). rewrite Forall_forall in F. destruct (F c (nth_error_In _ _ En)) as [R _]. cbn. lia.
Qed.

Lemma converge_step sl tgt f0 g s i : Inv s -> wf_group g -> prog s (tid_of sl) = true ->
  consistent_sl sl tgt g -> one_flag f0 g -> (last_rt s = -1 \/ last_rt s = f0) -> (i < cap sl)%nat ->
  let s' := fst (process g s) in
  (cell_of sl s i = (tgt i, 0) -> cell_of sl s' i = (tgt i, 0))
  /\ (delivers_sl sl g i = true -> cell_of sl s' i = (tgt i, 0))
  /\ (last_rt s' = -1 \/ last_rt s' = f0) /\ prog s' = prog s.
Proof.
  intros I W Hp Hc H1 HL Hi. cbv zeta.
  pose proof W as [_ [_ [_ [_ [_ [Heb [Hec Hed]]]]]]]. unfold err_ok in *.
  pose proof (process_keeps_settings conv lut g s) as K. destruct (P_set_fields _ _ K) as [Kp _].
  assert (Lr : last_rt (fst (process g s)) = -1 \/ last_rt (fst (process g s)) = f0).
  { rewrite (process_last_rt conv lut g s I W). destruct ((b_group (gb g) =? 2) && (eb g =? 0)) eqn:E; [|exact HL].
    apply andb_true_iff in E. destruct E as [E1 E2]. right. apply H1; [exact E1|lia]. }
  (* the stream never switches: nothing is emptied *)
  assert (Sw : m_switch (last_rt s) g = false).
  { unfold m_switch. destruct (is_type2 g) eqn:T; [|reflexivity]. destruct (Z.eqb_spec (eb g) 0) as [E|E]; [|reflexivity].
    cbn [andb]. destruct HL as [-> | ->]; [reflexivity|]. rewrite (H1 T E), Z.eqb_refl. cbn. apply andb_false_r. }
  assert (Cl : m_cleared (last_rt s) g s sl = false) by (unfold m_cleared; rewrite Sw; reflexivity).
  pose proof (inv_corr conv s I (tid_of sl) INFO) as C1. pose proof (inv_corr conv s I (tid_of sl) DATA) as C2.
  pose proof (level_nonneg sl s i I Hi) as Ln.
  split; [|split; [|split; [exact Lr|exact Kp]]].
  - (* a cell that holds its target at level 0 keeps it *)
    intros Ho. destruct (m_ignored (last_rt s) g) eqn:Ig.
    { rewrite (cell_ignored conv lut g s sl i I W Ig). exact Ho. }
    destruct (addressed (writes_of g) sl i) eqn:A.
    + unfold addressed in A. apply existsb_exists in A. destruct A as [[[[sl' p] byte] e] [HIn Hm]].
      apply andb_true_iff in Hm. destruct Hm as [Hs Hq]. apply tslot_eqb_eq in Hs. apply Nat.eqb_eq in Hq. subst sl' p.
      rewrite (cell_written conv lut g s sl i byte e I W Ig HIn). unfold base_cell. rewrite Cl, Hp, Ho.
      assert (He : 0 <= e).
      { pose proof (writes_slot g sl i byte e HIn) as _. unfold writes_of in HIn.
        repeat match type of HIn with context [if ?c then _ else _] => destruct c end; cbn [In] in HIn;
          repeat (destruct HIn as [HIn|HIn]; [inversion HIn; subst; lia|]); destruct HIn. }
      destruct (pair_eqb (cell_after conv (corr s (tid_of sl) INFO) (corr s (tid_of sl) DATA) true (tgt i, 0) byte (eb g) e) (tgt i, 0)) eqn:Pe.
      { apply pair_eqb_eq in Pe. exact Pe. }
      assert (Hne : cell_after conv (corr s (tid_of sl) INFO) (corr s (tid_of sl) DATA) true (tgt i, 0) byte (eb g) e <> (tgt i, 0)).
      { intros Q. rewrite Q, pair_eqb_refl in Pe. discriminate. }
      destruct (cell_after_progressive conv (corr s (tid_of sl) INFO) (corr s (tid_of sl) DATA) (tgt i, 0) byte (eb g) e) as [_ P2].
      cbv zeta in P2. destruct (P2 Hne) as [_ Hl]. cbn [snd] in Hl.
      assert (E0 : eb g = 0 /\ e = 0) by (unfold lvl in Hl; destruct ((eb g =? 0) && (e =? 0)) eqn:E; lia).
      destruct E0 as [E1 E2]. subst e. rewrite E1 in *.
      rewrite cell_after_error_free in * by (cbn; lia).
      (* an error-free reception that changes the cell delivers a storable byte: the target *)
      assert (St : storable byte = true).
      { unfold storable. unfold cell_ef in Hne. destruct (byte =? 13); [reflexivity|].
        destruct (byte <? 32) eqn:B; [contradiction Hne; reflexivity|]. cbn. lia. }
      rewrite (cell_ef_storable conv _ byte St). f_equal.
      apply Hc; [|exact St]. apply ef_write_of; [lia|exact HIn].
    + rewrite (cell_kept conv lut g s sl i I W Ig Hi A). unfold base_cell. rewrite Cl. exact Ho.
  - (* a cell delivered error-free now holds its target *)
    intros Hd. unfold delivers_sl in Hd. destruct (ef_write g sl i) as [b|] eqn:Ew; [|discriminate].
    destruct (ef_write_in g sl i b Ew) as [E0 HIn].
    assert (Ig : m_ignored (last_rt s) g = false).
    { unfold m_ignored. rewrite E0. cbn [Z.eqb negb]. rewrite andb_false_r. reflexivity. }
    rewrite (cell_written conv lut g s sl i b 0 I W Ig HIn). unfold base_cell. rewrite Cl, E0.
    rewrite cell_after_error_free by lia.
    rewrite (cell_ef_storable conv _ b Hd). f_equal. apply Hc; [exact Ew|exact Hd].
Qed.

Fixpoint feed_all (s : state) (gs : list group) : state :=
  match gs with [] => s | g :: r => feed_all (fst (process g s)) r end.

(* CONVERGENCE, for every text *)
Theorem text_converges sl tgt f0 : forall gs s, Inv s -> prog s (tid_of sl) = true ->
  Forall wf_group gs -> Forall (consistent_sl sl tgt) gs -> Forall (one_flag f0) gs ->
  (last_rt s = -1 \/ last_rt s = f0) ->
  forall i, (i < cap sl)%nat ->
  (cell_of sl s i = (tgt i, 0) \/ existsb (fun g => delivers_sl sl g i) gs = true) ->
  cell_of sl (feed_all s gs) i = (tgt i, 0).
Proof.
  induction gs as [|g r IH]; intros s I Hp Hw Hc Hf HL i Hi H.
  - cbn in *. destruct H as [H|H]; [exact H|discriminate].
  - inversion Hw as [|? ? W Wr]; subst. inversion Hc as [|? ? C Cr]; subst. inversion Hf as [|? ? F Fr]; subst.
    destruct (converge_step sl tgt f0 g s i I W Hp C F HL Hi) as [K1 [K2 [K3 K4]]]. cbv zeta in *.
    cbn [feed_all]. apply IH; try assumption.
    + apply process_inv; assumption.
    + rewrite K4. exact Hp.
    + cbn [existsb] in H. destruct H as [H|H]; [left; exact (K1 H)|].
      apply orb_true_iff in H. destruct H as [H|H]; [left; exact (K2 H)|right; exact H].
Qed.

End Converge.
