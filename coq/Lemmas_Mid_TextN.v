(* Lemmas_Mid_TextN.v — rdsparser_string_update_single of the non-unicode build
   (-DRDSPARSER_DISABLE_UNICODE), translated on every run (GenMid.v), against the model's
   update_single with the narrow character graph. *)
Require Export Lemmas_Mid_Text.
Require Import ZifyBool.
Local Open Scope Z_scope.

(* ---------- the non-unicode build (-DRDSPARSER_DISABLE_UNICODE) ---------- *)
Lemma app_if (f : Z -> Z) (c : bool) a b : f (if c then a else b) = if c then f a else f b.
Proof. destruct c; reflexivity. Qed.

Theorem mid_update_single_n : forall conv,
  (forall x, 32 <= x < 127 -> m_string_convert_n x = conv x) ->
  (forall x, 127 <= x < 256 -> m_string_convert_n (to_u8 32) = conv x) ->
  single_spec conv m_update_single_n.
Proof.
  intros conv Hlo Hhi t inp ei ed pos prog Hi He Hd Hp.
  unfold m_update_single_n, update_single. cbv zeta.
  rewrite ?(app_if m_string_convert_n).
  rewrite (leaf_calc_error ei ed He Hd).
  destruct (nth_error t pos) as [c|] eqn:En; [|apply nth_error_None in En; lia].
  rewrite Nat2Z.id. destruct (nth_contents t pos c En) as [-> ->].
  set (err := calc_error ei ed).
  unfold convert.
  destruct (Z.eq_dec inp 13) as [->|N13].
  - replace (m_string_convert_n 13) with 0 by (vm_compute; reflexivity).
    generalize (m_string_convert_n (to_u8 32)). intros sp.
    destruct prog; cbn [b2z]; decide_atoms; finish_cell En.
  - destruct (Z_lt_ge_dec inp 32) as [Lo|Hi32].
    + generalize (m_string_convert_n inp) (m_string_convert_n (to_u8 32)) (conv inp). intros cv sp mv.
      destruct prog; cbn [b2z]; decide_atoms; finish_cell En.
    + assert (F1 : 127 <= inp -> m_string_convert_n (to_u8 32) = conv inp) by (intros; apply Hhi; lia).
      assert (F2 : inp < 127 -> m_string_convert_n inp = conv inp) by (intros; apply Hlo; lia).
      revert F1 F2.
      generalize (m_string_convert_n inp) (m_string_convert_n (to_u8 32)) (conv inp). intros cv sp mv F1 F2.
      destruct prog; cbn [b2z]; decide_atoms;
        first [ finish_cell En
              | assert (sp = mv) by lia; subst sp; finish_cell En
              | assert (cv = mv) by lia; subst cv; finish_cell En ].
Qed.

