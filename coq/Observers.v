(* Observers.v — the properties C01..C17 as BOOLEAN OBSERVERS over what can be seen from outside:
   the history of API calls made on one instance (most recent first, current call at the head),
   the getter snapshot before and after the current call, the callbacks it made, and its return
   value.  The property theorems state that the model satisfies these observers for every
   history; the OCaml driver evaluates the very same (extracted) observers on the traces of the
   real library.  Written in arithmetic (div/mod), not with the masks of the sources.
   Definitions only. *)
Require Export Obs.
Local Open Scope Z_scope.

(* ---------- generic helpers ---------- *)
Fixpoint all2 {A B} (p : A -> B -> bool) (l1 : list A) (l2 : list B) : bool :=
  match l1, l2 with
  | [], [] => true
  | x :: r1, y :: r2 => p x y && all2 p r1 r2
  | _, _ => false
  end.
Definition list_eqb {A} (eqb : A -> A -> bool) (l1 l2 : list A) : bool := all2 eqb l1 l2.
Definition pair_eqb (p q : Z * Z) : bool := (fst p =? fst q) && (snd p =? snd q).
Definition tsnap_eqb (s t : tsnap) : bool :=
  (ts_len s =? ts_len t) && Bool.eqb (ts_avail s) (ts_avail t) && (ts_term s =? ts_term t)
  && list_eqb pair_eqb (ts_cells s) (ts_cells t).
(* everything but the settings *)
Definition data_eqb (a b : snapshot) : bool :=
  (sn_pi a =? sn_pi b) && (sn_pty a =? sn_pty b) && (sn_tp a =? sn_tp b) && (sn_ta a =? sn_ta b)
  && (sn_ms a =? sn_ms b) && (sn_ecc a =? sn_ecc b) && (sn_country a =? sn_country b)
  && list_eqb Z.eqb (sn_af a) (sn_af b)
  && tsnap_eqb (sn_ps a) (sn_ps b) && tsnap_eqb (sn_rt0 a) (sn_rt0 b)
  && tsnap_eqb (sn_rt1 a) (sn_rt1 b) && tsnap_eqb (sn_ptyn a) (sn_ptyn b).
Definition snapshot_eqb (a b : snapshot) : bool :=
  data_eqb a b && list_eqb Z.eqb (sn_cfg a) (sn_cfg b).

Definition sn_text (sl : tslot) (sn : snapshot) : tsnap :=
  match sl with TPS => sn_ps sn | TRT0 => sn_rt0 sn | TRT1 => sn_rt1 sn | TPTYN => sn_ptyn sn end.
Definition tcell (t : tsnap) (i : nat) : Z * Z := nth i (ts_cells t) (0, 0).

(* settings as shown by the ten settings getters *)
Definition cfg_nth (sn : snapshot) (i : nat) : Z := nth i (sn_cfg sn) 0.
Definition tid_idx (t : text_id) : nat := match t with PS => 0 | RT => 1 | PTYN => 2 end.
Definition cfg_ext (sn : snapshot) : bool := negb (cfg_nth sn 0 =? 0).
Definition cfg_prog (sn : snapshot) (t : text_id) : bool := negb (cfg_nth sn (1 + tid_idx t) =? 0).
Definition cfg_corr (sn : snapshot) (t : text_id) (k : blk_type) : Z :=
  cfg_nth sn (4 + 2 * tid_idx t + match k with INFO => 0 | DATA => 1 end).

(* ---------- reading a history ---------- *)
Definition op_group (o : op) : option group :=
  match o with
  | OParse g => Some g
  | OParseString (Some l) => utils_convert l
  | _ => None
  end.
Definition is_reset (o : op) : bool := match o with OInit | OClear => true | _ => false end.
Definition cur_group (hist : list op) : option group :=
  match hist with o :: _ => op_group o | [] => None end.

Fixpoint h_cb (hist : list op) (f : field) : Z :=
  match hist with
  | [] => 0
  | OInit :: _ => 0
  | ORegister f' id :: r => if field_eqb f' f then id else h_cb r f
  | _ :: r => h_cb r f
  end.
Fixpoint h_ud (hist : list op) : Z :=
  match hist with
  | [] => 0
  | OInit :: _ => 0
  | OSetUD u :: _ => u
  | _ :: r => h_ud r
  end.
(* the extended check has not been switched on since initialisation *)
Fixpoint no_ext (hist : list op) : bool :=
  match hist with
  | [] => true
  | OInit :: _ => true
  | OSetExt true :: _ => false
  | _ :: r => no_ext r
  end.
(* the extended check was switched on while the parser was in its reset state and has not
   been switched off since *)
Fixpoint in_reset_state (hist : list op) : bool :=
  match hist with
  | [] => true
  | o :: r => if is_reset o then true
              else match o with OParse _ | OParseString _ => false | _ => in_reset_state r end
  end.
Fixpoint ext_scope (hist : list op) : bool :=
  match hist with
  | [] => false
  | OInit :: _ => false
  | OSetExt true :: r => in_reset_state r || ext_scope r
  | OSetExt false :: _ => false
  | _ :: r => ext_scope r
  end.

(* bit fields of block B, as arithmetic *)
Definition b_group (b : Z) : Z := b / 4096.
Definition b_ver (b : Z) : Z := (b / 2048) mod 2.
Definition b_tp (b : Z) : Z := (b / 1024) mod 2.
Definition b_pty (b : Z) : Z := (b / 32) mod 32.
Definition b_ta (b : Z) : Z := (b / 16) mod 2.
Definition b_ms (b : Z) : Z := (b / 8) mod 2.
Definition b_rtflag (b : Z) : Z := (b / 16) mod 2.
Definition w_hi (w : Z) : Z := w / 256.
Definition w_lo (w : Z) : Z := w mod 256.

(* ---------- C01: last error-free reception ---------- *)
Fixpoint last_rx (sel : group -> option Z) (hist : list op) : Z :=
  match hist with
  | [] => -1
  | o :: r =>
    if is_reset o then -1
    else match op_group o with
         | Some g => match sel g with Some v => v | None => last_rx sel r end
         | None => last_rx sel r
         end
  end.
Definition rx_pi (g : group) : option Z := if ea g =? 0 then Some (ga g) else None.
Definition rx_pty (g : group) : option Z := if eb g =? 0 then Some (b_pty (gb g)) else None.
Definition rx_tp (g : group) : option Z := if eb g =? 0 then Some (b_tp (gb g)) else None.
Definition rx_ta (g : group) : option Z :=
  if (eb g =? 0) && (b_group (gb g) =? 0) then Some (b_ta (gb g)) else None.
Definition rx_ms (g : group) : option Z :=
  if (eb g =? 0) && (b_group (gb g) =? 0) then Some (b_ms (gb g)) else None.

Definition obs_C01 (hist : list op) (b a : snapshot) (evs : list event) (ret : Z) : bool :=
  if no_ext hist then
    (sn_pi a =? last_rx rx_pi hist) && (sn_pty a =? last_rx rx_pty hist)
    && (sn_tp a =? last_rx rx_tp hist) && (sn_ta a =? last_rx rx_ta hist)
    && (sn_ms a =? last_rx rx_ms hist)
  else true.

(* ---------- C17: settings ---------- *)
Fixpoint set_ext_of (hist : list op) : bool :=
  match hist with
  | [] => false | OInit :: _ => false | OSetExt v :: _ => v | _ :: r => set_ext_of r
  end.
Fixpoint set_prog_of (t : text_id) (hist : list op) : bool :=
  match hist with
  | [] => false
  | OInit :: _ => false
  | OSetProg t' v :: r => if text_id_eqb t' t then v else set_prog_of t r
  | _ :: r => set_prog_of t r
  end.
Fixpoint set_corr_of (t : text_id) (k : blk_type) (hist : list op) : Z :=
  match hist with
  | [] => 0
  | OInit :: _ => 0
  | OSetCorr t' k' e :: r =>
    if text_id_eqb t' t && blk_type_eqb k' k then Z.min e 2 else set_corr_of t k r
  | _ :: r => set_corr_of t k r
  end.
Definition settings_of (hist : list op) : list Z :=
  [ b2z (set_ext_of hist); b2z (set_prog_of PS hist); b2z (set_prog_of RT hist);
    b2z (set_prog_of PTYN hist);
    set_corr_of PS INFO hist; set_corr_of PS DATA hist; set_corr_of RT INFO hist;
    set_corr_of RT DATA hist; set_corr_of PTYN INFO hist; set_corr_of PTYN DATA hist ].
Definition is_setter (o : op) : bool :=
  match o with OSetExt _ | OSetCorr _ _ _ | OSetProg _ _ | OSetUD _ | ORegister _ _ => true | _ => false end.

Definition obs_C17 (hist : list op) (b a : snapshot) (evs : list event) (ret : Z) : bool :=
  list_eqb Z.eqb (sn_cfg a) (settings_of hist)
  && match hist with
     | o :: _ => if is_setter o then data_eqb a b && match evs with [] => true | _ => false end else true
     | [] => true
     end.

(* ---------- C10 (and the AF half of C09): the AF list as a set ---------- *)
Definition rx_af (g : group) : list Z :=
  if (b_group (gb g) =? 0) && (b_ver (gb g) =? 0) && (eb g =? 0) && (ec g =? 0)
     && negb (w_hi (gc g) =? 250)
  then [w_hi (gc g); w_lo (gc g)] else [].
(* all AF code receptions since the last reset *)
Fixpoint af_rx (hist : list op) : list Z :=
  match hist with
  | [] => []
  | o :: r =>
    if is_reset o then []
    else match op_group o with
         | Some g => rx_af g ++ af_rx r
         | None => af_rx r
         end
  end.
Definition count_z (v : Z) (l : list Z) : Z :=
  Z.of_nat (length (filter (fun x => x =? v) l)).
(* the bitmap that lists exactly the codes satisfying p: code v at byte v/8, mask 0x80 >> (v mod 8) *)
Definition bit_of (p : Z -> bool) (v : Z) : Z :=
  if (1 <=? v) && (v <=? 204) && p v then 2 ^ (7 - v mod 8) else 0.
Definition byte_of (p : Z -> bool) (i : Z) : Z :=
  bit_of p (8 * i) + bit_of p (8 * i + 1) + bit_of p (8 * i + 2) + bit_of p (8 * i + 3)
  + bit_of p (8 * i + 4) + bit_of p (8 * i + 5) + bit_of p (8 * i + 6) + bit_of p (8 * i + 7).
Definition bitmap_of (p : Z -> bool) : list Z :=
  map (fun i => byte_of p (Z.of_nat i)) (seq 0 26).
Definition af_listed (a : list Z) (v : Z) : bool :=     (* what an application reads off the bitmap *)
  (1 <=? v) && (v <=? 204) && Z.odd (nth (Z.to_nat (v / 8)) a 0 / 2 ^ (7 - v mod 8)).
Definition is_af_event (e : event) : bool := field_eqb (ev_field e) FAF.
Fixpoint dedup (l : list Z) : list Z :=
  match l with
  | [] => []
  | x :: r => x :: filter (fun y => negb (y =? x)) (dedup r)
  end.
(* the AF callbacks of one call: exactly the codes of this group that are listed afterwards and
   were not before, in block order, each with its frequency in kHz *)
Definition af_events_ok (hist : list op) (b a : snapshot) (evs : list event) : bool :=
  let cand := match cur_group hist with Some g => dedup (rx_af g) | None => [] end in
  let newly := filter (fun v => af_listed (sn_af a) v && negb (af_listed (sn_af b) v)) cand in
  let afe := filter is_af_event evs in
  if h_cb hist FAF =? 0 then match afe with [] => true | _ => false end
  else all2 (fun e v => match ev_arg e with AFreq k => k =? 87500 + 100 * v | _ => false end
                            && match ev_sample e with SmAf s => af_listed s v | _ => false end)
                afe newly.

(* relative to the getter alone (C04): the callbacks of this call are exactly the frequencies
   listed afterwards and not before, each once, at most two *)
Definition ev_code (e : event) : Z :=
  match ev_arg e with AFreq k => (k - 87500) / 100 | _ => -1 end.
Definition af_changes_ok (hist : list op) (b a : snapshot) (evs : list event) : bool :=
  let afe := filter is_af_event evs in
  if list_eqb Z.eqb (sn_af a) (sn_af b) then match afe with [] => true | _ => false end
  else
    let newly := filter (fun v => af_listed (sn_af a) v && negb (af_listed (sn_af b) v))
                        (map Z.of_nat (seq 0 256)) in
    if h_cb hist FAF =? 0 then match afe with [] => true | _ => false end
    else
      (length afe <=? 2)%nat && Nat.eqb (length afe) (length newly)
      && forallb (fun e => match ev_arg e with AFreq k => k =? 87500 + 100 * ev_code e | _ => false end
                           && existsb (fun v => v =? ev_code e) newly
                           && match ev_sample e with SmAf sm => af_listed sm (ev_code e) | _ => false end) afe
      && Nat.eqb (length (dedup (map ev_code afe))) (length afe).

Definition obs_C10 (hist : list op) (b a : snapshot) (evs : list event) (ret : Z) : bool :=
  let thr := if no_ext hist then 1 else if ext_scope hist then 2 else 0 in
  if thr =? 0 then true
  else list_eqb Z.eqb (sn_af a) (bitmap_of (fun v => thr <=? count_z v (af_rx hist)))
       && af_events_ok hist b a evs.

(* ---------- C09: extended check ---------- *)
(* receptions of one scalar field since the last reset, most recent first; a reception may
   depend on the history before it (the country depends on the PI accepted at that moment) *)
Fixpoint rx_list (sel : list op -> group -> option Z) (hist : list op) : list Z :=
  match hist with
  | [] => []
  | o :: r =>
    if is_reset o then []
    else match op_group o with
         | Some g => match sel hist g with Some v => v :: rx_list sel r | None => rx_list sel r end
         | None => rx_list sel r
         end
  end.
Fixpoint last_confirmed (unknown : Z) (rs : list Z) : Z :=
  match rs with
  | x :: ((y :: _) as r) => if x =? y then x else last_confirmed unknown r
  | _ => unknown
  end.
Definition confirmed (unknown : Z) (sel : list op -> group -> option Z) (hist : list op) : Z :=
  last_confirmed unknown (rx_list sel hist ++ [unknown]).
Definition is_1A0 (g : group) : bool :=
  (b_group (gb g) =? 1) && (b_ver (gb g) =? 0) && (eb g =? 0) && (ec g =? 0)
  && ((gc g / 4096) mod 8 =? 0).
Definition rx_ecc (g : group) : option Z := if is_1A0 g then Some (w_lo (gc g)) else None.

Section WithTables.
Variable conv : Z -> Z.
Variable lut : Z -> Z -> Z.

Definition spec_country (pi ecc : Z) : Z :=
  if pi =? -1 then 0 else lut ((pi / 4096) mod 16) ecc.
(* country reception under the extended check: looked up with the PI that is accepted once
   this very group's block A has been taken into account *)
Definition rx_country_ext (hist : list op) (g : group) : option Z :=
  if is_1A0 g then Some (spec_country (confirmed (-1) (fun _ => rx_pi) hist) (w_lo (gc g))) else None.

Definition obs_C09 (hist : list op) (b a : snapshot) (evs : list event) (ret : Z) : bool :=
  if ext_scope hist then
    (sn_pi a =? confirmed (-1) (fun _ => rx_pi) hist)
    && (sn_pty a =? confirmed (-1) (fun _ => rx_pty) hist)
    && (sn_tp a =? confirmed (-1) (fun _ => rx_tp) hist)
    && (sn_ta a =? confirmed (-1) (fun _ => rx_ta) hist)
    && (sn_ms a =? confirmed (-1) (fun _ => rx_ms) hist)
    && (sn_ecc a =? confirmed (-1) (fun _ => rx_ecc) hist)
    && (sn_country a =? confirmed 0 rx_country_ext hist)
    && list_eqb Z.eqb (sn_af a) (bitmap_of (fun v => 2 <=? count_z v (af_rx hist)))
  else true.

(* ---------- C11: ECC and country (normal mode; C09 covers the buffering under the check) ---------- *)
Definition obs_C11 (hist : list op) (b a : snapshot) (evs : list event) (ret : Z) : bool :=
  (0 <=? sn_country a) && (sn_country a <? 221)
  && if no_ext hist then
       match cur_group hist with
       | Some g =>
         if is_1A0 g then
           (sn_ecc a =? w_lo (gc g)) && (sn_country a =? spec_country (sn_pi a) (w_lo (gc g)))
         else (sn_ecc a =? sn_ecc b) && (sn_country a =? sn_country b)
       | None =>
         match hist with
         | o :: _ => if is_reset o then (sn_ecc a =? -1) && (sn_country a =? 0)
                     else (sn_ecc a =? sn_ecc b) && (sn_country a =? sn_country b)
         | [] => true
         end
       end
     else true.

(* ---------- text cells: C06 (acceptance and level), C02 (addressing, charset, frame),
              C07 (progressive), C08 (A/B protocol) ---------- *)
Definition lvl (e_info e_data : Z) : Z :=
  if (e_info =? 0) && (e_data =? 0) then 0 else 2 * e_info + 3 * e_data - 1.

(* what a reception of `byte` with block errors (eb, e) does to a cell holding `old` *)
Definition cell_after (info data : Z) (progressive : bool) (old : Z * Z) (byte e_b e : Z) : Z * Z :=
  if (info <? e_b) || (data <? e) then old
  else
    let l := lvl e_b e in
    if progressive && (snd old <? l) then old
    else if (byte =? 13) && negb (l =? 0) then old
    else if negb (byte =? 13) && (byte <? 32) then old
    else if (127 <=? byte) && negb (l =? 0) then old
    else
      let c := if byte =? 13 then 0 else conv byte in
      if (fst old =? c) && (snd old <=? l) then old else (c, l).

(* the cells a group addresses: (buffer, index, byte, error code of the carrying block) *)
Definition rt_slot (f : Z) : tslot := if f =? 0 then TRT0 else TRT1.
Definition writes_of (g : group) : list (tslot * nat * Z * Z) :=
  let b := gb g in
  if b_group b =? 0 then
    let p := Z.to_nat (2 * (b mod 4)) in
    [ (TPS, p, w_hi (gd g), ed g); (TPS, S p, w_lo (gd g), ed g) ]
  else if b_group b =? 2 then
    let sl := rt_slot (b_rtflag b) in
    if b_ver b =? 0 then
      let p := Z.to_nat (4 * (b mod 16)) in
      [ (sl, p, w_hi (gc g), ec g); (sl, S p, w_lo (gc g), ec g);
        (sl, S (S p), w_hi (gd g), ed g); (sl, S (S (S p)), w_lo (gd g), ed g) ]
    else
      let p := Z.to_nat (2 * (b mod 16)) in
      [ (sl, p, w_hi (gd g), ed g); (sl, S p, w_lo (gd g), ed g) ]
  else if (b_group b =? 10) && (b_ver b =? 0) then
    let p := Z.to_nat (4 * (b mod 2)) in
    [ (TPTYN, p, w_hi (gc g), ec g); (TPTYN, S p, w_lo (gc g), ec g);
      (TPTYN, S (S p), w_hi (gd g), ed g); (TPTYN, S (S (S p)), w_lo (gd g), ed g) ]
  else [].
Definition tslot_eqb (x y : tslot) : bool :=
  match x, y with TPS, TPS | TRT0, TRT0 | TRT1, TRT1 | TPTYN, TPTYN => true | _, _ => false end.
Definition addressed (ws : list (tslot * nat * Z * Z)) (sl : tslot) (i : nat) : bool :=
  existsb (fun '(sl', p, _, _) => tslot_eqb sl' sl && Nat.eqb p i) ws.

(* A/B flag of the last type-2 group with an error-free block B since the last reset *)
Fixpoint h_last_rt (hist : list op) : Z :=
  match hist with
  | [] => -1
  | o :: r =>
    if is_reset o then -1
    else match op_group o with
         | Some g => if (b_group (gb g) =? 2) && (eb g =? 0) then b_rtflag (gb g) else h_last_rt r
         | None => h_last_rt r
         end
  end.
Definition is_type2 (g : group) : bool := b_group (gb g) =? 2.
(* the group is a type-2 group that switches the A/B flag (error-free B, a flag seen before) *)
Definition rt_switch (hist : list op) (g : group) : bool :=
  let last := h_last_rt (tl hist) in
  is_type2 g && (eb g =? 0) && negb (last =? -1) && negb (last =? b_rtflag (gb g)).
(* the group is a type-2 group ignored as a possible bit-flip of the flag *)
Definition rt_ignored (hist : list op) (g : group) : bool :=
  let last := h_last_rt (tl hist) in
  is_type2 g && negb (eb g =? 0) && negb (last =? -1) && negb (last =? b_rtflag (gb g)).

Definition empty_pair : Z * Z := (32, 10).
Definition all_cells (n : nat) (p : nat -> bool) : bool := forallb p (seq 0 n).

(* C06: every addressed cell holds what cell_after prescribes, with the thresholds and the
   progressive flag of that text, block B's error code and the carrying block's error code *)
Definition obs_C06 (hist : list op) (b a : snapshot) (evs : list event) (ret : Z) : bool :=
  match cur_group hist with
  | None => true
  | Some g =>
    if rt_ignored hist g then true
    else
      forallb (fun '(sl, p, byte, e) =>
                 let t := tid_of sl in
                 let old := if rt_switch hist g && ts_avail (sn_text sl b) then empty_pair
                            else tcell (sn_text sl b) p in
                 pair_eqb (tcell (sn_text sl a) p)
                          (cell_after (cfg_corr b t INFO) (cfg_corr b t DATA) (cfg_prog b t)
                                      old byte (eb g) e))
              (writes_of g)
      && forallb (fun sl => forallb (fun '(c, l) => (0 <=? l) && (l <=? 10))
                                    (ts_cells (sn_text sl a))) [TPS; TRT0; TRT1; TPTYN]
  end.

(* C02: error-free receptions land in the addressed cells through the table; no other cell of
   any text changes, except that a type-2 group with an error-free block B may first empty
   the buffer it selects (C08 says when) *)
Definition cell_ef (old : Z * Z) (byte : Z) : Z * Z :=
  if byte =? 13 then (0, 0) else if byte <? 32 then old else (conv byte, 0).
Definition obs_C02 (hist : list op) (b a : snapshot) (evs : list event) (ret : Z) : bool :=
  match hist with
  | [] => true
  | o :: _ =>
    if is_reset o then true
    else
      let ws := match op_group o with Some g => writes_of g | None => [] end in
      let may_clear sl := match op_group o with
                          | Some g => is_type2 g && (eb g =? 0) && tslot_eqb sl (rt_slot (b_rtflag (gb g)))
                          | None => false end in
      forallb (fun sl =>
                 let tb := sn_text sl b in let ta := sn_text sl a in
                 let n := length (ts_cells tb) in
                 Nat.eqb (length (ts_cells ta)) n
                 && (all_cells n (fun i => addressed ws sl i || pair_eqb (tcell ta i) (tcell tb i))
                     || (may_clear sl
                         && all_cells n (fun i => addressed ws sl i || pair_eqb (tcell ta i) empty_pair))))
              [TPS; TRT0; TRT1; TPTYN]
      && match op_group o with
         | Some g =>
           if eb g =? 0 then
             forallb (fun '(sl, p, byte, e) =>
                        if e =? 0 then
                          pair_eqb (tcell (sn_text sl a) p) (cell_ef (tcell (sn_text sl b) p) byte)
                          || (may_clear sl && pair_eqb (tcell (sn_text sl a) p) (cell_ef empty_pair byte))
                        else true)
                     ws
           else true
         | None => true
         end
  end.

(* C07: with progressive correction on for a text, no cell's level ever rises and a cell is
   rewritten only by a reception addressed to it whose level is not worse than the cell's
   (resets excepted: clear/init, and for RT the switch of the A/B flag) *)
Definition obs_C07 (hist : list op) (b a : snapshot) (evs : list event) (ret : Z) : bool :=
  match hist with
  | [] => true
  | o :: _ =>
    if is_reset o then true
    else
      let og := op_group o in
      let ws := match og with Some g => writes_of g | None => [] end in
      forallb (fun sl =>
                 if cfg_prog b (tid_of sl) then
                   let exempt := match og with
                                 | Some g => is_type2 g && (eb g =? 0)
                                             && negb (h_last_rt (tl hist) =? b_rtflag (gb g))
                                             && tslot_eqb sl (rt_slot (b_rtflag (gb g)))
                                 | None => false end in
                   exempt
                   || let tb := sn_text sl b in let ta := sn_text sl a in
                      all_cells (length (ts_cells tb))
                        (fun i =>
                           (snd (tcell ta i) <=? snd (tcell tb i))
                           && (pair_eqb (tcell ta i) (tcell tb i)
                               || match og with
                                  | Some g =>
                                    existsb (fun '(sl', p, _, e) =>
                                               tslot_eqb sl' sl && Nat.eqb p i
                                               && (snd (tcell ta i) =? lvl (eb g) e)) ws
                                  | None => false
                                  end))
                 else true)
              [TPS; TRT0; TRT1; TPTYN]
  end.

(* C08: the RadioText A/B protocol *)
Definition is_rt_event (e : event) : bool := field_eqb (ev_field e) FRT.
(* "the buffer holds something", read off the cells themselves (not off the availability getter,
   whose consistency with the cells is C16's business): some cell was received *)
Definition cells_avail (t : tsnap) : bool := existsb (fun p => negb (snd p =? 10)) (ts_cells t).
Definition obs_C08 (hist : list op) (b a : snapshot) (evs : list event) (ret : Z) : bool :=
  match hist with
  | [] => true
  | o :: _ =>
    if is_reset o then true
    else
      let rte := filter is_rt_event evs in
      match op_group o with
      | Some g =>
        if is_type2 g then
          let f := b_rtflag (gb g) in
          let sl := rt_slot f in let other := rt_slot (1 - f) in
          let ws := writes_of g in
          let tb := sn_text sl b in let ta := sn_text sl a in
          let n := length (ts_cells tb) in
          (* never the buffer of the other flag; RT callbacks carry this group's flag *)
          tsnap_eqb (sn_text other a) (sn_text other b)
          && forallb (fun e => match ev_arg e with AFlag x => x =? f | _ => false end) rte
          && (length rte <=? 1)%nat
          && if rt_ignored hist g then
               tsnap_eqb ta tb && match rte with [] => true | _ => false end
             else if rt_switch hist g && cells_avail tb then
               (* the selected buffer is emptied first; the callback reports it *)
               all_cells n (fun i => addressed ws sl i || pair_eqb (tcell ta i) empty_pair)
               && (if h_cb hist FRT =? 0 then true else (length rte =? 1)%nat)
             else
               all_cells n (fun i => addressed ws sl i || pair_eqb (tcell ta i) (tcell tb i))
               (* ... and it is not ignored: if some addressed cell is due to change, one does *)
               && (negb (existsb (fun '(sl', p, byte, e) =>
                                    negb (pair_eqb (cell_after (cfg_corr b RT INFO) (cfg_corr b RT DATA) (cfg_prog b RT)
                                                               (tcell tb p) byte (eb g) e) (tcell tb p))) ws)
                   || existsb (fun '(sl', p, _, _) => negb (pair_eqb (tcell ta p) (tcell tb p))) ws)
        else
          tsnap_eqb (sn_rt0 a) (sn_rt0 b) && tsnap_eqb (sn_rt1 a) (sn_rt1 b)
          && match rte with [] => true | _ => false end
      | None =>
        tsnap_eqb (sn_rt0 a) (sn_rt0 b) && tsnap_eqb (sn_rt1 a) (sn_rt1 b)
        && match rte with [] => true | _ => false end
      end
  end.

(* ---------- C16: well-formed text buffers ---------- *)
Fixpoint first_zero (l : list (Z * Z)) : Z :=
  match l with
  | [] => 0
  | (c, _) :: r => if c =? 0 then 0 else 1 + first_zero r
  end.
Definition in_table (c : Z) : bool :=
  existsb (fun i => conv (Z.of_nat i + 32) =? c) (seq 0 224).
Definition printable (c : Z) : bool :=
  (32 <=? c) && negb ((127 <=? c) && (c <=? 159)).
Definition tsnap_wf (cap : nat) (tb t : tsnap) : bool :=
  Nat.eqb (length (ts_cells t)) cap
  && (ts_term t =? 0)
  && forallb (fun '(c, l) => (0 <=? l) && (l <=? 10) && (if l =? 10 then c =? 32 else true)
                             && ((c =? 0) || printable c))
             (ts_cells t)
  && Bool.eqb (ts_avail t) (existsb (fun '(c, l) => negb (l =? 10)) (ts_cells t))
  && (ts_len t =? first_zero (ts_cells t))
  (* a character that appeared in this call is one of the table (or the end-of-text marker) *)
  && all_cells cap (fun i => (fst (tcell t i) =? fst (tcell tb i)) || (fst (tcell t i) =? 0)
                             || in_table (fst (tcell t i))).
Definition obs_C16 (hist : list op) (b a : snapshot) (evs : list event) (ret : Z) : bool :=
  tsnap_wf 8 (sn_ps b) (sn_ps a) && tsnap_wf 64 (sn_rt0 b) (sn_rt0 a)
  && tsnap_wf 64 (sn_rt1 b) (sn_rt1 a) && tsnap_wf 8 (sn_ptyn b) (sn_ptyn a)
  && forallb (fun e => match ev_sample e with
                       | SmText t => tsnap_wf (length (ts_cells t)) t t
                       | _ => true end) evs.

(* ---------- C04: a callback fires exactly when its field changes, and sees the new value ---------- *)
Definition count_field (f : field) (evs : list event) : nat :=
  length (filter (fun e => field_eqb (ev_field e) f) evs).
Definition scalar_of (f : sfield) (sn : snapshot) : Z :=
  match f with SPi => sn_pi sn | SPty => sn_pty sn | STp => sn_tp sn | STa => sn_ta sn
             | SMs => sn_ms sn | SEcc => sn_ecc sn | SCountry => sn_country sn end.
Definition scalar_events_ok (hist : list op) (b a : snapshot) (evs : list event) (f : sfield) : bool :=
  let changed := negb (scalar_of f a =? scalar_of f b) in
  let want := if changed && negb (h_cb hist (field_of f) =? 0) then 1%nat else 0%nat in
  Nat.eqb (count_field (field_of f) evs) want
  && forallb (fun e => if field_eqb (ev_field e) (field_of f)
                       then match ev_sample e with SmZ v => v =? scalar_of f a | _ => false end
                       else true) evs.
Definition text_events_ok (hist : list op) (b a : snapshot) (evs : list event)
           (f : field) (sl : tslot) : bool :=
  let changed := negb (tsnap_eqb (sn_text sl a) (sn_text sl b)) in
  let want := if changed && negb (h_cb hist f =? 0) then 1%nat else 0%nat in
  Nat.eqb (count_field f evs) want
  && forallb (fun e => if field_eqb (ev_field e) f
                       then match ev_sample e with SmText t => tsnap_eqb t (sn_text sl a) | _ => false end
                       else true) evs.
Definition obs_C04 (hist : list op) (b a : snapshot) (evs : list event) (ret : Z) : bool :=
  match hist with
  | [] => true
  | o :: _ =>
    match op_group o with
    | None =>
      (* not a (successful) parse call: no callback at all *)
      match evs with [] => true | _ => false end
    | Some g =>
      forallb (scalar_events_ok hist b a evs) [SPi; SPty; STp; STa; SMs; SEcc; SCountry]
      && text_events_ok hist b a evs FPS TPS
      && text_events_ok hist b a evs FPTYN TPTYN
      (* RT: the buffer of this group's flag; additionally when a switch discards the old text *)
      && (let f := b_rtflag (gb g) in
          let sl := rt_slot f in
          let rte := filter is_rt_event evs in
          if is_type2 g then
            let changed := negb (tsnap_eqb (sn_text sl a) (sn_text sl b))
                           || (rt_switch hist g && ts_avail (sn_text sl b)) in
            let want := if changed && negb (h_cb hist FRT =? 0) then 1%nat else 0%nat in
            Nat.eqb (length rte) want
            && forallb (fun e => match ev_arg e, ev_sample e with
                                 | AFlag x, SmText t => (x =? f) && tsnap_eqb t (sn_text sl a)
                                 | _, _ => false end) rte
            && tsnap_eqb (sn_text (rt_slot (1 - f)) a) (sn_text (rt_slot (1 - f)) b)
          else
            match rte with [] => true | _ => false end
            && tsnap_eqb (sn_rt0 a) (sn_rt0 b) && tsnap_eqb (sn_rt1 a) (sn_rt1 b))
      (* AF: exactly one callback per frequency that became listed in this call, passing it *)
      && af_changes_ok hist b a evs
      (* every callback got the user data most recently set and the registered function *)
      && forallb (fun e => (ev_cb e =? h_cb hist (ev_field e)) && negb (ev_cb e =? 0)) evs
    end
  end.

End WithTables.

(* ---------- C12: clock time ---------- *)
Definition is_leap (y : Z) : bool :=
  ((y mod 4 =? 0) && negb (y mod 100 =? 0)) || (y mod 400 =? 0).
Definition days_in_month (y m : Z) : Z :=
  if m =? 2 then (if is_leap y then 29 else 28)
  else if (m =? 4) || (m =? 6) || (m =? 9) || (m =? 11) then 30 else 31.
Definition days_before_month (y m : Z) : Z :=
  nth (Z.to_nat (m - 1)) [0; 31; 59; 90; 120; 151; 181; 212; 243; 273; 304; 334] 0
  + (if (3 <=? m) && is_leap y then 1 else 0).
(* Modified Julian Day of a proleptic Gregorian calendar date (MJD 0 = 1858-11-17) *)
Definition mjd_of_civil (y m d : Z) : Z :=
  let y1 := y - 1 in
  365 * y1 + y1 / 4 - y1 / 100 + y1 / 400 + days_before_month y m + d - 678576.
Definition valid_date (y m d : Z) : bool :=
  (1 <=? m) && (m <=? 12) && (1 <=? d) && (d <=? days_in_month y m).
Definition ct_mjd (g : group) : Z := (gb g mod 4) * 32768 + gc g / 2.
Definition ct_hour (g : group) : Z := (gc g mod 2) * 16 + gd g / 4096.
Definition ct_minute (g : group) : Z := (gd g / 64) mod 64.
Definition ct_offset (g : group) : Z :=          (* half hours, sign-magnitude *)
  if (gd g / 32) mod 2 =? 0 then gd g mod 32 else - (gd g mod 32).
Definition is_ct_event (e : event) : bool := field_eqb (ev_field e) FCT.
Definition ct_report_ok (g : group) (e : event) : bool :=
  match ev_arg e with
  | ACT y m d h mi off =>
    valid_date y m d && (0 <=? h) && (h <? 24) && (0 <=? mi) && (mi <? 60)
    && (off =? 30 * ct_offset g)
    && (1440 * mjd_of_civil y m d + 60 * h + mi
        =? 1440 * ct_mjd g + 60 * ct_hour g + ct_minute g + 30 * ct_offset g)
  | _ => false
  end.
Definition ct_due (g : group) : bool :=
  (b_group (gb g) =? 4) && (b_ver (gb g) =? 0) && (eb g =? 0) && (ec g =? 0) && (ed g =? 0)
  && (ct_hour g <? 24) && (ct_minute g <? 60).
Definition obs_C12 (hist : list op) (b a : snapshot) (evs : list event) (ret : Z) : bool :=
  let cts := filter is_ct_event evs in
  match cur_group hist with
  | Some g =>
    if ct_due g && negb (h_cb hist FCT =? 0)
    then match cts with [e] => ct_report_ok g e | _ => false end
    else match cts with [] => true | _ => false end
  | None => match cts with [] => true | _ => false end
  end.

(* ---------- C14: hex-string input ---------- *)
Definition is_hexdigit (c : Z) : bool :=
  ((48 <=? c) && (c <=? 57)) || ((65 <=? c) && (c <=? 70)) || ((97 <=? c) && (c <=? 102)).
Definition hex_ok (l : list Z) : bool :=
  (Nat.eqb (length l) 16 || Nat.eqb (length l) 18) && forallb is_hexdigit l.
Definition digit_val (c : Z) : Z :=
  if c <=? 57 then c - 48 else if c <=? 70 then c - 55 else c - 87.
Fixpoint hex_value (l : list Z) (acc : Z) : Z :=
  match l with [] => acc | c :: r => hex_value r (16 * acc + digit_val c) end.
(* the group a well-formed string denotes: four big-endian blocks, error byte split 7-6 .. 1-0 *)
Definition decode (l : list Z) : group :=
  let e := hex_value (skipn 16 l) 0 in
  mkgroup (hex_value (firstn 4 l) 0) (hex_value (firstn 4 (skipn 4 l)) 0)
          (hex_value (firstn 4 (skipn 8 l)) 0) (hex_value (firstn 4 (skipn 12 l)) 0)
          ((e / 64) mod 4) ((e / 16) mod 4) ((e / 4) mod 4) (e mod 4).
Definition obs_C14 (hist : list op) (b a : snapshot) (evs : list event) (ret : Z) : bool :=
  match hist with
  | OParseString str :: _ =>
    let ok := match str with Some l => hex_ok l | None => false end in
    (ret =? b2z ok)
    && (if ok then true else snapshot_eqb a b && match evs with [] => true | _ => false end)
  | _ => true
  end.

(* ---------- C15: what every callback is handed ---------- *)
Definition obs_C15 (hist : list op) (b a : snapshot) (evs : list event) (ret : Z) : bool :=
  forallb (fun e => (ev_ud e =? h_ud hist) && (ev_cb e =? h_cb hist (ev_field e))
                    && negb (ev_cb e =? 0)) evs
  && match hist with
     | (OSetUD _ | ORegister _ _) :: _ => snapshot_eqb a b && match evs with [] => true | _ => false end
     | _ => true
     end.

(* ---------- C03: which blocks a group's processing may look at ---------- *)
Definition text_of_b (b : Z) : option text_id :=
  if b_group b =? 0 then Some PS
  else if b_group b =? 2 then Some RT
  else if (b_group b =? 10) && (b_ver b =? 0) then Some PTYN
  else None.
Definition used_b (cfg : snapshot) (e_b b : Z) : bool :=
  (e_b =? 0) || match text_of_b b with Some t => e_b <=? cfg_corr cfg t INFO | None => false end.
Definition used_c (cfg : snapshot) (g : group) : bool :=
  let b := gb g in
  ((b_ver b =? 0) && ((b_group b =? 0) || (b_group b =? 1)) && (eb g =? 0) && (ec g =? 0))
  || ((b_ver b =? 0) && (b_group b =? 4) && (eb g =? 0) && (ec g =? 0) && (ed g =? 0))
  || ((b_ver b =? 0) && (b_group b =? 2) && (eb g <=? cfg_corr cfg RT INFO) && (ec g <=? cfg_corr cfg RT DATA))
  || ((b_ver b =? 0) && (b_group b =? 10) && (eb g <=? cfg_corr cfg PTYN INFO) && (ec g <=? cfg_corr cfg PTYN DATA)).
Definition used_d (cfg : snapshot) (g : group) : bool :=
  let b := gb g in
  ((b_group b =? 0) && (eb g <=? cfg_corr cfg PS INFO) && (ed g <=? cfg_corr cfg PS DATA))
  || ((b_group b =? 2) && (eb g <=? cfg_corr cfg RT INFO) && (ed g <=? cfg_corr cfg RT DATA))
  || ((b_ver b =? 0) && (b_group b =? 10) && (eb g <=? cfg_corr cfg PTYN INFO) && (ed g <=? cfg_corr cfg PTYN DATA))
  || ((b_ver b =? 0) && (b_group b =? 4) && (eb g =? 0) && (ec g =? 0) && (ed g =? 0)).
(* the bits of a block B that is accepted with a corrected error (only as the address of text
   characters): group type and version, and the cell address (type 0: 2 bits; type 2: A/B flag and
   4 bits; 10A: 1 bit).  PTY, TP, TA, MS and the remaining bits are accepted error-free only. *)
Definition b_key (b : Z) : Z :=
  (b / 2048) * 32
  + (if b_group b =? 0 then b mod 4 else if b_group b =? 2 then b mod 32
     else if (b_group b =? 10) && (b_ver b =? 0) then b mod 2 else 0).
Definition b_equiv (e_b b b' : Z) : bool := if e_b =? 0 then b =? b' else b_key b =? b_key b'.
(* g and g' carry the same error codes and agree on every block — for a corrected block B: on every
   bit of it — that is accepted *)
Definition dontcare_equiv (cfg : snapshot) (g g' : group) : bool :=
  (ea g =? ea g') && (eb g =? eb g') && (ec g =? ec g') && (ed g =? ed g')
  && ((negb (ea g =? 0)) || (ga g =? ga g'))
  && (if used_b cfg (eb g) (gb g) || used_b cfg (eb g) (gb g') then
        b_equiv (eb g) (gb g) (gb g')
        && (negb (used_c cfg g) || (gc g =? gc g'))
        && (negb (used_d cfg g) || (gd g =? gd g'))
      else true).
