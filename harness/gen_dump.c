/* gen_dump.c — prints the complete function graphs of the library's lookup
 * functions and its compile-time constants as Gallina definitions (coq/Gen.v).
 * Compiled against the CURRENT /repo sources on every run (see tools/check.py).
 *
 * Modes:   gen_dump main     -> everything except conv_narrow   (default build)
 *          gen_dump narrow   -> conv_narrow only (built with -DRDSPARSER_DISABLE_UNICODE)
 *
 * Uses the public API, librdsparser_private.h and rdsparser_ecc_lookup (ecc.h),
 * which the repository's own test-suite calls as well.
 */
#include <stdio.h>
#include <string.h>
#include <stdlib.h>
#include <librdsparser.h>
#include <librdsparser_private.h>
#include "ecc.h"

static FILE *progress;

static void
note(const char *what, long a, long b)
{
    /* last line of the progress file names the call being made, so that a
       crash inside the library (sanitizer abort) can be reported as an input */
    if (progress)
    {
        rewind(progress);
        fprintf(progress, "%s %ld %ld                    \n", what, a, b);
        fflush(progress);
    }
}

static void
print_bytes(const char *s)
{
    if (!s)
    {
        printf("[-1]");
        return;
    }
    printf("[");
    for (size_t i = 0; s[i]; i++)
    {
        printf("%s%d", i ? ";" : "", (int)(unsigned char)s[i]);
    }
    printf("]");
}

static void
dump_conv(const char *name)
{
    printf("Definition %s : list Z := [", name);
    for (int b = 0; b < 256; b++)
    {
        rdsparser_t rds;
        rdsparser_data_t data = { 0x1000, 0x0000, 0xE0E0, (uint16_t)(b << 8 | 0x20) };
        rdsparser_error_t errors = { 0, 0, 0, 0 };
        note("conv", b, 0);
        rdsparser_init(&rds);
        rdsparser_parse(&rds, data, errors);
        const rdsparser_string_t *ps = rdsparser_get_ps(&rds);
        long v = -1;
        if (rdsparser_string_get_errors(ps)[0] != RDSPARSER_STRING_ERROR_UNCORRECTABLE)
        {
            v = (long)rdsparser_string_get_content(ps)[0];
        }
        printf("%s%ld", b ? ";" : "", v);
        if (b % 16 == 15) printf("\n  ");
    }
    printf("]%%Z.\n\n");
}

#define CONST(n) printf("Definition c_%s : Z := (%ld)%%Z.\n", #n, (long)(n))

int
main(int argc, char **argv)
{
    const char *mode = argc > 1 ? argv[1] : "main";
    progress = argc > 2 ? fopen(argv[2], "w") : NULL;

    if (strcmp(mode, "narrow") == 0)
    {
        dump_conv("conv_narrow");
        printf("Definition c_sizeof_char_narrow : Z := %ld%%Z.\n", (long)sizeof(rdsparser_string_char_t));
        return 0;
    }
    const int all = strcmp(mode, "main") == 0;
#define SECTION(name) if (all || strcmp(mode, name) == 0)

    SECTION("consts")
    {
    CONST(RDSPARSER_AF_BUFFER_SIZE);
    CONST(RDSPARSER_PS_LENGTH);
    CONST(RDSPARSER_RT_LENGTH);
    CONST(RDSPARSER_PTYN_LENGTH);
    CONST(RDSPARSER_BLOCK_A); CONST(RDSPARSER_BLOCK_B); CONST(RDSPARSER_BLOCK_C); CONST(RDSPARSER_BLOCK_D);
    CONST(RDSPARSER_BLOCK_COUNT);
    CONST(RDSPARSER_BLOCK_ERROR_NONE); CONST(RDSPARSER_BLOCK_ERROR_SMALL);
    CONST(RDSPARSER_BLOCK_ERROR_LARGE); CONST(RDSPARSER_BLOCK_ERROR_UNCORRECTABLE);
    CONST(RDSPARSER_BLOCK_TYPE_INFO); CONST(RDSPARSER_BLOCK_TYPE_DATA); CONST(RDSPARSER_BLOCK_TYPE_COUNT);
    CONST(RDSPARSER_TEXT_PS); CONST(RDSPARSER_TEXT_RT); CONST(RDSPARSER_TEXT_PTYN); CONST(RDSPARSER_TEXT_COUNT);
    CONST(RDSPARSER_STRING_ERROR_NONE); CONST(RDSPARSER_STRING_ERROR_LARGEST);
    CONST(RDSPARSER_STRING_ERROR_UNCORRECTABLE);
    CONST(RDSPARSER_RT_FLAG_A); CONST(RDSPARSER_RT_FLAG_B); CONST(RDSPARSER_RT_FLAG_COUNT);
    CONST(RDSPARSER_PI_UNKNOWN); CONST(RDSPARSER_PTY_UNKNOWN); CONST(RDSPARSER_TP_UNKNOWN);
    CONST(RDSPARSER_TA_UNKNOWN); CONST(RDSPARSER_MS_UNKNOWN); CONST(RDSPARSER_ECC_UNKNOWN);
    CONST(RDSPARSER_COUNTRY_UNKNOWN); CONST(RDSPARSER_COUNTRY_COUNT);
    printf("Definition c_sizeof_char : Z := %ld%%Z.\n", (long)sizeof(rdsparser_string_char_t));
    printf("Definition c_sizeof_rdsparser : Z := %ld%%Z.\n", (long)sizeof(rdsparser_t));
    printf("Definition c_string_size_ps : Z := %ld%%Z.\n", (long)RDSPARSER_STRING_SIZE(RDSPARSER_PS_LENGTH));
    printf("Definition c_string_size_rt : Z := %ld%%Z.\n", (long)RDSPARSER_STRING_SIZE(RDSPARSER_RT_LENGTH));
    printf("Definition c_string_size_ptyn : Z := %ld%%Z.\n\n", (long)RDSPARSER_STRING_SIZE(RDSPARSER_PTYN_LENGTH));

    /* enumerator names (scraped from the header by tools/check.py), values from the compiler */
    printf("Definition country_enum : list (string * Z) := [\n");
    {
        static const struct { const char *name; long value; } names[] = {
#include "enum_names.inc"
        };
        const size_t n = sizeof(names) / sizeof(names[0]);
        for (size_t i = 0; i < n; i++)
        {
            printf("  (\"%s\"%%string, %ld%%Z)%s\n", names[i].name, names[i].value, i + 1 < n ? ";" : "");
        }
    }
    printf("].\n\n");
    }

    SECTION("conv")
    {
    dump_conv("conv_unicode");
    }

    SECTION("ecc")
    {
    /* ECC lookup: complete graph over 16 PI country nibbles x 256 ECC values */
    printf("Definition ecc_lut : list (list Z) := [\n");
    for (int nib = 0; nib < 16; nib++)
    {
        printf(" [");
        for (int ecc = 0; ecc < 256; ecc++)
        {
            note("ecc_lookup", nib << 12, ecc);
            printf("%s%d", ecc ? ";" : "", (int)rdsparser_ecc_lookup(nib << 12, ecc));
        }
        printf("]%s\n", nib < 15 ? ";" : "");
    }
    printf("]%%Z.\n\n");
    /* claims that make the 16x256 table the complete graph: PI unknown gives 0,
       the low 12 bits of PI are irrelevant */
    {
        long bad_pi = -2, bad_ecc = -2;
        for (int ecc = 0; ecc < 256 && bad_pi == -2; ecc++)
        {
            note("ecc_lookup", -1, ecc);
            if (rdsparser_ecc_lookup(-1, ecc) != 0) { bad_pi = -1; bad_ecc = ecc; }
        }
        for (long pi = 0; pi < 65536 && bad_pi == -2; pi++)
        {
            for (int ecc = 0; ecc < 256; ecc++)
            {
                if (rdsparser_ecc_lookup(pi, ecc) != rdsparser_ecc_lookup(pi & 0xF000, ecc))
                {
                    bad_pi = pi; bad_ecc = ecc; break;
                }
            }
        }
        printf("(* ecc graph check: first (pi, ecc) breaking 'unknown PI gives 0 / low 12 bits irrelevant', -2 = none *)\n");
        printf("Definition ecc_graph_bad_pi : Z := (%ld)%%Z.\nDefinition ecc_graph_bad_ecc : Z := (%ld)%%Z.\n\n", bad_pi, bad_ecc);
    }

    }

    /* PTY lookups: all 256 argument values (index i stands for (int8_t)i), RDS and RBDS.
       "a constant string": every result is HELD while all the other lookups of the section are made
       and read only afterwards, so that a result living in a buffer that a later call reuses shows. */
    SECTION("pty")
    {
        const char *(*fn[3])(rdsparser_pty_t, bool) =
            { rdsparser_pty_lookup_name, rdsparser_pty_lookup_short, rdsparser_pty_lookup_long };
        const char *nm[3] = { "name", "short", "long" };
        static const char *held[3][2][256];
        for (int k = 0; k < 3; k++)
        {
            for (int rbds = 0; rbds < 2; rbds++)
            {
                for (int i = 0; i < 256; i++)
                {
                    note(nm[k], (int8_t)i, rbds);
                    held[k][rbds][i] = fn[k]((int8_t)i, rbds);
                }
            }
        }
        for (int k = 0; k < 3; k++)
        {
            for (int rbds = 0; rbds < 2; rbds++)
            {
                printf("Definition pty_%s_%s : list (list Z) := [\n", rbds ? "rbds" : "rds", nm[k]);
                for (int i = 0; i < 256; i++)
                {
                    note(nm[k], (int8_t)i, rbds);
                    printf("  ");
                    print_bytes(held[k][rbds][i]);
                    printf("%s\n", i < 255 ? ";" : "");
                }
                printf("]%%Z.\n\n");
            }
        }
    }

    /* country lookups: all 256 argument values, results held as above */
    SECTION("country")
    {
    static const char *hname[256], *hiso[256];
    for (int i = 0; i < 256; i++)
    {
        note("country_lookup_name", i, 0);
        hname[i] = rdsparser_country_lookup_name((rdsparser_country_t)i);
        note("country_lookup_iso", i, 0);
        hiso[i] = rdsparser_country_lookup_iso((rdsparser_country_t)i);
    }
    printf("Definition country_name : list (list Z) := [\n");
    for (int i = 0; i < 256; i++)
    {
        note("country_lookup_name", i, 0);
        printf("  ");
        print_bytes(hname[i]);
        printf("%s\n", i < 255 ? ";" : "");
    }
    printf("]%%Z.\n\n");
    printf("Definition country_iso : list (list Z) := [\n");
    for (int i = 0; i < 256; i++)
    {
        note("country_lookup_iso", i, 0);
        printf("  ");
        print_bytes(hiso[i]);
        printf("%s\n", i < 255 ? ";" : "");
    }
    printf("]%%Z.\n");
    }
    return 0;
}
