/* rds_harness.c — executes an op script through the public API of librdsparser (compiled
 * from the current /repo sources into this program) and prints a canonical trace.
 *
 *   rds_harness <script> [mode]          mode: "full" prints every key after every op,
 *                                        default prints only keys whose value changed
 *
 * Script, one op per line, first token = instance index k (0..NINST-1):
 *   k I fill      rdsparser_init on harness-owned storage pre-filled with byte <fill>
 *   k N ok        rdsparser_new (heap builds); the allocation succeeds iff ok=1
 *   k F           rdsparser_free (instance may be NULL)
 *   k C           rdsparser_clear
 *   k P a b c d ea eb ec ed     rdsparser_parse (hex blocks, decimal error codes)
 *   k S hex|NULL|-              rdsparser_parse_string; C string given as hex of its bytes
 *   k X v | k T text type err | k G text v | k U token | k R field id
 *   k V / k W     harness-level save / restore of the instance (memcpy of the object)
 *   k Y id R field newid | k Y id U token
 *                 re-entrancy: from now on, whenever a callback function of family <id> is invoked
 *                 on instance k it calls rdsparser_register_<field>(newid) / rdsparser_set_user_data
 *                 on its own parser from inside the callback (actions run in the order given)
 *   = name        start of a new script: all instances are dropped
 *   ? ...         twin-run assertion for the model driver; ignored here
 *
 * Trace: "= name" echoed; per op "O <n>"; events "E field cbid ud inst args | sample"
 * (in the order the callbacks were made); "R ret"; then "D inst key value" for every key that changed.
 * Integers only; no addresses.
 */
#define _GNU_SOURCE
#include <stdio.h>
#include <stdlib.h>
#include <string.h>
#include <stdint.h>
#include <librdsparser.h>
#include <librdsparser_private.h>

#ifdef HARNESS_MT
#include <pthread.h>
#define TLS __thread
#else
#define TLS
#endif
#if defined(__has_feature)
#if __has_feature(memory_sanitizer)
#include <sanitizer/msan_interface.h>
#define HARNESS_MSAN 1
#endif
#endif
#define NINST 8
#define GUARD 64
#define NKEYS 13
#define VALSZ 1024

typedef struct
{
    unsigned char pre[GUARD];
    rdsparser_t obj;
    unsigned char post[GUARD];
} slot_t;

static TLS slot_t slots[NINST];
static TLS rdsparser_t *inst[NINST];
static TLS int on_heap[NINST];
static TLS unsigned char saved[NINST][sizeof(rdsparser_t)];
static TLS char last[NINST][NKEYS][VALSZ];
static TLS int full_mode = 0;
static TLS FILE *out;

static TLS int fail_malloc = 0;
#ifndef RDSPARSER_DISABLE_HEAP
void *__real_malloc(size_t);
void *
__wrap_malloc(size_t n)
{
    if (fail_malloc && n == sizeof(rdsparser_t))
    {
        return NULL;
    }
    return __real_malloc(n);
}
#endif

static const char *keys[NKEYS] =
    { "pi", "pty", "tp", "ta", "ms", "ecc", "country", "af", "ps", "rt0", "rt1", "ptyn", "cfg" };

/* ---- events ---- */
#define MAXEV 64
static TLS char events[MAXEV][VALSZ];
static TLS int nevents;

static int
index_of(const rdsparser_t *rds)
{
    for (int i = 0; i < NINST; i++)
    {
        if (inst[i] == rds) return i;
    }
    return -1;
}

static void
fmt_text(char *out, const rdsparser_string_t *s, int cap)
{
    const rdsparser_string_char_t *c = rdsparser_string_get_content(s);
    const rdsparser_string_error_t *e = rdsparser_string_get_errors(s);
    int n = sprintf(out, "%d %d %ld ", (int)rdsparser_string_get_length(s),
                    (int)rdsparser_string_get_available(s), (long)c[cap]);
    for (int i = 0; i < cap; i++) n += sprintf(out + n, "%s%ld", i ? "," : "", (long)c[i]);
    n += sprintf(out + n, " ");
    for (int i = 0; i < cap; i++) n += sprintf(out + n, "%s%d", i ? "," : "", (int)e[i]);
}

static void
fmt_af(char *out, const rdsparser_t *rds)
{
    const uint8_t *b = (const uint8_t *)rdsparser_get_af(rds);
    for (int i = 0; i < RDSPARSER_AF_BUFFER_SIZE; i++) sprintf(out + 2 * i, "%02x", b[i]);
}

static void
fmt_key(char *out, const rdsparser_t *rds, int k)
{
    switch (k)
    {
    case 0: sprintf(out, "%ld", (long)rdsparser_get_pi(rds)); break;
    case 1: sprintf(out, "%d", (int)rdsparser_get_pty(rds)); break;
    case 2: sprintf(out, "%d", (int)rdsparser_get_tp(rds)); break;
    case 3: sprintf(out, "%d", (int)rdsparser_get_ta(rds)); break;
    case 4: sprintf(out, "%d", (int)rdsparser_get_ms(rds)); break;
    case 5: sprintf(out, "%d", (int)rdsparser_get_ecc(rds)); break;
    case 6: sprintf(out, "%d", (int)rdsparser_get_country(rds)); break;
    case 7: fmt_af(out, rds); break;
    case 8: fmt_text(out, rdsparser_get_ps(rds), RDSPARSER_PS_LENGTH); break;
    case 9: fmt_text(out, rdsparser_get_rt(rds, RDSPARSER_RT_FLAG_A), RDSPARSER_RT_LENGTH); break;
    case 10: fmt_text(out, rdsparser_get_rt(rds, RDSPARSER_RT_FLAG_B), RDSPARSER_RT_LENGTH); break;
    case 11: fmt_text(out, rdsparser_get_ptyn(rds), RDSPARSER_PTYN_LENGTH); break;
    case 12:
        sprintf(out, "%d %d %d %d %d %d %d %d %d %d",
                (int)rdsparser_get_extended_check(rds),
                (int)rdsparser_get_text_progressive(rds, RDSPARSER_TEXT_PS),
                (int)rdsparser_get_text_progressive(rds, RDSPARSER_TEXT_RT),
                (int)rdsparser_get_text_progressive(rds, RDSPARSER_TEXT_PTYN),
                (int)rdsparser_get_text_correction(rds, RDSPARSER_TEXT_PS, RDSPARSER_BLOCK_TYPE_INFO),
                (int)rdsparser_get_text_correction(rds, RDSPARSER_TEXT_PS, RDSPARSER_BLOCK_TYPE_DATA),
                (int)rdsparser_get_text_correction(rds, RDSPARSER_TEXT_RT, RDSPARSER_BLOCK_TYPE_INFO),
                (int)rdsparser_get_text_correction(rds, RDSPARSER_TEXT_RT, RDSPARSER_BLOCK_TYPE_DATA),
                (int)rdsparser_get_text_correction(rds, RDSPARSER_TEXT_PTYN, RDSPARSER_BLOCK_TYPE_INFO),
                (int)rdsparser_get_text_correction(rds, RDSPARSER_TEXT_PTYN, RDSPARSER_BLOCK_TYPE_DATA));
        break;
    }
}

/* re-entrant scripts: per instance and callback family, a list of registration / user-data calls */
#define MAXRE 8
typedef struct { int kind; int field; int id; long tok; } reent_t;
static TLS reent_t reent[NINST][4][MAXRE];
static TLS int nreent[NINST][4];
static void do_register(rdsparser_t *r, int field, int id);

static void
add_event(rdsparser_t *rds, void *ud, int field, int id, const char *args, int sample_key)
{
    if (nevents >= MAXEV)
    {
        fprintf(stderr, "harness: too many events in one op\n");
        exit(3);
    }
    char *e = events[nevents++];
    int n = sprintf(e, "E %d %d %ld %d %s |", field, id, (long)(intptr_t)ud, index_of(rds), args);
    if (sample_key >= 0)
    {
        e[n++] = ' ';
        fmt_key(e + n, rds, sample_key);
    }
    int k = index_of(rds);
    if (k >= 0 && id >= 1 && id <= 3)
    {
        for (int i = 0; i < nreent[k][id]; i++)
        {
            const reent_t *a = &reent[k][id][i];
            if (a->kind == 'R') do_register(rds, a->field, a->id);
            else rdsparser_set_user_data(rds, (void *)(intptr_t)a->tok);
        }
    }
}

/* three families of callback functions per field, so that "which function was registered"
   is observable (cbid 1..3) */
#define SCALAR_CB(name, field, key) \
    static void cb_##name##_1(rdsparser_t *r, void *u) { add_event(r, u, field, 1, "", key); } \
    static void cb_##name##_2(rdsparser_t *r, void *u) { add_event(r, u, field, 2, "", key); } \
    static void cb_##name##_3(rdsparser_t *r, void *u) { add_event(r, u, field, 3, "", key); } \
    static void (*tab_##name[4])(rdsparser_t *, void *) = { NULL, cb_##name##_1, cb_##name##_2, cb_##name##_3 };

SCALAR_CB(pi, 0, 0)
SCALAR_CB(pty, 1, 1)
SCALAR_CB(tp, 2, 2)
SCALAR_CB(ta, 3, 3)
SCALAR_CB(ms, 4, 4)
SCALAR_CB(ecc, 5, 5)
SCALAR_CB(country, 6, 6)
SCALAR_CB(ps, 8, 8)
SCALAR_CB(ptyn, 10, 11)

#define AF_CB(id) \
    static void cb_af_##id(rdsparser_t *r, uint32_t f, void *u) \
    { char a[32]; sprintf(a, "%lu", (unsigned long)f); add_event(r, u, 7, id, a, 7); }
AF_CB(1) AF_CB(2) AF_CB(3)
static void (*tab_af[4])(rdsparser_t *, uint32_t, void *) = { NULL, cb_af_1, cb_af_2, cb_af_3 };

#define RT_CB(id) \
    static void cb_rt_##id(rdsparser_t *r, rdsparser_rt_flag_t f, void *u) \
    { char a[32]; sprintf(a, "%d", (int)f); add_event(r, u, 9, id, a, f ? 10 : 9); }
RT_CB(1) RT_CB(2) RT_CB(3)
static void (*tab_rt[4])(rdsparser_t *, rdsparser_rt_flag_t, void *) = { NULL, cb_rt_1, cb_rt_2, cb_rt_3 };

#define CT_CB(id) \
    static void cb_ct_##id(rdsparser_t *r, const rdsparser_ct_t *ct, void *u) \
    { char a[96]; sprintf(a, "%d %d %d %d %d %d", (int)rdsparser_ct_get_year(ct), \
        (int)rdsparser_ct_get_month(ct), (int)rdsparser_ct_get_day(ct), (int)rdsparser_ct_get_hour(ct), \
        (int)rdsparser_ct_get_minute(ct), (int)rdsparser_ct_get_offset(ct)); add_event(r, u, 11, id, a, -1); }
CT_CB(1) CT_CB(2) CT_CB(3)
static void (*tab_ct[4])(rdsparser_t *, const rdsparser_ct_t *, void *) = { NULL, cb_ct_1, cb_ct_2, cb_ct_3 };

static void
do_register(rdsparser_t *r, int field, int id)
{
    id &= 3;
    switch (field)
    {
    case 0: rdsparser_register_pi(r, tab_pi[id]); break;
    case 1: rdsparser_register_pty(r, tab_pty[id]); break;
    case 2: rdsparser_register_tp(r, tab_tp[id]); break;
    case 3: rdsparser_register_ta(r, tab_ta[id]); break;
    case 4: rdsparser_register_ms(r, tab_ms[id]); break;
    case 5: rdsparser_register_ecc(r, tab_ecc[id]); break;
    case 6: rdsparser_register_country(r, tab_country[id]); break;
    case 7: rdsparser_register_af(r, tab_af[id]); break;
    case 8: rdsparser_register_ps(r, tab_ps[id]); break;
    case 9: rdsparser_register_rt(r, tab_rt[id]); break;
    case 10: rdsparser_register_ptyn(r, tab_ptyn[id]); break;
    case 11: rdsparser_register_ct(r, tab_ct[id]); break;
    }
}

static void
check_guards(int k, long opno)
{
    for (int i = 0; i < GUARD; i++)
    {
        if (slots[k].pre[i] != 0xC3 || slots[k].post[i] != 0xC3)
        {
            fprintf(out, "GUARD inst %d op %ld\n", k, opno);
            fflush(out);
            exit(4);
        }
    }
}

static void
drop_all(void)
{
    for (int i = 0; i < NINST; i++)
    {
#ifndef RDSPARSER_DISABLE_HEAP
        if (inst[i] && on_heap[i]) rdsparser_free(inst[i]);
#endif
        inst[i] = NULL;
        on_heap[i] = 0;
        for (int k = 0; k < NKEYS; k++) last[i][k][0] = '\0';
        for (int k = 0; k < 4; k++) nreent[i][k] = 0;
    }
}

static void
print_deltas(void)
{
    char buf[VALSZ];
    for (int i = 0; i < NINST; i++)
    {
        if (!inst[i])
        {
            if (last[i][0][0] != '\0')
            {
                fprintf(out, "D %d gone\n", i);
                for (int k = 0; k < NKEYS; k++) last[i][k][0] = '\0';
            }
            continue;
        }
        for (int k = 0; k < NKEYS; k++)
        {
            fmt_key(buf, inst[i], k);
            if (full_mode || strcmp(buf, last[i][k]) != 0)
            {
                fprintf(out, "D %d %s %s\n", i, keys[k], buf);
                strcpy(last[i][k], buf);
            }
        }
    }
}

static int
run_script(const char *script, FILE *output, int full)
{
    out = output;
    FILE *f = fopen(script, "r");
    if (!f) { perror(script); return 2; }
    full_mode = full;
    for (int i = 0; i < NINST; i++)
    {
        memset(slots[i].pre, 0xC3, GUARD);
        memset(slots[i].post, 0xC3, GUARD);
    }

    static TLS char line[8192];
    long opno = 0;
    while (fgets(line, sizeof line, f))
    {
        size_t len = strlen(line);
        while (len && (line[len - 1] == '\n' || line[len - 1] == '\r')) line[--len] = '\0';
        if (len == 0 || line[0] == '#' || line[0] == '?') continue;
        if (line[0] == '=')
        {
            drop_all();
            opno = 0;
            fprintf(out, "%s\n", line);
            continue;
        }
        int k = 0, pos = 0;
        char opc = 0;
        if (sscanf(line, "%d %c%n", &k, &opc, &pos) < 2 || k < 0 || k >= NINST)
        {
            fprintf(stderr, "harness: bad line: %s\n", line);
            return 2;
        }
        const char *rest = line + pos;
        long ret = 0;
        nevents = 0;
        opno++;
        fprintf(out, "O %ld\n", opno);
        switch (opc)
        {
        case 'I':
        {
            int fill = 0;
            sscanf(rest, "%d", &fill);
#ifndef RDSPARSER_DISABLE_HEAP
            if (inst[k] && on_heap[k]) rdsparser_free(inst[k]);
#endif
            memset(&slots[k].obj, fill, sizeof(rdsparser_t));
#ifdef HARNESS_MSAN
            /* MemorySanitizer build: the caller's storage counts as uninitialised */
            __msan_poison(&slots[k].obj, sizeof(rdsparser_t));
#endif
            inst[k] = &slots[k].obj;
            on_heap[k] = 0;
            rdsparser_init(inst[k]);
            break;
        }
        case 'N':
        {
#ifndef RDSPARSER_DISABLE_HEAP
            int ok = 1;
            sscanf(rest, "%d", &ok);
            if (inst[k] && on_heap[k]) rdsparser_free(inst[k]);
            fail_malloc = !ok;
            inst[k] = rdsparser_new();
            fail_malloc = 0;
            on_heap[k] = inst[k] != NULL;
            ret = inst[k] != NULL;
#else
            fprintf(stderr, "harness: N in a no-heap build\n");
            return 2;
#endif
            break;
        }
        case 'F':
#ifndef RDSPARSER_DISABLE_HEAP
            if (inst[k] == NULL || on_heap[k]) rdsparser_free(inst[k]);
#endif
            inst[k] = NULL;
            on_heap[k] = 0;
            break;
        case 'C':
            rdsparser_clear(inst[k]);
            break;
        case 'P':
        {
            unsigned a, b, c, d, ea, eb, ec, ed;
            if (sscanf(rest, "%x %x %x %x %u %u %u %u", &a, &b, &c, &d, &ea, &eb, &ec, &ed) != 8)
            {
                fprintf(stderr, "harness: bad P line: %s\n", line);
                return 2;
            }
            rdsparser_data_t data = { (uint16_t)a, (uint16_t)b, (uint16_t)c, (uint16_t)d };
            rdsparser_error_t errors = { (uint8_t)ea, (uint8_t)eb, (uint8_t)ec, (uint8_t)ed };
            rdsparser_parse(inst[k], data, errors);
            break;
        }
        case 'S':
        {
            char tok[4200] = "";
            sscanf(rest, "%4199s", tok);
            if (strcmp(tok, "NULL") == 0)
            {
                ret = rdsparser_parse_string(inst[k], NULL);
            }
            else
            {
                /* exact-size heap copy so that ASan sees reads past the terminator */
                size_t n = strcmp(tok, "-") == 0 ? 0 : strlen(tok) / 2;
                char *str = malloc(n + 1);
                for (size_t i = 0; i < n; i++)
                {
                    unsigned v = 0;
                    sscanf(tok + 2 * i, "%2x", &v);
                    str[i] = (char)v;
                }
                str[n] = '\0';
                ret = rdsparser_parse_string(inst[k], str);
                free(str);
            }
            break;
        }
        case 'X':
        {
            int v = 0;
            sscanf(rest, "%d", &v);
            rdsparser_set_extended_check(inst[k], v != 0);
            break;
        }
        case 'T':
        {
            int t = 0, ty = 0, e = 0;
            sscanf(rest, "%d %d %d", &t, &ty, &e);
            rdsparser_set_text_correction(inst[k], (rdsparser_text_t)t, (rdsparser_block_type_t)ty,
                                          (rdsparser_block_error_t)e);
            break;
        }
        case 'G':
        {
            int t = 0, v = 0;
            sscanf(rest, "%d %d", &t, &v);
            rdsparser_set_text_progressive(inst[k], (rdsparser_text_t)t, v != 0);
            break;
        }
        case 'U':
        {
            long tok = 0;
            sscanf(rest, "%ld", &tok);
            rdsparser_set_user_data(inst[k], (void *)(intptr_t)tok);
            break;
        }
        case 'R':
        {
            int fld = 0, id = 0;
            sscanf(rest, "%d %d", &fld, &id);
            do_register(inst[k], fld, id);
            break;
        }
        case 'Y':
        {
            int id = 0, a = 0, b = 0;
            long tok = 0;
            char kind = 0;
            if (sscanf(rest, "%d %c", &id, &kind) != 2 || id < 1 || id > 3 || nreent[k][id] >= MAXRE)
            {
                fprintf(stderr, "harness: bad Y line: %s\n", line);
                return 2;
            }
            reent_t *r = &reent[k][id][nreent[k][id]++];
            r->kind = kind;
            if (kind == 'R') { sscanf(rest, "%d %c %d %d", &id, &kind, &a, &b); r->field = a; r->id = b; }
            else { sscanf(rest, "%d %c %ld", &id, &kind, &tok); r->tok = tok; }
            break;
        }
        case 'V':
            memcpy(saved[k], inst[k], sizeof(rdsparser_t));
            break;
        case 'W':
            memcpy(inst[k], saved[k], sizeof(rdsparser_t));
            break;
        default:
            fprintf(stderr, "harness: unknown op %c\n", opc);
            return 2;
        }
        for (int i = 0; i < nevents; i++) fprintf(out, "%s\n", events[i]);
        fprintf(out, "R %ld\n", ret);
        print_deltas();
        for (int i = 0; i < NINST; i++) check_guards(i, opno);
    }
    drop_all();
    fclose(f);
    return 0;
}

#ifndef HARNESS_MT
int
main(int argc, char **argv)
{
    if (argc < 2)
    {
        fprintf(stderr, "usage: rds_harness script [full]\n");
        return 2;
    }
    return run_script(argv[1], stdout, argc > 2 && strcmp(argv[2], "full") == 0);
}
#else
/* one thread per script, each with its own instances; traces go to <script>.mt */
static void *
thread_main(void *arg)
{
    const char *script = arg;
    char path[4096];
    snprintf(path, sizeof path, "%s.mt", script);
    FILE *o = fopen(path, "w");
    if (!o) { perror(path); return (void *)2; }
    long rc = run_script(script, o, 0);
    fclose(o);
    return (void *)rc;
}

int
main(int argc, char **argv)
{
    pthread_t th[64];
    int n = argc - 1 > 64 ? 64 : argc - 1;
    for (int i = 0; i < n; i++) pthread_create(&th[i], NULL, thread_main, argv[i + 1]);
    long bad = 0;
    for (int i = 0; i < n; i++) { void *r; pthread_join(th[i], &r); bad |= (long)r; }
    return (int)bad;
}
#endif
