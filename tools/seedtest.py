#!/usr/bin/env python3
"""seedtest.py — development aid: confirm a seeded change (patch.diff + run_demo.sh) in a scratch
worktree and run the registered checks against it.

  seedtest.py <seed_dir> [--lane N] [--props C01,C02] [--no-suite]
Prints one JSON line with the results.  The scratch worktree is removed afterwards.
"""
import json, os, subprocess, sys, shutil, argparse, time
VERIF = os.path.dirname(os.path.dirname(os.path.abspath(__file__)))
ap = argparse.ArgumentParser()
ap.add_argument("seed"); ap.add_argument("--lane", default="0"); ap.add_argument("--props", default="")
ap.add_argument("--no-suite", action="store_true"); ap.add_argument("--tier", default="quick")
a = ap.parse_args()
wt = "/tmp/wt%s" % a.lane
def sh(cmd, **kw):
    p = subprocess.run(cmd, shell=True, stdout=subprocess.PIPE, stderr=subprocess.STDOUT, **kw)
    return p.returncode, p.stdout.decode("utf-8", "replace")
sh("git -C /repo worktree remove --force %s; rm -rf %s" % (wt, wt))
rc, o = sh("git -C /repo worktree add --detach %s HEAD" % wt)
res = {"seed": a.seed}
seed = os.path.abspath(a.seed)
rc, o = sh("bash %s/run_demo.sh" % seed, cwd=wt); res["demo_clean_rc"] = rc
rc, o = sh("git apply %s/patch.diff" % seed, cwd=wt); res["apply_rc"] = rc
rc, o = sh("bash %s/run_demo.sh" % seed, cwd=wt); res["demo_patched_rc"] = rc
if not a.no_suite:
    rc, o = sh("cmake -G Ninja -S . -B _b >/dev/null 2>&1 && cmake --build _b >/dev/null 2>&1 && ctest --test-dir _b -j8 --timeout 900 2>&1 | tail -3", cwd=wt)
    res["suite_pass"] = "100% tests passed" in o
    sh("rm -rf _b", cwd=wt)
props = a.props.split(",") if a.props else ["C%02d" % i for i in range(1, 21)]
fired = {}
man = json.load(open(os.path.join(VERIF, "MANIFEST.json")))
claimed = {c["property_id"] for c in man["checks"]}
env = dict(os.environ); env["VERIF_REPO"] = wt; env["VERIF_OUT"] = "/tmp/wtout%s" % a.lane
for p in props:
    if p not in claimed: continue
    t0 = time.time()
    pr = subprocess.run([sys.executable, os.path.join(VERIF, "tools/check.py"), "--property", p, "--tier", a.tier], env=env,
                        stdout=subprocess.PIPE, stderr=subprocess.PIPE, cwd=VERIF)
    out = pr.stdout.decode()
    fired[p] = {"rc": pr.returncode, "viol": [l for l in out.splitlines() if l.startswith("VIOLATION")][:2], "t": round(time.time()-t0,1)}
res["fired"] = {p: v["rc"] for p, v in fired.items()}
res["detail"] = {p: v for p, v in fired.items() if v["rc"] != 0}
sh("git -C /repo worktree remove --force %s; rm -rf %s /tmp/wtout%s" % (wt, wt, a.lane))
print(json.dumps(res))
