"""cleaf.py — translator from the C sources of the library's *leaf functions* to Gallina.

The bit-field extractors of the group decoders, the weighted error level and the clock-time
conversion are small pure functions: straight-line code, if / else, integer expressions.  For
these the model is not written by hand and compared by execution only: this script asks clang
for the typed AST of each function (every implicit conversion is an explicit node there), and
prints one Gallina definition per function, over Z, with every C integer conversion made
explicit (to_u8, to_u16, to_u32, to_s8, to_s16, to_s32) and C's truncating division as Z.quot /
Z.rem.  coq/Lemmas_Leaf.v then proves, for all arguments in the C parameter ranges, that each
generated function equals the function the model uses; the property theorems are about those.

What is supported (anything else raises Unsupported and the caller reports it):
  parameters: the four-block array `data` (read with a constant index), integer scalars, and one
  pointer to a struct: a const struct is an input (the fields read become parameters), otherwise
  an output (result = return value and fields) or, when a field is updated in place, input and
  output; an array field is a list (p->a[i] is nth, p->a[i] = v is upd);
  statements: declarations with initialiser, assignments (=, op=, ++, --) to locals / parameters
  / fields of the out-struct, if / else if / else, return;
  expressions: integer literals, enum constants, + - * / % & | ^ << >>, comparisons, && || !,
  unary - ~, ?:, casts, parentheses.
Semantics: values are mathematical integers; a conversion to an integer type wraps (unsigned:
modulo 2^N; signed: two's complement, as gcc and clang define it); arithmetic in a signed type is
NOT wrapped (signed overflow is undefined in C; the generated definitions are only meaningful
where no signed overflow occurs — every such operation here has operands below 2^17 or is
guarded by the range hypotheses of the lemma that uses it); arithmetic in `unsigned int` wraps
modulo 2^32; shifts are by constants.

usage: cleaf.py <repo> <out.v>
"""
import json
import subprocess
import sys
import os

FUNCS = [
    # (source file, function, Coq name)
    ("src/group.c", "rdsparser_group_get_pi", "c_get_pi"),
    ("src/group.c", "rdsparser_group_get_pty", "c_get_pty"),
    ("src/group.c", "rdsparser_group_get_tp", "c_get_tp"),
    ("src/parser.c", "rdsparser_parser_get_group", "c_get_group"),
    ("src/parser.c", "rdsparser_parser_get_flag", "c_get_flag"),
    ("src/group0.c", "rdsparser_group0_get_ta", "c_get_ta"),
    ("src/group0.c", "rdsparser_group0_get_ms", "c_get_ms"),
    ("src/group0.c", "rdsparser_group0_get_ps_pos", "c_get_ps_pos"),
    ("src/group0.c", "rdsparser_group0a_get_af1", "c_get_af1"),
    ("src/group0.c", "rdsparser_group0a_get_af2", "c_get_af2"),
    ("src/group1.c", "rdsparser_group1a_get_variant", "c_get_variant"),
    ("src/group1.c", "rdsparser_group1a0_get_ecc", "c_get_ecc"),
    ("src/group2.c", "rdsparser_group2_get_rt_pos", "c_get_rt_pos"),
    ("src/group2.c", "rdsparser_group2_get_rt_flag", "c_get_rt_flag"),
    ("src/group10.c", "rdsparser_group10a_get_ptyn_pos", "c_get_ptyn_pos"),
    ("src/group4.c", "rdsparser_group4a_get_mjd", "c_get_mjd"),
    ("src/group4.c", "rdsparser_group4a_get_hour", "c_get_hour"),
    ("src/group4.c", "rdsparser_group4a_get_minute", "c_get_minute"),
    ("src/group4.c", "rdsparser_group4a_get_time_offset", "c_get_offset"),
    ("src/string.c", "rdsparser_string_calculate_error", "c_calc_error"),
    ("src/af.c", "rdsparser_af_set", "c_af_set"),
    ("src/af.c", "rdsparser_af_get", "c_af_get"),
    ("src/ct.c", "rdsparser_ct_init", "c_ct_init"),
    ("src/ct.c", "rdsparser_ct_get_year", "c_ct_get_year"),
    ("src/ct.c", "rdsparser_ct_get_month", "c_ct_get_month"),
    ("src/ct.c", "rdsparser_ct_get_day", "c_ct_get_day"),
    ("src/ct.c", "rdsparser_ct_get_hour", "c_ct_get_hour"),
    ("src/ct.c", "rdsparser_ct_get_minute", "c_ct_get_minute"),
    ("src/ct.c", "rdsparser_ct_get_offset", "c_ct_get_offset"),
]


class Unsupported(Exception):
    pass


# ---------------------------------------------------------------- types
INT_TYPES = {
    "unsigned char": (False, 8), "unsigned short": (False, 16), "unsigned int": (False, 32),
    "unsigned long": (False, 64), "signed char": (True, 8), "char": (True, 8), "short": (True, 16), "int": (True, 32),
    "long": (True, 64), "_Bool": (False, 1), "bool": (False, 1),
}


def ctype(node):
    t = node.get("type", {})
    q = t.get("desugaredQualType", t.get("qualType", ""))
    q = q.replace("const ", "").replace("volatile ", "").strip()
    if q.startswith("enum "):
        return (False, 32)          # the library's enums have no negative enumerators: unsigned int
    if q in INT_TYPES:
        return INT_TYPES[q]
    raise Unsupported("type %r" % q)


def trange(ty):
    s, n = ty
    if n == 1:
        return (0, 1)
    return (-(1 << (n - 1)), (1 << (n - 1)) - 1) if s else (0, (1 << n) - 1)


def wrap(ty, e, src_ty=None):
    """Coq term for the conversion of e to type ty"""
    s, n = ty
    if src_ty is not None:
        lo, hi = trange(src_ty)
        l2, h2 = trange(ty)
        if l2 <= lo and hi <= h2 and n != 1:
            return e                 # value-preserving conversion
    if n == 1:
        return e if e in ("0", "1") else "(if %s =? 0 then 0 else 1)" % e
    name = {(False, 8): "to_u8", (False, 16): "to_u16", (False, 32): "to_u32",
            (True, 8): "to_s8", (True, 16): "to_s16", (True, 32): "to_s32w"}.get((s, n))
    if name is None:
        raise Unsupported("conversion to %r" % (ty,))
    return "(%s %s)" % (name, e)


def lit(v):
    v = int(v)
    return str(v) if v >= 0 else "(%d)" % v


# ---------------------------------------------------------------- expressions
class Ctx:
    def __init__(self, enums, data_param, struct_param, funcs=None, depth=0):
        self.funcs = funcs or {}
        self.depth = depth
        self.enums = enums
        self.data_param = data_param
        self.struct_param = struct_param
        self.env = {}        # C variable name -> current Coq name
        self.count = {}
        self.lines = []      # let-bindings emitted so far
        self.fields = {}     # out-struct field -> current Coq name

    def fresh(self, base):
        n = self.count.get(base, 0)
        self.count[base] = n + 1
        return "%s_%d" % (base, n) if n else base

    def bind(self, cname, term, field=False):
        v = self.fresh(("f_" if field else "") + cname)
        self.lines.append("let %s := %s in" % (v, term))
        (self.fields if field else self.env)[cname] = v
        return v


def const_value(node, ctx):
    k = node["kind"]
    if k == "IntegerLiteral":
        return int(node["value"])
    if k == "ConstantExpr" and "value" in node:
        return int(node["value"])
    if k in ("ParenExpr", "ImplicitCastExpr", "CStyleCastExpr", "ConstantExpr"):
        return const_value(node["inner"][0], ctx)
    if k == "DeclRefExpr" and node["referencedDecl"]["kind"] == "EnumConstantDecl":
        return ctx.enums[node["referencedDecl"]["name"]]
    if k == "UnaryOperator" and node["opcode"] == "-":
        return -const_value(node["inner"][0], ctx)
    raise Unsupported("not a constant: %s" % k)


def lvalue_name(node, ctx):
    """('var', name) | ('field', name) | ('elem', name, index term) for an assignable expression"""
    k = node["kind"]
    if k == "ParenExpr":
        return lvalue_name(node["inner"][0], ctx)
    if k == "ArraySubscriptExpr":
        base, idx = node["inner"]
        while base["kind"] in ("ImplicitCastExpr", "ParenExpr"):
            base = base["inner"][0]
        if base["kind"] == "MemberExpr":
            kind, name = lvalue_name(base, ctx)
            if kind == "field":
                return ("elem", name, expr(idx, ctx))
        raise Unsupported("assignment to an array element")
    if k == "DeclRefExpr" and node["referencedDecl"]["kind"] in ("VarDecl", "ParmVarDecl"):
        return ("var", node["referencedDecl"]["name"])
    if k == "MemberExpr":
        base = node["inner"][0]
        while base["kind"] in ("ImplicitCastExpr", "ParenExpr"):
            base = base["inner"][0]
        if base["kind"] == "DeclRefExpr" and base["referencedDecl"]["name"] == ctx.struct_param:
            return ("field", node["name"])
    raise Unsupported("assignment target %s" % k)


def read_lvalue(node, ctx):
    lv = lvalue_name(node, ctx)
    if lv[0] == "elem":
        if lv[1] not in ctx.fields:
            raise Unsupported("read of an array field that is not an input")
        return "(nth (Z.to_nat %s) %s 0)" % (lv[2], ctx.fields[lv[1]])
    kind, name = lv
    if kind == "var":
        if name not in ctx.env:
            raise Unsupported("read of unknown variable %s" % name)
        return ctx.env[name]
    if name not in ctx.fields:
        raise Unsupported("read of a field that was not written before: %s" % name)
    return ctx.fields[name]


BIN = {"&": "Z.land", "|": "Z.lor", "^": "Z.lxor", ">>": "Z.shiftr", "<<": "Z.shiftl",
       "+": "Z.add", "-": "Z.sub", "*": "Z.mul", "/": "Z.quot", "%": "Z.rem"}
CMP = {"<": "<?", "<=": "<=?", ">": ">?", ">=": ">=?", "==": "=?"}


def binop(op, ty, a, b, bnode, ctx):
    if op in (">>", "<<"):
        pass                         # shift counts: constants or small non-negative values (0..7 here)
    if op in ("/", "%"):
        if const_value(bnode, ctx) == 0:
            raise Unsupported("division by zero")
    t = "(%s %s %s)" % (BIN[op], a, b)
    signed, n = ty
    if not signed and op in ("+", "-", "*", "<<"):
        t = wrap(ty, t)              # unsigned arithmetic wraps
    return t


def cond(node, ctx):
    """returns a Coq term of type bool: the expression is non-zero"""
    k = node["kind"]
    if k in ("ParenExpr", "ConstantExpr"):
        return cond(node["inner"][0], ctx)
    if k in ("ImplicitCastExpr", "CStyleCastExpr"):
        ck = node.get("castKind")
        if ck == "IntegralToBoolean":
            return cond(node["inner"][0], ctx)
        if ck == "IntegralCast":
            # widening of a comparison result / bool keeps "non-zero"
            sub = node["inner"][0]
            lo, hi = trange(ctype(sub))
            l2, h2 = trange(ctype(node))
            if l2 <= lo and hi <= h2 and ctype(node)[1] != 1:
                return cond(sub, ctx)
    if k == "BinaryOperator":
        op = node["opcode"]
        a, b = node["inner"]
        if op in CMP:
            return "(%s %s %s)" % (expr(a, ctx), CMP[op], expr(b, ctx))
        if op == "!=":
            return "(negb (%s =? %s))" % (expr(a, ctx), expr(b, ctx))
        if op == "&&":
            return "(%s && %s)" % (cond(a, ctx), cond(b, ctx))
        if op == "||":
            return "(%s || %s)" % (cond(a, ctx), cond(b, ctx))
    if k == "UnaryOperator" and node["opcode"] == "!":
        return "(negb %s)" % cond(node["inner"][0], ctx)
    try:
        v = const_value(node, ctx)
        return "true" if v != 0 else "false"
    except Unsupported:
        pass
    return "(negb (%s =? 0))" % expr(node, ctx)


def b2z(c):
    if c == "true":
        return "1"
    if c == "false":
        return "0"
    return "(if %s then 1 else 0)" % c


def expr(node, ctx):
    """returns a Coq term (a Z) for the VALUE of the expression"""
    k = node["kind"]
    if k in ("ParenExpr", "ConstantExpr"):
        return expr(node["inner"][0], ctx)
    if k == "IntegerLiteral":
        return lit(node["value"])
    if k == "CXXBoolLiteralExpr":
        return "1" if node["value"] else "0"
    if k == "DeclRefExpr":
        rd = node["referencedDecl"]
        if rd["kind"] == "EnumConstantDecl":
            return lit(ctx.enums[rd["name"]])
        return read_lvalue(node, ctx)
    if k == "MemberExpr":
        return read_lvalue(node, ctx)
    if k == "ArraySubscriptExpr":
        base, idx = node["inner"]
        while base["kind"] in ("ImplicitCastExpr", "ParenExpr"):
            base = base["inner"][0]
        if base["kind"] == "MemberExpr":
            kind, name = lvalue_name(base, ctx)
            if kind == "field" and name in ctx.fields:
                return "(nth (Z.to_nat %s) %s 0)" % (expr(idx, ctx), ctx.fields[name])
            raise Unsupported("array field read")
        if base["kind"] == "DeclRefExpr" and base["referencedDecl"]["name"] == ctx.data_param:
            i = const_value(idx, ctx)
            if not 0 <= i < 4:
                raise Unsupported("data index %d" % i)
            return "d%d" % i
        raise Unsupported("array access")
    if k in ("ImplicitCastExpr", "CStyleCastExpr"):
        ck = node.get("castKind")
        sub = node["inner"][0]
        if ck in ("LValueToRValue", "NoOp"):
            return expr(sub, ctx)
        if ck == "IntegralCast":
            return wrap(ctype(node), expr(sub, ctx), ctype(sub))
        if ck == "IntegralToBoolean":
            return b2z(cond(sub, ctx))
        raise Unsupported("cast %s" % ck)
    if k == "UnaryOperator":
        op = node["opcode"]
        sub = node["inner"][0]
        if op == "-":
            t = "(- %s)" % expr(sub, ctx)
            return wrap(ctype(node), t) if not ctype(node)[0] else t
        if op == "!":
            return b2z(cond(node, ctx))
        if op == "~":
            return wrap(ctype(node), "(Z.lnot %s)" % expr(sub, ctx))
        if op == "+":
            return expr(sub, ctx)
        raise Unsupported("unary %s in an expression" % op)
    if k == "BinaryOperator":
        op = node["opcode"]
        a, b = node["inner"]
        if op in BIN:
            return binop(op, ctype(node), expr(a, ctx), expr(b, ctx), b, ctx)
        if op in CMP or op in ("!=", "&&", "||"):
            return b2z(cond(node, ctx))
        raise Unsupported("binary %s in an expression" % op)
    if k == "ConditionalOperator":
        c, a, b = node["inner"]
        return "(if %s then %s else %s)" % (cond(c, ctx), expr(a, ctx), expr(b, ctx))
    if k == "CallExpr":
        r = call(node, ctx)
        if r is None:
            raise Unsupported("value of a void call")
        return r
    raise Unsupported("expression %s" % k)


def call(node, ctx):
    """inlines a call to a function defined in the same translation unit; returns the Coq name
       bound to its result (None for void functions)"""
    callee = node["inner"][0]
    while callee["kind"] in ("ImplicitCastExpr", "ParenExpr"):
        callee = callee["inner"][0]
    if callee["kind"] != "DeclRefExpr" or callee["referencedDecl"]["name"] not in ctx.funcs:
        raise Unsupported("call of a function that is not defined in this file")
    if ctx.depth > 8:
        raise Unsupported("call depth")
    fn = ctx.funcs[callee["referencedDecl"]["name"]]
    params = [c for c in fn.get("inner", []) if c.get("kind") == "ParmVarDecl"]
    body = [c for c in fn["inner"] if c.get("kind") == "CompoundStmt"][0]
    args = node["inner"][1:]
    if len(args) != len(params):
        raise Unsupported("argument count")
    sub = Ctx(ctx.enums, None, None, ctx.funcs, ctx.depth + 1)
    sub.count = ctx.count          # shared: names stay unique
    sub.lines = ctx.lines
    sub.fields = ctx.fields
    for p, a in zip(params, args):
        q = p["type"].get("desugaredQualType", p["type"]["qualType"])
        if "*" in q:
            b = a
            while b["kind"] in ("ImplicitCastExpr", "ParenExpr"):
                b = b["inner"][0]
            if b["kind"] == "DeclRefExpr" and b["referencedDecl"]["name"] == ctx.data_param:
                sub.data_param = p["name"]
            elif b["kind"] == "DeclRefExpr" and b["referencedDecl"]["name"] == ctx.struct_param:
                sub.struct_param = p["name"]
            else:
                raise Unsupported("pointer argument")
        else:
            v = ctx.fresh(p["name"])
            ctx.lines.append("let %s := %s in" % (v, expr(a, ctx)))
            sub.env[p["name"]] = v
    inner = body.get("inner", [])
    ret_ty = fn["type"]["qualType"].split("(")[0].strip()
    if ret_ty == "void":
        if may_return(inner):
            raise Unsupported("early return in an inlined void function")
        straight(inner, sub)
        ctx.fields = sub.fields
        return None
    if inner and inner[-1]["kind"] == "ReturnStmt" and not may_return(inner[:-1]):
        straight(inner[:-1], sub)
        ctx.fields = sub.fields
        v = ctx.fresh("r")
        ctx.lines.append("let %s := %s in" % (v, expr(inner[-1]["inner"][0], sub)))
        return v
    # several returns: a self-contained term (such a helper must not write through pointers)
    saved_lines = ctx.lines
    sub.lines = []
    sub.fields = {}
    term = stmts(inner, sub, [])
    ctx.lines = saved_lines
    v = ctx.fresh("r")
    ctx.lines.append("let %s := %s in" % (v, term))
    return v


# ---------------------------------------------------------------- statements
def assign(node, ctx):
    """assignment-like expression statements"""
    k = node["kind"]
    if k == "ParenExpr":
        return assign(node["inner"][0], ctx)
    if k == "BinaryOperator" and node["opcode"] == "=":
        lhs, rhs = node["inner"]
        lv = lvalue_name(lhs, ctx)
        if lv[0] == "elem":
            ctx.bind(lv[1], "(upd (Z.to_nat %s) %s %s)" % (lv[2], expr(rhs, ctx), ctx.fields[lv[1]]), field=True)
            return
        kind, name = lv
        ctx.bind(name, expr(rhs, ctx), field=(kind == "field"))
        return
    if k == "CompoundAssignOperator":
        op = node["opcode"][:-1]
        lhs, rhs = node["inner"]
        lv = lvalue_name(lhs, ctx)
        kind, name = lv[0], lv[1]
        lty = ctype(lhs)
        cty = node.get("computeResultType", {})
        q = cty.get("desugaredQualType", cty.get("qualType", "int")).replace("const ", "")
        comp = (False, 32) if q.startswith("enum ") else INT_TYPES.get(q)
        if comp is None:
            raise Unsupported("compound assignment in type %r" % q)
        cur = wrap(comp, read_lvalue(lhs, ctx), lty)
        val = binop(op, comp, cur, expr(rhs, ctx), rhs, ctx)
        if kind == "elem":
            ctx.bind(name, "(upd (Z.to_nat %s) %s %s)" % (lv[2], wrap(lty, val, comp), ctx.fields[name]), field=True)
            return
        ctx.bind(name, wrap(lty, val, comp), field=(kind == "field"))
        return
    if k == "UnaryOperator" and node["opcode"] in ("++", "--"):
        sub = node["inner"][0]
        kind, name = lvalue_name(sub, ctx)
        lty = ctype(sub)
        comp = (True, 32) if trange(lty)[1] <= (1 << 31) - 1 and lty != (False, 32) else lty
        cur = wrap(comp, read_lvalue(sub, ctx), lty)
        val = binop("+" if node["opcode"] == "++" else "-", comp, cur, "1", {"kind": "IntegerLiteral", "value": "1"}, ctx)
        ctx.bind(name, wrap(lty, val, comp), field=(kind == "field"))
        return
    if k == "CallExpr":
        call(node, ctx)
        return
    if k in ("ImplicitCastExpr", "CStyleCastExpr") and node.get("castKind") == "ToVoid":
        return assign(node["inner"][0], ctx)
    raise Unsupported("statement expression %s" % k)


def may_return(nodes):
    for n in nodes:
        if n.get("kind") == "ReturnStmt":
            return True
        if may_return([c for c in n.get("inner", []) if isinstance(c, dict) and c.get("kind", "").endswith("Stmt")]):
            return True
    return False


def straight(nodes, ctx):
    """statements without return: only extends ctx"""
    for st in nodes:
        k = st["kind"]
        if k == "CompoundStmt":
            straight(st.get("inner", []), ctx)
        elif k == "NullStmt":
            pass
        elif k == "DeclStmt":
            for d in st["inner"]:
                if d["kind"] != "VarDecl" or "inner" not in d:
                    raise Unsupported("declaration without initialiser")
                ctx.bind(d["name"], expr(d["inner"][0], ctx))
        elif k == "IfStmt":
            # reuse the merge logic of stmts through a dummy continuation
            marker = {"kind": "ReturnStmt", "inner": [{"kind": "IntegerLiteral", "value": "0", "type": {"qualType": "int"}}]}
            lines_before = len(ctx.lines)
            inner = st["inner"]
            cv = ctx.fresh("c")
            ctx.lines.append("let %s := %s in" % (cv, cond(inner[0], ctx)))
            saved = (dict(ctx.env), dict(ctx.fields))
            straight([inner[1]], ctx)
            t_env, t_fields = ctx.env, ctx.fields
            ctx.env, ctx.fields = dict(saved[0]), dict(saved[1])
            straight([inner[2]] if len(inner) > 2 else [], ctx)
            e_env, e_fields = ctx.env, ctx.fields
            ctx.env, ctx.fields = dict(saved[0]), dict(saved[1])
            for name in sorted(set(t_env) | set(e_env)):
                if name not in saved[0]:
                    continue
                a, b = t_env.get(name), e_env.get(name)
                if a != b:
                    ctx.bind(name, "(if %s then %s else %s)" % (cv, a, b))
            for name in sorted(set(t_fields) | set(e_fields)):
                a, b = t_fields.get(name), e_fields.get(name)
                if a != b:
                    if a is None or b is None:
                        raise Unsupported("field %s written in one branch only" % name)
                    ctx.bind(name, "(if %s then %s else %s)" % (cv, a, b), field=True)
        else:
            assign(st, ctx)


def tuple_of(ctx, ret, fields):
    if not fields:
        return ret
    return "(%s, %s)" % (ret, ", ".join(ctx.fields.get(f, "0") for f in fields))


def stmts(nodes, ctx, fields):
    """translates a statement list; returns a Coq term (the function result from here on).
       ctx.lines holds pending lets and is flushed into the term."""
    def flush(body):
        out = body
        for l in reversed(ctx.lines):
            out = l + "\n  " + out
        ctx.lines = []
        return out

    for i, st in enumerate(nodes):
        k = st["kind"]
        if k == "CompoundStmt":
            return stmts(st.get("inner", []) + nodes[i + 1:], ctx, fields)
        if k == "NullStmt":
            continue
        if k == "DeclStmt":
            for d in st["inner"]:
                if d["kind"] != "VarDecl" or "inner" not in d:
                    raise Unsupported("declaration without initialiser")
                ctx.bind(d["name"], expr(d["inner"][0], ctx))
            continue
        if k == "ReturnStmt":
            r = expr(st["inner"][0], ctx) if st.get("inner") else "0"
            return flush(tuple_of(ctx, r, fields))
        if k == "IfStmt":
            inner = st["inner"]
            cv = ctx.fresh("c")
            ctx.lines.append("let %s := %s in" % (cv, cond(inner[0], ctx)))
            rest = nodes[i + 1:]
            then_b = [inner[1]]
            else_b = [inner[2]] if len(inner) > 2 else []
            if not may_return(then_b) and not may_return(else_b):
                # merge: both branches are computed (they are pure), then every variable that
                # the branches leave different is selected by the condition
                saved = (dict(ctx.env), dict(ctx.fields))
                straight(then_b, ctx)
                t_env, t_fields = ctx.env, ctx.fields
                ctx.env, ctx.fields = dict(saved[0]), dict(saved[1])
                straight(else_b, ctx)
                e_env, e_fields = ctx.env, ctx.fields
                ctx.env, ctx.fields = dict(saved[0]), dict(saved[1])
                for name in sorted(set(t_env) | set(e_env)):
                    if name not in saved[0]:
                        continue                      # a local of one branch: out of scope afterwards
                    a, b = t_env.get(name), e_env.get(name)
                    if a != b:
                        ctx.bind(name, "(if %s then %s else %s)" % (cv, a, b))
                for name in sorted(set(t_fields) | set(e_fields)):
                    a, b = t_fields.get(name), e_fields.get(name)
                    if a != b:
                        if a is None or b is None:
                            raise Unsupported("field %s written in one branch only" % name)
                        ctx.bind(name, "(if %s then %s else %s)" % (cv, a, b), field=True)
                continue
            pending = ctx.lines
            ctx.lines = []
            saved = (dict(ctx.env), dict(ctx.fields))
            then_term = stmts(then_b + rest, ctx, fields)
            ctx.env, ctx.fields = dict(saved[0]), dict(saved[1])
            else_term = stmts(else_b + rest, ctx, fields)
            ctx.env, ctx.fields = saved
            ctx.lines = pending
            return flush("(if %s\n   then %s\n   else %s)" % (cv, then_term, else_term))
        # expression statement
        assign(st, ctx)
    raise Unsupported("control reaches the end of a non-void function")


# ---------------------------------------------------------------- driver
def load_ast(repo, src, defs=()):
    cmd = ["clang", "-fsyntax-only", "-I", os.path.join(repo, "include"), "-iquote", os.path.join(repo, "src")] + list(defs) + [
           "-Xclang", "-ast-dump=json", os.path.join(repo, src)]
    p = subprocess.run(cmd, stdout=subprocess.PIPE, stderr=subprocess.PIPE, timeout=120)
    if p.returncode != 0:
        raise Unsupported("clang failed on %s: %s" % (src, p.stderr.decode()[-500:]))
    return json.loads(p.stdout.decode())


RECORDS = {}


def collect(tu):
    enums, funcs = {}, {}

    def walk(n):
        k = n.get("kind")
        if k == "EnumDecl":
            nxt = 0
            for c in n.get("inner", []):
                if c.get("kind") != "EnumConstantDecl":
                    continue
                v = nxt
                for x in c.get("inner", []):
                    if x.get("kind") == "ConstantExpr" and "value" in x:
                        v = int(x["value"])
                    elif x.get("kind") == "IntegerLiteral":
                        v = int(x["value"])
                enums[c["name"]] = v
                nxt = v + 1
        if k == "RecordDecl" and n.get("name") and n.get("completeDefinition"):
            RECORDS[n["name"]] = [c["name"] for c in n.get("inner", []) if c.get("kind") == "FieldDecl"]
            for c in n.get("inner", []):
                if c.get("kind") == "FieldDecl" and "[" in c.get("type", {}).get("qualType", ""):
                    ARRAY_FIELDS.add(c["name"])
        if k == "FunctionDecl" and any(c.get("kind") == "CompoundStmt" for c in n.get("inner", [])):
            funcs[n["name"]] = n
        for c in n.get("inner", []):
            if isinstance(c, dict):
                walk(c)
    walk(tu)
    return enums, funcs


def reads_before_write(body, struct_param):
    """does the function use a field of its out-struct in a compound assignment or read an element?"""
    found = []

    def walk(n):
        if n.get("kind") == "CompoundAssignOperator":
            lhs = n["inner"][0]
            t = json.dumps(lhs)
            if '"MemberExpr"' in t:
                found.append(1)
        for c in n.get("inner", []):
            if isinstance(c, dict):
                walk(c)
    walk(body)
    return bool(found)


ARRAY_FIELDS = set()


def translate(fn, enums, coqname, funcs=None):
    params = [c for c in fn.get("inner", []) if c.get("kind") == "ParmVarDecl"]
    body = [c for c in fn["inner"] if c.get("kind") == "CompoundStmt"][0]
    data_param = struct_param = None
    args = []
    ranges = []
    for p in params:
        q = p["type"].get("desugaredQualType", p["type"]["qualType"])
        if "*" in q:
            if "unsigned short" in q or "uint16_t" in p["type"]["qualType"]:
                data_param = p["name"]
                args += ["d0", "d1", "d2", "d3"]
                ranges += [("d%d" % i, (False, 16)) for i in range(4)]
            else:
                struct_param = p["name"]
        else:
            args.append(p["name"])
            ranges.append((p["name"], ctype(p)))
    ctx = Ctx(enums, data_param, struct_param, funcs)
    for p in params:
        if "*" not in p["type"].get("desugaredQualType", p["type"]["qualType"]):
            ctx.env[p["name"]] = p["name"]
            ctx.count[p["name"]] = 1        # never shadow a parameter: new versions are name_1, name_2, ...
    fields = []
    if struct_param:
        sp = [p for p in params if p["name"] == struct_param][0]
        q = sp["type"].get("desugaredQualType", sp["type"]["qualType"])
        rec = q.replace("const", "").replace("struct", "").replace("*", "").strip()
        if rec not in RECORDS and rec.endswith("_t") and rec[:-2] in RECORDS:
            rec = rec[:-2]
        if rec not in RECORDS:
            raise Unsupported("unknown struct %s" % rec)
        if "const" in q:
            # the struct is an INPUT: the fields the function reads become parameters
            used = []

            def find(n):
                if n.get("kind") == "MemberExpr" and n["name"] not in used:
                    used.append(n["name"])
                for c in n.get("inner", []):
                    if isinstance(c, dict):
                        find(c)
            find(body)
            ctx.fields = {f: f for f in used}
            for f in used:
                ctx.count["f_" + f] = 1
            args = used + args
            term = stmts(body.get("inner", []), ctx, [])
            return args, [], term, ranges
        if reads_before_write(body, struct_param):
            # IN / OUT: the fields are parameters and results
            ctx.fields = {f: f for f in RECORDS[rec]}
            for f in RECORDS[rec]:
                ctx.count["f_" + f] = 1
            args = list(RECORDS[rec]) + args
        fields = list(RECORDS[rec])     # an OUTPUT: result = (return value, fields in declaration order)
    term = stmts(body.get("inner", []), ctx, fields)
    return args, fields, term, ranges


HEADER = """(* GenLeaf.v — GENERATED by tools/cleaf.py from the C sources; do not edit.
   One Gallina definition per leaf function of the library, from clang's typed AST.
   Source tree: %s *)
Require Import Base.
Local Open Scope Z_scope.
(* array fields of structs are lists: p->a[i] is nth, p->a[i] = v is upd (Base.v) *)
Definition to_s16 (x : Z) : Z := let y := x mod 65536 in if y <? 32768 then y else y - 65536.
Definition to_s32w (x : Z) : Z := let y := x mod 4294967296 in if y <? 2147483648 then y else y - 4294967296.

"""


def main():
    repo, out = sys.argv[1], sys.argv[2]
    text = HEADER % repo
    errors = []
    cache = {}
    for src, cname, coqname in FUNCS:
        try:
            if src not in cache:
                cache[src] = collect(load_ast(repo, src))
            enums, funcs = cache[src]
            if cname not in funcs:
                raise Unsupported("function %s not found in %s" % (cname, src))
            args, fields, term, ranges = translate(funcs[cname], enums, coqname, funcs)
            text += "(* %s: %s%s *)\n" % (src, cname, ("; result, then fields " + ", ".join(fields)) if fields else "")
            binders = " ".join("(%s : %s)" % (x, "list Z" if x in ARRAY_FIELDS else "Z") for x in args)
            text += "Definition %s %s :=\n  %s.\n" % (coqname, binders, term)
            if fields:
                pat = "(" + ", ".join(["ret"] + ["x_" + f for f in fields]) + ")"
                for comp in ["ret"] + ["x_" + f for f in fields]:
                    text += "Definition %s__%s %s := let '%s := %s %s in %s.\n" % (
                        coqname, comp.replace("x_", ""), binders, pat, coqname, " ".join(args), comp)
            text += "\n"
        except Unsupported as ex:
            errors.append("%s (%s): %s" % (cname, src, ex))
            text += "(* %s: NOT TRANSLATED: %s *)\n\n" % (cname, ex)
    with open(out, "w") as f:
        f.write(text)
    for e in errors:
        print("UNSUPPORTED " + e)
    return 1 if errors else 0


if __name__ == "__main__":
    sys.exit(main())
