#!/usr/bin/env python3
"""writes /verif/MANIFEST.json (kept in one place so that the 20 entries stay consistent)"""
import json, os
VERIF = os.path.dirname(os.path.dirname(os.path.abspath(__file__)))
TITLES = {}
for l in open(os.path.join(VERIF, "properties.jsonl")):
    p = json.loads(l); TITLES[p["id"]] = p["title"]

LEVEL = {
 "C01": ("theorem: the getters equal the history functions last_rx (induction over arbitrary op lists of the model); observer obs_C01 = that equation evaluated on the real library after every call of sweeps over block A/B and random histories ; code level: rdsparser_group_parse translated from the sources = the model's group_parse (C01_code_group_parse)", "8/C01"),
 "C02": ("theorems: cells of all four texts after any group = spec_cells (writes_of applied with cell_after; nothing else changes), charset table = G0 reference (kernel-checked on the regenerated Gen.v), address extractors translated from the C sources and proved equal to the model's; observer obs_C02 proved of every model step and evaluated on the implementation (incl. a sweep of all 65536 data words for lasting effects) ; code level: the charset table in the source = the measured graph, rdsparser_group0_parse / rdsparser_group10_parse = the model's (C02_code_*)", "8/C02, 17.3"),
 "C03": ("2-safety theorem on the model (step equal for dontcare-equivalent groups); on the implementation twin instances fed dontcare-equivalent groups (hypothesis re-checked by the extracted predicate) must agree on every getter and callback for the whole continuation ; code level: rdsparser_parser_process with everything below it, translated from the sources, = the model's process, and the public rdsparser_parse = the model's step (C03_code_process, C03_code_parse)", "8/C03"),
 "C04": ("theorems: per field the callbacks of a call are exactly [one, with the new value] iff the getter result changed and a callback is registered (scalars, PS, PTYN, RT incl. A/B switch, AF per newly listed code); re-delivery of a group changes nothing and notifies nothing but clock time; obs_C04 proved of every model step; same observer on implementation traces whose samples are taken inside the real callbacks ; code level: the eight setters with their callback invocations = the model's set_scalar / add_af (C04_code_*)", "8/C04, 17.3"),
 "C05": ("partial: theorem that the model's checked array accesses never fault for any blocks/error codes/thresholds/strings; layout-level memory safety, uninitialised reads and UB are searched with ASan+UBSan builds in three configurations (and valgrind in the thorough tier), not proved", "8/C05"),
 "C06": ("theorem: each addressed cell equals cell_after (thresholds of that text, weighted level, special-character and same-data rules) + kernel-checked weight facts; observer obs_C06 on the implementation ; code level: rdsparser_parser_update_string / rdsparser_string_update / _update_single = the model's upd_string (C06_code_*)", "8/C06"),
 "C07": ("theorem: per-step monotonicity of levels under progressive correction lifted to runs; observer obs_C07 on implementation traces with progressive texts ; code level: read off the translated rdsparser_string_update_single (both builds): progressive mode never raises a level (C07_code_progressive_only_improves)", "8/C07"),
 "C08": ("theorem: case table of the A/B protocol over the model with the last flag defined as a history function; observer obs_C08 on the implementation ; code level: rdsparser_group2_parse with rdsparser_string_get_available / _clear (loops as folds) = the model's group2_parse (C08_code_*)", "8/C08"),
 "C09": ("theorem: under the extended check each getter equals last_confirmed of its reception list (history function); observer obs_C09 and twin runs (check on/off) for texts and clock time on the implementation ; code level: the seven RDSPARSER_BUFFER_UPDATE instances = the model's buffer_update (C09_code_*)", "8/C09"),
 "C10": ("theorem: the AF bitmap is bitmap_of (codes received >= threshold times in 0A since reset); observer obs_C10 on sweeps over all values of block C ; code level: rdsparser_buffer_add_af and the AF bitmap functions = the model's (C10_code_*)", "8/C10"),
 "C11": ("theorem on the per-step ECC/country update + kernel-checked facts on the regenerated ECC graph (shape, reference table); observer obs_C11 on the implementation ; code level: rdsparser_ecc_lookup with the tables in the source = the measured graph, rdsparser_group1_parse = the model's (C11_code_*)", "8/C11"),
 "C12": ("theorems: ct_init of the model satisfies the single calendar equation for every 17-bit MJD (kernel sweep over all 131074 day values) and every hour/minute/offset; rdsparser_ct_init, its getters and the 4A field extractors are translated from the C sources on every run and proved equal to the model's on everything a 4A group can carry; observer obs_C12 on the implementation's reports ; code level: rdsparser_group4_parse (local struct, callback through the getters) = the model's group4_parse (C12_code_group4)", "8/C12, 17.7"),
 "C13": ("theorem: clear s = fresh state with the settings of s (state equality, hence same future); on the implementation twin runs cleared-vs-fresh with identical continuations probing every piece of hidden state ; code level: rdsparser_clear translated from the sources = the model's clear (C13_code_clear)", "8/C13"),
 "C14": ("theorem: acceptance iff hex_ok, effect equal to parse of decode, rejection inert; observer obs_C14 on the malformed stream and twin runs string-vs-binary (pair re-checked with extracted decode)", "8/C14"),
 "C15": ("theorems: the core state evolves independently of callbacks/user data; callbacks carry the registered id and current user data; registration / user-data calls made from inside callbacks are modelled (step_reent: conservative extension, decoding unaffected); twin runs with different observer sets and a re-entrant twin replay on the implementation", "8/C15, 17.6"),
 "C16": ("theorem: invariant tsnap_wf of all four texts over every reachable model state; observer obs_C16 on every implementation snapshot (terminator, level domain, availability, length) incl. garbage-prefilled caller storage", "8/C16"),
 "C17": ("theorem: settings getters equal settings_of (history function), setters leave decoded data untouched; observer obs_C17 on key x value sweeps ; code level: the three setters of the settings translated from the sources write exactly the model's new setting and nothing else (C17_code_*)", "8/C17"),
 "C18": ("kernel-evaluated facts over the complete lookup graphs regenerated from the compiled library (totality, placeholders, widths, ISO/PTY reference tables, uniqueness)", "8/C18"),
 "C19": ("partial: projection theorem on the multi-instance model; on the implementation interleaved-vs-solo and two-process runs, static scan for writable static storage, ThreadSanitizer run with per-thread instances (search)", "8/C19"),
 "C20": ("partial: narrow-table facts; simulation theorem between the unicode and non-unicode instantiation on collision-free groups (state, non-text callbacks identical, text callbacks related one to one); heap on/off outside the model; each of the four builds is run against the model instance for its character width; cross-build comparison with the narrow-collision known finding ; code level: rdsparser_string_update_single of the non-unicode build = the model's with the narrow graph (C20_code_update_single_narrow)", "8/C20, 17.3"),
}
NOT_YET = {}

def main():
    checks = []
    for i in range(1, 21):
        pid = "C%02d" % i
        if pid in NOT_YET: continue
        text, ref = LEVEL[pid]
        checks.append({
            "property_id": pid,
            "quick_cmd": "python3 tools/check.py --property %s --tier quick" % pid,
            "thorough_cmd": "python3 tools/check.py --property %s --tier thorough" % pid,
            "evidence_file": "/verif/evidence/%s.json" % pid,
            "replay_cmd_template": "python3 tools/check.py --replay {path}",
            "engine": "coq-model+correspondence",
            "level_claimed": {"category": "proof", "text": text, "design_ref": "DESIGN.md section " + ref},
            "level_note": "Coq 8.16.1 kernel (vm_compute used, native_compute not), no axioms; trusted: gen_dump.c + gcc (Gen.v = graph of compiled tables), tools/cleaf.py and tools/cmid.py + clang front end (GenLeaf.v, GenMid.v; the memory model of cmid.py: members of one struct never alias, string accessors recognised by name, callbacks as events), hand-written model tied by running extracted model (ExtrOcamlBasic only) and implementation on the same scripts, OCaml driver, C harness, generators; the theorem is about the model and reaches the code only through that tie",
            "technique": "machine-checked proof in Coq over a Gallina model of the API (every boolean observer the check evaluates is itself a theorem of the model for every script); tie = tables regenerated from the compiled library (Gen.v) + 30 leaf functions translated from clang's typed AST on every run and proved equal to the model's (GenLeaf.v) + 50 functions of the middle and API layer up to rdsparser_parser_process translated the same way and proved equal to the model's process on the pinned tree (GenMid.v, Properties_Mid_Cxx.v: a second tie; when a change to the sources defeats it the check records that and doubles its search for a failing input) + model/implementation correspondence on generated scripts + extracted observers evaluated on implementation traces",
        })
    man = {
        "version": 1,
        "setup_cmd": "python3 tools/check.py --setup",
        "hooks": {"guard": "RDSPARSER_VERIF", "enable": "none needed: the harness reaches everything through the public and private headers the repository's tests also use; no source hooks were added",
                  "baseline_off_cmd": "rm -rf /tmp/rds_baseline && cmake -G Ninja -S /repo -B /tmp/rds_baseline >/dev/null && cmake --build /tmp/rds_baseline >/dev/null && ctest --test-dir /tmp/rds_baseline -j8 --timeout 900; rc=$?; rm -rf /tmp/rds_baseline; exit $rc",
                  "source_commits": [], "add_only": True},
        "engines": [{"name": "coq-model+correspondence", "path": "tools/check.py", "serves_properties": [c["property_id"] for c in checks],
                     "kind_free_text": "Coq development coq/*.v (model, observers, theorems) + gen_dump (tables regenerated from sources) + C harness + extracted OCaml driver"}],
        "checks": checks,
        "notes": "fix: commits in /repo: be86eac (C18 ISO codes), 14d32d0 (C14 strict hex), 7aa5b64 (C12 Gregorian date); see known_findings.json and DESIGN.md section 9",
        "not_applicable": [{"property_id": k, "reason": v} for k, v in sorted(NOT_YET.items())],
    }
    json.dump(man, open(os.path.join(VERIF, "MANIFEST.json"), "w"), indent=1)
main()
