"""streams.py — op-script generators for the correspondence check and the observers.

Every random choice derives from one random.Random(seed) handed in by the caller, so that a
disagreement replays exactly.  A script is a list of lines in the format of
harness/rds_harness.c; a stream is a list of (name, lines).
"""
import random

FIELDS = 12
TEXT_BYTES_ASCII = list(range(0x20, 0x7F))


def blk(x):
    return "%04X" % (x & 0xFFFF)


def P(k, a, b, c, d, e=(0, 0, 0, 0)):
    return "%d P %s %s %s %s %d %d %d %d" % (k, blk(a), blk(b), blk(c), blk(d), e[0], e[1], e[2], e[3])


def S_hex(k, text):
    """parse_string with the given Python str/bytes as the C string"""
    if text is None:
        return "%d S NULL" % k
    if isinstance(text, str):
        text = text.encode("latin-1")
    return "%d S %s" % (k, text.hex() if text else "-")


def mkB(group, ver, tp=0, pty=0, low5=0):
    return ((group & 15) << 12) | ((ver & 1) << 11) | ((tp & 1) << 10) | ((pty & 31) << 5) | (low5 & 31)


class Gen:
    """structured random generator with small value pools so that repetition is frequent"""

    def __init__(self, rng, k=0, heavy_special=False):
        self.r = rng
        self.k = k
        self.pis = [rng.randrange(65536) for _ in range(3)] + [0x0000, 0xF123, 0xFFFF]   # 0xFFFF: the 16-bit image of the 'unknown' marker -1
        self.ptys = [rng.randrange(32) for _ in range(3)]
        self.eccs = [0xE0, 0xE2, 0xA0, 0xD1, 0xF3, rng.randrange(256), 0xFF, 0x00]   # 0xFF: the 8-bit image of 'unknown'
        self.afs = [1, 204, 205, 0, 250, 224, rng.randrange(256), rng.randrange(1, 205), rng.randrange(1, 205)]
        self.heavy_special = heavy_special
        self.rtflag = rng.randrange(2)

    def err(self):
        x = self.r.random()
        if x < 0.62:
            return 0
        if x < 0.80:
            return 1
        if x < 0.92:
            return 2
        if x < 0.98:
            return 3
        return self.r.choice([4, 5, 7, 16, 128, 254, 255])

    def errs(self):
        if self.r.random() < 0.45:
            return (0, 0, 0, 0)
        return (self.err(), self.err(), self.err(), self.err())

    def byte(self):
        x = self.r.random()
        if self.heavy_special:
            if x < 0.45:
                return self.r.randrange(0x7F, 0x100)
            if x < 0.85:
                return self.r.choice(TEXT_BYTES_ASCII)
        else:
            if x < 0.70:
                return self.r.choice(TEXT_BYTES_ASCII)
            if x < 0.85:
                return self.r.randrange(0x7F, 0x100)
        if x < 0.93:
            return 0x0D
        return self.r.randrange(0, 0x20)

    def word(self):
        # small pool of words so that "same data" happens
        if self.r.random() < 0.3:
            return self.r.choice([0x4142, 0x2020, 0x0D0D, 0x410D, 0x8081, 0x7F41, 0x0E0E, 0x0F0F, 0x1B6E, 0x1B6F])
        return (self.byte() << 8) | self.byte()

    def group(self, kind=None):
        r = self.r
        if kind is None:
            kind = r.choices(["0A", "0B", "1A", "1B", "2A", "2B", "4A", "4B", "10A", "10B", "other"],
                             [18, 8, 8, 2, 22, 10, 6, 1, 8, 2, 5])[0]
        a = r.choice(self.pis)
        tp = r.randrange(2)
        pty = r.choice(self.ptys)
        if kind in ("0A", "0B"):
            b = mkB(0, kind == "0B", tp, pty, r.randrange(32))
            c = (r.choice(self.afs) << 8) | r.choice(self.afs) if r.random() < 0.8 else r.randrange(65536)
            d = self.word()
        elif kind in ("1A", "1B"):
            b = mkB(1, kind == "1B", tp, pty, r.randrange(32))
            var = 0 if r.random() < 0.7 else r.randrange(8)
            c = (r.randrange(2) << 15) | (var << 12) | (r.randrange(16) << 8) | r.choice(self.eccs)
            d = r.randrange(65536)
        elif kind in ("2A", "2B"):
            if r.random() < 0.12:
                self.rtflag ^= 1
            fl = self.rtflag if r.random() < 0.9 else self.rtflag ^ 1
            addr = r.randrange(16) if r.random() < 0.7 else r.choice([0, 1, 15])
            b = mkB(2, kind == "2B", tp, pty, (fl << 4) | addr)
            c = self.word()
            d = self.word()
        elif kind in ("4A", "4B"):
            b = mkB(4, kind == "4B", tp, pty, r.randrange(32))
            mjd = r.choice([0, 1, 15078, 15079, 51544, 60369, 88127, 88128, 131071, r.randrange(131072)])
            hour = r.choice([0, 23, 24, 31, r.randrange(32)])
            minute = r.choice([0, 29, 30, 59, 60, 63, r.randrange(64)])
            off = r.randrange(64)
            b = (b & ~3) | (mjd >> 15)
            c = ((mjd & 0x7FFF) << 1) | (hour >> 4)
            d = ((hour & 15) << 12) | (minute << 6) | off
        elif kind in ("10A", "10B"):
            b = mkB(10, kind == "10B", tp, pty, r.randrange(32))
            c = self.word()
            d = self.word()
        else:
            g = r.choice([3, 5, 6, 7, 8, 9, 11, 12, 13, 14, 15])
            b = mkB(g, r.randrange(2), tp, pty, r.randrange(32))
            c = r.randrange(65536)
            d = r.randrange(65536)
        if (b >> 11) & 1 and r.random() < 0.5:
            # version B groups repeat the PI in block C' (that is what a broadcast looks like); keep the
            # other half arbitrary
            c = a if r.random() < 0.8 else r.choice(self.pis)
        return (a, b, c, d)

    def parse_line(self, kind=None, errs=None):
        g = self.group(kind)
        e = self.errs() if errs is None else errs
        if self.r.random() < 0.15 and all(x < 4 for x in e):
            s = "%04X%04X%04X%04X" % g
            if self.r.random() < 0.5:
                s = s.lower()
            if any(e) or self.r.random() < 0.3:
                s += "%02X" % ((e[0] << 6) | (e[1] << 4) | (e[2] << 2) | e[3])
            return S_hex(self.k, s)
        return P(self.k, *g, e)

    def setting_line(self):
        r = self.r
        x = r.random()
        if x < 0.25:
            return "%d T %d %d %d" % (self.k, r.randrange(3), r.randrange(2), r.choice([0, 1, 2, 2, 3, 4, 200, 255]))
        if x < 0.40:
            return "%d G %d %d" % (self.k, r.randrange(3), r.randrange(2))
        if x < 0.50:
            return "%d X %d" % (self.k, r.randrange(2))
        if x < 0.60:
            return "%d U %d" % (self.k, r.choice([0, r.randrange(1, 1000), r.randrange(1, 1000)]))
        if x < 0.90:
            return "%d R %d %d" % (self.k, r.randrange(FIELDS), r.choice([0, 1, 1, 2, 3]))
        if x < 0.97:
            return "%d C" % self.k
        return "%d I %d" % (self.k, r.choice([0, 255, 165]))

    def preamble(self, register="all", permissive=None, ext=None, prog=None):
        """init + registrations + settings"""
        r = self.r
        k = self.k
        lines = ["%d I %d" % (k, r.choice([0, 255, 165]))]
        if register == "all":
            for f in range(FIELDS):
                lines.append("%d R %d %d" % (k, f, 1))
        elif register == "random":
            for f in range(FIELDS):
                if r.random() < 0.7:
                    lines.append("%d R %d %d" % (k, f, r.randrange(1, 4)))
        if r.random() < 0.75:          # otherwise user_data stays NULL
            lines.append("%d U %d" % (k, r.choice([0, r.randrange(1, 1000), r.randrange(1, 1000)])))
        if permissive is None:
            permissive = r.random() < 0.6
        if permissive:
            for t in range(3):
                for ty in range(2):
                    lines.append("%d T %d %d %d" % (k, t, ty, r.choice([0, 1, 2, 2, 2])))
        if prog is None:
            prog = [r.random() < 0.4 for _ in range(3)]
        for t in range(3):
            if prog[t]:
                lines.append("%d G %d 1" % (k, t))
        if ext is None:
            ext = r.random() < 0.3
        if ext:
            lines.append("%d X 1" % k)
        return lines

    def history(self, n, settings_rate=0.06, **kw):
        lines = self.preamble(**kw)
        for _ in range(n):
            if self.r.random() < settings_rate:
                lines.append(self.setting_line())
            else:
                lines.append(self.parse_line())
        return lines


def random_histories(seed, count, length, **kw):
    rng = random.Random(seed)
    out = []
    for i in range(count):
        g = Gen(rng, heavy_special=(i % 3 == 2))
        out.append(("hist_%d_%d" % (seed, i), g.history(length, **kw)))
    return out


def write_stream(path, stream):
    with open(path, "w") as f:
        for name, lines in stream:
            f.write("= %s\n" % name)
            for l in lines:
                f.write(l + "\n")
