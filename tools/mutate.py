#!/usr/bin/env python3
"""mutate.py — development aid: how good are the scripts the correspondence check runs?

Generates first-order mutants of the library sources (one syntactic change each: relational and
logical operator replacement, + / -, small constant +-1, mask / shift constant changes,
negated condition, deleted statement, |= -> =, true <-> false), builds the harness with each
mutant in a scratch directory OUTSIDE /repo, runs the scripts of the quick tier's families
(captured from tools/propstreams.py, sub-sampled) and compares the trace with the trace of the
unmodified sources.  A mutant whose trace differs on some script is KILLED: the
correspondence check (model vs library on the same scripts) would see it, because the model
agrees with the unmodified sources on these scripts.  Survivors are listed for inspection —
each is either equivalent (no observable difference exists) or points at an input class the
generators do not reach.

  mutate.py [--sample 0.2] [--max N] [--jobs 16] [--out build/mutation.json]

Nothing here is registered in MANIFEST.json; /repo is never modified.
"""
import argparse
import concurrent.futures as cf
import hashlib
import json
import os
import random
import re
import shutil
import subprocess
import sys
import tempfile

HERE = os.path.dirname(os.path.abspath(__file__))
VERIF = os.path.dirname(HERE)
sys.path.insert(0, HERE)
REPO = os.environ.get("VERIF_REPO", "/repo")

SKIP_FILES = {"pty.c", "country.c"}          # pure string tables (C18: complete graphs in Gen.v)


def sh(cmd, **kw):
    p = subprocess.run(cmd, stdout=subprocess.PIPE, stderr=subprocess.PIPE, **kw)
    return p.returncode, p.stdout, p.stderr


# ---------------------------------------------------------------- mutants
def code_lines(path):
    """(index, line) of lines that hold code (not comments, not table rows of ecc.c)"""
    out = []
    in_comment = False
    in_table = False
    for i, l in enumerate(open(path).read().split("\n")):
        s = l.strip()
        if in_comment:
            if "*/" in s:
                in_comment = False
            continue
        if s.startswith("/*"):
            if "*/" not in s:
                in_comment = True
            continue
        if s.startswith("//") or s.startswith("#") or not s:
            continue
        if re.match(r"static const .*\[\]\s*(\[\d+\])?\s*=", s) or re.match(r"(static )?const .*_lut", s):
            in_table = True
        if in_table:
            if s.endswith("};"):
                in_table = False
            continue
        if s.startswith("RDSPARSER_COUNTRY_") or s.startswith("/*") or s.startswith("L'"):
            continue
        out.append((i, l))
    return out


REPL = [
    (r"(?<![<>=!])<=(?!=)", "<"), (r"(?<![<>=!\-])>=(?!=)", ">"), (r"(?<![<>=!\-])<(?![<=])", "<="),
    (r"(?<![<>=!\-])>(?![>=])", ">="), (r"==", "!="), (r"!=", "=="), (r"&&", "||"), (r"\|\|", "&&"),
    (r"(?<![+\-])\+(?![+=])", "-"), (r"(?<![\-+])-(?![\-=>])", "+"), (r"\|=", "="), (r"\+=", "-="), (r"-=", "+="),
    (r"(?<![&])&(?![&=])", "|"), (r"(?<![|])\|(?![|=])", "&"), (r"<<", ">>"), (r">>", "<<"),
    (r"\btrue\b", "false"), (r"\bfalse\b", "true"), (r"(?<![=!<>])!(?!=)", ""), (r"%", "/"),
]


def mutants_of(path):
    rel = os.path.relpath(path, REPO)
    lines = open(path).read().split("\n")
    out = []
    for i, l in code_lines(path):
        body = l
        # operator replacements, one occurrence at a time
        for pat, rep in REPL:
            for m in re.finditer(pat, body):
                # not inside a string / char literal / pointer declaration
                if body.count('"', 0, m.start()) % 2 == 1 or "'" in body[max(0, m.start() - 2):m.end() + 2]:
                    continue
                if pat.startswith(r"(?<![&])&") and re.search(r"&\s*[a-z_]+(\[|\)|,|->)", body[m.start():m.start() + 30]) and \
                        not re.search(r"[\w\)\]]\s*$", body[:m.start()]):
                    continue            # address-of
                new = body[:m.start()] + rep + body[m.end():]
                out.append((rel, i, "%s -> %s" % (m.group(0), rep or "(removed)"), new))
        # constants
        for m in re.finditer(r"\b(0x[0-9A-Fa-f]+|\d+)\b", body):
            if body.count('"', 0, m.start()) % 2 == 1:
                continue
            tok = m.group(1)
            v = int(tok, 16) if tok.lower().startswith("0x") else int(tok)
            for nv in {v + 1, v - 1, v * 2 if v else 1, v // 2}:
                if nv < 0 or nv == v:
                    continue
                ns = ("0x%X" % nv) if tok.lower().startswith("0x") else str(nv)
                new = body[:m.start()] + ns + body[m.end():]
                out.append((rel, i, "%s -> %s" % (tok, ns), new))
        # statement deletion
        s = body.strip()
        if s.endswith(";") and not s.startswith(("return", "const", "static", "uint", "int", "bool", "rdsparser_", "}", "break", "case", "default")) \
                or re.match(r"\s*rdsparser_(set|add|string|buffer|af|group|parser)\w*\(.*\);\s*$", body):
            out.append((rel, i, "delete statement", re.match(r"\s*", body).group(0) + ";"))
        if s.startswith("return ") and s.endswith(";") and s not in ("return true;", "return false;"):
            pass
        # negate a whole if condition
        m = re.match(r"(\s*(?:else )?if \()(.*)(\)\s*)$", body)
        if m:
            out.append((rel, i, "negate condition", "%s!(%s)%s" % (m.group(1), m.group(2), m.group(3))))
    return [(rel, i, desc, new, lines[i]) for (rel, i, desc, new) in out]


# ---------------------------------------------------------------- scripts
class Capture:
    """stands in for tools/check.py while the families generate their scripts"""
    VERIF = VERIF

    class BuildError(Exception):
        def __init__(self, *a):
            self.stage = "x"
            self.detail = "x"

    def __init__(self):
        self.streams = []

    def run_stream(self, stream, variant="hu", prop="-", san=None, twin=False, env_extra=None, tagdir="s"):
        self.streams.append((variant, stream))
        return {"div": [], "mon": [], "badgen": [], "crash": [], "stat": {}, "driverfail": [], "distinct_calls": set()}

    def __getattr__(self, name):
        raise Capture.BuildError()          # anything else the families want: not available here


def capture_scripts(sample, seed):
    import propstreams
    rng = random.Random(seed)
    by_variant = {"hu": [], "hn": []}
    for prop, f in sorted(propstreams.FAMILIES.items()):
        cap = Capture()
        try:
            f("quick", random.Random(seed * 1000 + int(prop[1:])), cap)
        except Exception:
            pass
        for variant, stream in cap.streams:
            v = "hn" if variant in ("hn", "xn") else "hu"
            for name, lines in stream:
                if rng.random() < sample:
                    by_variant[v].append(("%s:%s" % (prop, name), [l for l in lines if not l.startswith("?")]))
    return by_variant


def write_scripts(path, scripts):
    with open(path, "w") as f:
        for name, lines in scripts:
            f.write("= %s\n" % name)
            for l in lines:
                f.write(l + "\n")


# ---------------------------------------------------------------- build / run
def build(srcdir, variant, out):
    defs = ["-DRDSPARSER_DISABLE_UNICODE"] if variant == "hn" else []
    cs = sorted(os.path.join(srcdir, "src", f) for f in os.listdir(os.path.join(srcdir, "src")) if f.endswith(".c"))
    cmd = ["gcc", "-O1", "-w"] + defs + ["-I", os.path.join(srcdir, "include"), "-iquote", os.path.join(srcdir, "src"),
                                        os.path.join(VERIF, "harness", "rds_harness.c")] + cs + ["-Wl,--wrap=malloc", "-o", out]
    rc, o, e = sh(cmd, timeout=300)
    return rc == 0, e.decode("utf-8", "replace")[-500:]


def trace_hashes(binary, script, timeout):
    """hash of the trace of every script in the file (split at '= name' lines)"""
    try:
        p = subprocess.run([binary, script], stdout=subprocess.PIPE, stderr=subprocess.DEVNULL, timeout=timeout)
        out, rc = p.stdout, p.returncode
    except subprocess.TimeoutExpired as ex:
        out, rc = (ex.stdout or b""), -9
    res = {}
    cur, h = None, None
    for l in out.split(b"\n"):
        if l.startswith(b"= "):
            if cur is not None:
                res[cur] = h.hexdigest()
            cur, h = l[2:].decode(), hashlib.sha1()
        elif h is not None:
            h.update(l + b"\n")
    if cur is not None:
        res[cur] = h.hexdigest()
    return res, rc


def one_mutant(args):
    idx, mut, base, scripts, expected, timeout = args
    rel, lineno, desc, new, old = mut
    d = tempfile.mkdtemp(prefix="mut%d_" % idx, dir=base)
    try:
        shutil.copytree(os.path.join(REPO, "src"), os.path.join(d, "src"))
        os.symlink(os.path.join(REPO, "include"), os.path.join(d, "include"))
        p = os.path.join(d, rel)
        lines = open(p).read().split("\n")
        lines[lineno] = new
        open(p, "w").write("\n".join(lines))
        res = {"file": rel, "line": lineno + 1, "change": desc, "old": old.strip(), "new": new.strip()}
        for variant in ("hu", "hn"):
            b = os.path.join(d, "h_" + variant)
            ok, err = build(d, variant, b)
            if not ok:
                res["status"] = "does-not-compile"
                return res
            got, rc = trace_hashes(b, scripts[variant], timeout)
            exp = expected[variant]
            diff = [k for k in exp if got.get(k) != exp[k]]
            if diff or rc != 0:
                res["status"] = "killed"
                res["by"] = (diff[0] if diff else "crash/timeout rc=%s" % rc)
                res["variant"] = variant
                res["n_scripts_differ"] = len(diff)
                return res
        res["status"] = "survived"
        return res
    finally:
        shutil.rmtree(d, ignore_errors=True)


def main():
    ap = argparse.ArgumentParser()
    ap.add_argument("--sample", type=float, default=0.2)
    ap.add_argument("--max", type=int, default=0)
    ap.add_argument("--jobs", type=int, default=16)
    ap.add_argument("--seed", type=int, default=1)
    ap.add_argument("--out", default=os.path.join(VERIF, "build", "mutation.json"))
    ap.add_argument("--survivors-of", default="", help="re-run only the survivors recorded in this JSON file")
    a = ap.parse_args()
    base = tempfile.mkdtemp(prefix="rds_mut_")
    try:
        scripts = capture_scripts(a.sample, a.seed)
        paths = {}
        for v in scripts:
            paths[v] = os.path.join(base, "scripts_%s.txt" % v)
            write_scripts(paths[v], scripts[v])
        print("scripts: hu %d, hn %d; ops %d" % (len(scripts["hu"]), len(scripts["hn"]),
                                                 sum(len(l) for v in scripts for _, l in scripts[v])), flush=True)
        clean = os.path.join(base, "clean")
        os.makedirs(clean)
        shutil.copytree(os.path.join(REPO, "src"), os.path.join(clean, "src"))
        os.symlink(os.path.join(REPO, "include"), os.path.join(clean, "include"))
        expected = {}
        for v in ("hu", "hn"):
            ok, err = build(clean, v, os.path.join(clean, "h_" + v))
            if not ok:
                print("clean build failed:", err)
                return 2
            import time
            t0 = time.time()
            expected[v], rc = trace_hashes(os.path.join(clean, "h_" + v), paths[v], 600)
            print("clean %s: %d scripts, rc %d, %.1fs" % (v, len(expected[v]), rc, time.time() - t0), flush=True)
        muts = []
        srcs = sorted(f for f in os.listdir(os.path.join(REPO, "src")) if f.endswith(".c") and f not in SKIP_FILES)
        for f in srcs:
            muts += mutants_of(os.path.join(REPO, "src", f))
        random.Random(a.seed).shuffle(muts)
        if a.survivors_of:
            keep = set((r["file"], r["line"], r["new"]) for r in json.load(open(a.survivors_of))["results"] if r["status"] == "survived")
            muts = [m for m in muts if (m[0], m[1] + 1, m[3].strip()) in keep]
        if a.max:
            muts = muts[:a.max]
        print("mutants: %d" % len(muts), flush=True)
        jobs = [(i, m, base, paths, expected, 120) for i, m in enumerate(muts)]
        results = []
        with cf.ThreadPoolExecutor(max_workers=a.jobs) as ex:
            for k, r in enumerate(ex.map(one_mutant, jobs)):
                results.append(r)
                if (k + 1) % 50 == 0:
                    print("  %d done" % (k + 1), flush=True)
        st = {}
        for r in results:
            st[r["status"]] = st.get(r["status"], 0) + 1
        print(st)
        surv = [r for r in results if r["status"] == "survived"]
        for r in surv:
            print("SURVIVED %s:%d  %s   | %s  =>  %s" % (r["file"], r["line"], r["change"], r["old"], r["new"]))
        os.makedirs(os.path.dirname(a.out), exist_ok=True)
        json.dump({"summary": st, "sample": a.sample, "results": results}, open(a.out, "w"), indent=1)
        return 0
    finally:
        shutil.rmtree(base, ignore_errors=True)


if __name__ == "__main__":
    sys.exit(main())
