#!/usr/bin/env python3
"""check.py — decides one property of /verif/properties.jsonl for the current working tree
of /repo (or $VERIF_REPO):  proof obligations (Coq, rebuilt against the regenerated Gen.v),
the correspondence between the Gallina model and the compiled implementation, and the
property's observer (the boolean function the theorem is stated with, extracted to OCaml)
evaluated on the implementation's own traces.

  check.py --setup
  check.py --property C07 [--tier quick|thorough]
  check.py --replay <file>

Exit 0: property held on everything explored.  Exit 1 + "VIOLATION property=<id> replay=<path>".
"""
import argparse
import concurrent.futures as cf
import fcntl
import hashlib
import json
import os
import random
import re
import shutil
import subprocess
import sys
import time

HERE = os.path.dirname(os.path.abspath(__file__))
VERIF = os.path.dirname(HERE)
sys.path.insert(0, HERE)
import streams  # noqa: E402
import propstreams  # noqa: E402

REPO = os.path.abspath(os.environ.get("VERIF_REPO", "/repo"))
TAG = "main" if REPO == "/repo" else "alt_" + hashlib.sha1(REPO.encode()).hexdigest()[:10]
BUILD = os.path.join(VERIF, "build", TAG)
COQB = os.path.join(BUILD, "coq")
NCPU = min(16, os.cpu_count() or 4)
OUTDIR = os.environ.get("VERIF_OUT", os.path.join(VERIF, "build", "out_" + TAG))
# evidence of a run against another tree (VERIF_REPO) never overwrites the committed evidence
EVDIR = os.path.join(VERIF, "evidence") if TAG == "main" else os.path.join(BUILD, "evidence")

COMMON_TRUSTED = [
    "Coq 8.16.1 kernel incl. vm_compute (no native_compute); no axioms (Print Assumptions per theorem)",
    "harness/gen_dump.c + gcc: coq/Gen.v is the graph of the compiled tables/constants of the current sources",
    "tools/cleaf.py + clang front end (typed AST): coq/GenLeaf.v is the translation of 30 leaf functions (bit-field extractors, weighted level, "
    "AF bitmap get/set, rdsparser_ct_init and getters), proved equal to the model's functions for all arguments in the C ranges; integer conversions wrap, signed overflow assumed absent",
    "tools/cmid.py + clang front end: coq/GenMid.v is the translation of 50 functions (the seven RDSPARSER_BUFFER_UPDATE instances, "
    "rdsparser_buffer_add_af, rdsparser_string_convert / _update_single (both build configurations), rdsparser_string_update, "
    "rdsparser_parser_update_string, the eight setters with their callbacks as events, rdsparser_ecc_lookup with its tables, "
    "rdsparser_group_parse, rdsparser_group0/1/2/4/10_parse, rdsparser_string_get_available / _clear, rdsparser_parser_process, rdsparser_parse, rdsparser_clear, the three setters of the settings, the twelve registration functions and rdsparser_set_user_data) from struct members read to members written; memory model: members of one struct never alias, a string "
    "object is (size, content[], errors[]) and its accessors' pointer arithmetic is not translated; bridged to the model in Properties_Mid_Cxx.v "
    "(a second tie besides the correspondence check: proved on the pinned tree; when a change to the sources defeats translation or proof this is "
    "recorded in the notes and the search for a failing input is doubled, it is not a violation by itself)",
    "hand-written Gallina model coq/Model.v for everything else, tied to the code by executing model (extracted) and implementation on the same scripts",
    "extraction: ExtrOcamlBasic only (bool/option/list/prod/unit/sumbool to OCaml natives), no Extract Constant; OCaml 4.13.1; "
    "extracted: step_u step_n init_state snap_of parse_string_result observer_u observer_n dontcare_equiv decode hex_ok cfg_of step_reent_u step_reent_n rtab_of",
    "ocaml/driver.ml (script/trace parsing, bookkeeping), harness/rds_harness.c, tools/*.py generators",
]


def log(*a):
    print(*a, file=sys.stderr, flush=True)


def sh(cmd, timeout=1800, cwd=None, env=None, stdin=None):
    e = dict(os.environ)
    if env:
        e.update(env)
    try:
        p = subprocess.run(cmd, shell=isinstance(cmd, str), cwd=cwd, env=e, timeout=timeout,
                           stdout=subprocess.PIPE, stderr=subprocess.PIPE, input=stdin)
        return p.returncode, p.stdout.decode("utf-8", "replace"), p.stderr.decode("utf-8", "replace")
    except subprocess.TimeoutExpired as ex:
        return 124, (ex.stdout or b"").decode("utf-8", "replace"), "TIMEOUT after %ss" % timeout


class Lock:
    def __init__(self, name):
        os.makedirs(BUILD, exist_ok=True)
        self.path = os.path.join(BUILD, name + ".lock")

    def __enter__(self):
        self.f = open(self.path, "w")
        fcntl.flock(self.f, fcntl.LOCK_EX)
        return self

    def __exit__(self, *a):
        fcntl.flock(self.f, fcntl.LOCK_UN)
        self.f.close()


def file_hash(paths):
    h = hashlib.sha1()
    for p in sorted(paths):
        h.update(p.encode())
        try:
            with open(p, "rb") as f:
                h.update(f.read())
        except OSError:
            h.update(b"<missing>")
    return h.hexdigest()


def repo_sources():
    out = []
    for d in ("src", "include"):
        for root, _, files in os.walk(os.path.join(REPO, d)):
            for fn in files:
                out.append(os.path.join(root, fn))
    return out


def lib_c_files():
    d = os.path.join(REPO, "src")
    return sorted(os.path.join(d, f) for f in os.listdir(d) if f.endswith(".c"))


def write_if_changed(path, text):
    try:
        with open(path) as f:
            if f.read() == text:
                return False
    except OSError:
        pass
    os.makedirs(os.path.dirname(path), exist_ok=True)
    with open(path, "w") as f:
        f.write(text)
    return True


class BuildError(Exception):
    def __init__(self, stage, detail):
        super().__init__(stage)
        self.stage = stage
        self.detail = detail


# ---------------------------------------------------------------------------------------
# Gen.v
# ---------------------------------------------------------------------------------------
INC = ["-I", os.path.join(REPO, "include"), "-iquote", os.path.join(REPO, "src")]


def ensure_gen():
    """regenerate coq/Gen.v (in the build copy) from the current sources"""
    gd = os.path.join(BUILD, "gen")
    os.makedirs(gd, exist_ok=True)
    key = file_hash(repo_sources() + [os.path.join(VERIF, "harness", "gen_dump.c"), os.path.join(VERIF, "tools", "cleaf.py"),
                                     os.path.join(VERIF, "tools", "cmid.py")]) + " bounds-strict"
    stamp = os.path.join(gd, "stamp")
    genv = os.path.join(COQB, "Gen.v")
    if os.path.exists(stamp) and open(stamp).read() == key and os.path.exists(genv) \
            and os.path.exists(os.path.join(COQB, "GenLeaf.v")) and os.path.exists(os.path.join(COQB, "GenMid.v")) \
            and os.path.exists(os.path.join(gd, "GenMid.json")):
        return
    try:
        os.remove(stamp)      # a failure below must not leave a stale Gen.v marked valid
    except OSError:
        pass
    hdr = open(os.path.join(REPO, "include", "librdsparser.h")).read()
    m = re.search(r"enum\s+rdsparser_country\s*\{(.*?)\}", hdr, re.S)
    names = re.findall(r"\b(RDSPARSER_COUNTRY_[A-Z0-9_]+)\b", m.group(1)) if m else []
    with open(os.path.join(gd, "enum_names.inc"), "w") as f:
        for n in names:
            f.write('{"%s", %s},\n' % (n, n))
    src = os.path.join(VERIF, "harness", "gen_dump.c")
    san = ["-fsanitize=address,undefined", "-fsanitize=bounds-strict", "-fno-sanitize-recover=all"]
    rc, o, e = sh(["gcc", "-O1", "-g"] + san + INC + ["-I", gd, src] + lib_c_files() + ["-o", os.path.join(gd, "gen_dump")])
    if rc != 0:
        raise BuildError("compile-gen_dump", e[-4000:])
    rc, o2, e2 = sh(["gcc", "-O1", "-g", "-DRDSPARSER_DISABLE_UNICODE"] + san + INC + ["-I", gd, src] + lib_c_files() + ["-o", os.path.join(gd, "gen_dump_n")])
    narrow_ok = rc == 0
    narrow_err = e2
    prog = os.path.join(gd, "progress.txt")
    out_main = ""
    section_errors = {}
    poison = {
        "pty": "".join("Definition pty_%s_%s : list (list Z) := [].\n" % (a, b) for b in ("name", "short", "long") for a in ("rds", "rbds")),
        "country": "Definition country_name : list (list Z) := [].\nDefinition country_iso : list (list Z) := [].\n",
    }
    for section in ("consts", "conv", "ecc", "pty", "country"):
        rc, o, err = sh([os.path.join(gd, "gen_dump"), section, prog], timeout=300)
        if rc != 0:
            last = open(prog).read().strip() if os.path.exists(prog) else "?"
            msg = "table dumper aborted (exit %d) in section %s during call: %s\n%s" % (rc, section, last, err[-3000:])
            if section in poison:
                # only the lookup properties depend on this section: poison it, they will fail
                section_errors[section] = {"call": last, "stderr": err[-3000:], "rc": rc}
                o = "(* section %s: the dumper aborted during call %s *)\n" % (section, last) + poison[section]
            else:
                raise BuildError("run-gen_dump", msg)
        out_main += o
    with open(os.path.join(gd, "section_errors.json"), "w") as f:
        json.dump(section_errors, f)
    out_n = ""
    if narrow_ok:
        rc, out_n, err = sh([os.path.join(gd, "gen_dump_n"), "narrow", prog], timeout=300)
        if rc != 0:
            narrow_ok = False
            narrow_err = "narrow dumper aborted: " + err[-2000:]
    if not narrow_ok:
        # the non-unicode configuration does not build / run: only C20 needs it
        out_n = "Definition conv_narrow : list Z := [].\nDefinition c_sizeof_char_narrow : Z := 0%Z.\n"
        with open(os.path.join(gd, "narrow_error.txt"), "w") as f:
            f.write(narrow_err)
    else:
        try:
            os.remove(os.path.join(gd, "narrow_error.txt"))
        except OSError:
            pass
    text = ("(* GENERATED by tools/check.py from the current sources of the repository; do not edit *)\n"
            "From Coq Require Import ZArith List String.\nImport ListNotations.\nLocal Open Scope Z_scope.\n\n"
            + out_main + "\n" + out_n)
    os.makedirs(COQB, exist_ok=True)
    write_if_changed(genv, text)
    # the leaf functions, translated from clang's typed AST (tools/cleaf.py)
    tmp = os.path.join(gd, "GenLeaf.v")
    rc, o, e = sh([sys.executable, os.path.join(VERIF, "tools", "cleaf.py"), REPO, tmp], timeout=300)
    with open(os.path.join(gd, "leaf_errors.txt"), "w") as f:
        f.write(o + e)
    if not os.path.exists(tmp):
        raise BuildError("cleaf", (o + e)[-3000:])
    write_if_changed(os.path.join(COQB, "GenLeaf.v"), open(tmp).read())
    # the middle layer (candidate buffer, text cell update, threshold gate), tools/cmid.py
    tmp = os.path.join(gd, "GenMid.v")
    for old in (tmp, os.path.join(gd, "GenMid.json")):
        try:
            os.remove(old)
        except OSError:
            pass
    rc, o, e = sh([sys.executable, os.path.join(VERIF, "tools", "cmid.py"), REPO, tmp], timeout=300)
    with open(os.path.join(gd, "mid_errors.txt"), "w") as f:
        f.write(o + e)
    if not os.path.exists(tmp) or not os.path.exists(os.path.join(gd, "GenMid.json")):
        # the translator itself failed: no middle-layer bridge in this run (noted by the checks that have one)
        with open(tmp, "w") as f:
            f.write("(* GenMid.v: tools/cmid.py failed on the current sources *)\nRequire Import Base GenLeaf.\n")
        with open(os.path.join(gd, "GenMid.json"), "w") as f:
            json.dump({"translated": [], "unsupported": {"*": "tools/cmid.py failed: " + (o + e)[-500:]}}, f)
    write_if_changed(os.path.join(COQB, "GenMid.v"), open(tmp).read())
    with open(stamp, "w") as f:
        f.write(key)


# ---------------------------------------------------------------------------------------
# Coq
# ---------------------------------------------------------------------------------------
def sync_coq():
    os.makedirs(COQB, exist_ok=True)
    src = os.path.join(VERIF, "coq")
    names = set()
    for fn in os.listdir(src):
        if fn.endswith(".v") and fn not in ("Gen.v", "GenLeaf.v", "GenMid.v") or fn == "_CoqProject":
            names.add(fn)
            text = open(os.path.join(src, fn)).read()
            write_if_changed(os.path.join(COQB, fn), text)
    for fn in os.listdir(COQB):
        if fn.endswith(".v") and fn not in ("Gen.v", "GenLeaf.v", "GenMid.v") and fn not in names:
            os.remove(os.path.join(COQB, fn))
    if not os.path.exists(os.path.join(COQB, "Makefile.coq")) or \
            os.path.getmtime(os.path.join(COQB, "Makefile.coq")) < os.path.getmtime(os.path.join(COQB, "_CoqProject")):
        rc, o, e = sh("coq_makefile -f _CoqProject -o Makefile.coq", cwd=COQB)
        if rc != 0:
            raise BuildError("coq_makefile", e)


def coq_make(targets, timeout=3000):
    """returns (ok, log).  Full .vo builds only."""
    sync_coq()
    cmd = ["make", "-f", "Makefile.coq", "-k", "-j%d" % NCPU] + targets
    rc, o, e = sh(cmd, cwd=COQB, timeout=timeout, env={"TIMED": ""})
    return rc == 0, o + e


def guard_genmid():
    """GenMid.v is generated text: it must compile, and in bounded time (Coq's inference can be
    exponential on shapes the translator has not met).  If it does not, it is replaced by a stub and
    every middle-layer bridge reports "not available" — never a verdict by itself."""
    gd = os.path.join(BUILD, "gen")
    rc, o, e = sh("timeout -k 10 900 make -f Makefile.coq GenMid.vo", cwd=COQB, timeout=1000)
    if rc == 0:
        return
    why = "GenMid.v (generated by tools/cmid.py) did not compile within 900 s on the current sources: " + " ".join((o + e).split())[-300:]
    with open(os.path.join(COQB, "GenMid.v"), "w") as f:
        f.write("(* GenMid.v: the generated file did not compile; replaced by a stub *)\nRequire Import Base GenLeaf.\n")
    with open(os.path.join(gd, "GenMid.json"), "w") as f:
        json.dump({"translated": [], "unsupported": {"*": why}}, f)
    sh("make -f Makefile.coq GenMid.vo", cwd=COQB, timeout=300)


def hygiene():
    """no axioms / admits / disabled checks anywhere in the development"""
    bad = []
    pat = re.compile(r"\b(Admitted|admit|Axiom|Axioms|Parameter|Parameters|Conjecture|"
                     r"Unset\s+Guard\s+Checking|bypass_check|Admit\s+Obligations|type-in-type|impredicative-set|"
                     r"Unset\s+Universe\s+Checking|Unset\s+Positivity\s+Checking)\b")
    src = os.path.join(VERIF, "coq")
    for fn in sorted(os.listdir(src)):
        if not (fn.endswith(".v") or fn == "_CoqProject"):
            continue
        text = open(os.path.join(src, fn)).read()
        text_nc = re.sub(r"\(\*.*?\*\)", "", text, flags=re.S)
        for m in pat.finditer(text_nc):
            bad.append("%s: %s" % (fn, m.group(0)))
        # Variable/Hypothesis outside a Section
        depth = 0
        for line in text_nc.splitlines():
            s = line.strip()
            if re.match(r"Section\s+\w+", s):
                depth += 1
            elif re.match(r"End\s+\w+", s) and depth > 0:
                depth -= 1
            elif re.match(r"(Variable|Variables|Context|Hypothesis|Hypotheses)\b", s) and depth == 0:
                bad.append("%s: %s outside a Section" % (fn, s[:40]))
    return bad


def ensure_driver():
    od = os.path.join(BUILD, "ocaml")
    os.makedirs(od, exist_ok=True)
    ok, lg = coq_make(["Inst.vo", "Reent.vo"])        # everything coq/Extract.v requires
    if not ok:
        raise BuildError("coq-model", lg[-4000:])
    srcs = [os.path.join(COQB, f) for f in os.listdir(COQB) if f.endswith(".v")] + \
           [os.path.join(VERIF, "ocaml", f) for f in os.listdir(os.path.join(VERIF, "ocaml"))]
    key = file_hash(srcs)
    stamp = os.path.join(od, "stamp")
    if os.path.exists(stamp) and open(stamp).read() == key and os.path.exists(os.path.join(od, "driver")):
        return os.path.join(od, "driver")
    rc, o, e = sh(["coqc", "-R", COQB, "RDS", "-o", os.path.join(od, "Extract.vo"), os.path.join(COQB, "Extract.v")], cwd=od, timeout=600)
    if rc != 0:
        raise BuildError("extraction", (o + e)[-3000:])
    for f in os.listdir(os.path.join(VERIF, "ocaml")):
        shutil.copy(os.path.join(VERIF, "ocaml", f), od)
    rc, o, e = sh("ocamlfind ocamlopt -O2 -w -a model.mli model.ml driver.ml main.ml -o driver", cwd=od, timeout=600)
    if rc != 0:
        raise BuildError("ocaml-driver", (o + e)[-3000:])
    with open(stamp, "w") as f:
        f.write(key)
    return os.path.join(od, "driver")


# ---------------------------------------------------------------------------------------
# harness builds
# ---------------------------------------------------------------------------------------
VARIANTS = {
    # name: (defines, flavor of the model)
    "hu": ([], "u"),
    "hn": (["-DRDSPARSER_DISABLE_UNICODE"], "n"),
    "xu": (["-DRDSPARSER_DISABLE_HEAP"], "u"),
    "xn": (["-DRDSPARSER_DISABLE_HEAP", "-DRDSPARSER_DISABLE_UNICODE"], "n"),
}


def ensure_harness(variant, san=None):
    """compile the harness + the library sources of the current tree; returns the binary path"""
    hd = os.path.join(BUILD, "h")
    os.makedirs(hd, exist_ok=True)
    name = "rds_harness_%s%s" % (variant, "_" + san if san else "")
    src = os.path.join(VERIF, "harness", "rds_harness.c")
    stamp = os.path.join(hd, name + ".stamp")
    binp = os.path.join(hd, name)
    defs, _ = VARIANTS[variant]
    flags = ["-O1", "-g", "-fno-omit-frame-pointer"]
    if san == "asan":
        # bounds-strict: also arrays that are the last member of their struct (rdsparser_af_t.buffer)
        flags += ["-fsanitize=address,undefined", "-fsanitize=bounds-strict", "-fno-sanitize-recover=all"]
    cc = "gcc"
    if san == "msan":
        cc = "clang"
        flags += ["-fsanitize=memory", "-fsanitize-memory-track-origins", "-fno-sanitize-recover=all"]
    if san == "tsan":
        flags += ["-fsanitize=thread", "-DHARNESS_MT", "-pthread"]
    if san == "mt":
        flags += ["-DHARNESS_MT", "-pthread"]
    link = [] if "-DRDSPARSER_DISABLE_HEAP" in defs else ["-Wl,--wrap=malloc"]
    key = file_hash(repo_sources() + [src]) + name + " " + " ".join([cc] + flags + defs)
    if os.path.exists(stamp) and open(stamp).read() == key and os.path.exists(binp):
        return binp
    rc, o, e = sh([cc] + flags + defs + INC + [src] + lib_c_files() + link + ["-o", binp], timeout=600)
    if rc != 0:
        raise BuildError("compile-harness-" + name, e[-4000:])
    with open(stamp, "w") as f:
        f.write(key)
    return binp


# ---------------------------------------------------------------------------------------
# running streams
# ---------------------------------------------------------------------------------------
LINE_RE = re.compile(r"(\w+)=(\S+)")


def parse_result_line(l):
    kind, _, rest = l.partition(" ")
    d = {"kind": kind}
    # model=... impl=... may contain spaces: split them off first
    for tag in (" line=", " what=", " unparsable="):
        if tag in rest:
            rest, _, v = rest.partition(tag)
            d[tag.strip(" =")] = v
    if " model=" in rest:
        rest, _, mi = rest.partition(" model=")
        mo, _, im = mi.partition(" impl=")
        d["model"] = mo
        d["impl"] = im
    for m in LINE_RE.finditer(rest):
        d[m.group(1)] = m.group(2)
    return d


def run_shard(args):
    (harness, driver, flavor, prop, script_path, twin, env_extra) = args
    trace = script_path + ".itrace"
    env = dict(os.environ)
    env["ASAN_OPTIONS"] = "detect_leaks=1:abort_on_error=0:exitcode=99"
    env["UBSAN_OPTIONS"] = "print_stacktrace=1:halt_on_error=1:exitcode=99"
    env["MSAN_OPTIONS"] = "exitcode=98"
    if env_extra:
        env.update(env_extra)
    with open(trace, "w") as tf:
        try:
            p = subprocess.run([harness, script_path], stdout=tf, stderr=subprocess.PIPE, env=env, timeout=1200)
            hrc, herr = p.returncode, p.stderr.decode("utf-8", "replace")
        except subprocess.TimeoutExpired:
            hrc, herr = 124, "TIMEOUT: the implementation did not return"
    denv = dict(os.environ)
    if twin:
        denv["VERIF_TWIN"] = "1"
    p = subprocess.run([driver, "check", flavor, prop, script_path, trace], stdout=subprocess.PIPE,
                       stderr=subprocess.PIPE, env=denv, timeout=3000)
    lines = p.stdout.decode("utf-8", "replace").splitlines()
    res = [parse_result_line(l) for l in lines if l]
    if p.returncode != 0:
        res.append({"kind": "DRIVERFAIL", "what": p.stderr.decode("utf-8", "replace")[-2000:]})
    try:
        os.remove(trace)
    except OSError:
        pass
    return {"script": script_path, "harness_rc": hrc, "harness_err": herr[-6000:], "results": res}


REPEAT_MARK = "# groups repeated across resets"


def repeat_across_resets(name, lines):
    """single-instance scripts without twin assertions: after a clear / init, sometimes deliver the
    most recent group again at once (what is 'received since the last reset' must not depend on what
    was received before it).  Deterministic in the script's name."""
    if any(l.startswith("?") for l in lines) or (lines and lines[0] == REPEAT_MARK):
        return lines
    insts = set(l.split(None, 1)[0] for l in lines if l and l[0].isdigit())
    if len(insts) != 1:
        return lines
    r = random.Random(hashlib.sha1(name.encode()).hexdigest())
    out, last = [REPEAT_MARK], None
    pending = None
    for l in lines:
        t = l.split()
        if len(t) >= 2 and t[1] in ("P", "S"):
            if pending is not None and r.random() < 0.5:
                out.append(pending)
            pending = None
            last = l
        elif len(t) >= 2 and t[1] in ("C", "I") and last is not None:
            pending = last
        out.append(l)
    return out


def run_stream(stream, variant="hu", prop="-", san=None, twin=False, env_extra=None, tagdir="s"):
    """runs a stream (list of (name, lines)) sharded over the cores; returns merged results"""
    harness = ensure_harness(variant, san)
    driver = ensure_driver()
    flavor = VARIANTS[variant][1]
    stream[:] = [(n, repeat_across_resets(n, l)) for n, l in stream]      # in place: replays show what ran
    wd = os.path.join(OUTDIR, "%s_%s_%d" % (tagdir, prop, os.getpid()))
    os.makedirs(wd, exist_ok=True)
    nshard = max(1, min(NCPU, len(stream)))
    shards = [[] for _ in range(nshard)]
    sizes = [0] * nshard
    for item in sorted(stream, key=lambda x: -len(x[1])):
        i = sizes.index(min(sizes))
        shards[i].append(item)
        sizes[i] += len(item[1])
    jobs = []
    for i, sh_ in enumerate(shards):
        if not sh_:
            continue
        p = os.path.join(wd, "shard%d.script" % i)
        streams.write_stream(p, sh_)
        jobs.append((harness, driver, flavor, prop, p, twin, env_extra))
    distinct = set()
    for _, lines in stream:
        for l in lines:
            t = l.split(None, 2)
            if len(t) >= 2 and t[1] in ("P", "S"):
                distinct.add(l.split(None, 1)[1])
    out = {"div": [], "mon": [], "badgen": [], "crash": [], "stat": {}, "driverfail": [], "distinct_calls": distinct}
    with cf.ThreadPoolExecutor(max_workers=NCPU) as ex:
        for r in ex.map(run_shard, jobs):
            if r["harness_rc"] != 0:
                out["crash"].append({"script_file": r["script"], "rc": r["harness_rc"], "stderr": r["harness_err"]})
            for d in r["results"]:
                k = d["kind"]
                if k == "DIV":
                    out["div"].append(d)
                elif k == "MON":
                    out["mon"].append(d)
                elif k == "BADGEN":
                    out["badgen"].append(d)
                elif k == "DRIVERFAIL":
                    out["driverfail"].append(d)
                elif k == "STAT":
                    for kk, v in d.items():
                        if kk != "kind":
                            out["stat"][kk] = out["stat"].get(kk, 0) + int(v)
    shutil.rmtree(wd, ignore_errors=True)
    return out


# ---------------------------------------------------------------------------------------
# shrinking and replay files
# ---------------------------------------------------------------------------------------
def still_fails(lines, variant, prop, san, twin, want):
    r = run_stream([("replay", lines)], variant=variant, prop=prop, san=san, twin=twin, tagdir="shr")
    if want == "mon":
        return bool(r["mon"])
    if want == "crash":
        return bool(r["crash"])
    if want.startswith("div:"):
        keys = set(want[4:].split(","))
        return any(d.get("key") in keys for d in r["div"])
    return False


def shrink(lines, variant, prop, san, twin, want, budget=120):
    """greedy delta-debugging on op lines (twin assertion lines travel with their ops)"""
    cur = list(lines)
    n = 2
    tries = 0
    while len(cur) > 1 and tries < budget:
        chunk = max(1, len(cur) // n)
        removed = False
        i = 0
        while i < len(cur) and tries < budget:
            cand = cur[:i] + cur[i + chunk:]
            tries += 1
            if cand and still_fails(cand, variant, prop, san, twin, want):
                cur = cand
                removed = True
            else:
                i += chunk
        if not removed:
            if chunk == 1:
                break
            n = min(len(cur), n * 2)
    return cur


def script_by_name(stream, name):
    for n, lines in stream:
        if n == name:
            return lines
    return None


def write_replay(prop, n, payload):
    rd = os.path.join(EVDIR, "replays")
    os.makedirs(rd, exist_ok=True)
    path = os.path.join(rd, "%s_%d.json" % (prop, n))
    payload = dict(payload)
    payload["property"] = prop
    payload["replay_cmd"] = "tools/check.py --replay %s" % path
    with open(path, "w") as f:
        json.dump(payload, f, indent=1)
    return path


def do_replay(path):
    rp = json.load(open(path))
    prop = rp["property"]
    if rp.get("kind") in ("obligation", "build"):
        print("replay: %s — re-run `tools/check.py --property %s`; detail:\n%s" % (rp.get("kind"), prop, rp.get("detail", "")[:3000]))
        return 1
    lines = rp["script"]
    r = run_stream([("replay", lines)], variant=rp.get("variant", "hu"), prop=rp.get("observer", prop),
                   san=rp.get("san"), twin=rp.get("twin", False), tagdir="rep")
    for d in r["mon"] + r["div"] + r["crash"]:
        print(json.dumps(d)[:1500])
    bad = bool(r["mon"] or r["crash"]) or any(d.get("key") in set(rp.get("keys", [])) for d in r["div"])
    print("replay: %s" % ("still fails" if bad else "passes on the current tree"))
    return 1 if bad else 0


# ---------------------------------------------------------------------------------------
# the per-property decision
# ---------------------------------------------------------------------------------------
def known_findings():
    p = os.path.join(VERIF, "known_findings.json")
    if os.path.exists(p):
        return json.load(open(p))
    return {"known": [], "fixed": []}


OBSERVED_PROPS = {"C01", "C02", "C04", "C06", "C07", "C08", "C09", "C10", "C11", "C12", "C14", "C15", "C16", "C17"}


def extra_modules(prop):
    """Properties_Observers is table-independent and belongs to every observer property; its
    instantiation with the measured tables belongs to C16 (well-formed texts for the measured table)"""
    out = []
    if prop in OBSERVED_PROPS:
        out.append("Properties_Observers")
    if prop == "C16":
        out.append("Properties_ObserversInst")
    return out


# middle-layer bridges (tools/cmid.py -> GenMid.v): property -> (translated functions the bridge is about, module)
_BUF = ["m_buffer_update_pi", "m_buffer_update_pty", "m_buffer_update_tp", "m_buffer_update_ta",
        "m_buffer_update_ms", "m_buffer_update_ecc", "m_buffer_update_country"]
_SET = ["m_set_pi", "m_set_pty", "m_set_tp", "m_set_ta", "m_set_ms", "m_set_ecc", "m_set_country"]
_TXT = ["m_string_convert", "m_update_single", "m_string_update", "m_parser_update_string"]
MID = {
    "C01": (_BUF + _SET + ["m_group_parse"], "Properties_Mid_C01"),
    "C02": (_BUF + _SET + _TXT + ["m_buffer_add_af", "m_add_af", "m_group0_parse", "m_group10_parse"], "Properties_Mid_C02"),
    "C03": (_BUF + _SET + _TXT + ["m_buffer_add_af", "m_add_af", "m_group_parse", "m_group0_parse", "m_group10_parse", "m_ecc_lookup",
                                  "m_group1_parse", "m_group4_parse", "m_string_get_available", "m_string_clear", "m_group2_parse",
                                  "m_parser_process", "m_parse"], "Properties_Mid_C03"),
    "C04": (_BUF + _SET + ["m_buffer_add_af", "m_add_af"], "Properties_Mid_C04"),
    "C06": (_TXT, "Properties_Mid_C06"),
    "C07": (["m_string_convert", "m_update_single", "m_string_convert_n", "m_update_single_n"], "Properties_Mid_C07"),
    "C08": (_TXT + ["m_string_get_available", "m_string_clear", "m_group2_parse"], "Properties_Mid_C08"),
    "C09": (_BUF, "Properties_Mid_C09"),
    "C10": (["m_buffer_add_af"], "Properties_Mid_C10"),
    "C11": (_BUF + _SET + ["m_ecc_lookup", "m_group1_parse"], "Properties_Mid_C11"),
    "C12": (["m_group4_parse"], "Properties_Mid_C12"),
    "C13": (["m_string_clear", "m_clear"], "Properties_Mid_C13"),
    "C15": (["m_set_user_data", "m_register_pi", "m_register_pty", "m_register_tp", "m_register_ta", "m_register_ms", "m_register_ecc", "m_register_country", "m_register_af", "m_register_ps", "m_register_rt", "m_register_ptyn", "m_register_ct"], "Properties_Mid_C15"),
    "C17": (["m_set_text_correction", "m_set_text_progressive", "m_set_extended_check"], "Properties_Mid_C17"),
    "C20": (["m_string_convert", "m_string_convert_n", "m_update_single_n"], "Properties_Mid_C20"),
}


def mid_module(prop):
    """(module, None) when tools/cmid.py translated every function the bridge of this property is
    about; (None, reason) when the current shape of one of them is outside the translated subset of C
    (then the bridge says nothing in this run: noted, the other obligations and the correspondence
    check stand on their own); (None, None) for properties without such a bridge"""
    if prop not in MID:
        return None, None
    deps, mod = MID[prop]
    try:
        st = json.load(open(os.path.join(BUILD, "gen", "GenMid.json")))
    except (OSError, ValueError):
        return None, "no translation status"
    missing = [d for d in deps if d not in st.get("translated", [])]
    if missing:
        why = "; ".join("%s: %s" % (d, st.get("unsupported", {}).get(d, st.get("unsupported", {}).get("*", "not translated"))) for d in missing)
        return None, why
    return mod, None


def module_theorems(mod):
    q = os.path.join(VERIF, "coq", mod + ".v")
    t2 = re.sub(r"\(\*.*?\*\)", "", open(q).read(), flags=re.S)
    return re.findall(r"^\s*(?:Theorem|Lemma|Corollary|Example)\s+(\w+)", t2, flags=re.M)


def theorem_info(prop):
    """obligations = theorems/lemmas/examples stated in Properties_<prop>.v"""
    p = os.path.join(VERIF, "coq", "Properties_%s.v" % prop)
    if not os.path.exists(p):
        return []
    text = re.sub(r"\(\*.*?\*\)", "", open(p).read(), flags=re.S)
    names = re.findall(r"^\s*(?:Theorem|Lemma|Corollary|Example)\s+(\w+)", text, flags=re.M)
    for extra in extra_modules(prop):
        # the observer this check evaluates on the library is proved of the model for every script
        q = os.path.join(VERIF, "coq", extra + ".v")
        t2 = re.sub(r"\(\*.*?\*\)", "", open(q).read(), flags=re.S)
        names += re.findall(r"^\s*(?:Theorem|Lemma|Corollary|Example)\s+(\w+)", t2, flags=re.M)
    return names


def assumptions_from_log(lg):
    """Print Assumptions output: 'Closed under the global context' or a list of axioms"""
    closed = lg.count("Closed under the global context")
    axioms = re.findall(r"^Axioms:\n((?:.+\n)+?)(?=\S)", lg, flags=re.M)
    return closed, axioms


def check_property(prop, tier, seed):
    t0 = time.time()
    violations = []     # dicts: kind, detail, script (lines), variant, ...
    notes = []
    cov = {"samples": []}
    obligations = theorem_info(prop)
    discharged = 0
    coq_log = ""
    build_failed = None
    mid_used = []
    mid_failed = None
    spec = propstreams.SPECS[prop]

    with Lock("build"):
        bad = hygiene()
        if bad:
            build_failed = ("hygiene", "forbidden constructs in the Coq development: " + "; ".join(bad))
        try:
            ensure_gen()
            sync_coq()
        except BuildError as ex:
            build_failed = (ex.stage, ex.detail)
        if not build_failed:
            target = "Properties_%s.vo" % prop
            ok, coq_log = coq_make([target] + [m + ".vo" for m in extra_modules(prop)])
            if ok:
                discharged = len(obligations)
                if prop in MID:
                    guard_genmid()
                mid_mod, mid_why = mid_module(prop)
                if mid_mod:
                    # the code-level bridge of the middle layer: a SECOND tie between model and code (the
                    # first is the correspondence check).  Proved: its theorems are listed with the
                    # others.  Not proved: the model-level obligations and the correspondence check still
                    # tie the model to the code, so this alone is no violation; it is recorded and buys a
                    # second, differently seeded search for a failing input (below).
                    mid_names = module_theorems(mid_mod)
                    ok3, lg3 = coq_make([mid_mod + ".vo"])
                    if ok3:
                        obligations = obligations + mid_names
                        discharged += len(mid_names)
                        mid_used.append(mid_mod)
                        coq_log += lg3
                        notes.append("middle-layer bridge %s (translated C functions %s = the model's): proved" % (mid_mod, ", ".join(MID[prop][0])))
                    else:
                        errs3 = re.findall(r'File "\./([^"]+)", line (\d+).*?\n(Error:.*?)(?:\n\n|\nmake)', lg3, flags=re.S)
                        mid_failed = "; ".join("%s:%s %s" % (f, ln, " ".join(m.split())[:200]) for f, ln, m in errs3) or lg3[-400:]
                        notes.append("middle-layer bridge %s NOT proved for the current shape of the sources (%s): the translated C functions "
                                     "%s could not be shown equal to the model's by the generic proof scripts; the search for a failing "
                                     "input was doubled" % (mid_mod, mid_failed, ", ".join(MID[prop][0])))
                elif mid_why:
                    notes.append("middle-layer bridge %s not available in this run: the current shape of the sources is outside the "
                                 "C subset tools/cmid.py translates (%s); the model-level obligations and the correspondence check "
                                 "do not depend on it" % (MID[prop][1], mid_why))
                if prop == "C12":
                    # optional strengthening (all values of the C parameter types); its proof follows the
                    # shape of src/ct.c, so a restructuring can defeat it: recorded, never a violation
                    ok2, lg2 = coq_make(["Properties_C12full.vo"])
                    notes.append("optional theorem C12_code_ct_init (clock-time bridge for ALL uint32_t / int8_t parameter values): "
                                 + ("proved" if ok2 else "NOT proved for the current shape of src/ct.c; the finite bridges "
                                    "C12_code_ct_init_all_times / _all_days (every value a 4A group can carry) are proved"))
            else:
                # which obligations are still proved?  rebuild tells only per file: count zero for the file
                notes.append("coq build of %s failed" % target)
            try:
                ensure_driver()
                for v, san in spec.get("harnesses", [("hu", None)]):
                    ensure_harness(v, san)
            except BuildError as ex:
                build_failed = (ex.stage, ex.detail)

    closed, axioms = assumptions_from_log(coq_log)
    if not build_failed and discharged == len(obligations) and obligations:
        # Print Assumptions for every obligation, on every run (the build log only has them when
        # the file was recompiled in this run)
        try:
            with Lock("build"):
                af = os.path.join(COQB, "Assum_%s.v" % prop)
                mods = ["Properties_%s" % prop] + extra_modules(prop) + mid_used
                with open(af, "w") as f:
                    f.write("Require Import %s.\n" % " ".join("RDS." + m for m in mods))
                    for t in obligations:
                        f.write("Print Assumptions %s.\n" % t)
                rc, o, e = sh(["coqc", "-R", COQB, "RDS", af], cwd=COQB, timeout=600)
                for ext in (".v", ".vo", ".glob", ".vok", ".vos"):
                    try:
                        os.remove(os.path.join(COQB, "Assum_%s%s" % (prop, ext)))
                    except OSError:
                        pass
                try:
                    os.remove(os.path.join(COQB, ".Assum_%s.aux" % prop))
                except OSError:
                    pass
            if rc == 0:
                closed, axioms = assumptions_from_log(o + "\nEND\n")
            else:
                notes.append("Print Assumptions pass failed: " + (o + e)[-500:])
        except Exception as ex:      # noqa
            notes.append("Print Assumptions pass failed: %r" % (ex,))
    if build_failed:
        violations.append({"kind": "build", "detail": "%s: %s" % build_failed, "found_input": False})
    elif discharged < len(obligations) or not obligations:
        errs = re.findall(r'File "\./([^"]+)", line (\d+).*?\n(Error:.*?)(?:\n\n|\nmake)', coq_log, flags=re.S)
        detail = "; ".join("%s:%s %s" % (f, ln, " ".join(m.split())[:400]) for f, ln, m in errs) or coq_log[-1500:]
        violations.append({"kind": "obligation", "detail": "proof obligations of Properties_%s.v no longer check: %s" % (prop, detail),
                           "found_input": False})

    results = []
    if not build_failed or build_failed[0] in ("hygiene",):
        rng = random.Random(seed)
        try:
            results = propstreams.run_property(prop, tier, rng, sys.modules[__name__], coq_failed=bool(violations))
            if mid_failed:
                # the second tie broke: look harder for an input on which code and model differ
                rng2 = random.Random(seed + 7919)
                results += propstreams.run_property(prop, tier, rng2, sys.modules[__name__], coq_failed=True)
        except BuildError as ex:
            violations.append({"kind": "build", "detail": "%s: %s" % (ex.stage, ex.detail), "found_input": False})
    # results: list of dicts from propstreams: {"name", "stream", "variant", "observer", "twin", "san", "out", "extra_violations"}
    evaluations = 0
    distinct_calls = set()
    observed = 0
    twins = 0
    divs = 0
    families = {}
    foreign = []
    for r in results:
        out = r.get("out")
        if out is None:
            c = r.get("counts", {})
            evaluations += c.get("evaluations", 0)
            observed += c.get("observed", 0)
            families[r["name"]] = dict(c)
            for v in r.get("extra_violations", []):
                violations.append(v)
            for k, v in r.get("extra_cov", {}).items():
                if k == "samples":
                    cov["samples"] += v
                else:
                    cov[k] = v
            continue
        st = out["stat"]
        distinct_calls |= out.get("distinct_calls", set())
        evaluations += st.get("ops", 0)
        observed += st.get("observed", 0)
        twins += st.get("twins", 0)
        divs += st.get("div", 0)
        fe = families.setdefault(r["name"], {"scripts": 0, "ops": 0, "observed": 0, "twins": 0, "divergences": 0, "badgen": 0, "rounds": 0,
                                             "variant": r.get("variant", "hu") + ("+" + r["san"] if r.get("san") else "")})
        fe["scripts"] += st.get("scripts", 0)
        fe["ops"] += st.get("ops", 0)
        fe["observed"] += st.get("observed", 0)
        fe["twins"] += st.get("twins", 0)
        fe["divergences"] += st.get("div", 0)
        fe["badgen"] += len(out["badgen"])
        fe["rounds"] += 1
        if r["stream"] and r.get("round", 0) == 0:
            cov["samples"].append({"family": r["name"], "script": r["stream"][0][0], "first_ops": r["stream"][0][1][:12]})
        for d in out["driverfail"]:
            violations.append({"kind": "machinery", "detail": "model driver failed: " + d.get("what", ""), "found_input": False})
        if out["badgen"]:
            notes.append("%d generated twin pairs did not satisfy the theorem's hypothesis and were skipped (family %s)" % (len(out["badgen"]), r["name"]))
        owned = set(r.get("owned_keys", []))
        for d in out["div"]:
            if d.get("key") in owned or (d.get("key") == "ev" and r.get("owns_events")) or d.get("key") in ("trace",):
                violations.append({"kind": "divergence", "detail": d, "family": r["name"], "stream": r["stream"], "variant": r.get("variant", "hu"),
                                   "observer": r.get("observer", prop), "twin": r.get("twin", False), "san": r.get("san"), "found_input": True,
                                   "keys": sorted(owned | {"ev"})})
            else:
                if len(foreign) < 20:
                    foreign.append({"family": r["name"], "script": d.get("script"), "op": d.get("op"), "key": d.get("key")})
        for d in out["mon"]:
            violations.append({"kind": "observer", "detail": d, "family": r["name"], "stream": r["stream"], "variant": r.get("variant", "hu"),
                               "observer": r.get("observer", prop), "twin": r.get("twin", False), "san": r.get("san"), "found_input": True})
        for c in out["crash"]:
            if r.get("crash_is_violation", False):
                violations.append({"kind": "crash", "detail": c, "family": r["name"], "stream": r["stream"], "variant": r.get("variant", "hu"),
                                   "observer": r.get("observer", prop), "twin": r.get("twin", False), "san": r.get("san"), "found_input": True})
            else:
                notes.append("the implementation aborted on a script of family %s (exit %s): later scripts of that shard were not "
                             "explored; memory safety and termination are decided by C05" % (r["name"], c["rc"]))
        for v in r.get("extra_violations", []):
            violations.append(v)
        for k, v in r.get("extra_cov", {}).items():
            cov[k] = v

    # a concrete failing input explains a broken obligation: report the input, not both
    if any(v.get("found_input") for v in violations):
        violations = [v for v in violations if v["kind"] != "obligation"]
    # ---------------- verdict ----------------
    kf = known_findings()
    reported = []
    known_lines = []
    nrep = 0
    real = violations
    # group: report at most a handful, shrunk
    seen_fam = {}
    for v in real:
        fam = v.get("family", v["kind"])
        if seen_fam.get(fam, 0) >= 2 or nrep >= 6:
            continue
        seen_fam[fam] = seen_fam.get(fam, 0) + 1
        matched = propstreams.match_known(prop, v, kf)
        if matched:
            known_lines.append("KNOWN-FINDING: property=%s %s" % (prop, matched))
            continue
        payload = {"kind": v["kind"], "tier": tier, "seed": seed}
        if v.get("found_input") and v.get("stream") is not None:
            d = v["detail"]
            name = d.get("script") if isinstance(d, dict) else None
            lines = script_by_name(v["stream"], name) if name else None
            if lines is None and isinstance(d, dict) and d.get("script_file"):
                lines = None
            if lines is not None:
                opn = int(d.get("op", "0") or 0)
                # truncate after the failing op (count op lines; twin lines follow their ops)
                cut = []
                cnt = 0
                for l in lines:
                    if l and l[0] not in "?#=":
                        cnt += 1
                    cut.append(l)
                    if cnt >= opn and opn > 0 and (not v.get("twin") or l.startswith("?")):
                        break
                want = "mon" if v["kind"] == "observer" else ("crash" if v["kind"] == "crash" else "div:" + ",".join(v.get("keys", [])))
                try:
                    if still_fails(cut, v["variant"], v["observer"], v.get("san"), v.get("twin"), want):
                        cut = shrink(cut, v["variant"], v["observer"], v.get("san"), v.get("twin"), want,
                                     budget=60 if tier == "quick" else 200)
                    else:
                        cut = lines
                except Exception as ex:  # shrinking is best effort
                    notes.append("shrinking failed: %r" % ex)
                payload.update({"script": cut, "variant": v["variant"], "observer": v["observer"], "twin": v.get("twin", False),
                                "san": v.get("san"), "detail": d, "family": v.get("family"), "keys": v.get("keys", [])})
            else:
                payload.update({"detail": d, "family": v.get("family")})
        else:
            payload.update({"detail": v["detail"]})
        for k2 in ("input", "expected", "observed"):
            if k2 in v:
                payload[k2] = v[k2]
        nrep += 1
        path = write_replay(prop, nrep, payload)
        suffix = "" if v.get("found_input") else " no-failing-input-found"
        reported.append("VIOLATION property=%s replay=%s%s" % (prop, path, suffix))

    # ---------------- evidence ----------------
    cov.update({
        "obligations": max(len(obligations), 1),
        "discharged": discharged if obligations else 0,
        "theorems": obligations,
        "assumptions_printed": {"closed_under_global_context": closed, "axioms": axioms},
        "checker_cmd": "coqc (full .vo build via coq_makefile: make Properties_%s.vo) against coq/Gen.v regenerated from %s" % (prop, REPO),
        "trusted_base": COMMON_TRUSTED + spec.get("trusted", []),
        "evaluations": evaluations,
        "distinct_nontrivial": len(distinct_calls) if distinct_calls else observed + twins,
        "observer_evaluations": observed,
        "twin_assertions": twins,
        "rule": "evaluations = API calls executed on the compiled library and on the extracted model; distinct_nontrivial = number of "
                "DISTINCT parse calls (distinct (blocks, error codes) / distinct strings, counted over all scripts of this run) on which the "
                "property's extracted observer or twin assertion was evaluated against the implementation; observer_evaluations and "
                "twin_assertions count the evaluations themselves (the same call in different states counts each time); scripts are generated "
                "per family from VERIF_SEED; for C18/C19/C20 families without scripts the family's own count is used",
        "traces_validated_against_impl": sum(f.get("scripts", 0) for f in families.values()),
        "model_impl_divergences": divs,
        "foreign_divergences": foreign,
        "families": families,
        "exhaustive": bool(cov.get("exhaustive", spec.get("exhaustive", False))),
        "notes": notes,
    })
    ev = {
        "property_id": prop, "tier": tier, "seed": seed, "level": "proof",
        "coverage": cov,
        "assumptions": spec.get("assumptions", []) + [
            "the theorem is about the Gallina model; it transfers to the implementation through the correspondence and observer runs listed under coverage.families (testing, not proof)"],
        "wall_s": round(time.time() - t0, 2),
        "violations": len(reported),
    }
    os.makedirs(EVDIR, exist_ok=True)
    with open(os.path.join(EVDIR, "%s.json" % prop), "w") as f:
        json.dump(ev, f, indent=1)
    for l in known_lines:
        print(l)
    for l in reported:
        print(l)
    if reported:
        return 1
    print("OK property=%s tier=%s obligations=%d/%d api_calls=%d observed=%d twins=%d wall=%.1fs" %
          (prop, tier, discharged, len(obligations), evaluations, observed, twins, time.time() - t0))
    return 0


def do_setup():
    """warm-up: regenerate, build everything once.  Never the place where a verdict is given: a
    target that does not build on the current tree is reported by the check it belongs to (as a
    violation, or — optional theorems and middle-layer bridges — as a note), so setup itself
    only fails when it cannot run at all."""
    t0 = time.time()
    try:
        with Lock("build"):
            ensure_gen()
            sync_coq()
            guard_genmid()
            ok, lg = coq_make(["all"], timeout=7000)
            if not ok:
                errs = re.findall(r'File "\./([^"]+)", line (\d+)', lg)
                print("setup: some Coq targets did not build on the current tree (%s); the checks decide what that means"
                      % ", ".join(sorted({f for f, _ in errs})[:12]))
            ensure_driver()
            for v in VARIANTS:
                ensure_harness(v)
            ensure_harness("hu", "asan")
    except BuildError as ex:
        print("setup: %s: %s" % (ex.stage, ex.detail[-2000:]))
        print("setup: the checks will report this for the properties it concerns")
    print("setup done in %.1fs" % (time.time() - t0))
    return 0


def main():
    ap = argparse.ArgumentParser()
    ap.add_argument("--setup", action="store_true")
    ap.add_argument("--property")
    ap.add_argument("--tier", default=os.environ.get("VERIF_TIER", "quick"))
    ap.add_argument("--replay")
    a = ap.parse_args()
    os.makedirs(OUTDIR, exist_ok=True)
    if a.setup:
        sys.exit(do_setup())
    if a.replay:
        sys.exit(do_replay(a.replay))
    if a.property:
        seed = int(os.environ.get("VERIF_SEED", "1"))
        tier = a.tier if a.tier in ("quick", "thorough") else "quick"
        sys.exit(check_property(a.property, tier, seed))
    ap.print_help()
    sys.exit(2)


if __name__ == "__main__":
    main()
