#!/usr/bin/env python3
"""coverage.py — development aid: which lines and branches of the library do the scripts of the
quick tier execute?  Builds the harness with gcov instrumentation in a scratch directory, runs the
families' scripts (all four build configurations), and prints line / branch coverage per source
file with the lines never executed.  /repo is not modified.

  coverage.py [--sample 1.0] [--out build/coverage.json]
"""
import argparse, json, os, re, shutil, subprocess, sys, tempfile
HERE = os.path.dirname(os.path.abspath(__file__))
VERIF = os.path.dirname(HERE)
sys.path.insert(0, HERE)
import mutate  # noqa: E402

REPO = mutate.REPO


def main():
    ap = argparse.ArgumentParser()
    ap.add_argument("--sample", type=float, default=1.0)
    ap.add_argument("--seed", type=int, default=1)
    ap.add_argument("--out", default=os.path.join(VERIF, "build", "coverage.json"))
    a = ap.parse_args()
    base = tempfile.mkdtemp(prefix="rds_cov_")
    try:
        scripts = mutate.capture_scripts(a.sample, a.seed)
        report = {}
        for variant, defs in (("hu", []), ("hn", ["-DRDSPARSER_DISABLE_UNICODE"])):
            d = os.path.join(base, variant)
            os.makedirs(d)
            sp = os.path.join(d, "scripts.txt")
            mutate.write_scripts(sp, scripts[variant])
            cs = sorted(os.path.join(REPO, "src", f) for f in os.listdir(os.path.join(REPO, "src")) if f.endswith(".c"))
            objs = []
            for c in cs:
                o = os.path.join(d, os.path.basename(c)[:-2] + ".o")
                subprocess.run(["gcc", "-O0", "-g", "--coverage", "-w"] + defs + ["-I", os.path.join(REPO, "include"), "-iquote",
                               os.path.join(REPO, "src"), "-c", c, "-o", o], check=True)
                objs.append(o)
            subprocess.run(["gcc", "-O0", "-w", "--coverage"] + defs + ["-I", os.path.join(REPO, "include"), "-iquote", os.path.join(REPO, "src"),
                            os.path.join(VERIF, "harness", "rds_harness.c")] + objs + ["-Wl,--wrap=malloc", "-o", os.path.join(d, "h")], check=True)
            subprocess.run([os.path.join(d, "h"), sp], stdout=subprocess.DEVNULL, stderr=subprocess.DEVNULL, cwd=d)
            for c in cs:
                name = os.path.basename(c)
                p = subprocess.run(["gcov", "-b", "-c", "-o", d, c], cwd=d, stdout=subprocess.PIPE, stderr=subprocess.PIPE)
                gc = os.path.join(d, name + ".gcov")
                if not os.path.exists(gc):
                    continue
                lines_total = lines_hit = br_total = br_hit = 0
                missed = []
                for l in open(gc, errors="replace"):
                    m = re.match(r"\s*([#=\-\d\*]+):\s*(\d+):(.*)", l)
                    if m:
                        cnt, ln, src = m.group(1), int(m.group(2)), m.group(3)
                        if cnt.strip("*") == "-":
                            continue
                        lines_total += 1
                        if cnt.startswith("#") or cnt.startswith("="):
                            missed.append((ln, src.strip()))
                        else:
                            lines_hit += 1
                    elif l.startswith("branch"):
                        br_total += 1
                        if "never executed" not in l and not re.search(r"taken 0(\D|$)", l):
                            br_hit += 1
                report.setdefault(name, {})[variant] = {"lines": [lines_hit, lines_total], "branches": [br_hit, br_total], "missed": missed}
        # a line / branch counts as covered when some configuration covers it
        print("%-14s %-16s %-16s" % ("file", "lines hu / hn", "branches hu / hn"))
        for name in sorted(report):
            r = report[name]
            print("%-14s %-16s %-16s" % (name, " / ".join("%d/%d" % tuple(r[v]["lines"]) for v in ("hu", "hn") if v in r),
                                           " / ".join("%d/%d" % tuple(r[v]["branches"]) for v in ("hu", "hn") if v in r)))
            for v in ("hu", "hn"):
                for ln, src in r.get(v, {}).get("missed", []):
                    print("      %s not executed: %s:%d  %s" % (v, name, ln, src[:90]))
        os.makedirs(os.path.dirname(a.out), exist_ok=True)
        json.dump(report, open(a.out, "w"), indent=1)
    finally:
        shutil.rmtree(base, ignore_errors=True)


if __name__ == "__main__":
    main()
